/-
Canonical text of the live object graph of an `Obj.OS` — the same text `verif.rs::graph_text` prints for
the Rust generator: the cells that reference counting keeps alive (greatest set in which every cell has a
root on the stack / in the memo or an edge from another member), ranked by age; per cell its kind code,
`A` (created by `Stack::push`) or `x`, its strong count and its children (dict: sorted `key>value` pairs,
set: sorted members); then the stack bottom first and the memo by key.  Driver code (not used in theorems).
-/
import PFV.Obj
namespace PFV
namespace Obj

def bumpAll (cnt : Array Nat) (ks : List Nat) : Array Nat :=
  ks.foldl (fun a k => a.modify k (· + 1)) cnt

/-- reference counts with every allocated cell considered alive -/
def rawCounts (s : OS) : Array Nat :=
  let c0 : Array Nat := Array.replicate s.cells.length 0
  let c1 := bumpAll c0 s.stack
  let c2 := bumpAll c1 (s.memo.map (·.2))
  s.cells.foldl (fun a x => bumpAll a x.kids) c2

/-- drop cells whose count is 0, releasing their children, until none is left -/
def sweep (cells : Array Cell) : Nat → List Nat → Array Nat → Array Bool → Array Nat × Array Bool
  | 0, _, cnt, dead => (cnt, dead)
  | _, [], cnt, dead => (cnt, dead)
  | fuel + 1, c :: work, cnt, dead =>
    if dead.getD c true then sweep cells fuel work cnt dead
    else
      let dead := dead.set! c true
      let ks := (cells.getD c default).kids
      let (cnt, work) := ks.foldl (fun (acc : Array Nat × List Nat) k =>
        let v := acc.1.getD k 0
        let a := acc.1.set! k (v - 1)
        if v = 1 then (a, k :: acc.2) else (a, acc.2)) (cnt, work)
      sweep cells fuel work cnt dead

def pairsOf : List Nat → List (Nat × Nat)
  | k :: v :: t => (k, v) :: pairsOf t
  | _ => []

def natLe (a b : Nat) : Bool := a ≤ b
def pairLe (a b : Nat × Nat) : Bool := a.1 < b.1 || (a.1 == b.1 && a.2 ≤ b.2)

/-- depth-first pre-order over the live cells with an explicit stack; `rank[c] = unset` until visited -/
def dfs (cells : Array Cell) (kidsOf : Cell → List Nat) (dead : Array Bool) :
    Nat → List Nat → Array Nat → Array Nat → Array Nat × Array Nat
  | 0, _, rank, order => (rank, order)
  | _, [], rank, order => (rank, order)
  | fuel + 1, c :: todo, rank, order =>
    if dead.getD c true || rank.getD c 0 != rank.size + 1 then dfs cells kidsOf dead fuel todo rank order
    else
      let rank := rank.set! c order.size
      let order := order.push c
      let ks := (kidsOf (cells.getD c default)).filter (fun k => rank.getD k 0 == rank.size + 1)
      dfs cells kidsOf dead fuel (ks ++ todo) rank order

def canon (s : OS) : String :=
  let cells := s.cells.toArray
  let n := cells.size
  let cnt0 := rawCounts s
  let zero := (List.range n).filter (fun c => cnt0.getD c 0 == 0)
  let edges := s.cells.foldl (fun a x => a + x.kids.length) 0
  let (cnt, dead) := sweep cells (2 * n + edges + 2) zero cnt0 (Array.replicate n false)
  -- canonical ranks: depth-first from the roots (memo by key, stack bottom first, then whatever else is alive, by age),
  -- children in their order; only the members of unordered containers are ordered by age
  let orderedKids (x : Cell) : List Nat :=
    match x.kind with
    | .dict => ((pairsOf x.kids).mergeSort pairLe).flatMap (fun p => [p.1, p.2])
    | .set | .frozenSet => x.kids.mergeSort natLe
    | _ => x.kids
  let roots : List Nat := ((s.memo.mergeSort (fun a b => a.1 ≤ b.1)).map (·.2)) ++ s.stack.reverse ++
    (List.range n).filter (fun c => !dead.getD c true)
  let unset := n + 1
  let (rank, order) := dfs cells orderedKids dead (4 * n + 2 * edges + roots.length + 8) roots (Array.replicate n unset) #[]
  let r (c : Nat) : Nat := rank.getD c 0
  let cellText (c : Nat) (x : Cell) : String :=
    let kids : List String :=
      match x.kind with
      | .dict => ((pairsOf x.kids).map (fun p => (r p.1, r p.2))).mergeSort pairLe |>.map (fun p => s!"{p.1}>{p.2}")
      | .set | .frozenSet => ((x.kids.map r).mergeSort natLe).map toString
      | _ => x.kids.map (fun k => toString (r k))
    String.singleton x.kind.code ++ (if x.arena then "A" else "x") ++ toString (cnt.getD c 0) ++ ":" ++ ",".intercalate kids
  let parts := order.toList.map (fun c => cellText c (cells.getD c default))
  ";".intercalate parts ++ "|" ++ ",".intercalate (s.stack.reverse.map (fun c => toString (r c))) ++ "|" ++
    ",".intercalate ((s.memo.mergeSort (fun a b => a.1 ≤ b.1)).map (fun p => s!"{p.1}={r p.2}"))

end Obj
end PFV
