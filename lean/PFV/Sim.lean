/-
L1 — the simulated pickle VM of the generator at the level of slot kinds.
Mirrors, function by function:
  src/generator/utils.rs       (has_mark, peek_at, is_*_at, is_*_at_mark, count_items_to_mark,
                                is_callable_above_mark)
  src/generator/validation.rs  (can_emit, get_valid_opcodes)
  src/generator/stack_ops.rs   (process_stack_ops, cleanup_for_stop)
Faithful rather than tidy: every "do nothing if the stack is too short" branch of the Rust
is here too. The stack is a `List Kind` with the TOP FIRST (Rust: top last).
-/
import PFV.Instr
namespace PFV

abbrev Memo := List (Nat × Kind)

def Memo.find? (m : Memo) (i : Nat) : Option Kind :=
  match m with
  | [] => none
  | (j, k) :: t => if j = i then some k else Memo.find? t i

def Memo.has (m : Memo) (i : Nat) : Bool := (Memo.find? m i).isSome

/-- `HashMap::insert`: replace the value of an existing key, otherwise add the key. -/
def Memo.insert (m : Memo) (i : Nat) (k : Kind) : Memo :=
  match m with
  | [] => [(i, k)]
  | (j, k') :: t => if j = i then (j, k) :: t else (j, k') :: Memo.insert t i k

def Memo.keys (m : Memo) : List Nat := m.map (·.1)

structure State where
  stack : List Kind := []
  memo : Memo := []
  protoEmitted : Bool := false
  deriving Repr, Inhabited, DecidableEq

/-- `Some((above, below))` when the topmost MARK splits the stack into the items above it
(top first) and the items below it. -/
def splitMark : List Kind → Option (List Kind × List Kind)
  | [] => none
  | k :: t =>
    if k = .mark then some ([], t)
    else match splitMark t with
      | some (a, b) => some (k :: a, b)
      | none => none

def hasMark (st : List Kind) : Bool := st.any (· == .mark)

/-- `count_items_to_mark` -/
def countToMark (st : List Kind) : Option Nat := (splitMark st).map (·.1.length)

/-- kind directly below the topmost MARK (`is_*_at_mark` look at it) -/
def belowMark (st : List Kind) : Option Kind :=
  match splitMark st with
  | some (_, b) => b.head?
  | none => none

/-- kind directly above the topmost MARK (`is_callable_above_mark`) -/
def aboveMark (st : List Kind) : Option Kind :=
  match splitMark st with
  | some (a, _) => a.getLast?
  | none => none

/-- `while let Some(item) = self.pop() { if item is Mark { break } }` -/
def popToMark (st : List Kind) : List Kind :=
  match splitMark st with
  | some (_, b) => b
  | none => []

def isCallableKind (k : Kind) : Bool := k == .callable || k == .glob

def kindAt (st : List Kind) (d : Nat) : Option Kind := st[d]?

def isAt (st : List Kind) (d : Nat) (k : Kind) : Bool := st[d]? == some k

def isCallableAt (st : List Kind) (d : Nat) : Bool :=
  match st[d]? with
  | some k => isCallableKind k
  | none => false

/-- `self.peek().is_some_and(|obj| !matches!(*obj.borrow(), StackObject::Mark))` -/
def topNonMark (st : List Kind) : Bool :=
  match st with
  | [] => false
  | k :: _ => k != .mark

/-- `can_emit` (`validation.rs`). -/
def canEmit (c : Cfg) (s : State) (op : Op) : Bool :=
  let st := s.stack
  match op with
  | .pop => st.length ≥ 1
  | .dup => topNonMark st
  | .append => st.length ≥ 2 && isAt st 1 .list
  | .appends => hasMark st && belowMark st == some .list &&
      (match countToMark st with | some n => n > 0 | none => false)
  | .setItem => st.length ≥ 3 && isAt st 2 .dict
  | .setItems => hasMark st && belowMark st == some .dict &&
      (match countToMark st with | some n => n > 0 && n % 2 == 0 | none => false)
  | .addItems => hasMark st && belowMark st == some .set &&
      (match countToMark st with | some n => n > 0 | none => false)
  | .tuple | .list | .frozenSet => hasMark st
  | .dict => hasMark st &&
      (match countToMark st with | some n => n > 0 && n % 2 == 0 | none => false)
  | .popMark => hasMark st
  | .tuple1 => st.length ≥ 1
  | .tuple2 => st.length ≥ 2
  | .tuple3 => st.length ≥ 3
  | .reduce => st.length ≥ 2 && isCallableAt st 1 && isAt st 0 .tuple
  | .newObj => st.length ≥ 2 && isCallableAt st 1 && isAt st 0 .tuple
  | .newObjEx => st.length ≥ 3 && isCallableAt st 2 && isAt st 1 .tuple && isAt st 0 .dict
  | .build => st.length ≥ 2 && isAt st 1 .obj && (isAt st 0 .tuple || isAt st 0 .dict)
  | .inst => hasMark st && (match countToMark st with | some n => n > 0 | none => false)
  | .obj => hasMark st && (match aboveMark st with | some k => isCallableKind k | none => false)
  | .get | .binGet | .longBinGet => !s.memo.isEmpty
  | .put | .longBinPut | .memoize => topNonMark st
  | .binPut => topNonMark st && s.memo.length < 256
  | .stackGlobal =>
    if c.unsafeMut then st.length ≥ 2
    else st.length ≥ 2 && isAt st 0 .string && isAt st 1 .string
  | .binPersID => st.length ≥ 1
  | .proto => !s.protoEmitted
  | .stop => false
  | .pnone | .newTrue | .newFalse | .int | .long | .long1 | .long4 | .binInt | .binInt1
  | .binInt2 | .float | .binFloat | .string | .binString | .shortBinString | .unicode
  | .shortBinUnicode | .binUnicode | .binUnicode8 | .shortBinBytes | .binBytes | .binBytes8
  | .byteArray8 | .emptyList | .emptyDict | .emptyTuple | .emptySet | .glob | .persID
  | .mark => true
  | .ext1 | .ext2 | .ext4 => c.allowExt
  | .nextBuffer => c.allowBuf
  | .readOnlyBuffer => c.allowBuf && topNonMark st
  | .frame => false

/-- `Dict` / `SetItems` loop: pop a value; stop if it is the MARK; otherwise also pop a key
(whatever it is — a MARK included). Structural on the list. -/
def dictPop : List Kind → List Kind
  | [] => []
  | v :: t =>
    if v = .mark then t
    else match t with
      | [] => []
      | _ :: t' => dictPop t'

def i64Fits (v : Int) : Bool := decide (-9223372036854775808 ≤ v) && decide (v < 9223372036854775808)

def memoIndexOf : Arg → Option Nat
  | .nat n => some n
  | _ => none

/-- `process_stack_ops` (`stack_ops.rs`) on kinds. `ver` is `state.version`. -/
def process (ver : Nat) (s : State) (op : Op) (arg : Arg) : State :=
  let st := s.stack
  let push (k : Kind) : State := { s with stack := k :: st }
  let hasArg : Bool := match arg with | .none => false | _ => true
  match op with
  | .pop => { s with stack := st.drop 1 }
  | .dup => match st with
    | [] => s
    | k :: _ => if k = .mark then s else push k
  | .mark => push .mark
  | .popMark => { s with stack := popToMark st }
  | .emptyList => push .list
  | .append => if st.length < 2 then s else { s with stack := st.drop 1 }
  | .appends => { s with stack := popToMark st }
  | .list => { s with stack := .list :: popToMark st }
  | .emptyTuple => push .tuple
  | .tuple => { s with stack := .tuple :: popToMark st }
  | .tuple1 => match st with
    | [] => s
    | _ :: t => { s with stack := .tuple :: t }
  | .tuple2 => if st.length ≥ 2 then { s with stack := .tuple :: st.drop 2 } else s
  | .tuple3 => if st.length ≥ 3 then { s with stack := .tuple :: st.drop 3 } else s
  | .emptyDict => push .dict
  | .dict => { s with stack := .dict :: dictPop st }
  | .setItem => if st.length < 3 then s else { s with stack := st.drop 2 }
  | .setItems => { s with stack := dictPop st }
  | .emptySet => push .set
  | .addItems => { s with stack := popToMark st }
  | .frozenSet => { s with stack := .frozenSet :: popToMark st }
  | .int =>
    let value : Int := match arg with
      | .int v => if i64Fits v then v else 0
      | .bool b => if b then 1 else 0
      | _ => 0
    if (ver = 0 || ver = 1) && (value = 0 || value = 1) then push .bool else push .int
  | .binInt | .binInt1 | .binInt2 | .long1 | .long4 => if hasArg then push .int else s
  | .long => push .int
  | .string | .shortBinUnicode | .unicode | .binUnicode | .binUnicode8 => push .string
  | .binString | .shortBinString | .binBytes | .shortBinBytes | .binBytes8 => push .bytes
  | .byteArray8 => push .byteArray
  | .pnone => push .pnone
  | .newTrue | .newFalse => push .bool
  | .float => push .float
  | .binFloat => if hasArg then push .float else s
  | .glob => if hasArg then push .callable else s
  | .stackGlobal => match st with
    | [] => s
    | [_] => { s with stack := [] }
    | a :: m :: t =>
      if a = .string && m = .string then { s with stack := .callable :: t }
      else { s with stack := t }
  | .reduce => if st.length < 2 then s else { s with stack := .obj :: st.drop 2 }
  | .build => if st.length < 2 then s else { s with stack := st.drop 1 }
  | .inst => if hasArg then { s with stack := .obj :: popToMark st } else s
  | .obj => match splitMark st with
    | some (a, b) => if a.isEmpty then { s with stack := b } else { s with stack := .obj :: b }
    | none => if st.isEmpty then s else { s with stack := [.obj] }
  | .newObj => if st.length ≥ 2 then { s with stack := .obj :: st.drop 2 } else { s with stack := [] }
  | .newObjEx => if st.length ≥ 3 then { s with stack := .obj :: st.drop 3 } else { s with stack := [] }
  | .persID => if hasArg then push .string else s
  | .binPersID => match st with
    | [] => s
    | _ :: t => { s with stack := .string :: t }
  | .get | .binGet | .longBinGet => match memoIndexOf arg with
    | some i => (match Memo.find? s.memo i with
      | some k => push k
      | none => s)
    | none => s
  | .put | .binPut | .longBinPut => match memoIndexOf arg with
    | some i => (match st with
      | [] => s
      | k :: _ => if k = .mark then s else { s with memo := Memo.insert s.memo i k })
    | none => s
  | .memoize => match st with
    | [] => s
    | k :: _ => { s with memo := Memo.insert s.memo s.memo.length k }
  | .ext1 | .ext2 | .ext4 => push .callable
  | .nextBuffer => push .bytes
  | .proto | .readOnlyBuffer | .stop | .frame => s

/-- `get_valid_opcodes` for a given per-protocol table. -/
def validOps (table : List Op) (c : Cfg) (s : State) : List Op := table.filter (canEmit c s)

/-- First loop of `cleanup_for_stop`: one `TUPLE` per remaining MARK. Fuel = an upper bound on
the number of MARKs (the stack length); `Proofs/Cleanup.lean` shows it suffices. -/
def cleanupMarks (ver : Nat) : Nat → State → State × List Op
  | 0, s => (s, [])
  | n + 1, s =>
    if hasMark s.stack then
      let (s', ops) := cleanupMarks ver n (process ver s .tuple .none)
      (s', .tuple :: ops)
    else (s, [])

/-- the opcode one iteration of the collapse loop emits -/
def collapseOp (ver : Nat) (len : Nat) : Op :=
  if ver < 2 then .pop else if len ≥ 3 then .tuple3 else .tuple2

/-- Second loop: collapse to one element. `TUPLE3`/`TUPLE2` from protocol 2 on, `POP` below
(protocol 0/1 have no mark-less tuple opcode). Fuel = the stack length. -/
def cleanupCollapse (ver : Nat) : Nat → State → State × List Op
  | 0, s => (s, [])
  | n + 1, s =>
    if s.stack.length > 1 then
      let op := collapseOp ver s.stack.length
      let (s', ops) := cleanupCollapse ver n (process ver s op .none)
      (s', op :: ops)
    else (s, [])

/-- the rest of `cleanup_for_stop`: `NONE` on an empty stack, and the "final check" that pops a
MARK left on top (unreachable, kept because the Rust has it) -/
def cleanupFinal (ver : Nat) (s2 : State) : State × List Op :=
  let (s3, a3) := if s2.stack.length = 0 then (process ver s2 .pnone .none, [Op.pnone]) else (s2, [])
  match s3.stack with
  | k :: t =>
    if k = .mark then
      let s4 := { s3 with stack := t }
      if t.length = 0 then (process ver s4 .pnone .none, a3 ++ [.pnone]) else (s4, a3)
    else (s3, a3)
  | [] => (s3, a3)

/-- `cleanup_for_stop`: returns the final state and the opcodes it emitted, in order. -/
def cleanup (ver : Nat) (s : State) : State × List Op :=
  let r1 := cleanupMarks ver s.stack.length s
  let r2 := cleanupCollapse ver r1.1.stack.length r1.1
  let r3 := cleanupFinal ver r2.1
  (r3.1, r1.2 ++ r2.2 ++ r3.2)

end PFV
