/-
Line-protocol driver: reads request lines written by /verif/harness (which ran the real
implementation), recomputes every observation from the model / specification, and prints one
verdict line per request.  Import-free model ⇒ links as a native executable.
-/
import PFV.Generated
import PFV.Sim
import PFV.SimBytes
import PFV.Lex
import PFV.Ref
import PFV.Spec
import PFV.Gen
import PFV.Rand
import PFV.Compat
import PFV.ObjCanon
namespace PFV
namespace Driver

def hexVal? (c : Char) : Option Nat :=
  if '0' ≤ c ∧ c ≤ '9' then some (c.toNat - 48)
  else if 'a' ≤ c ∧ c ≤ 'f' then some (c.toNat - 87)
  else if 'A' ≤ c ∧ c ≤ 'F' then some (c.toNat - 55)
  else none

def unhexList : List Char → List UInt8 → List UInt8
  | a :: b :: r, acc =>
    match hexVal? a, hexVal? b with
    | some x, some y => unhexList r (UInt8.ofNat (16 * x + y) :: acc)
    | _, _ => acc.reverse
  | _, acc => acc.reverse

def unhex (s : String) : List UInt8 := if s = "-" || s = "e" then [] else unhexList s.toList []

def hexDigit (n : Nat) : Char := if n < 10 then Char.ofNat (48 + n) else Char.ofNat (87 + n)
def hex2 (b : UInt8) : String := String.ofList [hexDigit (b.toNat / 16), hexDigit (b.toNat % 16)]
def hexOf (bs : List UInt8) : String := String.join (bs.map hex2)
def hex16 (v : UInt64) : String :=
  String.ofList ((List.range 16).map (fun i => hexDigit ((v.toNat >>> (4 * (15 - i))) % 16)))

def fnv (bs : List UInt8) : UInt64 :=
  bs.foldl (fun h b => (h ^^^ b.toUInt64) * 0x100000001b3) 0xcbf29ce484222325

def le8 (n : Nat) : List UInt8 := (List.range 8).map (fun i => UInt8.ofNat ((n >>> (8 * i)) % 256))

def stackStr (st : List Kind) : String := String.ofList (st.reverse.map Kind.code)
def stackDigest (st : List Kind) : String :=
  s!"{st.length}:{hex16 (fnv (st.reverse.map (fun k => UInt8.ofNat k.code.toNat)))}"

def sortedMemo (m : Memo) : List (Nat × Kind) := m.mergeSort (fun a b => a.1 ≤ b.1)
def memoDigest (m : Memo) : String :=
  let bs := (sortedMemo m).flatMap (fun (k, c) => le8 k ++ [UInt8.ofNat c.code.toNat])
  s!"{m.length}:{hex16 (fnv bs)}"
def memoFull (m : Memo) : String :=
  if m.isEmpty then "-" else ",".intercalate ((sortedMemo m).map (fun (k, c) => s!"{k}={c.code}"))

/-- key=value tokens of a request line -/
def kv (toks : List String) (k : String) : Option String :=
  toks.findSome? (fun t => if t.startsWith (k ++ "=") then some ((t.drop (k.length + 1)).toString) else none)

def kvD (toks : List String) (k d : String) : String := (kv toks k).getD d
def kvNat (toks : List String) (k : String) : Nat := ((kv toks k).bind String.toNat?).getD 0
def kvBool (toks : List String) (k : String) : Bool := kv toks k == some "1"

def cfgOf (toks : List String) : Cfg :=
  { version := kvNat toks "P", minOps := kvNat toks "min", maxOps := kvNat toks "max",
    unsafeMut := kvBool toks "unsafe", allowExt := kvBool toks "ext", allowBuf := kvBool toks "buf" }

def san (s : String) : String := String.ofList (s.toList.map (fun c => if c = ' ' then '_' else c))

/-- reference machine over the whole list, tail-recursive, remembering where things happen -/
structure RunRes where
  stackErr : Option (Nat × Ref.StackErr) := none
  memoV : List (Nat × Ref.Viol) := []
  typedV : List (Nat × Ref.Viol) := []
  n : Nat := 0

def runIdx (is : List Instr) : RunRes :=
  let rec go (r : Ref.RState) (idx : Nat) (l : List Instr) (acc : RunRes) : RunRes :=
    match l with
    | [] => { acc with n := idx }
    | i :: rest =>
      match Ref.step r i with
      | .error e => { acc with stackErr := some (idx, e), n := idx }
      | .ok (r', vs) =>
        let acc := vs.foldl (fun a v =>
          if v.isMemo then { a with memoV := (idx, v) :: a.memoV }
          else { a with typedV := (idx, v) :: a.typedV }) acc
        go r' (idx + 1) rest acc
  go {} 0 is {}

/-- the instructions that decode before the first byte that does not (or the STOP) -/
def lexPrefix : Nat → List UInt8 → List Instr
  | 0, _ => []
  | n + 1, bs =>
    match Lex.lexOne bs with
    | .error _ => []
    | .ok (i, r) => if i.op = .stop then [i] else i :: lexPrefix n r

def verdict (ok : Bool) (detail : String) : String := if ok then "ok" else "FAIL:" ++ san detail

def oracleLine (toks : List String) : String :=
  let id := kvD toks "id" "?"
  let c := cfgOf toks
  let res := kvD toks "result" "?"
  if !res.startsWith "ok:" then s!"oracle id={id} gen={san res}"
  else
    let out := unhex (res.drop 3).toString
    match Lex.lex out with
    | .error e =>
      -- the disassembler works through the stream in order: whatever it meets in the decodable prefix before the
      -- byte it cannot decode is judged as usual (a stream that stops decoding has no final STOP to judge)
      let pre := lexPrefix (out.length + 1) out
      let rr := runIdx pre
      let at_ (i : Nat) : String := (pre[i]?.map (fun (x : Instr) => x.op.name)).getD "?"
      let c01 := match rr.stackErr with
        | none => "ok"
        | some (i, e') => "FAIL:" ++ san s!"instr#{i}:{at_ i}:{reprStr e'}:in_the_decodable_prefix_of_a_stream_that_stops_decoding"
      let fmtV (l : List (Nat × Ref.Viol)) : String := match l.reverse with
        | [] => "ok"
        | (i, v) :: _ => "FAIL:" ++ san s!"instr#{i}:{at_ i}:{reprStr v}:total={l.length}:in_the_decodable_prefix"
      -- bytes after STOP: the stream up to STOP is complete, so FRAME can be judged against the whole output
      let c06 := if e == Lex.Err.trailing then verdict (Spec.frameOk c.version out pre) "frame_length_does_not_span_the_rest_of_the_output" else "ok"
      s!"oracle id={id} gen=ok len={out.length} n={pre.length} C04=FAIL:lex:{san (reprStr e)} C01={c01} C02={fmtV rr.memoV} C03={fmtV rr.typedV} C06={c06}"
    | .ok is =>
      let rr := runIdx is
      let hist := Op.all.filterMap (fun o =>
        let n := (is.filter (fun i => i.op == o)).length
        if n > 0 then some s!"{o.name}:{n}" else none)
      let c01 := match rr.stackErr with
        | none => "ok"
        | some (i, e) => "FAIL:" ++ san s!"instr#{i}:{(is[i]?.map (fun (x : Instr) => x.op.name)).getD "?"}:{reprStr e}"
      let fmtV (l : List (Nat × Ref.Viol)) : String := match l.reverse with
        | [] => "ok"
        | (i, v) :: _ => "FAIL:" ++ san s!"instr#{i}:{(is[i]?.map (fun (x : Instr) => x.op.name)).getD "?"}:{reprStr v}:total={l.length}"
      let c05 :=
        if !Spec.opsInProto c.version is then
          let bad := is.filter (fun i => Lex.introduced i.op > c.version)
          "FAIL:" ++ san s!"opcode_of_later_protocol:{(bad.head?.map (fun (x : Instr) => x.op.name)).getD "?"}:count={bad.length}"
        else if !Spec.headerOk c.version is then "FAIL:header"
        else if !Spec.asciiOk c.version out then "FAIL:non-ascii_byte_in_protocol_0"
        else "ok"
      let c04 := match is.find? (fun i => !Lex.domainOk i) with
        | none => "ok"
        | some i => "FAIL:" ++ san s!"domain:{i.op.name}:{reprStr i.arg}:count={(is.filter (fun i => !Lex.domainOk i)).length}"
      let c06 := verdict (Spec.frameOk c.version out is) "frame"
      let c10 := verdict (Spec.optinOk c.allowExt c.allowBuf is) "opt-in_opcode_present"
      let c11 := verdict (Spec.countOk c.minOps c.maxOps is) s!"count={is.length}"
      let framed := is.any (fun i => i.op == .frame)
      let memoOps := (is.filter (fun i => i.op == .put || i.op == .binPut || i.op == .longBinPut || i.op == .memoize)).length
      s!"oracle id={id} gen=ok len={out.length} n={is.length} framed={if framed then 1 else 0} memo={memoOps} C04={c04} C01={c01} C02={fmtV rr.memoV} C03={fmtV rr.typedV} C05={c05} C06={c06} C10={c10} C11={c11} ops={",".intercalate hist}"

/-! ### S1 probe -/

def stackOfCodes (s : String) : List Kind :=
  if s = "-" then [] else (s.toList.filterMap Kind.ofCode?).reverse

def memoOfSize (n : Nat) : Memo :=
  (List.range n).map (fun i => (i, Kind.all[i % 18]!))

def probeLine (toks : List String) : String :=
  let c : Cfg := { version := 2, unsafeMut := kvBool toks "unsafe", allowExt := kvBool toks "ext",
                   allowBuf := kvBool toks "buf" }
  let st := stackOfCodes (kvD toks "stack" "-")
  let memo := memoOfSize (kvNat toks "memo")
  let s : State := { stack := st, memo := memo, protoEmitted := kvBool toks "pe" }
  let can := String.ofList (Op.all.map (fun o => if canEmit c s o then '1' else '0'))
  let errs : List String := []
  let errs := if can == kvD toks "can" "" then errs else
    let impl := (kvD toks "can" "").toList
    let diff := (Op.all.zip (can.toList.zip impl)).filterMap (fun (o, (m, i)) =>
      if m != i then some s!"{o.name}:model={m}:impl={i}" else none)
    errs ++ ["can_emit:" ++ ",".intercalate diff]
  let errs := match kv toks "valid" with
    | none => errs
    | some v =>
      let parts := v.splitOn ","
      (List.range 6).foldl (fun errs p =>
        let model := hexOf ((validOps (Gen.table p) { c with version := p } s).map Gen.asU8)
        let impl := (parts[p]?).getD "?"
        let impl := if impl = "-" then "" else impl
        if model == impl then errs else errs ++ [s!"valid_opcodes:P={p}:model={model}:impl={impl}"]) errs
  let errs := match kv toks "apply" with
    | none => errs
    | some a =>
      (a.splitOn ";").foldl (fun errs part =>
        match part.splitOn ":" with
        | [p, opHex, argHex, stk, mlen, mfnv] =>
          match (unhex opHex).head?.bind Lex.ofCode? with
          | none => errs ++ ["apply:unknown_op:" ++ opHex]
          | some op =>
            let ver := p.toNat?.getD 2
            let arg := argOfBytes op (if argHex = "-" then none else some (unhex argHex))
            let s' := process ver s op arg
            let ms := stackStr s'.stack
            let ms := if ms.isEmpty then "-" else ms
            if ms == stk && memoDigest s'.memo == mlen ++ ":" ++ mfnv then errs
            else errs ++ [s!"apply:P={p}:{op.name}:arg={argHex}:model={ms}/{memoDigest s'.memo}:impl={stk}/{mlen}:{mfnv}"]
        | _ => errs ++ ["apply:bad_part:" ++ part]) errs
  let errs := [0, 1, 2, 4].foldl (fun errs p =>
    match kv toks s!"cleanup{p}" with
    | none => errs
    | some v =>
      let (s', ops) := cleanup p s
      let mo := hexOf (ops.map Gen.asU8)
      let mo := if mo.isEmpty then "-" else mo
      let ms := stackStr s'.stack
      let ms := if ms.isEmpty then "-" else ms
      if v == mo ++ ":" ++ ms then errs else errs ++ [s!"cleanup:P={p}:model={mo}:{ms}:impl={v}"]) errs
  if errs.isEmpty then "probe ok" else
    s!"probe MISMATCH unsafe={kvD toks "unsafe" "?"} ext={kvD toks "ext" "?"} buf={kvD toks "buf" "?"} pe={kvD toks "pe" "?"} stack={kvD toks "stack" "?"} memo={kvD toks "memo" "?"} :: {" | ".intercalate (errs.map san)}"

/-! ### S2 trace -/

structure Snap where
  stackDig : String
  memoDig : String
  outLen : Nat
  pe : Bool
  full : Option (List Kind) := none     -- the implementation's stack kinds (top first) when short enough
  keysDig : String := ""

def parseSnap (parts : List String) : Option Snap :=
  match parts with
  | [a, b, c, d] => some { stackDig := a, memoDig := b, outLen := c.toNat?.getD 0, pe := d == "1" }
  | [a, b, c, d, f, k] =>
    some { stackDig := a, memoDig := b, outLen := c.toNat?.getD 0, pe := d == "1",
           full := if f == "-" then none else some (stackOfCodes (if f == "." then "-" else f)), keysDig := k }
  | _ => none

/-- C17 evaluated directly between the implementation's simulated state and the reference
machine (independent of the model): equal depth, MARKs in the same slots, compatible kinds,
same memo index set -/
def relOk (impl : List Kind) (ref : List Ref.RKind) : Bool :=
  impl.length == ref.length && (impl.zip ref).all (fun (k, r) => compat k r)

def refKeysDigest (m : Ref.RMemo) : String :=
  hex16 (fnv (((m.map (·.1)).mergeSort (fun a b => a ≤ b)).flatMap le8))

def snapMatches (s : State) (sn : Snap) : Bool :=
  stackDigest s.stack == sn.stackDig && memoDigest s.memo == sn.memoDig && s.protoEmitted == sn.pe

def isPutOp (o : Op) : Bool := o == .put || o == .binPut || o == .longBinPut
def isGetOp (o : Op) : Bool := o == .get || o == .binGet || o == .longBinGet

/-- the argument the emitter may hand to `op` in state `s` (safe mode): the hypothesis
`ArgOK` of the simulation theorem, evaluated on real traces -/
def argOk (s : State) (op : Op) (a : Arg) : Bool :=
  if isGetOp op then (match a with | .nat i => Memo.has s.memo i | _ => false)
  else if isPutOp op then (match a with | .nat i => i == s.memo.length | _ => false)
  else true

def dropTake (l : List UInt8) (a b : Nat) : List UInt8 := (l.drop a).take (b - a)

/-- S10: the object-level model (`Obj.lean`) against the live object graph the implementation reported
before every opcode and at the end (`graph=` digests, `graphfinal=` text) -/
def objCheck (ver : Nat) (body : List UInt8) (digs : List String) (final : String) : Option String :=
  match Lex.lex body with
  | .error e => some s!"obj: the traced bytes do not lex: {reprStr e}"
  | .ok is =>
    if digs.length != is.length + 1 then some s!"obj: {digs.length} graph records for {is.length} opcodes"
    else
      let dig (s : Obj.OS) : String := hex16 (fnv (Obj.canon s).toUTF8.toList)
      let rec go (s : Obj.OS) (idx : Nat) (prevOp : String) (is : List Instr) (ds : List String) : Option String :=
        match ds with
        | [] => none
        | d :: ds' =>
          if dig s != d then
            some s!"obj: after opcode #{idx} ({prevOp}) the live object graph differs: model={((Obj.canon s).take 600).toString} impl-digest={d}"
          else match is with
            | [] => if Obj.canon s != final then some s!"obj: final graph text differs: model={((Obj.canon s).take 600).toString} impl={(final.take 600).toString}" else none
            | i :: is' => go (Obj.process ver s i.op i.arg) (idx + 1) i.op.name is' ds'
      go {} 0 "start" is digs

def traceLine (toks : List String) : String :=
  let id := kvD toks "id" "?"
  let c := cfgOf toks
  let res := kvD toks "result" "?"
  if !res.startsWith "ok:" then s!"trace id={id} gen={san res}"
  else if kvNat toks "rewritten" > 0 then s!"trace id={id} skipped=rewritten"
  else
    let out := unhex (res.drop 3).toString
    let fail (w : String) : String := s!"trace id={id} FAIL {san w}"
    match (kvD toks "target" "-").splitOn "@", (kvD toks "bodyend" "-").splitOn "@" with
    | [tS, tSnap], [beS, _] =>
      let target := tS.toNat?.getD 0
      let bodyEnd := beS.toNat?.getD 0
      match parseSnap (tSnap.splitOn "/") with
      | none => fail "bad target snapshot"
      | some ts =>
        let s0 : State := { protoEmitted := c.version ≥ 2 }
        let framed := c.version ≥ 4 && (out.drop 2).head? == some 0x95
        let hdr := (if c.version ≥ 2 then 2 else 0) + (if framed then 9 else 0)
        if !snapMatches s0 ts then fail "initial state differs"
        else if ts.outLen != hdr then fail s!"header length {ts.outLen} expected {hdr}"
        else
          let stepsS := kvD toks "steps" "-"
          let steps := if stepsS = "-" then [] else stepsS.splitOn ";"
          -- bounds on T (C11)
          let tOk := c.minOps ≤ target && (if c.maxOps > c.minOps then target < c.maxOps else target == c.minOps)
          if !tOk then fail s!"target {target} outside [{c.minOps},{c.maxOps})"
          else if bodyEnd != target then fail s!"body emitted {bodyEnd} opcodes for target {target}"
          else
            let vl : List String := (kvD toks "valid" "-").splitOn ","
            let rec go (s : State) (rr : Ref.RState) (prev : Nat) (idx : Nat) (l : List String) (tail : List Op)
                (sBody : State) (rem : List UInt8) : Except String (State × Nat × List Op × State) :=
              match l with
              | [] => .ok (s, prev, tail, sBody)
              | stp :: rest =>
                match stp.splitOn "/" with
                | [opHex, _argHex, a, b, cc, d, f, k] =>
                  match parseSnap [a, b, cc, d, f, k] with
                  | none => .error s!"step {idx}: bad snapshot"
                  | some sn =>
                    let direct : Option String :=
                      if c.unsafeMut then none else
                      match sn.full with
                      | some st =>
                        if !relOk st rr.stack then
                          some s!"C17-direct step {idx}: before opcode {opHex} the implementation's simulated stack [{stackStr st}] (bottom first) is not compatible with the reference stack [{" ".intercalate (rr.stack.reverse.map Ref.RKind.code)}]"
                        else if sn.keysDig != refKeysDigest rr.memo then
                          some s!"C17-direct step {idx}: memo index sets differ (reference has {rr.memo.length} keys)"
                        else none
                      | none => none
                    if let some w := direct then .error w
                    else if !snapMatches s sn then
                      .error s!"step {idx}: state before {opHex} differs: model stack={stackDigest s.stack} memo={memoDigest s.memo} top={stackStr (s.stack.take 6)} impl stack={sn.stackDig} memo={sn.memoDig}"
                    else
                      let delta := rem.take (sn.outLen - prev)
                      let rem' := rem.drop (sn.outLen - prev)
                      match Lex.lexOne delta with
                      | .error e => .error s!"step {idx}: emitted bytes {hexOf (delta.take 40)} do not lex: {reprStr e}"
                      | .ok (ins, r) =>
                        if !r.isEmpty then .error s!"step {idx}: emitted bytes {hexOf (delta.take 40)} are more than one instruction"
                        else if hex2 (Gen.asU8 ins.op) != opHex then .error s!"step {idx}: traced opcode {opHex} but bytes are {ins.op.name}"
                        else
                          let sBody := if idx == bodyEnd then s else sBody
                          let rr' := match Ref.step rr ins with
                            | .ok (r', _) => r'
                            | .error _ => rr
                          if idx < bodyEnd then
                            let listed := (((vl[idx]?).getD "-").splitOn "@").headD "-"
                            let mlist := if listed == "~" then "" else hexOf ((validOps (Gen.table c.version) c s).map Gen.asU8)
                            if listed == "~" then
                              (if !(Gen.table c.version).contains ins.op then .error s!"step {idx}: {ins.op.name} not in the protocol table"
                               else if !canEmit c s ins.op then .error s!"step {idx}: {ins.op.name} emitted but the model's guard is false; top={stackStr (s.stack.take 6)}"
                               else if !c.unsafeMut && !argOk s ins.op ins.arg then .error s!"step {idx}: {ins.op.name} argument {reprStr ins.arg} not admissible (memo size {s.memo.length})"
                               else go (process c.version s ins.op ins.arg) rr' sn.outLen (idx + 1) rest tail sBody rem')
                            else if listed == "-" && (kv toks "valid").isSome then
                              .error s!"step {idx}: the body loop did not report the candidate list it drew from (the draw no longer goes through weighted_choice?)"
                            else if listed != "-" && listed != (if mlist.isEmpty then "e" else mlist) then
                              .error s!"step {idx}: the candidate list the body loop drew from differs from the guards: loop={listed} guards={mlist} top={stackStr (s.stack.take 6)} memo={s.memo.length}"
                            else
                            if !(Gen.table c.version).contains ins.op then .error s!"step {idx}: {ins.op.name} not in the protocol table"
                            else if !canEmit c s ins.op then .error s!"step {idx}: {ins.op.name} emitted but the model's guard is false; top={stackStr (s.stack.take 6)}"
                            else if !c.unsafeMut && !argOk s ins.op ins.arg then .error s!"step {idx}: {ins.op.name} argument {reprStr ins.arg} not admissible (memo size {s.memo.length})"
                            else go (process c.version s ins.op ins.arg) rr' sn.outLen (idx + 1) rest tail sBody rem'
                          else go (process c.version s ins.op ins.arg) rr' sn.outLen (idx + 1) rest (tail ++ [ins.op]) sBody rem'
                | _ => .error s!"step {idx}: malformed"
            match go s0 {} hdr 0 steps [] s0 (out.drop hdr) with
            | .error e => fail e
            | .ok (sf, prev, tail, sBody) =>
              let sBody := if steps.length == bodyEnd then sf else sBody
              let (_, cops) := cleanup c.version sBody
              if tail != cops ++ [Op.stop] then
                fail s!"tail differs: model={",".intercalate (((cops ++ [Op.stop]).map Op.name).take 12)} impl={",".intercalate ((tail.map Op.name).take 12)} (lengths {cops.length + 1}/{tail.length})"
              else if prev != out.length then fail s!"{out.length - prev} bytes after the last traced opcode"
              else if tail.length > 2 * target + 2 then fail s!"tail {tail.length} > 2T+2"
              else
                match (kvD toks "final" "-").splitOn "/" with
                | [a, b, _, d, _, _, stk0, mem] =>
                  let stk := if stk0 == "." then "-" else stk0
                  if stackDigest sf.stack != a || memoDigest sf.memo != b || (d == "1") != sf.protoEmitted then fail "final state digest differs"
                  else if (if stackStr sf.stack == "" then "-" else stackStr sf.stack) != (if stk == "" then "-" else stk) then fail s!"final stack: model={stackStr sf.stack} impl={stk}"
                  else if memoFull sf.memo != mem then fail "final memo differs"
                  else
                    let objRes : Option String := match kv toks "graph" with
                      | some gs => objCheck c.version (out.drop hdr) (if gs == "-" then [] else gs.splitOn ",") (kvD toks "graphfinal" "-")
                      | none => none
                    match objRes with
                    | some w => fail w
                    | none => s!"trace id={id} ok steps={steps.length} body={bodyEnd} tail={tail.length} memo={sf.memo.length} mutated={kvNat toks "mutated"} obj={if (kv toks "graph").isSome then "ok" else "-"}"
                | _ => fail "bad final record"
    | _, _ => fail "missing target/bodyend (generation aborted?)"

/-! ### S11 opcode sequences through live objects -/

def parseStep (t : String) : Option (Op × Arg) :=
  match t.splitOn ":" with
  | opHex :: argHex :: _ =>
    match (unhex opHex).head?.bind Lex.ofCode? with
    | some op => some (op, argOfBytes op (if argHex = "-" then none else some (unhex argHex)))
    | none => none
  | _ => none

def seqLine (toks : List String) : String :=
  let p := kvNat toks "P"
  let c : Cfg := { version := p, allowExt := true, allowBuf := true }
  let preS := kvD toks "prefix" "-"
  let pre := if preS = "-" then [] else preS.splitOn ","
  let fail (w : String) : String := s!"seq MISMATCH P={p} prefix={preS} :: {san w}"
  match pre.mapM parseStep with
  | none => fail "bad prefix"
  | some steps =>
    let (s, o) := steps.foldl (fun (acc : State × Obj.OS) (st : Op × Arg) =>
      (process p acc.1 st.1 st.2, Obj.process p acc.2 st.1 st.2)) (({ protoEmitted := p ≥ 2 } : State), ({} : Obj.OS))
    if Obj.projStack o != s.stack || Obj.projMemo o != s.memo then fail "object model and kind model disagree after the prefix"
    else
      let mv := hexOf ((validOps (Gen.table p) c s).map Gen.asU8)
      let iv := kvD toks "valid" "-"
      if mv != (if iv = "-" then "" else iv) then fail s!"valid_opcodes: model={mv} impl={iv}"
      else
        let chS := kvD toks "children" "-"
        let ch := if chS = "-" then [] else chS.splitOn ";"
        let errs := ch.foldl (fun (errs : List String) (t : String) =>
          if errs.length ≥ 3 then errs else
          match parseStep t, (t.splitOn ":")[2]? with
          | some (op, a), some d =>
            let o' := Obj.process p o op a
            let md := hex16 (fnv (Obj.canon o').toUTF8.toList)
            if md == d then errs
            else errs ++ [s!"{op.name}: live object graph after it: impl-digest={d} model={((Obj.canon o').take 300).toString}"]
          | _, _ => errs ++ ["bad child " ++ t]) []
        if errs.isEmpty then s!"seq ok children={ch.length}" else fail (" | ".intercalate errs)

/-! ### S3 gen-exact, S4 mutators, S5 entropy adapters -/

def parseMods (content : String) : List (List UInt8 × List UInt8) :=
  let lines := (content.splitOn "\n").map (fun l => if l.endsWith "\r" then String.ofList l.toList.dropLast else l)
  let lines := match lines.getLast? with
    | some "" => lines.dropLast
    | _ => lines
  lines.map (fun l =>
    match l.splitOn "." with
    | [] => ("builtins".toUTF8.toList, "object".toUTF8.toList)
    | [m] => (m.toUTF8.toList, "object".toUTF8.toList)
    | m :: rest => (m.toUTF8.toList, (".".intercalate rest).toUTF8.toList))

def nanText : List UInt8 := "NaN".toUTF8.toList
def fmtOf (table : List (UInt64 × List UInt8)) (b : UInt64) : List UInt8 :=
  if G.f64IsNaN b then nanText
  else if b == 0x7FF0000000000000 then "inf".toUTF8.toList
  else if b == 0xFFF0000000000000 then "-inf".toUTF8.toList
  else match table.find? (fun p => p.1 == b) with
    | some p => p.2
    | none => "?unknown-float?".toUTF8.toList

def hexToUInt64 (s : String) : UInt64 :=
  UInt64.ofNat (s.toList.foldl (fun acc c => acc * 16 + (hexVal? c).getD 0) 0)

def mutOfName (n : String) (u : Bool) : Option Mut :=
  match n with
  | "bitflip" => some .bitflip | "boundary" => some .boundary | "offbyone" => some .offbyone
  | "stringlen" => some .stringlen | "character" => some .character
  | "memoindex" => some (.memoindex u) | "typeconfusion" => some (.typeconfusion u)
  | _ => none

def fullCfg (toks : List String) : Cfg :=
  let c := cfgOf toks
  let mu := match kv toks "mu" with
    | some v => v == "1"
    | none => c.unsafeMut
  let ms : List Mut := match kv toks "muts" with
    | some v => if v == "-" then [] else (v.splitOn ",").filterMap (fun n => mutOfName n mu)
    | none => G.mutsOfMask (kvNat toks "mask") mu
  { c with mutators := ms,
           -- `raw=1`: the harness wrote the configuration into the public fields, bypassing the builder's clamp
           rateBits := if kvBool toks "raw" then hexToUInt64 (kvD toks "rate" "3fb999999999999a")
                       else G.clampRate (hexToUInt64 (kvD toks "rate" "3fb999999999999a")) }

def firstDiff : List UInt8 → List UInt8 → Nat → Option Nat
  | [], [], _ => none
  | a :: as, b :: bs, i => if a == b then firstDiff as bs (i + 1) else some i
  | _, _, i => some i

def genWith {σ : Type} (E : Entropy σ) (st : σ) (leftOf : σ → String)
    (mods : List (List UInt8 × List UInt8)) (toks : List String) : String :=
  let id := kvD toks "id" "?"
  let c := fullCfg toks
  let ftab := ((kvD toks "floats" "-").splitOn ",").filterMap (fun e =>
    match e.splitOn ":" with
    | [b, t] => some (hexToUInt64 b, unhex t)
    | _ => none)
  let X : G.Ext := { mods := mods, fmt := fmtOf ftab }
  let res := kvD toks "result" "?"
  match G.generate E X c st with
  | .error e =>
    if res.startsWith "ok:" then s!"gen id={id} FAIL model_panics:{san (reprStr e)}:impl_ok"
    else s!"gen id={id} ok both_fail model={san (reprStr e)} impl={san res}"
  | .ok (r, rest) =>
    if !res.startsWith "ok:" then s!"gen id={id} FAIL model_ok_len={r.bytes.length}:impl={san res}"
    else
      let out := unhex (res.drop 3).toString
      match firstDiff r.bytes out 0 with
      | none =>
        let tOk := c.minOps ≤ r.target && (if c.maxOps > c.minOps then r.target < c.maxOps else r.target == c.minOps)
        let fOk := ftab.all (fun e => Spec.floatOk e.2)
        s!"gen id={id} ok len={out.length} target={r.target} body={r.bodyLen} n={r.instrs.length} framed={if r.framed then 1 else 0} left={leftOf rest} tbounds={if tOk then 1 else 0} floats={ftab.length} floatok={if fOk then 1 else 0} wf={if Spec.wellFormed r.bytes then 1 else 0}"
      | some i =>
        s!"gen id={id} FAIL first_diff_at={i}:model_len={r.bytes.length}:impl_len={out.length}:model={hexOf ((r.bytes.drop (i - min i 4)).take 16)}:impl={hexOf ((out.drop (i - min i 4)).take 16)}"

/-- S3: the exact generator under the exact port of the case's entropy source — `arb:<hex>` the
`Unstructured` port, `rand:<seed>` the ChaCha8 port -/
def genLine (mods : List (List UInt8 × List UInt8)) (toks : List String) : String :=
  let id := kvD toks "id" "?"
  let mode := kvD toks "mode" "?"
  if mode.startsWith "arb:" then
    genWith Arb.E (unhex (mode.drop 4).toString) (fun rest => toString rest.length) mods toks
  else if mode.startsWith "rand:" then
    genWith Rand.E (Rand.seed ((mode.drop 5).toString.toNat?.getD 0)) (fun _ => "-") mods toks
  else s!"gen id={id} skipped=unknown-mode"

def entOf (s : String) : Option (List UInt8) :=
  if s.startsWith "arb:" then some (unhex (s.drop 4).toString) else none

/-- one draw of the entropy interface under a given source, rendered like the harness renders it -/
def srcModel {σ : Type} (E : Entropy σ) (st : σ) (m : String) (a b : Nat) : String × σ :=
  match m with
  | "choose_index" => let (v, r) := E.chooseIndex st a; (toString v, r)
  | "gen_bool" => let (v, r) := E.genBool st; ((if v then "1" else "0"), r)
  | "gen_u8" => let (v, r) := E.genU8 st; (toString v, r)
  | "gen_u16" => let (v, r) := E.genU16 st; (toString v, r)
  | "gen_u32" => let (v, r) := E.genU32 st; (toString v, r)
  | "gen_i32" => let (v, r) := E.genI32 st; (toString v, r)
  | "gen_i64" => let (v, r) := E.genI64 st; (toString v, r)
  | "gen_f64" => let (v, r) := E.genF64 st; (hex16 v, r)
  | "gen_range" => let (v, r) := E.genRange st a b; (toString v, r)
  | "gen_bytes" => let (v, r) := E.genBytes st a; ((if v.isEmpty then "-" else hexOf v), r)
  | _ => let (v, r) := E.genAsciiChar st; (toString v.toNat, r)

def srcLine (toks : List String) : String :=
  let m := kvD toks "method" "?"
  let a := kvNat toks "a"
  let b := kvNat toks "b"
  let res := kvD toks "result" "?"
  let left := kvD toks "left" "?"
  let fail (w : String) := s!"src FAIL method={m} a={a} b={b} ent={kvD toks "ent" "?"} impl={res} {san w}"
  -- the contract, for both sources
  let contract : Option String :=
    match m with
    | "choose_index" => if (a == 0 && res != "0") then some "choose_index(0) != 0" else
        (if a > 0 && res.toNat?.getD a ≥ a then some "choose_index out of range" else none)
    | "gen_range" => let r := res.toNat?.getD 0
        if a ≥ b then (if r != a then some "degenerate range must return a" else none)
        else (if r < a || r ≥ b then some "gen_range out of [a,b)" else none)
    | "gen_ascii_char" => let r := res.toNat?.getD 0
        if r < 32 || r > 126 || !Gen.asciiChars.contains (UInt8.ofNat r) then some "not a printable ASCII_CHARS member" else none
    | "gen_bytes" => if (unhex res).length != a then some "gen_bytes length" else none
    | _ => none
  match contract with
  | some w => fail ("contract:" ++ w)
  | none =>
    let ent := kvD toks "ent" "?"
    match entOf ent with
    | none =>
      if ent.startsWith "rand:" then
        -- exact comparison with the ChaCha8 port (a fresh generator seeded with the given seed)
        let (mr, _) := srcModel Rand.E (Rand.seed ((ent.drop 5).toString.toNat?.getD 0)) m a b
        if mr == res then "src ok rand-exact" else fail s!"model={mr}"
      else "src ok rand"
    | some bs =>
      let (mr, rest) := srcModel Arb.E bs m a b
      if mr == res && toString rest.length == left then "src ok arb"
      else fail s!"model={mr}:left={rest.length}:impl_left={left}"

/-- UTF-8 decoding of well-formed input (the harness only sends `String`s) -/
def utf8Decode : List UInt8 → List Char
  | [] => []
  | b :: rest =>
    let v := b.toNat
    if v < 0x80 then Char.ofNat v :: utf8Decode rest
    else if v < 0xe0 then
      match rest with
      | c :: r => Char.ofNat ((v % 32) * 64 + c.toNat % 64) :: utf8Decode r
      | _ => []
    else if v < 0xf0 then
      match rest with
      | c :: d :: r => Char.ofNat ((v % 16) * 4096 + (c.toNat % 64) * 64 + d.toNat % 64) :: utf8Decode r
      | _ => []
    else
      match rest with
      | c :: d :: e :: r =>
        Char.ofNat ((v % 8) * 262144 + (c.toNat % 64) * 4096 + (d.toNat % 64) * 64 + e.toNat % 64) :: utf8Decode r
      | _ => []
termination_by l => l.length
decreasing_by all_goals simp_wf; all_goals omega

def optStr {α} (f : α → String) : Option α → String
  | none => "none"
  | some x => "some:" ++ f x

def hexOrDash (b : List UInt8) : String := if b.isEmpty then "-" else hexOf b

def popCount (n : Nat) : Nat := (List.range 64).foldl (fun acc i => acc + (n >>> i) % 2) 0

/-- the C16 contract of one mutator call, evaluated on the implementation's own result -/
def mutContract (kind method value result : String) (unsafeMode : Bool) : Option String :=
  if result == "none" then none else
  let r := (result.drop 5).toString
  match kind, method with
  | "bitflip", "int" | "bitflip", "long" =>
    let bits := if method == "int" then 32 else 64
    let a := Mutators.toU bits (value.toInt?.getD 0); let b := Mutators.toU bits (r.toInt?.getD 0)
    if popCount (a ^^^ b) != 1 then some "bit-flip must change exactly one bit" else none
  | "boundary", "int" => if Gen.boundInt.contains (r.toInt?.getD 7) then none else some "not a listed boundary"
  | "boundary", "long" => if Gen.boundLong.contains (r.toInt?.getD 7) then none else some "not a listed boundary"
  | "boundary", "float" =>
    let b := hexToUInt64 r
    if Gen.boundFloat.contains b || (G.f64IsNaN b && Gen.boundFloat.any G.f64IsNaN) then none else some "not a listed boundary"
  | "offbyone", "int" | "offbyone", "long" =>
    let bits := if method == "int" then 32 else 64
    let v := value.toInt?.getD 0; let w := r.toInt?.getD 0
    if w == Mutators.wrap bits (v + 1) || w == Mutators.wrap bits (v - 1) then none else some "off-by-one must be ±1 with wrap-around"
  | "offbyone", "memo" =>
    let v := value.toNat?.getD 0; let w := r.toNat?.getD 0
    if w == Mutators.satAdd1 v || w == Mutators.satSub1 v then none else some "memo off-by-one must be ±1 saturating"
  | "memoindex", "memo" =>
    let v := value.toNat?.getD 0; let w := r.toNat?.getD 0
    if unsafeMode then (if w < 1000 then none else some "unsafe memo index must be < 1000")
    else (if w == v || w == Mutators.satAdd1 v || w == Mutators.satSub1 v then none else some "safe memo index moves by at most one")
  | "stringlen", "string" | "stringlen", "bytes" =>
    let isStr := method == "string"
    let v := unhex value; let w := unhex r
    let vItems := if isStr then (utf8Decode v).length else v.length
    let wItems := if isStr then (utf8Decode w).length else w.length
    let isPrefix := w.length ≤ v.length && v.take w.length == w
    let isDouble := w == v ++ v
    let isExt := w.take v.length == v && wItems ≥ vItems + 1 && wItems ≤ vItems + 9 &&
      (!isStr || (w.drop v.length).all (fun b => 0x61 ≤ b && b ≤ 0x7a))
    if isPrefix || isDouble || isExt then none else some "string-length: not a prefix, not +1..9 items, not doubled"
  | "character", "string" =>
    let v := utf8Decode (unhex value); let w := utf8Decode (unhex r)
    let diffs := (v.zip w).filter (fun (a, b) => a != b)
    if v.length != w.length then some "character: length changed"
    else if diffs.length > 1 then some "character: more than one position changed"
    else if diffs.any (fun (_, b) => b.toNat < 33 || b.toNat > 126) then some "character: replacement not printable"
    else none
  | "character", "bytes" =>
    let v := unhex value; let w := unhex r
    if v.length != w.length then some "character: length changed"
    else if ((v.zip w).filter (fun (a, b) => a != b)).length > 1 then some "character: more than one position changed"
    else none
  | _, _ => some "this mutator must not fire for this value kind"

/-- C16 "leaves other opcodes alone": an opcode counts as value-pushing when the reference
machine's effect is to put a freshly built data object on the stack (pickletools stack_after),
independently of the implementation's own table -/
def pushesData (o : Op) : Bool :=
  match Ref.step { stack := [.mark, .any, .any, .any, .mark, .any, .any] } ⟨o, .none⟩ with
  | .ok (r, _) => (match r.stack.head? with
      | some k => Ref.data k && !(o == .dup || o == .pop || o == .append || o == .setItem || o == .build ||
          o == .get || o == .binGet || o == .longBinGet)
      | none => false)
  | .error _ => false

/-- one mutator call under a given entropy source, rendered like the harness renders it; the second
component measures what is left of the source -/
def mutModel {σ : Type} (E : Entropy σ) (bs : σ) (leftOf : σ → Nat) (m : Mut) (method value : String) (rate : UInt64) :
    String × Nat :=
  match method with
  | "int" => (match Mutators.mutateInt E 32 Gen.boundInt m (value.toInt?.getD 0) bs rate with
      | .ok (r, rest) => (optStr toString r, leftOf rest) | .error e => ("panic:" ++ reprStr e, 0))
  | "long" => (match Mutators.mutateInt E 64 Gen.boundLong m (value.toInt?.getD 0) bs rate with
      | .ok (r, rest) => (optStr toString r, leftOf rest) | .error e => ("panic:" ++ reprStr e, 0))
  | "float" => (match Mutators.mutateFloat E m (hexToUInt64 value) bs rate with
      | .ok (r, rest) => (optStr hex16 r, leftOf rest) | .error e => ("panic:" ++ reprStr e, 0))
  | "string" => (match Mutators.mutateString E m (utf8Decode (unhex value)) bs rate with
      | .ok (r, rest) => (optStr (fun cs => hexOrDash (G.utf8 cs)) r, leftOf rest) | .error e => ("panic:" ++ reprStr e, 0))
  | "bytes" => (match Mutators.mutateBytes E m (unhex value) bs rate with
      | .ok (r, rest) => (optStr hexOrDash r, leftOf rest) | .error e => ("panic:" ++ reprStr e, 0))
  | "memo" => (match Mutators.mutateMemo E m (value.toNat?.getD 0) bs rate with
      | .ok (r, rest) => (optStr toString r, leftOf rest) | .error e => ("panic:" ++ reprStr e, 0))
  | _ =>
    (match value.splitOn "+" with
     | [pre, delta] =>
       let preB := unhex pre; let deltaB := unhex delta
       (match m with
        | .typeconfusion uu =>
          (match Mutators.typeConfusion E uu deltaB.head? bs rate with
           | .ok (some ins, rest) => ("changed:" ++ hexOrDash (preB ++ Enc.encode ins), leftOf rest)
           | .ok (none, rest) => ("same:" ++ hexOrDash (preB ++ deltaB), leftOf rest)
           | .error e => ("panic:" ++ reprStr e, 0))
        | _ => ("same:" ++ hexOrDash (preB ++ deltaB), leftOf bs))
     | _ => ("?", 0))

def mutLine (toks : List String) : String :=
  let kind := kvD toks "kind" "?"
  let u := kvBool toks "unsafe"
  let method := kvD toks "method" "?"
  let value := kvD toks "value" "?"
  let rate := hexToUInt64 (kvD toks "rate" "0")
  let res := kvD toks "result" "?"
  let left := kvD toks "left" "?"
  let fail (w : String) := s!"mut FAIL kind={kind} unsafe={if u then 1 else 0} method={method} value={value} rate={kvD toks "rate" "?"} ent={kvD toks "ent" "?"} impl={res} {san w}"
  if res.startsWith "panic" then fail "panic" else
  match mutOfName kind u with
  | none => fail "unknown mutator"
  | some m =>
    -- C16 contract on the implementation's result (both entropy sources)
    let cviol : Option String :=
      if method == "post" then
        (match value.splitOn "+", res.splitOn ":" with
         | [pre, delta], [chg, outHex] =>
           let preB := unhex pre; let deltaB := unhex delta; let out := unhex outHex
           if chg == "same" then (if out == preB ++ deltaB then none else some "post_process reported no change but bytes differ")
           else if !u then some "type confusion fired in safe mode"
           else if kind != "typeconfusion" then some "only type confusion may rewrite"
           else if out.take preB.length != preB then some "rewrite touched earlier bytes"
           else match Lex.lexOne (out.drop preB.length) with
             | .ok (ins, []) =>
               (match deltaB.head?.bind Gen.opcodeToType, Gen.opcodeToType (Gen.asU8 ins.op) with
                | some t0, some t1 =>
                  if t0 == t1 then some "replacement pushes the same type"
                  else if !((deltaB.head?.bind Lex.ofCode?).map pushesData).getD false then
                    some "a non-value-pushing opcode was rewritten"
                  else if !pushesData ins.op then some "replacement is not a value-pushing opcode"
                  else none
                | none, _ => some "a non-value-pushing opcode was rewritten"
                | _, none => some "replacement is not a value-pushing opcode")
             | _ => some "replacement is not exactly one complete instruction"
         | _, _ => some "malformed post line")
      else mutContract kind method value res u
    -- C15 at the extremes
    let applicable : Bool := match kind, method with
      | "bitflip", "int" | "bitflip", "long" | "boundary", "int" | "boundary", "long" | "boundary", "float"
      | "offbyone", "int" | "offbyone", "long" | "offbyone", "memo" | "stringlen", "string"
      | "stringlen", "bytes" | "memoindex", "memo" => true
      | "character", "string" | "character", "bytes" => value != "-"
      | _, _ => false
    let fired := if method == "post" then res.startsWith "changed" else res != "none"
    let c15 : Option String :=
      if rate == 0 && fired then some "C15:fired_at_rate_0"
      else if rate == 0x3FF0000000000000 && applicable && !fired then some "C15:did_not_fire_at_rate_1"
      else none
    match cviol, c15 with
    | some w, _ => fail ("C16:" ++ w)
    | _, some w => fail w
    | none, none =>
      let ent := kvD toks "ent" "?"
      let isNaNRes (x : String) : Bool := x.startsWith "some:" && method == "float" && G.f64IsNaN (hexToUInt64 (x.drop 5).toString)
      match entOf ent with
      | none =>
        if ent.startsWith "rand:" then
          -- exact comparison under the ChaCha8 port
          let modelRes := mutModel Rand.E (Rand.seed ((ent.drop 5).toString.toNat?.getD 0)) (fun _ => 0) m method value rate
          if modelRes.1 == res || (isNaNRes modelRes.1 && isNaNRes res) then "mut ok rand-exact"
          else fail s!"model={modelRes.1}"
        else "mut ok rand"
      | some bs =>
        -- exact comparison with the model under the Unstructured port
        let modelRes := mutModel Arb.E bs (fun rest => rest.length) m method value rate
        if (modelRes.1 == res || (isNaNRes modelRes.1 && isNaNRes res)) && toString modelRes.2 == left then "mut ok arb"
        else fail s!"model={modelRes.1}:left={modelRes.2}:impl_left={left}"

/-! ### steering: fuzzer bytes that make the generator choose a given opcode sequence -/

/-- plan item `Name[@idx][:hexextra]`: choose `Name` (at position `idx` of the valid list if given,
else at its position in the model's valid list), then feed `hexextra`, then zeros -/
def steerLine (mods : List (List UInt8 × List UInt8)) (toks : List String) : String :=
  let c := fullCfg toks
  let X : G.Ext := { mods := mods, fmt := fmtOf [] }
  let plan := (kvD toks "plan" "").splitOn ","
  let start : List UInt8 := if c.version ≥ 4 then [if kvBool toks "frame" then 1 else 0] else []
  let rec go (items : List String) (g : G.GenSt) (acc : List UInt8) (k : Nat) : Except String (List UInt8) :=
    match items with
    | [] => .ok acc
    | it :: rest =>
      let (nameIdx, extra) := match it.splitOn ":" with
        | [a, b] => (a, unhex b)
        | _ => (it, [])
      let (name, forced) := match nameIdx.splitOn "@" with
        | [a, b] => (a, b.toNat?)
        | _ => (nameIdx, none)
      match Op.ofName? name with
      | none => .error s!"step {k}: unknown opcode {name}"
      | some op =>
        let valid := validOps (Gen.table c.version) c g.sim
        let idx? := match forced with
          | some i => some i
          | none => valid.findIdx? (· == op)
        match idx? with
        | none => .error s!"step {k}: {name} is not valid in the model at stack {stackStr g.sim.stack}"
        | some idx =>
          let probe : List UInt8 := [UInt8.ofNat idx] ++ extra ++ List.replicate 96 0
          -- the choice byte is consumed by chooseIndex; the emission consumes from the rest
          let (ci, afterChoice) := Arb.E.chooseIndex probe valid.length
          if ci != idx && forced.isNone then .error s!"step {k}: cannot encode index {idx} among {valid.length}"
          else
            let chosen := if forced.isSome then op else (valid.getD ci op)
            match G.emitAndProcess Arb.E X c g chosen afterChoice with
            | .error e => .error s!"step {k}: model panics {reprStr e}"
            | .ok (g', restBytes) =>
              let consumed := probe.length - restBytes.length
              go rest g' (acc ++ probe.take consumed) (k + 1)
  match go (plan.filter (· != "")) { sim := initState c.version } start 0 with
  | .ok bytes => s!"steer ok n={(plan.filter (· != "")).length} bytes={if bytes.isEmpty then "-" else hexOf bytes}"
  | .error e => s!"steer FAIL {san e}"

def handle (mods : List (List UInt8 × List UInt8)) (line : String) : Option String :=
  let l := line.trimAscii.toString
  if l.isEmpty then none else
  let toks := l.splitOn " "
  match toks.head? with
  | some "oracle" => some (oracleLine toks)
  | some "probe" => some (probeLine toks)
  | some "trace" => some (traceLine toks)
  | some "seq" => some (seqLine toks)
  | some "gen" => some (genLine mods toks)
  | some "src" => some (srcLine toks)
  | some "mut" => some (mutLine toks)
  | some "steer" => some (steerLine mods toks)
  | some "hyps" => some s!"hyps mods={mods.length} modsok={if Spec.modsOk mods then 1 else 0}"
  | some other => some s!"unknown request {other}"
  | none => none

partial def loop (mods : List (List UInt8 × List UInt8)) (h : IO.FS.Stream) (out : IO.FS.Stream) : IO Unit := do
  let line ← h.getLine
  if line.isEmpty then return ()
  match handle mods line with
  | some r => out.putStrLn r
  | none => pure ()
  loop mods h out

end Driver
end PFV

def main (args : List String) : IO Unit := do
  let stdin ← IO.getStdin
  let stdout ← IO.getStdout
  -- optional argument: path of /repo/data/stdlib_complete.txt (needed by `gen` requests only)
  let mods ← match args with
    | p :: _ => do
      let content ← IO.FS.readFile p
      pure (PFV.Driver.parseMods content)
    | [] => pure []
  PFV.Driver.loop mods stdin stdout
