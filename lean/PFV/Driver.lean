/-
Line-protocol driver: reads request lines written by /verif/harness (which ran the real
implementation), recomputes every observation from the model / specification, and prints one
verdict line per request.  Import-free model ⇒ links as a native executable.
-/
import PFV.Generated
import PFV.Sim
import PFV.SimBytes
import PFV.Lex
import PFV.Ref
import PFV.Spec
namespace PFV
namespace Driver

def hexVal? (c : Char) : Option Nat :=
  if '0' ≤ c ∧ c ≤ '9' then some (c.toNat - 48)
  else if 'a' ≤ c ∧ c ≤ 'f' then some (c.toNat - 87)
  else if 'A' ≤ c ∧ c ≤ 'F' then some (c.toNat - 55)
  else none

def unhexList : List Char → List UInt8 → List UInt8
  | a :: b :: r, acc =>
    match hexVal? a, hexVal? b with
    | some x, some y => unhexList r (UInt8.ofNat (16 * x + y) :: acc)
    | _, _ => acc.reverse
  | _, acc => acc.reverse

def unhex (s : String) : List UInt8 := if s = "-" || s = "e" then [] else unhexList s.toList []

def hexDigit (n : Nat) : Char := if n < 10 then Char.ofNat (48 + n) else Char.ofNat (87 + n)
def hex2 (b : UInt8) : String := String.ofList [hexDigit (b.toNat / 16), hexDigit (b.toNat % 16)]
def hexOf (bs : List UInt8) : String := String.join (bs.map hex2)
def hex16 (v : UInt64) : String :=
  String.ofList ((List.range 16).map (fun i => hexDigit ((v.toNat >>> (4 * (15 - i))) % 16)))

def fnv (bs : List UInt8) : UInt64 :=
  bs.foldl (fun h b => (h ^^^ b.toUInt64) * 0x100000001b3) 0xcbf29ce484222325

def le8 (n : Nat) : List UInt8 := (List.range 8).map (fun i => UInt8.ofNat ((n >>> (8 * i)) % 256))

def stackStr (st : List Kind) : String := String.ofList (st.reverse.map Kind.code)
def stackDigest (st : List Kind) : String :=
  s!"{st.length}:{hex16 (fnv (st.reverse.map (fun k => UInt8.ofNat k.code.toNat)))}"

def sortedMemo (m : Memo) : List (Nat × Kind) := m.mergeSort (fun a b => a.1 ≤ b.1)
def memoDigest (m : Memo) : String :=
  let bs := (sortedMemo m).flatMap (fun (k, c) => le8 k ++ [UInt8.ofNat c.code.toNat])
  s!"{m.length}:{hex16 (fnv bs)}"
def memoFull (m : Memo) : String :=
  if m.isEmpty then "-" else ",".intercalate ((sortedMemo m).map (fun (k, c) => s!"{k}={c.code}"))

/-- key=value tokens of a request line -/
def kv (toks : List String) (k : String) : Option String :=
  toks.findSome? (fun t => if t.startsWith (k ++ "=") then some ((t.drop (k.length + 1)).toString) else none)

def kvD (toks : List String) (k d : String) : String := (kv toks k).getD d
def kvNat (toks : List String) (k : String) : Nat := ((kv toks k).bind String.toNat?).getD 0
def kvBool (toks : List String) (k : String) : Bool := kv toks k == some "1"

def cfgOf (toks : List String) : Cfg :=
  { version := kvNat toks "P", minOps := kvNat toks "min", maxOps := kvNat toks "max",
    unsafeMut := kvBool toks "unsafe", allowExt := kvBool toks "ext", allowBuf := kvBool toks "buf" }

def san (s : String) : String := String.ofList (s.toList.map (fun c => if c = ' ' then '_' else c))

/-- reference machine over the whole list, tail-recursive, remembering where things happen -/
structure RunRes where
  stackErr : Option (Nat × Ref.StackErr) := none
  memoV : List (Nat × Ref.Viol) := []
  typedV : List (Nat × Ref.Viol) := []
  n : Nat := 0

def runIdx (is : List Instr) : RunRes :=
  let rec go (r : Ref.RState) (idx : Nat) (l : List Instr) (acc : RunRes) : RunRes :=
    match l with
    | [] => { acc with n := idx }
    | i :: rest =>
      match Ref.step r i with
      | .error e => { acc with stackErr := some (idx, e), n := idx }
      | .ok (r', vs) =>
        let acc := vs.foldl (fun a v =>
          if v.isMemo then { a with memoV := (idx, v) :: a.memoV }
          else { a with typedV := (idx, v) :: a.typedV }) acc
        go r' (idx + 1) rest acc
  go {} 0 is {}

def verdict (ok : Bool) (detail : String) : String := if ok then "ok" else "FAIL:" ++ san detail

def oracleLine (toks : List String) : String :=
  let id := kvD toks "id" "?"
  let c := cfgOf toks
  let res := kvD toks "result" "?"
  if !res.startsWith "ok:" then s!"oracle id={id} gen={san res}"
  else
    let out := unhex (res.drop 3).toString
    match Lex.lex out with
    | .error e => s!"oracle id={id} gen=ok len={out.length} C04=FAIL:lex:{san (reprStr e)}"
    | .ok is =>
      let rr := runIdx is
      let hist := Op.all.filterMap (fun o =>
        let n := (is.filter (fun i => i.op == o)).length
        if n > 0 then some s!"{o.name}:{n}" else none)
      let c01 := match rr.stackErr with
        | none => "ok"
        | some (i, e) => "FAIL:" ++ san s!"instr#{i}:{(is[i]?.map (fun (x : Instr) => x.op.name)).getD "?"}:{reprStr e}"
      let fmtV (l : List (Nat × Ref.Viol)) : String := match l.reverse with
        | [] => "ok"
        | (i, v) :: _ => "FAIL:" ++ san s!"instr#{i}:{(is[i]?.map (fun (x : Instr) => x.op.name)).getD "?"}:{reprStr v}:total={l.length}"
      let c05 :=
        if !Spec.opsInProto c.version is then
          let bad := is.filter (fun i => Lex.introduced i.op > c.version)
          "FAIL:" ++ san s!"opcode_of_later_protocol:{(bad.head?.map (fun (x : Instr) => x.op.name)).getD "?"}:count={bad.length}"
        else if !Spec.headerOk c.version is then "FAIL:header"
        else if !Spec.asciiOk c.version out then "FAIL:non-ascii_byte_in_protocol_0"
        else "ok"
      let c04 := match is.find? (fun i => !Lex.domainOk i) with
        | none => "ok"
        | some i => "FAIL:" ++ san s!"domain:{i.op.name}:{reprStr i.arg}:count={(is.filter (fun i => !Lex.domainOk i)).length}"
      let c06 := verdict (Spec.frameOk c.version out is) "frame"
      let c10 := verdict (Spec.optinOk c.allowExt c.allowBuf is) "opt-in_opcode_present"
      let c11 := verdict (Spec.countOk c.minOps c.maxOps is) s!"count={is.length}"
      let framed := is.any (fun i => i.op == .frame)
      let memoOps := (is.filter (fun i => i.op == .put || i.op == .binPut || i.op == .longBinPut || i.op == .memoize)).length
      s!"oracle id={id} gen=ok len={out.length} n={is.length} framed={if framed then 1 else 0} memo={memoOps} C04={c04} C01={c01} C02={fmtV rr.memoV} C03={fmtV rr.typedV} C05={c05} C06={c06} C10={c10} C11={c11} ops={",".intercalate hist}"

/-! ### S1 probe -/

def stackOfCodes (s : String) : List Kind :=
  if s = "-" then [] else (s.toList.filterMap Kind.ofCode?).reverse

def memoOfSize (n : Nat) : Memo :=
  (List.range n).map (fun i => (i, Kind.all[i % 18]!))

def probeLine (toks : List String) : String :=
  let c : Cfg := { version := 2, unsafeMut := kvBool toks "unsafe", allowExt := kvBool toks "ext",
                   allowBuf := kvBool toks "buf" }
  let st := stackOfCodes (kvD toks "stack" "-")
  let memo := memoOfSize (kvNat toks "memo")
  let s : State := { stack := st, memo := memo, protoEmitted := kvBool toks "pe" }
  let can := String.ofList (Op.all.map (fun o => if canEmit c s o then '1' else '0'))
  let errs : List String := []
  let errs := if can == kvD toks "can" "" then errs else
    let impl := (kvD toks "can" "").toList
    let diff := (Op.all.zip (can.toList.zip impl)).filterMap (fun (o, (m, i)) =>
      if m != i then some s!"{o.name}:model={m}:impl={i}" else none)
    errs ++ ["can_emit:" ++ ",".intercalate diff]
  let errs := match kv toks "valid" with
    | none => errs
    | some v =>
      let parts := v.splitOn ","
      (List.range 6).foldl (fun errs p =>
        let model := hexOf ((validOps (Gen.table p) { c with version := p } s).map Gen.asU8)
        let impl := (parts[p]?).getD "?"
        let impl := if impl = "-" then "" else impl
        if model == impl then errs else errs ++ [s!"valid_opcodes:P={p}:model={model}:impl={impl}"]) errs
  let errs := match kv toks "apply" with
    | none => errs
    | some a =>
      (a.splitOn ";").foldl (fun errs part =>
        match part.splitOn ":" with
        | [p, opHex, argHex, stk, mlen, mfnv] =>
          match (unhex opHex).head?.bind Lex.ofCode? with
          | none => errs ++ ["apply:unknown_op:" ++ opHex]
          | some op =>
            let ver := p.toNat?.getD 2
            let arg := argOfBytes op (if argHex = "-" then none else some (unhex argHex))
            let s' := process ver s op arg
            let ms := stackStr s'.stack
            let ms := if ms.isEmpty then "-" else ms
            if ms == stk && memoDigest s'.memo == mlen ++ ":" ++ mfnv then errs
            else errs ++ [s!"apply:P={p}:{op.name}:arg={argHex}:model={ms}/{memoDigest s'.memo}:impl={stk}/{mlen}:{mfnv}"]
        | _ => errs ++ ["apply:bad_part:" ++ part]) errs
  let errs := [0, 1, 2, 4].foldl (fun errs p =>
    match kv toks s!"cleanup{p}" with
    | none => errs
    | some v =>
      let (s', ops) := cleanup p s
      let mo := hexOf (ops.map Gen.asU8)
      let mo := if mo.isEmpty then "-" else mo
      let ms := stackStr s'.stack
      let ms := if ms.isEmpty then "-" else ms
      if v == mo ++ ":" ++ ms then errs else errs ++ [s!"cleanup:P={p}:model={mo}:{ms}:impl={v}"]) errs
  if errs.isEmpty then "probe ok" else
    s!"probe MISMATCH unsafe={kvD toks "unsafe" "?"} ext={kvD toks "ext" "?"} buf={kvD toks "buf" "?"} pe={kvD toks "pe" "?"} stack={kvD toks "stack" "?"} memo={kvD toks "memo" "?"} :: {" | ".intercalate (errs.map san)}"

/-! ### S2 trace -/

structure Snap where
  stackDig : String
  memoDig : String
  outLen : Nat
  pe : Bool

def parseSnap (parts : List String) : Option Snap :=
  match parts with
  | [a, b, c, d] => some { stackDig := a, memoDig := b, outLen := c.toNat?.getD 0, pe := d == "1" }
  | _ => none

def snapMatches (s : State) (sn : Snap) : Bool :=
  stackDigest s.stack == sn.stackDig && memoDigest s.memo == sn.memoDig && s.protoEmitted == sn.pe

def isPutOp (o : Op) : Bool := o == .put || o == .binPut || o == .longBinPut
def isGetOp (o : Op) : Bool := o == .get || o == .binGet || o == .longBinGet

/-- the argument the emitter may hand to `op` in state `s` (safe mode): the hypothesis
`ArgOK` of the simulation theorem, evaluated on real traces -/
def argOk (s : State) (op : Op) (a : Arg) : Bool :=
  if isGetOp op then (match a with | .nat i => Memo.has s.memo i | _ => false)
  else if isPutOp op then (match a with | .nat i => i == s.memo.length | _ => false)
  else true

def dropTake (l : List UInt8) (a b : Nat) : List UInt8 := (l.drop a).take (b - a)

def traceLine (toks : List String) : String :=
  let id := kvD toks "id" "?"
  let c := cfgOf toks
  let res := kvD toks "result" "?"
  if !res.startsWith "ok:" then s!"trace id={id} gen={san res}"
  else if kvNat toks "rewritten" > 0 then s!"trace id={id} skipped=rewritten"
  else
    let out := unhex (res.drop 3).toString
    let fail (w : String) : String := s!"trace id={id} FAIL {san w}"
    match (kvD toks "target" "-").splitOn "@", (kvD toks "bodyend" "-").splitOn "@" with
    | [tS, tSnap], [beS, _] =>
      let target := tS.toNat?.getD 0
      let bodyEnd := beS.toNat?.getD 0
      match parseSnap (tSnap.splitOn "/") with
      | none => fail "bad target snapshot"
      | some ts =>
        let s0 : State := { protoEmitted := c.version ≥ 2 }
        let framed := c.version ≥ 4 && (out.drop 2).head? == some 0x95
        let hdr := (if c.version ≥ 2 then 2 else 0) + (if framed then 9 else 0)
        if !snapMatches s0 ts then fail "initial state differs"
        else if ts.outLen != hdr then fail s!"header length {ts.outLen} expected {hdr}"
        else
          let stepsS := kvD toks "steps" "-"
          let steps := if stepsS = "-" then [] else stepsS.splitOn ";"
          -- bounds on T (C11)
          let tOk := c.minOps ≤ target && (if c.maxOps > c.minOps then target < c.maxOps else target == c.minOps)
          if !tOk then fail s!"target {target} outside [{c.minOps},{c.maxOps})"
          else if bodyEnd != target then fail s!"body emitted {bodyEnd} opcodes for target {target}"
          else
            let rec go (s : State) (prev : Nat) (idx : Nat) (l : List String) (tail : List Op)
                (sBody : State) : Except String (State × Nat × List Op × State) :=
              match l with
              | [] => .ok (s, prev, tail, sBody)
              | stp :: rest =>
                match stp.splitOn "/" with
                | [opHex, _argHex, a, b, cc, d] =>
                  match parseSnap [a, b, cc, d] with
                  | none => .error s!"step {idx}: bad snapshot"
                  | some sn =>
                    if !snapMatches s sn then
                      .error s!"step {idx}: state before {opHex} differs: model stack={stackDigest s.stack} memo={memoDigest s.memo} top={stackStr (s.stack.take 6)} impl stack={sn.stackDig} memo={sn.memoDig}"
                    else
                      let delta := dropTake out prev sn.outLen
                      match Lex.lexOne delta with
                      | .error e => .error s!"step {idx}: emitted bytes {hexOf (delta.take 40)} do not lex: {reprStr e}"
                      | .ok (ins, r) =>
                        if !r.isEmpty then .error s!"step {idx}: emitted bytes {hexOf (delta.take 40)} are more than one instruction"
                        else if hex2 (Gen.asU8 ins.op) != opHex then .error s!"step {idx}: traced opcode {opHex} but bytes are {ins.op.name}"
                        else
                          let sBody := if idx == bodyEnd then s else sBody
                          if idx < bodyEnd then
                            if !(Gen.table c.version).contains ins.op then .error s!"step {idx}: {ins.op.name} not in the protocol table"
                            else if !canEmit c s ins.op then .error s!"step {idx}: {ins.op.name} emitted but the model's guard is false; top={stackStr (s.stack.take 6)}"
                            else if !c.unsafeMut && !argOk s ins.op ins.arg then .error s!"step {idx}: {ins.op.name} argument {reprStr ins.arg} not admissible (memo size {s.memo.length})"
                            else go (process c.version s ins.op ins.arg) sn.outLen (idx + 1) rest tail sBody
                          else go (process c.version s ins.op ins.arg) sn.outLen (idx + 1) rest (tail ++ [ins.op]) sBody
                | _ => .error s!"step {idx}: malformed"
            match go s0 hdr 0 steps [] s0 with
            | .error e => fail e
            | .ok (sf, prev, tail, sBody) =>
              let sBody := if steps.length == bodyEnd then sf else sBody
              let (_, cops) := cleanup c.version sBody
              if tail != cops ++ [Op.stop] then
                fail s!"tail differs: model={",".intercalate (((cops ++ [Op.stop]).map Op.name).take 12)} impl={",".intercalate ((tail.map Op.name).take 12)} (lengths {cops.length + 1}/{tail.length})"
              else if prev != out.length then fail s!"{out.length - prev} bytes after the last traced opcode"
              else if tail.length > 2 * target + 2 then fail s!"tail {tail.length} > 2T+2"
              else
                match (kvD toks "final" "-").splitOn "/" with
                | [a, b, _, d, stk, mem] =>
                  if stackDigest sf.stack != a || memoDigest sf.memo != b || (d == "1") != sf.protoEmitted then fail "final state digest differs"
                  else if (if stackStr sf.stack == "" then "-" else stackStr sf.stack) != (if stk == "" then "-" else stk) then fail s!"final stack: model={stackStr sf.stack} impl={stk}"
                  else if memoFull sf.memo != mem then fail "final memo differs"
                  else s!"trace id={id} ok steps={steps.length} body={bodyEnd} tail={tail.length} memo={sf.memo.length} mutated={kvNat toks "mutated"}"
                | _ => fail "bad final record"
    | _, _ => fail "missing target/bodyend (generation aborted?)"

def handle (line : String) : Option String :=
  let l := line.trimAscii.toString
  if l.isEmpty then none else
  let toks := l.splitOn " "
  match toks.head? with
  | some "oracle" => some (oracleLine toks)
  | some "probe" => some (probeLine toks)
  | some "trace" => some (traceLine toks)
  | some other => some s!"unknown request {other}"
  | none => none

partial def loop (h : IO.FS.Stream) (out : IO.FS.Stream) : IO Unit := do
  let line ← h.getLine
  if line.isEmpty then return ()
  match handle line with
  | some r => out.putStrLn r
  | none => pure ()
  loop h out

end Driver
end PFV

def main : IO Unit := do
  let stdin ← IO.getStdin
  let stdout ← IO.getStdout
  PFV.Driver.loop stdin stdout
