/- C17 one-step simulation, part E: memo opcodes. -/
import PFV.Proofs.StepSim
namespace PFV
open Ref (RKind RState RMemo)

variable {c : Cfg} {a : Arg}
variable {st : List Kind} {m : Memo} {pe : Bool} {rst : List RKind} {rm : RMemo}

theorem step_get_like (hs : Rel st rst) (hm : MRel m rm) (hd : Dense m) (op : Op)
    (hop : op = .get ∨ op = .binGet ∨ op = .longBinGet)
    (ha : argOK ⟨st, m, pe⟩ op a = true) : StepGoal c.version ⟨st, m, pe⟩ ⟨rst, rm⟩ op a := by
  have hg : isGetFam op = true := by rcases hop with rfl | rfl | rfl <;> rfl
  simp only [argOK, hg, if_true] at ha
  cases a <;> try (simp at ha; done)
  rename_i i
  simp only [Memo.has] at ha
  rcases hm.find i with ⟨h1, _⟩ | ⟨k, rk, h1, h2, hk⟩
  · simp [h1] at ha
  · refine goal_of (s' := ⟨k :: st, m, pe⟩) (r' := ⟨rk :: rst, rm⟩) ?_ ?_ ⟨Rel.cons hk hs, hm⟩ hd
    · rcases hop with rfl | rfl | rfl <;> simp [process, memoIndexOf, h1]
    · rcases hop with rfl | rfl | rfl <;> simp [Ref.step, h2]

theorem top_nonmark_of {st : List Kind} (h : topNonMark st = true) :
    ∃ k t, st = k :: t ∧ k ≠ .mark := by
  cases st with
  | nil => simp [topNonMark] at h
  | cons k t => exact ⟨k, t, rfl, by simpa [topNonMark] using h⟩

theorem step_put_like (hs : Rel st rst) (hm : MRel m rm) (hd : Dense m) (op : Op)
    (hop : op = .put ∨ op = .binPut ∨ op = .longBinPut)
    (hc : canEmit c ⟨st, m, pe⟩ op = true)
    (ha : argOK ⟨st, m, pe⟩ op a = true) : StepGoal c.version ⟨st, m, pe⟩ ⟨rst, rm⟩ op a := by
  have hg : isGetFam op = false := by rcases hop with rfl | rfl | rfl <;> rfl
  have hp : isPutFam op = true := by rcases hop with rfl | rfl | rfl <;> rfl
  simp only [argOK, hg, hp, if_true, Bool.false_eq_true, if_false, beq_iff_eq] at ha
  subst ha
  have htop : ∃ k t, st = k :: t ∧ k ≠ .mark := by
    rcases hop with rfl | rfl | rfl
    · exact top_nonmark_of (by simpa [canEmit] using hc)
    · simp only [canEmit, Bool.and_eq_true] at hc; exact top_nonmark_of hc.1
    · exact top_nonmark_of (by simpa [canEmit] using hc)
  obtain ⟨k, t, rfl, hk⟩ := htop
  obtain ⟨rk, rt, rfl, hck, ht⟩ := hs.cons_inv
  have hrk : rk ≠ .mark := compat_nonmark hk hck
  have hfresh : Memo.find? m m.length = none := find_none_of_not_mem (dense_fresh hd)
  have hrfresh : RMemo.find? rm m.length = none := by
    rcases hm.find m.length with ⟨_, h2⟩ | ⟨_, _, h1, _, _⟩
    · exact h2
    · simp [hfresh] at h1
  refine goal_of (s' := ⟨k :: t, Memo.insert m m.length k, pe⟩)
    (r' := ⟨rk :: rt, RMemo.insert rm m.length rk⟩) ?_ ?_
    ⟨Rel.cons hck ht, hm.insert _ hck⟩ (dense_insert hd k)
  · rcases hop with rfl | rfl | rfl <;> simp [process, memoIndexOf, hk]
  · rcases hop with rfl | rfl | rfl <;> simp [Ref.step, hrk, hrfresh]

theorem step_memoize (hs : Rel st rst) (hm : MRel m rm) (hd : Dense m)
    (hc : canEmit c ⟨st, m, pe⟩ .memoize = true) :
    StepGoal c.version ⟨st, m, pe⟩ ⟨rst, rm⟩ .memoize a := by
  obtain ⟨k, t, rfl, hk⟩ := top_nonmark_of (by simpa [canEmit] using hc)
  obtain ⟨rk, rt, rfl, hck, ht⟩ := hs.cons_inv
  have hrk : rk ≠ .mark := compat_nonmark hk hck
  have hlen : rm.length = m.length := hm.length_eq.symm
  have hfresh : Memo.find? m m.length = none := find_none_of_not_mem (dense_fresh hd)
  have hrfresh : RMemo.find? rm m.length = none := by
    rcases hm.find m.length with ⟨_, h2⟩ | ⟨_, _, h1, _, _⟩
    · exact h2
    · simp [hfresh] at h1
  refine goal_of (s' := ⟨k :: t, Memo.insert m m.length k, pe⟩)
    (r' := ⟨rk :: rt, RMemo.insert rm m.length rk⟩) ?_ ?_
    ⟨Rel.cons hck ht, hm.insert _ hck⟩ (dense_insert hd k)
  · simp [process]
  · simp [Ref.step, hrk, hlen, hrfresh]

end PFV
