/- C15 / C16: the rate gate at its extremes and the contract of every mutator. -/
import PFV.Mutators
namespace PFV
namespace Mutators

variable {σ : Type} (E : Entropy σ)

/-! ### the gate -/

theorem unitGe_zero (k : Nat) : unitGe k 0 = true := by
  simp [unitGe]

theorem unitGe_one (k : Nat) (hk : k < 9007199254740992) : unitGe k 0x3FF0000000000000 = false := by
  have e1 : (0x3FF0000000000000 : UInt64).toNat / 2 ^ 63 = 0 := by decide
  have e2 : ((0x3FF0000000000000 : UInt64).toNat / 2 ^ 52) % 2048 = 1023 := by decide
  have e3 : (0x3FF0000000000000 : UInt64).toNat % 2 ^ 52 = 0 := by decide
  unfold unitGe
  simp only [e1, e2, e3]
  have : ¬ (k * 2 ^ 1022 ≥ (0 + 2 ^ 52) * 2 ^ 1023) := by
    have h1 : (0 + 2 ^ 52) * 2 ^ 1023 = 9007199254740992 * 2 ^ 1022 := by
      rw [Nat.zero_add, show (1023:Nat) = 1 + 1022 by rfl, Nat.pow_add, ← Nat.mul_assoc]
    rw [h1]
    exact Nat.not_le.mpr (Nat.mul_lt_mul_of_pos_right hk (Nat.two_pow_pos _))
  simp [this]

theorem gate_rate0 (s : σ) : (gate E s 0).1 = true := by
  simp [gate, unitGe_zero]

theorem gate_rate1 (hE : Lawful E) (s : σ) : (gate E s 0x3FF0000000000000).1 = false := by
  simp [gate, unitGe_one _ (hE.genUnit_lt s)]

/-! ### C15, rate 0.0: nothing fires, nothing is rewritten — for every entropy source -/

theorem mutateInt_rate0 (bits : Nat) (bounds : List Int) (m : Mut) (v : Int) (s : σ) :
    ∃ s', mutateInt E bits bounds m v s 0 = .ok (none, s') := by
  cases m <;> simp [mutateInt, gate_rate0]

theorem mutateFloat_rate0 (m : Mut) (v : UInt64) (s : σ) :
    ∃ s', mutateFloat E m v s 0 = .ok (none, s') := by
  cases m <;> simp [mutateFloat, gate_rate0]

theorem mutateString_rate0 (m : Mut) (v : List Char) (s : σ) :
    ∃ s', mutateString E m v s 0 = .ok (none, s') := by
  cases m <;> simp [mutateString, gate_rate0]

theorem mutateBytes_rate0 (m : Mut) (v : List UInt8) (s : σ) :
    ∃ s', mutateBytes E m v s 0 = .ok (none, s') := by
  cases m <;> simp [mutateBytes, gate_rate0]

theorem mutateMemo_rate0 (m : Mut) (v : Nat) (s : σ) :
    ∃ s', mutateMemo E m v s 0 = .ok (none, s') := by
  cases m <;> simp [mutateMemo, gate_rate0]

theorem typeConfusion_rate0 (u : Bool) (first : Option UInt8) (s : σ) :
    ∃ s', typeConfusion E u first s 0 = .ok (none, s') := by
  cases u <;> simp [typeConfusion, gate_rate0]

/-- the first-`Some`-wins loop returns its input when no mutator ever answers `Some` -/
theorem firstSome_none {α : Type} (f : Mut → α → σ → UInt64 → Except Panic (Option α × σ)) (rate : UInt64)
    (h : ∀ m v s, ∃ s', f m v s rate = .ok (none, s')) :
    ∀ (ms : List Mut) (v : α) (s : σ), ∃ s', firstSome f ms v s rate = .ok (v, s', false)
  | [], v, s => ⟨s, rfl⟩
  | m :: ms, v, s => by
    obtain ⟨s1, h1⟩ := h m v s
    obtain ⟨s2, h2⟩ := firstSome_none f rate h ms v s1
    exact ⟨s2, by simp [firstSome, h1, h2]⟩

theorem postProcess_rate0 : ∀ (ms : List Mut) (first : Option UInt8) (cur : Option Instr) (s : σ),
    ∃ s', postProcess E ms first cur s 0 = .ok (cur, s')
  | [], _, cur, s => ⟨s, rfl⟩
  | m :: ms, first, cur, s => by
    cases m with
    | typeconfusion u =>
      obtain ⟨s1, h1⟩ := typeConfusion_rate0 E u first s
      obtain ⟨s2, h2⟩ := postProcess_rate0 ms first cur s1
      exact ⟨s2, by simp [postProcess, h1, h2]⟩
    | _ => simpa [postProcess] using postProcess_rate0 ms first cur s

/-! ### C15, rate 1.0: an applicable mutator always fires -/

/-- which value kinds a mutator implements (`character` needs a non-empty value) -/
def appliesInt : Mut → Bool
  | .bitflip | .boundary | .offbyone => true
  | _ => false
def appliesFloat : Mut → Bool
  | .boundary => true
  | _ => false
def appliesSeq (m : Mut) (empty : Bool) : Bool :=
  match m with
  | .stringlen => true
  | .character => !empty
  | _ => false
def appliesMemo : Mut → Bool
  | .offbyone | .memoindex _ => true
  | _ => false

theorem mutateInt_rate1 (hE : Lawful E) (bits : Nat) (bounds : List Int) (m : Mut) (v : Int) (s : σ)
    (ha : appliesInt m = true) (hb : bounds ≠ []) (hbl : bounds.length ≤ 2 ^ 64) :
    ∃ x s', mutateInt E bits bounds m v s 0x3FF0000000000000 = .ok (some x, s') := by
  cases m <;> simp [appliesInt] at ha
  · simp [mutateInt, gate_rate1 E hE]
  · simp only [mutateInt, gate_rate1 E hE]
    have hpos : 0 < bounds.length := List.length_pos_iff.mpr hb
    have := (hE.genRange_in (gate E s 0x3FF0000000000000).2 0 bounds.length hpos hbl).2
    simp only [idx?]
    rw [List.getElem?_eq_getElem this]
    exact ⟨_, _, rfl⟩
  · simp [mutateInt, gate_rate1 E hE]

theorem mutateMemo_rate1 (hE : Lawful E) (m : Mut) (v : Nat) (s : σ) (ha : appliesMemo m = true) :
    ∃ x s', mutateMemo E m v s 0x3FF0000000000000 = .ok (some x, s') := by
  cases m <;> simp [appliesMemo] at ha
  · simp [mutateMemo, gate_rate1 E hE]
  · rename_i u
    cases u <;> simp [mutateMemo, gate_rate1 E hE]

/-! ### C16: what a mutator returns when it fires -/

theorem char_ofNat_toNat (n : Nat) (h : n < 55296) : (Char.ofNat n).toNat = n := by
  unfold Char.ofNat
  have hv : n.isValidChar := Or.inl h
  rw [dif_pos hv]
  simp [Char.ofNatAux, Char.toNat]

theorem idx?_mem {α : Type} {site : String} {l : List α} {i : Nat} {x : α}
    (h : idx? site l i = .ok x) : x ∈ l := by
  unfold idx? at h
  split at h
  · rename_i y hy
    simp only [Except.ok.injEq] at h
    exact h ▸ List.mem_of_getElem? hy
  · simp at h

theorem toU_lt (bits : Nat) (v : Int) : toU bits v < 2 ^ bits := by
  unfold toU
  have hpos : (0 : Int) < ((2 ^ bits : Nat) : Int) := by exact_mod_cast Nat.two_pow_pos bits
  have h1 := Int.emod_nonneg v (Int.ne_of_gt hpos)
  have h2 := Int.emod_lt_of_pos v hpos
  omega

theorem toU_toSigned (bits : Nat) (hb : 0 < bits) (n : Nat) (hn : n < 2 ^ bits) :
    toU bits (Arb.toSigned bits n) = n := by
  have h2 : 2 ^ bits = 2 * 2 ^ (bits - 1) := by
    cases bits with
    | zero => omega
    | succ k => simp [Nat.pow_succ, Nat.mul_comm]
  unfold toU Arb.toSigned
  split
  · have : ((n : Int) - ((2 ^ bits : Nat) : Int)) % ((2 ^ bits : Nat) : Int) = (n : Int) := by
      rw [Int.sub_emod_right]
      exact Int.emod_eq_of_lt (by omega) (by exact_mod_cast hn)
    rw [this]; simp
  · have : (n : Int) % ((2 ^ bits : Nat) : Int) = (n : Int) :=
      Int.emod_eq_of_lt (by omega) (by exact_mod_cast hn)
    rw [this]; simp

/-- **bit-flip** changes exactly one bit: the unsigned images differ by XOR with one power of two -/
theorem bitflip_contract (hE : Lawful E) (bits : Nat) (hb : 0 < bits) (hb64 : bits ≤ 2 ^ 64) (bounds : List Int)
    (v : Int) (s : σ) (rate : UInt64) (x : Int) (s' : σ)
    (h : mutateInt E bits bounds .bitflip v s rate = .ok (some x, s')) :
    ∃ pos, pos < bits ∧ toU bits x = toU bits v ^^^ 2 ^ pos := by
  simp only [mutateInt] at h
  split at h
  · simp at h
  · simp only [Except.ok.injEq, Prod.mk.injEq, Option.some.injEq] at h
    obtain ⟨hx, _⟩ := h
    have hpos := (hE.genRange_in (gate E s rate).2 0 bits hb hb64).2
    refine ⟨(E.genRange (gate E s rate).2 0 bits).1, hpos, ?_⟩
    rw [← hx]
    unfold flipBit
    apply toU_toSigned bits hb
    exact Nat.xor_lt_two_pow (toU_lt bits v) (Nat.pow_lt_pow_right (by decide) hpos)

/-- **boundary** returns one of the listed constants -/
theorem boundary_contract (bits : Nat) (bounds : List Int) (v : Int) (s : σ) (rate : UInt64)
    (x : Int) (s' : σ) (h : mutateInt E bits bounds .boundary v s rate = .ok (some x, s')) :
    x ∈ bounds := by
  simp only [mutateInt] at h
  split at h
  · simp at h
  · split at h
    · rename_i y hy
      simp only [Except.ok.injEq, Prod.mk.injEq, Option.some.injEq] at h
      rw [← h.1]
      exact idx?_mem hy
    · simp at h

theorem boundary_float_contract (v : UInt64) (s : σ) (rate : UInt64) (x : UInt64) (s' : σ)
    (h : mutateFloat E .boundary v s rate = .ok (some x, s')) : x ∈ Gen.boundFloat := by
  simp only [mutateFloat] at h
  split at h
  · simp at h
  · split at h
    · rename_i y hy
      simp only [Except.ok.injEq, Prod.mk.injEq, Option.some.injEq] at h
      rw [← h.1]
      exact idx?_mem hy
    · simp at h

/-- **off-by-one** on integers: exactly ±1 with wrap-around -/
theorem offbyone_contract (bits : Nat) (bounds : List Int) (v : Int) (s : σ) (rate : UInt64)
    (x : Int) (s' : σ) (h : mutateInt E bits bounds .offbyone v s rate = .ok (some x, s')) :
    x = wrap bits (v + 1) ∨ x = wrap bits (v - 1) := by
  simp only [mutateInt] at h
  split at h
  · simp at h
  · simp only [Except.ok.injEq, Prod.mk.injEq, Option.some.injEq] at h
    rw [← h.1]
    split <;> simp

/-- **off-by-one** on memo indices: ±1 saturating at 0 and `usize::MAX` -/
theorem offbyone_memo_contract (v : Nat) (s : σ) (rate : UInt64) (x : Nat) (s' : σ)
    (h : mutateMemo E .offbyone v s rate = .ok (some x, s')) : x = satAdd1 v ∨ x = satSub1 v := by
  simp only [mutateMemo] at h
  split at h
  · simp at h
  · simp only [Except.ok.injEq, Prod.mk.injEq, Option.some.injEq] at h
    rw [← h.1]
    split <;> simp

/-- **memo-index**: at most one away in safe mode, below 1000 in unsafe mode -/
theorem memoindex_contract (hE : Lawful E) (u : Bool) (v : Nat) (s : σ) (rate : UInt64) (x : Nat) (s' : σ)
    (h : mutateMemo E (.memoindex u) v s rate = .ok (some x, s')) :
    (u = false → x = v ∨ x = satAdd1 v ∨ x = satSub1 v) ∧ (u = true → x < 1000) := by
  simp only [mutateMemo] at h
  split at h
  · simp at h
  · cases u
    · simp only [Bool.false_eq_true, if_false, Except.ok.injEq, Prod.mk.injEq, Option.some.injEq] at h
      refine ⟨fun _ => ?_, fun e => by simp at e⟩
      rw [← h.1]
      split
      · exact Or.inr (Or.inl rfl)
      · split
        · exact Or.inr (Or.inr rfl)
        · exact Or.inl rfl
    · simp only [if_true, Except.ok.injEq, Prod.mk.injEq, Option.some.injEq] at h
      refine ⟨fun e => by simp at e, fun _ => ?_⟩
      rw [← h.1]
      exact (hE.genRange_in _ 0 1000 (by decide) (by decide)).2

theorem extendLower_spec : ∀ (n : Nat) (s : σ) (acc : List UInt8),
    ∃ ext, (extendLower E n s acc).1 = acc ++ ext ∧ ext.length = n ∧
      ∀ b ∈ ext, 97 ≤ b.toNat ∧ b.toNat ≤ 122
  | 0, s, acc => ⟨[], by simp [extendLower]⟩
  | n + 1, s, acc => by
    obtain ⟨ext, h1, h2, h3⟩ := extendLower_spec n (E.genU8 s).2 (acc ++ [UInt8.ofNat ((E.genU8 s).1 % 26 + 97)])
    refine ⟨UInt8.ofNat ((E.genU8 s).1 % 26 + 97) :: ext, ?_, by simp [h2], ?_⟩
    · simp only [extendLower]; rw [h1]; simp
    · intro b hb
      rcases List.mem_cons.mp hb with rfl | hb
      · have : (E.genU8 s).1 % 26 + 97 < 256 := by omega
        simp [UInt8.toNat_ofNat, Nat.mod_eq_of_lt this]; omega
      · exact h3 b hb

/-- **string-length** on strings: a prefix, the input plus 1–9 lower-case letters, or the input doubled -/
theorem stringlen_contract (hE : Lawful E) (v : List Char) (s : σ) (rate : UInt64) (x : List Char) (s' : σ)
    (h : mutateString E .stringlen v s rate = .ok (some x, s')) :
    (∃ n, x = v.take n) ∨ (∃ e, x = v ++ e ∧ 1 ≤ e.length ∧ e.length ≤ 9 ∧ ∀ ch ∈ e, 97 ≤ ch.toNat ∧ ch.toNat ≤ 122) ∨
    x = v ++ v := by
  simp only [mutateString] at h
  split at h
  · simp at h
  · split at h
    · split at h
      · simp only [Except.ok.injEq, Prod.mk.injEq, Option.some.injEq] at h
        exact Or.inl ⟨v.length, by rw [← h.1]; simp⟩
      · simp only [Except.ok.injEq, Prod.mk.injEq, Option.some.injEq] at h
        exact Or.inl ⟨_, h.1.symm⟩
    · split at h
      · simp only [Except.ok.injEq, Prod.mk.injEq, Option.some.injEq] at h
        right; left
        obtain ⟨ext, e1, e2, e3⟩ := extendLower_spec E (E.genRange (E.genRange (gate E s rate).2 0 3).2 1 10).1
            (E.genRange (E.genRange (gate E s rate).2 0 3).2 1 10).2 []
        have hr := hE.genRange_in (E.genRange (gate E s rate).2 0 3).2 1 10 (by decide) (by decide)
        simp only [List.nil_append] at e1
        refine ⟨_, h.1.symm, ?_, ?_, ?_⟩
        · simp only [List.length_map, e1, e2]; omega
        · simp only [List.length_map, e1, e2]; omega
        · intro ch hch
          simp only [List.mem_map, e1] at hch
          obtain ⟨b, hb, rfl⟩ := hch
          have := e3 b hb
          have hlt : b.toNat < 256 := b.toNat_lt
          have hv : (Char.ofNat b.toNat).toNat = b.toNat := char_ofNat_toNat _ (by omega)
          rw [hv]; exact this
      · simp only [Except.ok.injEq, Prod.mk.injEq, Option.some.injEq] at h
        exact Or.inr (Or.inr h.1.symm)

/-- **character** on strings: same length, at most one position changed, to a printable character -/
theorem character_contract (v : List Char) (s : σ) (rate : UInt64) (x : List Char) (s' : σ)
    (h : mutateString E .character v s rate = .ok (some x, s')) :
    ∃ i ch, x = v.set i ch ∧ 33 ≤ ch.toNat ∧ ch.toNat ≤ 126 := by
  simp only [mutateString] at h
  split at h
  · simp at h
  · split at h
    · simp only [Except.ok.injEq, Prod.mk.injEq, Option.some.injEq] at h
      refine ⟨_, _, h.1.symm, ?_⟩
      have hlt : (E.genU8 (E.genRange (gate E s rate).2 0 v.length).2).1 % 94 + 33 < 127 := by omega
      have hv := char_ofNat_toNat ((E.genU8 (E.genRange (gate E s rate).2 0 v.length).2).1 % 94 + 33) (by omega)
      rw [hv]; omega
    · simp at h

/-- **character** on byte strings: same length, at most one position changed -/
theorem character_bytes_contract (v : List UInt8) (s : σ) (rate : UInt64) (x : List UInt8) (s' : σ)
    (h : mutateBytes E .character v s rate = .ok (some x, s')) : ∃ i b, x = v.set i b := by
  simp only [mutateBytes] at h
  split at h
  · simp at h
  · split at h
    · simp only [Except.ok.injEq, Prod.mk.injEq, Option.some.injEq] at h
      exact ⟨_, _, h.1.symm⟩
    · simp at h

/-- **type confusion** does nothing in safe mode (and consumes no entropy) -/
theorem typeconfusion_safe (first : Option UInt8) (s : σ) (rate : UInt64) :
    typeConfusion E false first s rate = .ok (none, s) := by
  simp [typeConfusion]

/-- instructions type confusion can write: one complete value-pushing instruction -/
def tcInstrOk (i : Instr) : Bool :=
  match i.op, i.arg with
  | .binInt, .int v => decide (-2147483648 ≤ v) && decide (v < 2147483648)
  | .binFloat, .float _ => true
  | .shortBinUnicode, .bytes p | .shortBinBytes, .bytes p => p == confused
  | .emptyList, .none | .emptyDict, .none | .emptyTuple, .none | .pnone, .none | .newTrue, .none
  | .newFalse, .none => true
  | _, _ => false

theorem opcodeForType_ok (hE : Lawful E) (t : Gen.StackType) (s : σ) :
    tcInstrOk (opcodeForType E t s).1 = true ∧
    Gen.opcodeToType (Gen.asU8 (opcodeForType E t s).1.op) = some t := by
  cases t <;> simp only [opcodeForType]
  · have := hE.genI32_range s
    refine ⟨by simp [tcInstrOk, this.1, this.2], by decide⟩
  · exact ⟨rfl, by decide⟩
  · exact ⟨by simp [tcInstrOk], by decide⟩
  · exact ⟨by simp [tcInstrOk], by decide⟩
  · exact ⟨rfl, by decide⟩
  · exact ⟨rfl, by decide⟩
  · exact ⟨rfl, by decide⟩
  · exact ⟨rfl, by decide⟩
  · cases (E.genBool s).1 <;> exact ⟨rfl, by decide⟩

/-- **type confusion** (unsafe, fired): the emission was a value-pushing opcode and the replacement
is one complete value-pushing instruction of a different type -/
theorem typeconfusion_contract (hE : Lawful E) (u : Bool) (first : Option UInt8) (s : σ) (rate : UInt64)
    (r : Instr) (s' : σ) (h : typeConfusion E u first s rate = .ok (some r, s')) :
    u = true ∧ tcInstrOk r = true ∧
    ∃ b t0 t1, first = some b ∧ Gen.opcodeToType b = some t0 ∧
      Gen.opcodeToType (Gen.asU8 r.op) = some t1 ∧ t1 ≠ t0 := by
  cases u
  · simp [typeConfusion] at h
  · simp only [typeConfusion, Bool.not_true, Bool.false_eq_true, if_false] at h
    split at h
    · simp at h
    · cases first with
      | none => simp at h
      | some b =>
        simp only at h
        cases ht : Gen.opcodeToType b with
        | none => simp [ht] at h
        | some t0 =>
          simp only [ht] at h
          split at h
          · simp at h
          · rename_i w hw
            simp only [Except.ok.injEq, Prod.mk.injEq, Option.some.injEq] at h
            have hmem : w ∈ Gen.allTypes.filter (· != t0) := idx?_mem hw
            have hne : w ≠ t0 := by
              have := (List.mem_filter.mp hmem).2
              simpa using this
            obtain ⟨o1, o2⟩ := opcodeForType_ok E hE w
              (E.chooseIndex (gate E s rate).2 (Gen.allTypes.filter (· != t0)).length).2
            rw [← h.1]
            exact ⟨rfl, o1, b, t0, w, rfl, ht, o2, hne⟩

end Mutators
end PFV

namespace PFV
namespace Mutators
variable {σ : Type} (E : Entropy σ)

/-- the first-`Some`-wins loop: mutators that do not answer are skipped (they may consume
entropy), the first one that answers decides, later ones are never consulted -/
theorem firstSome_first {α : Type} (f : Mut → α → σ → UInt64 → Except Panic (Option α × σ)) (rate : UInt64)
    (v : α) (m : Mut) (post : List Mut)
    (hap : ∀ s, ∃ x s', f m v s rate = .ok (some x, s')) :
    ∀ (pre : List Mut) (s : σ), (∀ p ∈ pre, ∀ s, ∃ s', f p v s rate = .ok (none, s')) →
      ∃ s0 x s', f m v s0 rate = .ok (some x, s') ∧
        firstSome f (pre ++ m :: post) v s rate = .ok (x, s', true)
  | [], s, _ => by
    obtain ⟨x, s', h⟩ := hap s
    exact ⟨s, x, s', h, by simp [firstSome, h]⟩
  | p :: pre, s, hna => by
    obtain ⟨s1, h1⟩ := hna p (List.mem_cons_self) s
    obtain ⟨s0, x, s', h2, h3⟩ := firstSome_first f rate v m post hap pre s1
      (fun q hq => hna q (List.mem_cons_of_mem _ hq))
    exact ⟨s0, x, s', h2, by simp [firstSome, h1, h3]⟩

theorem mutateFloat_rate1 (hE : Lawful E) (m : Mut) (v : UInt64) (s : σ) (ha : appliesFloat m = true) :
    ∃ x s', mutateFloat E m v s 0x3FF0000000000000 = .ok (some x, s') := by
  cases m <;> simp [appliesFloat] at ha
  simp only [mutateFloat, gate_rate1 E hE]
  have hpos : 0 < Gen.boundFloat.length := by decide
  have := (hE.genRange_in (gate E s 0x3FF0000000000000).2 0 Gen.boundFloat.length hpos (by decide)).2
  simp only [idx?]
  rw [List.getElem?_eq_getElem this]
  exact ⟨_, _, rfl⟩

theorem mutateString_rate1 (hE : Lawful E) (m : Mut) (v : List Char) (s : σ)
    (ha : appliesSeq m v.isEmpty = true) (hv : v.length ≤ 2 ^ 64) (hu : utf8Len v ≤ 2 ^ 64) :
    ∃ x s', mutateString E m v s 0x3FF0000000000000 = .ok (some x, s') := by
  cases m <;> simp [appliesSeq] at ha
  · simp only [mutateString, gate_rate1 E hE, Bool.false_eq_true, if_false]
    by_cases h0 : (E.genRange (gate E s 0x3FF0000000000000).2 0 3).1 = 0
    · by_cases he : v.isEmpty = true <;> simp only [h0, he, if_true, if_false] <;> exact ⟨_, _, rfl⟩
    · by_cases h1 : (E.genRange (gate E s 0x3FF0000000000000).2 0 3).1 = 1 <;>
        simp only [h0, h1, if_true, if_false] <;> exact ⟨_, _, rfl⟩
  · have hne : v.isEmpty = false := by simpa using ha
    simp only [mutateString, gate_rate1 E hE, hne, Bool.or_false, Bool.false_eq_true, if_false]
    have hpos : 0 < v.length := by
      cases v with
      | nil => simp at hne
      | cons _ _ => simp
    have := (hE.genRange_in (gate E s 0x3FF0000000000000).2 0 v.length hpos hv).2
    simp only [this, if_true]
    exact ⟨_, _, rfl⟩

theorem mutateBytes_rate1 (hE : Lawful E) (m : Mut) (v : List UInt8) (s : σ)
    (ha : appliesSeq m v.isEmpty = true) (hv : v.length ≤ 2 ^ 64) :
    ∃ x s', mutateBytes E m v s 0x3FF0000000000000 = .ok (some x, s') := by
  cases m <;> simp [appliesSeq] at ha
  · simp only [mutateBytes, gate_rate1 E hE, Bool.false_eq_true, if_false]
    by_cases h0 : (E.genRange (gate E s 0x3FF0000000000000).2 0 3).1 = 0
    · by_cases he : v.isEmpty = true
      · simp only [h0, he, if_true]; exact ⟨_, _, rfl⟩
      · have hpos : 0 < v.length := by
          cases v with
          | nil => simp at he
          | cons _ _ => simp
        have := (hE.genRange_in (E.genRange (gate E s 0x3FF0000000000000).2 0 3).2 0 v.length hpos hv).2
        have hle : (E.genRange (E.genRange (gate E s 0x3FF0000000000000).2 0 3).2 0 v.length).1 ≤ v.length := by omega
        simp only [h0, he, hle, if_true, if_false, Bool.false_eq_true]
        exact ⟨_, _, rfl⟩
    · by_cases h1 : (E.genRange (gate E s 0x3FF0000000000000).2 0 3).1 = 1 <;>
        simp only [h0, h1, if_true, if_false] <;> exact ⟨_, _, rfl⟩
  · have hne : v.isEmpty = false := by simpa using ha
    simp only [mutateBytes, gate_rate1 E hE, hne, Bool.or_false, Bool.false_eq_true, if_false]
    have hpos : 0 < v.length := by
      cases v with
      | nil => simp at hne
      | cons _ _ => simp
    have := (hE.genRange_in (gate E s 0x3FF0000000000000).2 0 v.length hpos hv).2
    simp only [this, if_true]
    exact ⟨_, _, rfl⟩

/-- a mutator that does not implement a value kind answers `None` without touching the entropy -/
theorem mutateInt_na (bits : Nat) (bounds : List Int) (m : Mut) (v : Int) (s : σ) (rate : UInt64)
    (h : appliesInt m = false) : mutateInt E bits bounds m v s rate = .ok (none, s) := by
  cases m <;> simp [appliesInt] at h <;> rfl

theorem mutateFloat_na (m : Mut) (v : UInt64) (s : σ) (rate : UInt64)
    (h : appliesFloat m = false) : mutateFloat E m v s rate = .ok (none, s) := by
  cases m <;> simp [appliesFloat] at h <;> rfl

theorem mutateMemo_na (m : Mut) (v : Nat) (s : σ) (rate : UInt64)
    (h : appliesMemo m = false) : mutateMemo E m v s rate = .ok (none, s) := by
  cases m <;> simp [appliesMemo] at h <;> rfl

/-- for sequences a non-applicable mutator still answers `None` (the character mutator on an
empty value has already drawn its gate) -/
theorem mutateString_na (m : Mut) (v : List Char) (s : σ) (rate : UInt64)
    (h : appliesSeq m v.isEmpty = false) : ∃ s', mutateString E m v s rate = .ok (none, s') := by
  cases m <;> simp [appliesSeq] at h <;> try exact ⟨s, rfl⟩
  refine ⟨(gate E s rate).2, ?_⟩
  simp [mutateString, h]

theorem mutateBytes_na (m : Mut) (v : List UInt8) (s : σ) (rate : UInt64)
    (h : appliesSeq m v.isEmpty = false) : ∃ s', mutateBytes E m v s rate = .ok (none, s') := by
  cases m <;> simp [appliesSeq] at h <;> try exact ⟨s, rfl⟩
  refine ⟨(gate E s rate).2, ?_⟩
  simp [mutateBytes, h]

end Mutators
end PFV
