/-
The kind-compatibility relation between the generator's simulated VM (`Sim`) and the
reference machine (`Ref`), and the lemmas that let MARK-delimited operations commute with it.
-/
import PFV.Sim
import PFV.Ref
import PFV.Compat
namespace PFV
open Ref (RKind RState RMemo)

/-- slot-by-slot compatibility of two stacks of equal depth -/
inductive Rel : List Kind → List RKind → Prop
  | nil : Rel [] []
  | cons {k r ks rs} : compat k r = true → Rel ks rs → Rel (k :: ks) (r :: rs)

/-- memo tables with the same keys in the same order and compatible kinds -/
inductive MRel : Memo → RMemo → Prop
  | nil : MRel [] []
  | cons {i k r m rm} : compat k r = true → MRel m rm → MRel ((i, k) :: m) ((i, r) :: rm)

structure SRel (s : State) (r : RState) : Prop where
  stack : Rel s.stack r.stack
  memo : MRel s.memo r.memo

theorem compat_mark_left {r : RKind} : compat .mark r = true ↔ r = .mark := by
  cases r <;> simp [compat]

theorem compat_mark_right {k : Kind} : compat k .mark = true ↔ k = .mark := by
  cases k <;> simp [compat]

theorem compat_any {k : Kind} (h : k ≠ .mark) (h1 : k ≠ .extension ∨ True) : compat k .any = true := by
  cases k <;> simp_all [compat]

theorem Rel.length_eq {a b} (h : Rel a b) : a.length = b.length := by
  induction h with
  | nil => rfl
  | cons _ _ ih => simp [ih]

theorem Rel.drop {a b} (h : Rel a b) (n : Nat) : Rel (a.drop n) (b.drop n) := by
  induction n generalizing a b with
  | zero => simpa using h
  | succ n ih =>
    cases h with
    | nil => simpa using Rel.nil
    | cons _ ht => simpa using ih ht

theorem MRel.length_eq {a b} (h : MRel a b) : a.length = b.length := by
  induction h with
  | nil => rfl
  | cons _ _ ih => simp [ih]

theorem MRel.find {m rm} (h : MRel m rm) (i : Nat) :
    (Memo.find? m i = none ∧ RMemo.find? rm i = none) ∨
    (∃ k r, Memo.find? m i = some k ∧ RMemo.find? rm i = some r ∧ compat k r = true) := by
  induction h with
  | nil => left; simp [Memo.find?, RMemo.find?]
  | @cons j k r m rm hc _ ih =>
    by_cases hj : j = i
    · right; exact ⟨k, r, by simp [Memo.find?, hj], by simp [RMemo.find?, hj], hc⟩
    · simpa [Memo.find?, RMemo.find?, hj] using ih

theorem MRel.insert {m rm} (h : MRel m rm) (i : Nat) {k r} (hc : compat k r = true) :
    MRel (Memo.insert m i k) (RMemo.insert rm i r) := by
  induction h with
  | nil => exact MRel.cons hc MRel.nil
  | @cons j k' r' m rm hc' _ ih =>
    by_cases hj : j = i
    · simpa [Memo.insert, RMemo.insert, hj] using MRel.cons hc (by assumption)
    · simpa [Memo.insert, RMemo.insert, hj] using MRel.cons hc' ih

/-- the MARK split commutes with the relation -/
theorem split_rel {a b} (h : Rel a b) :
    (splitMark a = none ∧ Ref.rsplitMark b = none) ∨
    (∃ a1 a2 b1 b2, splitMark a = some (a1, a2) ∧ Ref.rsplitMark b = some (b1, b2) ∧
        Rel a1 b1 ∧ Rel a2 b2) := by
  induction h with
  | nil => left; simp [splitMark, Ref.rsplitMark]
  | @cons k r ks rs hc ht ih =>
    by_cases hk : k = .mark
    · subst hk
      have hr : r = .mark := compat_mark_left.mp hc
      subst hr
      right
      exact ⟨[], ks, [], rs, by simp [splitMark], by simp [Ref.rsplitMark], Rel.nil, ht⟩
    · have hr : r ≠ .mark := fun e => hk (compat_mark_right.mp (e ▸ hc))
      rcases ih with ⟨h1, h2⟩ | ⟨a1, a2, b1, b2, h1, h2, h3, h4⟩
      · left; simp [splitMark, Ref.rsplitMark, hk, hr, h1, h2]
      · right
        exact ⟨k :: a1, a2, r :: b1, b2, by simp [splitMark, hk, h1], by simp [Ref.rsplitMark, hr, h2],
          Rel.cons hc h3, h4⟩

theorem hasMark_iff_split (a : List Kind) : hasMark a = true ↔ (splitMark a).isSome = true := by
  induction a with
  | nil => simp [hasMark, splitMark]
  | cons k t ih =>
    by_cases hk : k = .mark
    · simp [hasMark, splitMark, hk]
    · have : (k == Kind.mark) = false := by simpa using hk
      simp only [hasMark, List.any_cons, this, Bool.false_or] at ih ⊢
      rw [ih]
      cases h : splitMark t <;> simp [splitMark, hk, h]

end PFV
