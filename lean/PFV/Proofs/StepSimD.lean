/- C17 one-step simulation, part D: MARK-delimited opcodes. -/
import PFV.Proofs.StepSim
namespace PFV
open Ref (RKind RState RMemo)

variable {c : Cfg} {a : Arg}

theorem splitMark_cons_ne {k : Kind} {t : List Kind} (hk : k ≠ .mark) :
    splitMark (k :: t) = (splitMark t).map (fun p => (k :: p.1, p.2)) := by
  cases h : splitMark t <;> simp [splitMark, hk, h]

/-- with an even number of items above the MARK, the key/value loop stops exactly at the MARK -/
theorem dictPop_split : ∀ (st a1 a2 : List Kind), splitMark st = some (a1, a2) →
    a1.length % 2 = 0 → dictPop st = a2
  | [], _, _, h, _ => by simp [splitMark] at h
  | [v], a1, a2, h, he => by
    by_cases hv : v = .mark
    · subst hv; simp [splitMark] at h; simp [dictPop, h.2]
    · simp [splitMark, hv] at h
  | v :: k :: t', a1, a2, h, he => by
    by_cases hv : v = .mark
    · subst hv; simp [splitMark] at h; simp [dictPop, h.2]
    · by_cases hk : k = .mark
      · subst hk
        simp [splitMark, hv] at h
        obtain ⟨h1, _⟩ := h
        subst h1
        simp at he
      · rw [splitMark_cons_ne hv, splitMark_cons_ne hk] at h
        cases hs : splitMark t' with
        | none => simp [hs] at h
        | some p =>
          obtain ⟨p1, p2⟩ := p
          simp [hs] at h
          obtain ⟨h1, h2⟩ := h
          subst h1 h2
          have : dictPop t' = p2 := dictPop_split t' p1 p2 hs (by simp at he; omega)
          simp [dictPop, hv, this]

theorem Rel.getLast {a b} (h : Rel a b) {k : Kind} (hk : a.getLast? = some k) :
    ∃ r, b.getLast? = some r ∧ compat k r = true := by
  induction h with
  | nil => simp at hk
  | @cons k' r' ks rs hc ht ih =>
    cases ht with
    | nil => simp at hk; subst hk; exact ⟨r', by simp, hc⟩
    | @cons k2 r2 ks2 rs2 hc2 ht2 =>
      have : (k2 :: ks2).getLast? = some k := by simpa [List.getLast?_cons_cons] using hk
      obtain ⟨r, hr, hcr⟩ := ih this
      exact ⟨r, by simpa [List.getLast?_cons_cons] using hr, hcr⟩

/-- what the guards of the MARK-consuming opcodes give once the split is known -/
theorem split_of_hasMark {st : List Kind} (h : hasMark st = true) :
    ∃ a1 a2, splitMark st = some (a1, a2) := by
  have := (hasMark_iff_split st).mp h
  cases hs : splitMark st with
  | none => simp [hs] at this
  | some p => exact ⟨p.1, p.2, rfl⟩

section
variable {st : List Kind} {m : Memo} {pe : Bool} {rst : List RKind} {rm : RMemo}

/-- POP_MARK, LIST, TUPLE, FROZENSET -/
theorem step_mark_simple (hs : Rel st rst) (hm : MRel m rm) (hd : Dense m) (op : Op)
    (hop : op = .popMark ∨ op = .list ∨ op = .tuple ∨ op = .frozenSet)
    (hc : canEmit c ⟨st, m, pe⟩ op = true) : StepGoal c.version ⟨st, m, pe⟩ ⟨rst, rm⟩ op a := by
  have hh : hasMark st = true := by rcases hop with rfl | rfl | rfl | rfl <;> simpa [canEmit] using hc
  obtain ⟨a1, a2, hsp⟩ := split_of_hasMark hh
  rcases split_rel hs with ⟨h1, _⟩ | ⟨a1', a2', b1, b2, h1, h2, h3, h4⟩
  · simp [h1] at hsp
  · rw [hsp] at h1; injection h1 with h1; injection h1 with e1 e2; subst e1 e2
    rcases hop with rfl | rfl | rfl | rfl
    · exact goal_of (s' := ⟨a2, m, pe⟩) (r' := ⟨b2, rm⟩) (by simp [process, popToMark, hsp])
        (by simp [Ref.step, h2]) ⟨h4, hm⟩ hd
    · exact goal_of (s' := ⟨.list :: a2, m, pe⟩) (r' := ⟨.list :: b2, rm⟩) (by simp [process, popToMark, hsp])
        (by simp [Ref.step, h2]) ⟨Rel.cons (by decide) h4, hm⟩ hd
    · exact goal_of (s' := ⟨.tuple :: a2, m, pe⟩) (r' := ⟨.tuple :: b2, rm⟩) (by simp [process, popToMark, hsp])
        (by simp [Ref.step, h2]) ⟨Rel.cons (by decide) h4, hm⟩ hd
    · exact goal_of (s' := ⟨.frozenSet :: a2, m, pe⟩) (r' := ⟨.frozenset :: b2, rm⟩) (by simp [process, popToMark, hsp])
        (by simp [Ref.step, h2]) ⟨Rel.cons (by decide) h4, hm⟩ hd

theorem step_dict (hs : Rel st rst) (hm : MRel m rm) (hd : Dense m)
    (hc : canEmit c ⟨st, m, pe⟩ .dict = true) : StepGoal c.version ⟨st, m, pe⟩ ⟨rst, rm⟩ .dict a := by
  simp only [canEmit, Bool.and_eq_true] at hc
  obtain ⟨hh, hcnt⟩ := hc
  obtain ⟨a1, a2, hsp⟩ := split_of_hasMark hh
  simp only [countToMark, hsp, Option.map_some, Bool.and_eq_true, decide_eq_true_eq, beq_iff_eq] at hcnt
  rcases split_rel hs with ⟨h1, _⟩ | ⟨a1', a2', b1, b2, h1, h2, h3, h4⟩
  · simp [h1] at hsp
  · rw [hsp] at h1; injection h1 with h1; injection h1 with e1 e2; subst e1 e2
    have hlen : b1.length % 2 = 0 := by rw [← h3.length_eq]; exact hcnt.2
    exact goal_of (s' := ⟨.dict :: a2, m, pe⟩) (r' := ⟨.dict :: b2, rm⟩)
      (by simp [process, dictPop_split st a1 a2 hsp hcnt.2])
      (by simp [Ref.step, h2, Ref.chk, hlen]) ⟨Rel.cons (by decide) h4, hm⟩ hd

/-- APPENDS, SETITEMS, ADDITEMS: a typed container directly below the MARK -/
theorem step_mark_target (hs : Rel st rst) (hm : MRel m rm) (hd : Dense m) (op : Op)
    (hop : op = .appends ∨ op = .setItems ∨ op = .addItems)
    (hc : canEmit c ⟨st, m, pe⟩ op = true) : StepGoal c.version ⟨st, m, pe⟩ ⟨rst, rm⟩ op a := by
  have hh : hasMark st = true := by
    rcases hop with rfl | rfl | rfl <;> (simp only [canEmit, Bool.and_eq_true] at hc; exact hc.1.1)
  obtain ⟨a1, a2, hsp⟩ := split_of_hasMark hh
  rcases split_rel hs with ⟨h1, _⟩ | ⟨a1', a2', b1, b2, h1, h2, h3, h4⟩
  · simp [h1] at hsp
  · rw [hsp] at h1; injection h1 with h1; injection h1 with e1 e2; subst e1 e2
    rcases hop with rfl | rfl | rfl
    · simp only [canEmit, Bool.and_eq_true, belowMark, hsp, beq_iff_eq] at hc
      obtain ⟨⟨_, hb⟩, _⟩ := hc
      cases a2 with
      | nil => simp at hb
      | cons k t =>
        simp at hb; subst hb
        obtain ⟨rl, rt, rfl, hl, ht⟩ := h4.cons_inv
        exact goal_of (s' := ⟨.list :: t, m, pe⟩) (r' := ⟨rl :: rt, rm⟩) (by simp [process, popToMark, hsp])
          (by simp [Ref.step, h2, Ref.chk, compat_list hl]) ⟨Rel.cons hl ht, hm⟩ hd
    · simp only [canEmit, Bool.and_eq_true, belowMark, hsp, beq_iff_eq, countToMark, Option.map_some,
        decide_eq_true_eq] at hc
      obtain ⟨⟨_, hb⟩, hcnt⟩ := hc
      cases a2 with
      | nil => simp at hb
      | cons k t =>
        simp at hb; subst hb
        obtain ⟨rl, rt, rfl, hl, ht⟩ := h4.cons_inv
        have hlen : b1.length % 2 = 0 := by rw [← h3.length_eq]; exact hcnt.2
        exact goal_of (s' := ⟨.dict :: t, m, pe⟩) (r' := ⟨rl :: rt, rm⟩)
          (by simp [process, dictPop_split st a1 _ hsp hcnt.2])
          (by simp [Ref.step, h2, Ref.chk, compat_dict hl, hlen]) ⟨Rel.cons hl ht, hm⟩ hd
    · simp only [canEmit, Bool.and_eq_true, belowMark, hsp, beq_iff_eq] at hc
      obtain ⟨⟨_, hb⟩, _⟩ := hc
      cases a2 with
      | nil => simp at hb
      | cons k t =>
        simp at hb; subst hb
        obtain ⟨rl, rt, rfl, hl, ht⟩ := h4.cons_inv
        exact goal_of (s' := ⟨.set :: t, m, pe⟩) (r' := ⟨rl :: rt, rm⟩) (by simp [process, popToMark, hsp])
          (by simp [Ref.step, h2, Ref.chk, compat_set hl]) ⟨Rel.cons hl ht, hm⟩ hd

theorem step_inst (hs : Rel st rst) (hm : MRel m rm) (hd : Dense m)
    (hc : canEmit c ⟨st, m, pe⟩ .inst = true) (ha : argOK ⟨st, m, pe⟩ .inst a = true) :
    StepGoal c.version ⟨st, m, pe⟩ ⟨rst, rm⟩ .inst a := by
  simp only [canEmit, Bool.and_eq_true] at hc
  obtain ⟨a1, a2, hsp⟩ := split_of_hasMark hc.1
  have ha' : (a != Arg.none) = true := by simpa [argOK, isGetFam, isPutFam, needsArg] using ha
  rcases split_rel hs with ⟨h1, _⟩ | ⟨a1', a2', b1, b2, h1, h2, h3, h4⟩
  · simp [h1] at hsp
  · rw [hsp] at h1; injection h1 with h1; injection h1 with e1 e2; subst e1 e2
    refine goal_of (s' := ⟨.obj :: a2, m, pe⟩) (r' := ⟨.object :: b2, rm⟩) ?_
      (by simp [Ref.step, h2]) ⟨Rel.cons (by decide) h4, hm⟩ hd
    cases a <;> first | exact absurd ha' (by decide) | simp [process, popToMark, hsp]

theorem step_obj (hs : Rel st rst) (hm : MRel m rm) (hd : Dense m)
    (hc : canEmit c ⟨st, m, pe⟩ .obj = true) :
    StepGoal c.version ⟨st, m, pe⟩ ⟨rst, rm⟩ .obj a := by
  simp only [canEmit, Bool.and_eq_true] at hc
  obtain ⟨a1, a2, hsp⟩ := split_of_hasMark hc.1
  have hab := hc.2
  simp only [aboveMark, hsp] at hab
  rcases split_rel hs with ⟨h1, _⟩ | ⟨a1', a2', b1, b2, h1, h2, h3, h4⟩
  · simp [h1] at hsp
  · rw [hsp] at h1; injection h1 with h1; injection h1 with e1 e2; subst e1 e2
    cases hl : a1.getLast? with
    | none => simp [hl] at hab
    | some k =>
      simp only [hl] at hab
      obtain ⟨rk, hrk, hck⟩ := h3.getLast hl
      have hne : a1.isEmpty = false := by
        cases a1 with
        | nil => simp at hl
        | cons _ _ => rfl
      exact goal_of (s' := ⟨.obj :: a2, m, pe⟩) (r' := ⟨.object :: b2, rm⟩)
        (by simp [process, hsp, hne])
        (by simp [Ref.step, h2, Ref.chk, hrk, compat_callable hab hck]) ⟨Rel.cons (by decide) h4, hm⟩ hd

end
end PFV
