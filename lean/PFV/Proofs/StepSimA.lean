/- C17 one-step simulation, part A: opcodes that only push. -/
import PFV.Proofs.StepSim
namespace PFV
open Ref (RKind RState RMemo)

variable {c : Cfg} {s : State} {r : RState} {a : Arg}

/-- opcodes whose simulated and reference effect is an unconditional push -/
theorem step_push_plain (hR : SRel s r) (hd : Dense s.memo) (op : Op)
    (hop : op = .mark ∨ op = .emptyList ∨ op = .emptyTuple ∨ op = .emptyDict ∨ op = .emptySet ∨
      op = .long ∨ op = .string ∨ op = .shortBinUnicode ∨ op = .unicode ∨ op = .binUnicode ∨
      op = .binUnicode8 ∨ op = .binString ∨ op = .shortBinString ∨ op = .binBytes ∨
      op = .shortBinBytes ∨ op = .binBytes8 ∨ op = .byteArray8 ∨ op = .pnone ∨ op = .newTrue ∨
      op = .newFalse ∨ op = .float ∨ op = .ext1 ∨ op = .ext2 ∨ op = .ext4 ∨ op = .nextBuffer) :
    StepGoal c.version s r op a := by
  rcases hop with h | h | h | h | h | h | h | h | h | h | h | h | h | h | h | h | h | h | h | h | h | h | h | h | h <;>
    subst h <;> exact goal_push hR hd rfl rfl (by decide)

theorem hasArg_of_ne {a : Arg} (h : (a != Arg.none) = true) :
    (match a with | .none => false | _ => true) = true := by
  cases a <;> first | rfl | exact absurd h (by decide)

theorem ne_none_of_argOK {op : Op} (hn : needsArg op = true) (hg : isGetFam op = false)
    (hp : isPutFam op = false) (ha : argOK s op a = true) : (a != Arg.none) = true := by
  simpa [argOK, hn, hg, hp] using ha

/-- opcodes that push when their argument is present (it always is: `argOK`) -/
theorem step_push_arg (hR : SRel s r) (hd : Dense s.memo) (op : Op)
    (hop : op = .binInt ∨ op = .binInt1 ∨ op = .binInt2 ∨ op = .long1 ∨ op = .long4 ∨
      op = .binFloat ∨ op = .glob ∨ op = .persID)
    (ha : argOK s op a = true) : StepGoal c.version s r op a := by
  rcases hop with h | h | h | h | h | h | h | h <;> subst h
  · have ha' := ne_none_of_argOK (by decide) (by decide) (by decide) ha
    cases a <;> first | exact absurd ha' (by decide) | exact goal_push (k := .int) hR hd rfl rfl (by decide)
  · have ha' := ne_none_of_argOK (by decide) (by decide) (by decide) ha
    cases a <;> first | exact absurd ha' (by decide) | exact goal_push (k := .int) hR hd rfl rfl (by decide)
  · have ha' := ne_none_of_argOK (by decide) (by decide) (by decide) ha
    cases a <;> first | exact absurd ha' (by decide) | exact goal_push (k := .int) hR hd rfl rfl (by decide)
  · have ha' := ne_none_of_argOK (by decide) (by decide) (by decide) ha
    cases a <;> first | exact absurd ha' (by decide) | exact goal_push (k := .int) hR hd rfl rfl (by decide)
  · have ha' := ne_none_of_argOK (by decide) (by decide) (by decide) ha
    cases a <;> first | exact absurd ha' (by decide) | exact goal_push (k := .int) hR hd rfl rfl (by decide)
  · have ha' := ne_none_of_argOK (by decide) (by decide) (by decide) ha
    cases a <;> first | exact absurd ha' (by decide) | exact goal_push (k := .float) hR hd rfl rfl (by decide)
  · have ha' := ne_none_of_argOK (by decide) (by decide) (by decide) ha
    cases a <;> first | exact absurd ha' (by decide) | exact goal_push (k := .callable) hR hd rfl rfl (by decide)
  · have ha' := ne_none_of_argOK (by decide) (by decide) (by decide) ha
    cases a <;> first | exact absurd ha' (by decide) | exact goal_push (k := .string) hR hd rfl rfl (by decide)

theorem process_int_kind (v : Nat) (s : State) (a : Arg) :
    ∃ k, (k = Kind.bool ∨ k = Kind.int) ∧ process v s .int a = { s with stack := k :: s.stack } := by
  unfold process
  simp only []
  repeat' split
  all_goals first
    | exact ⟨.bool, Or.inl rfl, rfl⟩
    | exact ⟨.int, Or.inr rfl, rfl⟩

theorem step_int (hR : SRel s r) (hd : Dense s.memo) : StepGoal c.version s r .int a := by
  obtain ⟨k, hk, hp⟩ := process_int_kind c.version s a
  rcases hk with rfl | rfl
  · exact goal_push hR hd hp rfl (by decide)
  · exact goal_push hR hd hp rfl (by decide)

end PFV
