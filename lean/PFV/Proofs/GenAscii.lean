/-
C05, the 7-bit half: a protocol-0 pickle written by the exact generator consists of 7-bit bytes only —
for every configuration without an unsafe type-confusion mutator (that mutator's replacements are
binary opcodes of protocol 1), every lawful entropy source.

Parameters taken as given, checked on the real data by S3: `FloatAscii` (Rust's `{}` for an `f64`
prints 7-bit characters) and `ModsOK` (module names pass the `escape_decode`+ASCII acceptor, which
rejects every byte ≥ 0x80 — `escapeAsciiOk_ascii`).
-/
import PFV.Proofs.GenCount
import PFV.Proofs.GenRun
namespace PFV
open Mutators Lex Enc

def FloatAscii (fmt : UInt64 → List UInt8) : Prop := ∀ b, ∀ x ∈ fmt b, x < 0x80

/-- all bytes are 7-bit -/
def AsciiL (l : List UInt8) : Prop := ∀ b ∈ l, b < 0x80

theorem asciiL_nil : AsciiL [] := by intro b hb; simp at hb
theorem asciiL_append {a b : List UInt8} (ha : AsciiL a) (hb : AsciiL b) : AsciiL (a ++ b) := by
  intro x hx
  rcases List.mem_append.mp hx with h | h
  · exact ha x h
  · exact hb x h
theorem asciiL_cons {a : UInt8} {l : List UInt8} (ha : a < 0x80) (hl : AsciiL l) : AsciiL (a :: l) := by
  intro x hx
  rcases List.mem_cons.mp hx with h | h
  · rw [h]; exact ha
  · exact hl x h

theorem ascii_of_printable {b : UInt8} (h : printable b = true) : b < 0x80 := (printable_facts b h).2.2.2

theorem asciiL_of_printable {l : List UInt8} (h : ∀ b ∈ l, printable b = true) : AsciiL l :=
  fun b hb => ascii_of_printable (h b hb)

theorem showNat_ascii (n : Nat) : AsciiL (showNat n) := by
  obtain ⟨_, hd, _⟩ := showNat_spec n
  exact fun b hb => ascii_of_printable (G.isDigit_plain b (hd b hb)).1

theorem showInt_ascii (v : Int) : AsciiL (showInt v) := by
  unfold showInt
  split
  · exact asciiL_cons (by decide) (showNat_ascii _)
  · exact showNat_ascii _

theorem escapeString_ascii : ∀ (l : List UInt8), (∀ b ∈ l, printable b = true) → AsciiL (escapeString l)
  | [], _ => asciiL_nil
  | b :: t, h => by
    have hb := ascii_of_printable (h b (by simp))
    have ih := escapeString_ascii t (fun x hx => h x (List.mem_cons_of_mem _ hx))
    simp only [escapeString]
    apply asciiL_append _ ih
    repeat' split
    all_goals
      first
        | exact asciiL_cons (by decide) (asciiL_cons (by decide) asciiL_nil)
        | exact asciiL_cons hb asciiL_nil

theorem escapeBackslash_ascii : ∀ (l : List UInt8), (∀ b ∈ l, printable b = true) → AsciiL (escapeBackslash l)
  | [], _ => asciiL_nil
  | b :: t, h => by
    have hb := ascii_of_printable (h b (by simp))
    have ih := escapeBackslash_ascii t (fun x hx => h x (List.mem_cons_of_mem _ hx))
    simp only [escapeBackslash]
    apply asciiL_append _ ih
    split
    · exact asciiL_cons (by decide) (asciiL_cons (by decide) asciiL_nil)
    · exact asciiL_cons hb asciiL_nil

/-! ### the `escape_decode`+ASCII acceptor rejects every 8-bit byte -/

theorem estep_hi (st : ESt) (b : UInt8) (hb : ¬ b < 0x80) : estep st b = .bad := by
  revert hb
  revert b
  cases st
  case o1 hi => cases hi <;> (apply forall_uint8; decide +kernel)
  case o2 hi => cases hi <;> (apply forall_uint8; decide +kernel)
  all_goals (apply forall_uint8; decide +kernel)

theorem foldl_bad : ∀ (l : List UInt8), l.foldl estep .bad = .bad
  | [] => rfl
  | _ :: t => by simp only [List.foldl_cons, estep]; exact foldl_bad t

theorem foldl_hi : ∀ (l : List UInt8) (st : ESt), (∃ b ∈ l, ¬ b < 0x80) → l.foldl estep st = .bad
  | [], _, h => by obtain ⟨b, hb, _⟩ := h; simp at hb
  | a :: t, st, h => by
    simp only [List.foldl_cons]
    by_cases ha : a < 0x80
    · obtain ⟨b, hb, hh⟩ := h
      rcases List.mem_cons.mp hb with e | e
      · exact absurd (e ▸ ha) hh
      · exact foldl_hi t _ ⟨b, e, hh⟩
    · rw [estep_hi st a ha]; exact foldl_bad t

theorem escapeAsciiOk_ascii (l : List UInt8) (h : escapeAsciiOk l = true) : AsciiL l := by
  intro b hb
  apply Decidable.byContradiction
  intro hh
  have := foldl_hi l .norm ⟨b, hb, hh⟩
  simp [escapeAsciiOk, this, eAccept] at h

namespace G
variable {σ : Type} (E : Entropy σ) (X : Ext) (c : Cfg)

/-- the encoding of an instruction is 7-bit -/
def AsciiI (i : Instr) : Prop := AsciiL (Enc.encode i)

theorem asciiI_plain (o : Op) (h : Gen.asU8 o < 0x80) : AsciiI ⟨o, .none⟩ := by
  unfold AsciiI Enc.encode
  have : Enc.encodeArg o .none = [] := by cases o <;> rfl
  simp only [this]
  exact asciiL_cons h asciiL_nil

theorem ascii_int (v : Int) : AsciiI ⟨.int, .int v⟩ := by
  show AsciiL (Gen.asU8 .int :: (showInt v ++ [nl]))
  exact asciiL_cons (by decide) (asciiL_append (showInt_ascii _) (asciiL_cons (by decide) asciiL_nil))
theorem ascii_long (v : Int) : AsciiI ⟨.long, .int v⟩ := by
  show AsciiL (Gen.asU8 .long :: (showInt v ++ [0x4c, nl]))
  exact asciiL_cons (by decide) (asciiL_append (showInt_ascii _) (asciiL_cons (by decide) (asciiL_cons (by decide) asciiL_nil)))

theorem table0_intLike : ∀ o ∈ (Gen.table 0).filter isIntLike, o = .int ∨ o = .long := by decide

theorem emitInt_ascii (hv : c.version = 0) (s s' : σ) (i : Instr) (h : emitInt E c s = .ok (some i, s')) : AsciiI i := by
  simp only [emitInt, hv] at h
  split at h
  · simp at h
  · rename_i chosen hch
    have hc := table0_intLike chosen (idx?_mem hch)
    split at h
    · simp at h
    · simp only [Except.ok.injEq, Prod.mk.injEq, Option.some.injEq] at h
      rw [← h.1]
      rcases hc with e | e <;> subst e
      · exact ascii_int _
      · exact ascii_long _


/-- what `emit_string` writes for STRING / UNICODE: the escaping of a printable 7-bit string -/
theorem emitStr_shape (hE : Lawful E) (op : Op) (s s' : σ) (oi : Option Instr)
    (h : emitStr E c op s = .ok (oi, s')) :
    ∃ cs, PStr cs ∧
      (op = .string → oi = some ⟨.string, .bytes ([0x27] ++ Enc.escapeString (utf8 cs) ++ [0x27])⟩) ∧
      (op = .unicode → oi = some ⟨.unicode, .bytes (Enc.escapeBackslash (utf8 cs))⟩) := by
  simp only [emitStr] at h
  split at h
  · simp at h
  · rename_i cs s2 b hf
    have hp : PStr cs := by
      rcases firstSome_cases (mutateString E) c.rateBits c.mutators _ _ cs s2 b hf with e | ⟨m, s1, s3, hm⟩
      · rw [e]; exact genChars_pstr E hE _ _ [] pstr_nil
      · exact mutateString_pstr E m _ (genChars_pstr E hE _ _ [] pstr_nil) s1 s3 _ cs hm
    refine ⟨cs, hp, ?_, ?_⟩
    · intro e; subst e
      simp only [beq_self_eq_true, if_true, Except.ok.injEq, Prod.mk.injEq] at h
      exact h.1.symm
    · intro e; subst e
      simp only [show (Op.unicode == Op.string) = false from rfl, Bool.false_eq_true, if_false, beq_self_eq_true, if_true,
        Except.ok.injEq, Prod.mk.injEq] at h
      exact h.1.symm

theorem table0_ops : ∀ o ∈ Gen.table 0, Gen.asU8 o < 0x80 := by decide

/-- protocol 0: whatever `emitOne` writes for an opcode of the protocol-0 table is 7-bit -/
theorem emitOne_ascii (hE : Lawful E) (hF : FloatAscii X.fmt) (hM : ModsOK X.mods) (hv : c.version = 0)
    (sim : State) (op : Op) (hop : op ∈ Gen.table 0) (s s' : σ) (i : Instr)
    (h : emitOne E X c sim op s = .ok (some i, s')) : AsciiI i := by
  have hcode := table0_ops op hop
  cases op <;> (try (exact absurd hop (by decide))) <;> simp only [emitOne] at h
  case int | long => exact emitInt_ascii E c hv s s' i h
  case float =>
    simp only [emitFloat] at h
    split at h
    · simp at h
    · simp only [beq_self_eq_true, if_true, Except.ok.injEq, Prod.mk.injEq, Option.some.injEq] at h
      rw [← h.1]
      show AsciiL (Gen.asU8 .float :: (X.fmt _ ++ [nl]))
      exact asciiL_cons (by decide) (asciiL_append (hF _) (asciiL_cons (by decide) asciiL_nil))
  case string =>
    obtain ⟨cs, hp, h1, _⟩ := emitStr_shape E c hE .string s s' _ h
    have := h1 rfl
    simp only [Option.some.injEq] at this
    rw [this]
    obtain ⟨_, u2⟩ := utf8_pstr cs hp
    show AsciiL (Gen.asU8 .string :: (([0x27] ++ Enc.escapeString (utf8 cs) ++ [0x27]) ++ [nl]))
    exact asciiL_cons (by decide) (asciiL_append (asciiL_append (asciiL_append (asciiL_cons (by decide) asciiL_nil)
      (escapeString_ascii _ u2)) (asciiL_cons (by decide) asciiL_nil)) (asciiL_cons (by decide) asciiL_nil))
  case unicode =>
    obtain ⟨cs, hp, _, h1⟩ := emitStr_shape E c hE .unicode s s' _ h
    have := h1 rfl
    simp only [Option.some.injEq] at this
    rw [this]
    obtain ⟨_, u2⟩ := utf8_pstr cs hp
    show AsciiL (Gen.asU8 .unicode :: (Enc.escapeBackslash (utf8 cs) ++ [nl]))
    exact asciiL_cons (by decide) (asciiL_append (escapeBackslash_ascii _ u2) (asciiL_cons (by decide) asciiL_nil))
  case glob | inst =>
    simp only [emitGlobal] at h
    split at h
    · simp at h
    · rename_i m a hi
      have hm := hM _ (idx?_mem hi)
      simp only [Except.ok.injEq, Prod.mk.injEq, Option.some.injEq] at h
      rw [← h.1]
      have a1 := escapeAsciiOk_ascii _ hm.2.2.1
      have a2 := escapeAsciiOk_ascii _ hm.2.2.2
      first
        | (show AsciiL (Gen.asU8 .glob :: (m ++ [nl] ++ a ++ [nl]))
           exact asciiL_cons (by decide) (asciiL_append (asciiL_append (asciiL_append a1 (asciiL_cons (by decide) asciiL_nil)) a2)
             (asciiL_cons (by decide) asciiL_nil)))
        | (show AsciiL (Gen.asU8 .inst :: (m ++ [nl] ++ a ++ [nl]))
           exact asciiL_cons (by decide) (asciiL_append (asciiL_append (asciiL_append a1 (asciiL_cons (by decide) asciiL_nil)) a2)
             (asciiL_cons (by decide) asciiL_nil)))
  case get =>
    have e := emitGet_op E c sim .get (Or.inl rfl) s s' i h
    have hg := (emitGet_good E c sim .get (Or.inl rfl) s s' i h).1
    obtain ⟨o, a⟩ := i
    simp only at e
    subst e
    cases a <;> simp [WF, isNatArg] at hg
    rename_i n
    show AsciiL (Gen.asU8 .get :: (showNat n ++ [nl]))
    exact asciiL_cons (by decide) (asciiL_append (showNat_ascii _) (asciiL_cons (by decide) asciiL_nil))
  case put =>
    simp only [Except.ok.injEq, Prod.mk.injEq, Option.some.injEq] at h
    rw [← h.1]
    show AsciiL (Gen.asU8 .put :: (showNat _ ++ [nl]))
    exact asciiL_cons (by decide) (asciiL_append (showNat_ascii _) (asciiL_cons (by decide) asciiL_nil))
  case persID =>
    simp only [Except.ok.injEq, Prod.mk.injEq, Option.some.injEq] at h
    rw [← h.1]
    show AsciiL (Gen.asU8 .persID :: ((pidPrefix ++ showNat _) ++ [nl]))
    have hp : AsciiL pidPrefix := by intro b hb; revert b; decide
    exact asciiL_cons (by decide) (asciiL_append (asciiL_append hp (showNat_ascii _)) (asciiL_cons (by decide) asciiL_nil))
  all_goals
    simp only [Except.ok.injEq, Prod.mk.injEq, Option.some.injEq] at h
    rw [← h.1]
    exact asciiI_plain _ hcode


theorem emitAndProcess_ascii (hE : Lawful E) (hF : FloatAscii X.fmt) (hM : ModsOK X.mods) (hv : c.version = 0)
    (hnt : ∀ m ∈ c.mutators, m ≠ .typeconfusion true) (g g' : GenSt) (op : Op) (hop : op ∈ Gen.table 0)
    (s s' : σ) (h : emitAndProcess E X c g op s = .ok (g', s')) :
    g'.out = g.out ∨ ∃ i, g'.out = i :: g.out ∧ AsciiI i := by
  simp only [emitAndProcess] at h
  split at h
  · simp at h
  · rename_i oi s1 he
    have hpost : (if c.mutators.isEmpty = true then (Except.ok (none, s1) : Except Panic (Option Instr × σ))
        else postProcess E c.mutators (oi.map fun i => Gen.asU8 i.op) none s1 c.rateBits) = .ok (none, s1) := by
      split
      · rfl
      · exact postProcess_safe E _ _ _ _ _ hnt
    rw [hpost] at h
    simp only [Except.ok.injEq, Prod.mk.injEq] at h
    obtain ⟨hg, _⟩ := h
    subst hg
    cases oi with
    | none => exact Or.inl rfl
    | some i => exact Or.inr ⟨i, rfl, emitOne_ascii E X c hE hF hM hv g.sim op hop s s1 i he⟩

theorem bodyLoop_ascii (hE : Lawful E) (hF : FloatAscii X.fmt) (hM : ModsOK X.mods) (hv : c.version = 0)
    (hnt : ∀ m ∈ c.mutators, m ≠ .typeconfusion true) :
    ∀ (n : Nat) (g g' : GenSt) (s s' : σ), (∀ i ∈ g.out, AsciiI i) →
      bodyLoop E X c n g s = .ok (g', s') → ∀ i ∈ g'.out, AsciiI i
  | 0, g, g', s, s', hout, h => by
    simp only [bodyLoop, Except.ok.injEq, Prod.mk.injEq] at h
    rw [← h.1]; exact hout
  | n + 1, g, g', s, s', hout, h => by
    simp only [bodyLoop] at h
    split at h
    · simp only [Except.ok.injEq, Prod.mk.injEq] at h
      rw [← h.1]; exact hout
    · split at h
      · simp at h
      · rename_i chosen hch
        have hmem : chosen ∈ Gen.table 0 := by
          have := (List.mem_filter.mp (idx?_mem hch)).1
          rwa [hv] at this
        split at h
        · simp at h
        · rename_i g1 s1 he
          apply bodyLoop_ascii hE hF hM hv hnt n g1 g' s1 s' _ h
          rcases emitAndProcess_ascii E X c hE hF hM hv hnt g g1 chosen hmem _ s1 he with e | ⟨i, e, hi⟩
          · rw [e]; exact hout
          · rw [e]
            intro j hj
            rcases List.mem_cons.mp hj with rfl | hj
            · exact hi
            · exact hout j hj

/-- **C05, 7-bit.**  Every byte of a protocol-0 pickle is below 0x80. -/
theorem generate_ascii (hE : Lawful E) (hF : FloatAscii X.fmt) (hM : ModsOK X.mods) (hv : c.version = 0)
    (hnt : ∀ m ∈ c.mutators, m ≠ .typeconfusion true)
    (s s' : σ) (r : Result) (h : generate E X c s = .ok (r, s')) : ∀ b ∈ r.bytes, b < 0x80 := by
  simp only [generate, hv] at h
  split at h
  · simp at h
  · rename_i g s3 hb
    simp only [Except.ok.injEq, Prod.mk.injEq] at h
    obtain ⟨hr, _⟩ := h
    subst hr
    have hv0 : c.version = 0 := hv
    have hbody := bodyLoop_ascii E X c hE hF hM hv hnt _ { sim := initState 0 } g _ s3 (by simp) hb
    obtain ⟨_, _, _, c4⟩ := cleanup_spec c g.sim
    rw [hv0] at c4
    intro b hb
    simp only [show ¬ (0 ≥ 2) by decide, show ¬ (0 ≥ 4) by decide, if_false, Bool.false_eq_true, List.nil_append,
      List.mem_flatMap, List.mem_append, List.mem_reverse, List.mem_singleton, plain, List.mem_map] at hb
    obtain ⟨i, hi, hbi⟩ := hb
    rcases hi with (hi | ⟨o, ho, rfl⟩) | rfl
    · exact hbody i hi b hbi
    · rcases c4 o ho with rfl | rfl | ⟨_, rfl⟩ | ⟨h2, _⟩
      · exact asciiI_plain _ (by decide) b hbi
      · exact asciiI_plain _ (by decide) b hbi
      · exact asciiI_plain _ (by decide) b hbi
      · omega
    · exact asciiI_plain _ (by decide) b hbi

end G
end PFV
