/-
C17 backbone: one guarded step of the simulated VM is accepted by the reference machine
without any memo/typed violation and preserves the compatibility relation.
-/
import PFV.AbsGen
import PFV.Proofs.Rel
namespace PFV
open Ref (RKind RState RMemo)

/-- memo keys are exactly 0..n-1, in insertion order -/
def Dense (m : Memo) : Prop := Memo.keys m = List.range m.length

theorem dense_nil : Dense [] := by simp [Dense, Memo.keys]

theorem find_none_of_not_mem {m : Memo} {i : Nat} (h : i ∉ Memo.keys m) : Memo.find? m i = none := by
  induction m with
  | nil => rfl
  | cons p t ih =>
    obtain ⟨j, k⟩ := p
    simp only [Memo.keys, List.map_cons, List.mem_cons, not_or] at h
    have hj : j ≠ i := fun e => h.1 e.symm
    simp only [Memo.find?, hj, if_false]
    exact ih (by simpa [Memo.keys] using h.2)

theorem insert_fresh {m : Memo} {i : Nat} (k : Kind) (h : i ∉ Memo.keys m) :
    Memo.insert m i k = m ++ [(i, k)] := by
  induction m with
  | nil => rfl
  | cons p t ih =>
    obtain ⟨j, k'⟩ := p
    simp only [Memo.keys, List.map_cons, List.mem_cons, not_or] at h
    have hj : j ≠ i := fun e => h.1 e.symm
    simp only [Memo.insert, hj, if_false, List.cons_append]
    rw [ih (by simpa [Memo.keys] using h.2)]

theorem dense_fresh {m : Memo} (h : Dense m) : m.length ∉ Memo.keys m := by
  rw [h]; simp

theorem dense_insert {m : Memo} (h : Dense m) (k : Kind) : Dense (Memo.insert m m.length k) := by
  rw [insert_fresh k (dense_fresh h)]
  unfold Dense at *
  simp [Memo.keys, List.range_succ] at *
  exact h

theorem dense_insert_length {m : Memo} (h : Dense m) (k : Kind) :
    (Memo.insert m m.length k).length = m.length + 1 := by
  rw [insert_fresh k (dense_fresh h)]; simp

/-- conclusion of the one-step simulation theorem -/
def StepGoal (v : Nat) (s : State) (r : RState) (op : Op) (a : Arg) : Prop :=
  ∃ r', Ref.step r ⟨op, a⟩ = .ok (r', []) ∧ SRel (process v s op a) r' ∧
    Dense (process v s op a).memo

theorem Rel.cons_inv {k ks b} (h : Rel (k :: ks) b) :
    ∃ r rs, b = r :: rs ∧ compat k r = true ∧ Rel ks rs := by
  cases h with
  | cons hc ht => exact ⟨_, _, rfl, hc, ht⟩

theorem Rel.nil_inv {b} (h : Rel [] b) : b = [] := by
  cases h; rfl

theorem isAt_zero {st : List Kind} {k : Kind} (h : isAt st 0 k = true) : ∃ t, st = k :: t := by
  cases st with
  | nil => simp [isAt] at h
  | cons a t => simp [isAt] at h; exact ⟨t, by rw [h]⟩

theorem isAt_one {st : List Kind} {k : Kind} (h : isAt st 1 k = true) : ∃ a t, st = a :: k :: t := by
  match st, h with
  | [], h => simp [isAt] at h
  | [_], h => simp [isAt] at h
  | a :: b :: t, h => simp [isAt] at h; exact ⟨a, t, by rw [h]⟩

theorem isAt_two {st : List Kind} {k : Kind} (h : isAt st 2 k = true) :
    ∃ a b t, st = a :: b :: k :: t := by
  match st, h with
  | [], h => simp [isAt] at h
  | [_], h => simp [isAt] at h
  | [_, _], h => simp [isAt] at h
  | a :: b :: c :: t, h => simp [isAt] at h; exact ⟨a, b, t, by rw [h]⟩

theorem compat_list {r : RKind} (h : compat .list r = true) : Ref.isK .list r = true := by
  cases r <;> simp_all [compat, Ref.isK]
theorem compat_dict {r : RKind} (h : compat .dict r = true) : Ref.isK .dict r = true := by
  cases r <;> simp_all [compat, Ref.isK]
theorem compat_set {r : RKind} (h : compat .set r = true) : Ref.isK .set r = true := by
  cases r <;> simp_all [compat, Ref.isK]
theorem compat_tuple {r : RKind} (h : compat .tuple r = true) : Ref.isK .tuple r = true := by
  cases r <;> simp_all [compat, Ref.isK]
theorem compat_obj {r : RKind} (h : compat .obj r = true) : Ref.isK .object r = true := by
  cases r <;> simp_all [compat, Ref.isK]
theorem compat_string {r : RKind} (h : compat .string r = true) : Ref.isStr r = true := by
  cases r <;> simp_all [compat, Ref.isStr]
theorem compat_callable {k : Kind} {r : RKind} (hk : isCallableKind k = true) (h : compat k r = true) :
    Ref.calleeOk r = true := by
  cases k <;> simp [isCallableKind] at hk <;> cases r <;> simp_all [compat, Ref.calleeOk, Ref.data]
theorem compat_nonmark {k : Kind} {r : RKind} (hk : k ≠ .mark) (h : compat k r = true) : r ≠ .mark := by
  intro e; subst e; exact hk (compat_mark_right.mp h)
theorem compat_to_any {k : Kind} {r : RKind} (hk : k ≠ .mark) (h : compat k r = true) :
    compat .string .any = true ∧ r ≠ .mark := ⟨by decide, compat_nonmark hk h⟩

section
variable {v : Nat} {s : State} {r : RState}

/-- pushing compatible kinds on both sides -/
theorem goal_push (hR : SRel s r) (hd : Dense s.memo) {op : Op} {a : Arg} {k : Kind} {rk : RKind}
    (hp : process v s op a = { s with stack := k :: s.stack })
    (hr : Ref.step r ⟨op, a⟩ = .ok ({ r with stack := rk :: r.stack }, []))
    (hk : compat k rk = true) : StepGoal v s r op a := by
  refine ⟨_, hr, ?_, ?_⟩
  · rw [hp]; exact ⟨Rel.cons hk hR.stack, hR.memo⟩
  · rw [hp]; exact hd

/-- generic closing step: exhibit the two successor states -/
theorem goal_of {op : Op} {a : Arg} {s' : State} {r' : RState}
    (hp : process v s op a = s') (hr : Ref.step r ⟨op, a⟩ = .ok (r', []))
    (hrel : SRel s' r') (hd : Dense s'.memo) : StepGoal v s r op a :=
  ⟨r', hr, hp ▸ hrel, hp ▸ hd⟩

end
end PFV
