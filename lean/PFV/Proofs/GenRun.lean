/-
Refinement: the exact, entropy-driven generator (`Gen.lean`) only produces runs of the abstract
generator (`AbsGen.lean`).  Together with `Properties.lean` this carries C01–C03, C05, C10, C11,
C17 over to *every* lawful entropy source.
-/
import PFV.Proofs.GenTotal
import PFV.Proofs.Cleanup
namespace PFV
open Mutators

/-- safe configurations: `unsafe_mutations = false` and no type-confusion mutator built in unsafe mode -/
def SafeCfg (c : Cfg) : Prop := c.unsafeMut = false ∧ ∀ m ∈ c.mutators, m ≠ .typeconfusion true

namespace G
variable {σ : Type} (E : Entropy σ) (X : Ext) (c : Cfg)

theorem postProcess_safe (rate : UInt64) (first : Option UInt8) :
    ∀ (ms : List Mut) (cur : Option Instr) (s : σ), (∀ m ∈ ms, m ≠ .typeconfusion true) →
      postProcess E ms first cur s rate = .ok (cur, s)
  | [], cur, s, _ => rfl
  | m :: ms, cur, s, h => by
    have ih := postProcess_safe rate first ms cur s (fun q hq => h q (List.mem_cons_of_mem _ hq))
    cases m with
    | typeconfusion u =>
      cases u with
      | true => exact absurd rfl (h _ List.mem_cons_self)
      | false => simp [postProcess, typeconfusion_safe, ih]
    | _ => simpa [postProcess] using ih

theorem has_of_mem_keys {m : Memo} {i : Nat} (hk : i ∈ Memo.keys m) : Memo.has m i = true := by
  induction m with
  | nil => simp [Memo.keys] at hk
  | cons p t ih =>
    obtain ⟨j, k⟩ := p
    by_cases hj : j = i
    · simp [Memo.has, Memo.find?, hj]
    · have : i ∈ Memo.keys t := by
        simp only [Memo.keys, List.map_cons, List.mem_cons] at hk
        rcases hk with h1 | h1
        · exact absurd h1.symm hj
        · simpa [Memo.keys] using h1
      have h2 := ih this
      simpa [Memo.has, Memo.find?, hj] using h2

theorem mem_sortedKeys {m : Memo} {i : Nat} (h : i ∈ sortedKeys m) : Memo.has m i = true :=
  has_of_mem_keys (by simpa [sortedKeys] using h)

theorem has_lt_of_dense {m : Memo} (hd : Dense m) {i : Nat} (h : Memo.has m i = true) : i < m.length := by
  by_cases hi : i ∈ Memo.keys m
  · rw [hd] at hi; simpa using hi
  · have := find_none_of_not_mem hi
    simp [Memo.has, this] at h

theorem isIntLike_cases {o : Op} (h : isIntLike o = true) :
    o = .int ∨ o = .long ∨ o = .long1 ∨ o = .long4 ∨ o = .binInt ∨ o = .binInt1 ∨ o = .binInt2 := by
  cases o <;> simp [isIntLike] at h <;> simp

theorem emitGet_spec (hsafe : c.unsafeMut = false) (sim : State) (hd : Dense sim.memo)
    (hlen : sim.memo.length < 4294967296) (op : Op) (hop : op = .get ∨ op = .longBinGet ∨ op = .binGet)
    (hmem : op ∈ Gen.table c.version) (hc : canEmit c sim op = true) (s s' : σ) (i : Instr)
    (h : emitGet E c sim op s = .ok (some i, s')) :
    i.op ∈ Gen.table c.version ∧ canEmit c sim i.op = true ∧ argOK sim i.op i.arg = true := by
  rcases hop with rfl | rfl | rfl
  · -- GET
    simp only [emitGet, show (Op.get == Op.binGet) = false from rfl, Bool.false_eq_true, if_false] at h
    split at h
    · simp at h
    · split at h
      · simp at h
      · rename_i index hidx
        have hin := idx?_mem hidx
        split at h
        · simp at h
        · rename_i m0 s2 b hf
          simp only [hsafe, Bool.false_or, beq_self_eq_true, if_true, Except.ok.injEq, Prod.mk.injEq,
            Option.some.injEq] at h
          obtain ⟨hi, _⟩ := h
          subst hi
          refine ⟨hmem, hc, ?_⟩
          have hidxhas := mem_sortedKeys hin
          by_cases hm : Memo.has sim.memo m0 = true <;> simp [argOK, isGetFam, hm, hidxhas]
  · -- LONG_BINGET
    simp only [emitGet, show (Op.longBinGet == Op.binGet) = false from rfl, Bool.false_eq_true, if_false] at h
    split at h
    · simp at h
    · split at h
      · simp at h
      · rename_i index hidx
        have hin := idx?_mem hidx
        split at h
        · simp at h
        · rename_i m0 s2 b hf
          simp only [hsafe, Bool.false_or, show (Op.longBinGet == Op.get) = false from rfl, Bool.false_eq_true,
            if_false, Except.ok.injEq, Prod.mk.injEq, Option.some.injEq] at h
          obtain ⟨hi, _⟩ := h
          subst hi
          refine ⟨hmem, hc, ?_⟩
          have hidxhas := mem_sortedKeys hin
          by_cases hm : Memo.has sim.memo m0 = true
          · have := has_lt_of_dense hd hm
            simp [argOK, isGetFam, hm, Nat.mod_eq_of_lt (Nat.lt_trans this hlen)]
          · have := has_lt_of_dense hd hidxhas
            simp [argOK, isGetFam, hm, hidxhas, Nat.mod_eq_of_lt (Nat.lt_trans this hlen)]
  · -- BINGET
    simp only [emitGet, beq_self_eq_true, if_true] at h
    split at h
    · simp at h
    · split at h
      · simp at h
      · rename_i index hidx
        have hin := idx?_mem hidx
        split at h
        · simp at h
        · rename_i m0 s2 b hf
          simp only [hsafe, Bool.false_or, Except.ok.injEq, Prod.mk.injEq, Option.some.injEq] at h
          obtain ⟨hi, _⟩ := h
          subst hi
          refine ⟨hmem, hc, ?_⟩
          have hin' := List.mem_filter.mp hin
          have hidxhas := mem_sortedKeys hin'.1
          have hidx256 : index < 256 := by simpa using hin'.2
          by_cases hm : (decide (min m0 255 < 256) && Memo.has sim.memo (min m0 255)) = true
          · have h255 : min m0 255 < 256 := by omega
            have hhas : Memo.has sim.memo (min m0 255) = true := by
              simp only [Bool.and_eq_true] at hm; exact hm.2
            simp only [argOK, isGetFam, beq_self_eq_true, Bool.or_true, Bool.true_or, if_true, hhas, Bool.and_true]
            simp only [h255, decide_true, if_true, Nat.mod_eq_of_lt h255, hhas]
          · have hm' : (decide (min m0 255 < 256) && Memo.has sim.memo (min m0 255)) = false := by
              simpa using hm
            simp only [argOK, isGetFam, beq_self_eq_true, Bool.or_true, Bool.true_or, if_true, hm',
              Bool.false_eq_true, if_false, Nat.mod_eq_of_lt hidx256, hidxhas]

/-- what `emitOne` can emit in a safe configuration: an opcode of the table whose guard holds, with
an argument the abstract generator admits -/
theorem emitOne_spec (hsafe : c.unsafeMut = false) (sim : State) (hd : Dense sim.memo)
    (hlen : sim.memo.length < 4294967296) (op : Op) (hmem : op ∈ Gen.table c.version)
    (hc : canEmit c sim op = true) (s s' : σ) (i : Instr)
    (h : emitOne E X c sim op s = .ok (some i, s')) :
    i.op ∈ Gen.table c.version ∧ canEmit c sim i.op = true ∧ argOK sim i.op i.arg = true := by
  have plain : ∀ o : Op, i = ⟨o, .none⟩ → o = op → isGetFam o = false → isPutFam o = false → needsArg o = false →
      i.op ∈ Gen.table c.version ∧ canEmit c sim i.op = true ∧ argOK sim i.op i.arg = true := by
    intro o hi ho h1 h2 h3
    subst hi; subst ho
    exact ⟨hmem, hc, by simp [argOK, h1, h2, h3]⟩
  cases op <;> simp only [emitOne] at h
  -- int-like
  case int | long | long1 | long4 | binInt | binInt1 | binInt2 =>
    simp only [emitInt] at h
    split at h
    · simp at h
    · rename_i chosen hch
      have hmemc : chosen ∈ (Gen.table c.version).filter isIntLike := idx?_mem hch
      have ht := (List.mem_filter.mp hmemc).1
      have hil := (List.mem_filter.mp hmemc).2
      split at h
      · simp at h
      · simp only [Except.ok.injEq, Prod.mk.injEq, Option.some.injEq] at h
        obtain ⟨hi, _⟩ := h
        subst hi
        rcases isIntLike_cases hil with e | e | e | e | e | e | e <;> subst e <;>
          exact ⟨ht, rfl, rfl⟩
  case float | binFloat =>
    simp only [emitFloat] at h
    split at h
    · simp at h
    · simp only [Except.ok.injEq, Prod.mk.injEq, Option.some.injEq] at h
      obtain ⟨hi, _⟩ := h
      subst hi
      first
        | exact ⟨hmem, hc, rfl⟩
  case string | unicode | shortBinUnicode | binUnicode | binUnicode8 =>
    simp only [emitStr] at h
    split at h
    · simp at h
    · repeat' split at h
      all_goals
        first
          | (simp only [Except.ok.injEq, Prod.mk.injEq, Option.some.injEq] at h
             obtain ⟨hi, _⟩ := h
             subst hi
             first | exact ⟨hmem, hc, rfl⟩ | (rename_i hne _; simp at hne) | (simp at *))
          | (simp at h)
  case binString | shortBinString | shortBinBytes | binBytes | binBytes8 | byteArray8 =>
    simp only [emitBytes] at h
    split at h
    · simp at h
    · repeat' split at h
      all_goals
        first
          | (simp only [Except.ok.injEq, Prod.mk.injEq, Option.some.injEq] at h
             obtain ⟨hi, _⟩ := h
             subst hi
             exact ⟨hmem, hc, rfl⟩)
          | (simp at h)
  case glob | inst =>
    simp only [emitGlobal] at h
    split at h
    · simp at h
    · simp only [Except.ok.injEq, Prod.mk.injEq, Option.some.injEq] at h
      obtain ⟨hi, _⟩ := h
      subst hi
      exact ⟨hmem, hc, rfl⟩
  case put =>
    simp only [Except.ok.injEq, Prod.mk.injEq, Option.some.injEq] at h
    obtain ⟨hi, _⟩ := h
    subst hi
    exact ⟨hmem, hc, by simp [argOK, isGetFam, isPutFam]⟩
  case binPut =>
    simp only [Except.ok.injEq, Prod.mk.injEq, Option.some.injEq] at h
    obtain ⟨hi, _⟩ := h
    subst hi
    have hl : sim.memo.length < 256 := by
      simp only [canEmit, Bool.and_eq_true, decide_eq_true_eq] at hc
      exact hc.2
    exact ⟨hmem, hc, by simp [argOK, isGetFam, isPutFam, Nat.mod_eq_of_lt hl]⟩
  case longBinPut =>
    simp only [Except.ok.injEq, Prod.mk.injEq, Option.some.injEq] at h
    obtain ⟨hi, _⟩ := h
    subst hi
    exact ⟨hmem, hc, by simp [argOK, isGetFam, isPutFam, Nat.mod_eq_of_lt hlen]⟩
  case get => exact emitGet_spec E c hsafe sim hd hlen .get (Or.inl rfl) hmem hc s s' i h
  case longBinGet => exact emitGet_spec E c hsafe sim hd hlen .longBinGet (Or.inr (Or.inl rfl)) hmem hc s s' i h
  case binGet => exact emitGet_spec E c hsafe sim hd hlen .binGet (Or.inr (Or.inr rfl)) hmem hc s s' i h
  case ext1 | ext2 | ext4 | persID =>
    simp only [Except.ok.injEq, Prod.mk.injEq, Option.some.injEq] at h
    obtain ⟨hi, _⟩ := h
    subst hi
    exact ⟨hmem, hc, rfl⟩
  case frame => simp [canEmit] at hc
  all_goals
    simp only [Except.ok.injEq, Prod.mk.injEq, Option.some.injEq] at h
    obtain ⟨hi, _⟩ := h
    exact plain _ hi.symm rfl rfl rfl rfl

end G
end PFV

namespace PFV
open Mutators
namespace G
variable {σ : Type} (E : Entropy σ) (X : Ext) (c : Cfg)

/-- the state invariant carried along the body loop: related to some reference state, dense
memo, memo small enough for LONG_BINPUT's four bytes -/
structure Inv (sim : State) (budget : Nat) : Prop where
  rel : ∃ r : Ref.RState, SRel sim r
  dense : Dense sim.memo
  small : sim.memo.length + budget < 4294967296

/-- `emit_and_process` in a safe configuration: either nothing is written and nothing changes, or
one admissible guarded step is taken and its instruction is appended — never rewritten -/
theorem emitAndProcess_spec (hs : SafeCfg c) (g g' : GenSt) (n : Nat) (hinv : Inv g.sim (n + 1))
    (op : Op) (hmem : op ∈ Gen.table c.version) (hc : canEmit c g.sim op = true) (s s' : σ)
    (h : emitAndProcess E X c g op s = .ok (g', s')) :
    (g' = g ∨ ∃ i, i.op ∈ Gen.table c.version ∧ canEmit c g.sim i.op = true ∧ argOK g.sim i.op i.arg = true ∧
        g'.sim = process c.version g.sim i.op i.arg ∧ g'.out = i :: g.out) ∧ Inv g'.sim n := by
  simp only [emitAndProcess] at h
  split at h
  · simp at h
  · rename_i oi s1 he
    have hpost : (if c.mutators.isEmpty = true then (Except.ok (none, s1) : Except Panic (Option Instr × σ))
        else postProcess E c.mutators (oi.map fun i => Gen.asU8 i.op) none s1 c.rateBits) = .ok (none, s1) := by
      split
      · rfl
      · exact postProcess_safe E _ _ _ _ _ hs.2
    rw [hpost] at h
    simp only [Except.ok.injEq, Prod.mk.injEq] at h
    obtain ⟨hg, _⟩ := h
    cases oi with
    | none =>
      have hg' : g' = g := by rw [← hg]
      subst hg'
      exact ⟨Or.inl rfl, ⟨hinv.rel, hinv.dense, by have := hinv.small; omega⟩⟩
    | some i =>
      obtain ⟨h1, h2, h3⟩ := emitOne_spec E X c hs.1 g.sim hinv.dense (by have := hinv.small; omega) op hmem hc s s1 i he
      subst hg
      obtain ⟨r, hr⟩ := hinv.rel
      obtain ⟨r', _, hR', hd'⟩ := step_sim c hs.1 g.sim r hr hinv.dense i.op i.arg h2 h3
      refine ⟨Or.inr ⟨i, h1, h2, h3, rfl, rfl⟩, ⟨⟨r', hR'⟩, hd', ?_⟩⟩
      have := process_memo_len c.version g.sim i.op i.arg
      have := hinv.small
      simp only
      omega

/-- **the body loop refines the abstract body** -/
theorem bodyLoop_run (hs : SafeCfg c) : ∀ (n : Nat) (g g' : GenSt) (s s' : σ), Inv g.sim n →
    bodyLoop E X c n g s = .ok (g', s') →
    ∃ is, Body c (Gen.table c.version) g.sim is g'.sim ∧ g'.out = is.reverse ++ g.out ∧ is.length ≤ n ∧
      Inv g'.sim 0
  | 0, g, g', s, s', hinv, h => by
    simp only [bodyLoop, Except.ok.injEq, Prod.mk.injEq] at h
    obtain ⟨rfl, _⟩ := h
    exact ⟨[], Body.nil, by simp, Nat.le_refl _, hinv⟩
  | n + 1, g, g', s, s', hinv, h => by
    simp only [bodyLoop] at h
    split at h
    · simp only [Except.ok.injEq, Prod.mk.injEq] at h
      obtain ⟨rfl, _⟩ := h
      exact ⟨[], Body.nil, by simp, Nat.zero_le _, ⟨hinv.rel, hinv.dense, by have := hinv.small; omega⟩⟩
    · split at h
      · simp at h
      · rename_i chosen hch
        have hmemv := idx?_mem hch
        have hmt := (List.mem_filter.mp hmemv).1
        have hce := (List.mem_filter.mp hmemv).2
        split at h
        · simp at h
        · rename_i g1 s1 he
          obtain ⟨hstep, hinv1⟩ := emitAndProcess_spec E X c hs g g1 n hinv chosen hmt hce _ s1 he
          obtain ⟨is, hb, ho, hl, hi0⟩ := bodyLoop_run hs n g1 g' s1 s' hinv1 h
          rcases hstep with rfl | ⟨i, h1, h2, h3, h4, h5⟩
          · exact ⟨is, hb, ho, Nat.le_succ_of_le hl, hi0⟩
          · refine ⟨i :: is, ?_, ?_, by simp; omega, hi0⟩
            · exact Body.step h1 h2 h3 (h4 ▸ hb)
            · rw [ho, h5]; simp

/-- **Refinement.**  In a safe configuration, for every lawful entropy source: whatever the exact
generator returns is (the encoding of) a run of the abstract generator. -/
theorem generate_run (hs : SafeCfg c) (hmin : c.minOps < 4294967296) (hmax : c.maxOps ≤ 4294967296)
    (hE : Lawful E) (s s' : σ) (r : Result) (h : generate E X c s = .ok (r, s')) :
    ∃ frame : Option Nat,
      Run c (Gen.table c.version) (header c.version frame ++ r.instrs) ∧
      r.bytes = (header c.version frame ++ r.instrs).flatMap Enc.encode ∧
      (frame.isSome = r.framed) ∧ (∀ n, frame = some n → n = (r.instrs.flatMap Enc.encode).length) ∧
      c.minOps ≤ r.target ∧ (r.target < c.maxOps ∨ (c.maxOps ≤ c.minOps ∧ r.target = c.minOps)) ∧
      r.bodyLen ≤ r.target := by
  simp only [generate] at h
  generalize hs1 : (if c.version ≥ 4 then E.genBool s else (false, s)) = p1 at h
  obtain ⟨useFrame, s1⟩ := p1
  have hframe : useFrame = true → c.version ≥ 4 := by
    intro hu
    by_cases hv : c.version ≥ 4
    · exact hv
    · simp only [hv, if_false, Prod.mk.injEq] at hs1
      rw [← hs1.1] at hu; simp at hu
  simp only at h
  generalize hs2 : (if c.maxOps - c.minOps > 0 then
      (match E.chooseIndex s1 (c.maxOps - c.minOps) with | (k, s) => (c.minOps + k, s)) else (c.minOps, s1)) = p2 at h
  obtain ⟨target, s2⟩ := p2
  have ht : c.minOps ≤ target ∧ (target < c.maxOps ∨ (c.maxOps ≤ c.minOps ∧ target = c.minOps)) := by
    have e : target = (if c.maxOps - c.minOps > 0 then
      (match E.chooseIndex s1 (c.maxOps - c.minOps) with | (k, s) => (c.minOps + k, s)) else (c.minOps, s1)).1 := by
      rw [hs2]
    rw [e]
    by_cases hr : c.maxOps - c.minOps > 0
    · have hk := hE.chooseIndex_lt s1 _ hr
      rw [if_pos hr]
      show c.minOps ≤ c.minOps + (E.chooseIndex s1 (c.maxOps - c.minOps)).1 ∧
        (c.minOps + (E.chooseIndex s1 (c.maxOps - c.minOps)).1 < c.maxOps ∨ _)
      omega
    · rw [if_neg hr]
      show c.minOps ≤ c.minOps ∧ (c.minOps < c.maxOps ∨ _)
      omega
  simp only at h
  split at h
  · simp at h
  · rename_i g s3 hb
    simp only [Except.ok.injEq, Prod.mk.injEq] at h
    obtain ⟨hr, _⟩ := h
    subst hr
    have hinv0 : Inv (initState c.version) target :=
      ⟨⟨{}, ⟨Rel.nil, MRel.nil⟩⟩, dense_nil, by simp [initState]; omega⟩
    obtain ⟨is, hbody, hout, hlen, _⟩ := bodyLoop_run E X c hs target { sim := initState c.version } g s2 s3 hinv0 hb
    simp only [List.append_nil] at hout
    let frame : Option Nat := if useFrame then some ((g.out.reverse ++ plain (cleanup c.version g.sim).2 ++ [stopInstr]).flatMap Enc.encode).length else none
    refine ⟨frame, ⟨⟨frame, is, g.sim, ?_, hbody, ?_⟩⟩, ?_, ?_, ?_, ht.1, ht.2, ?_⟩
    · intro hf
      cases hu : useFrame with
      | false => simp [frame, hu] at hf
      | true => exact hframe hu
    · simp [hout, List.append_assoc]
    · cases hu : useFrame <;> by_cases hv : c.version ≥ 2 <;>
        simp [frame, hu, hv, header, Enc.encode, protoInstr, List.flatMap_append]
    · cases hu : useFrame <;> simp [frame, hu]
    · intro n hn
      cases hu : useFrame with
      | false => simp [frame, hu] at hn
      | true =>
        simp only [frame, hu, if_true, Option.some.injEq] at hn
        exact hn.symm
    · simp [hout]; omega

end G
end PFV
