/-
C11, exactness: every iteration of the generation loop writes exactly one instruction, for every
configuration (unsafe mutations and type confusion included) and every lawful entropy source.

The only ways an iteration could write nothing are (a) an empty candidate list — impossible, NONE is
in every protocol's table and its guard is `true`; (b) the `len >= 256` guards of the SHORT_* emitters —
dead, because generated payloads stay ≤ 71 characters/bytes through every mutator (`GenWF`); (c) a GET
with no usable key — impossible, the guard demands a non-empty memo and key 0 is always present
(`J`), so even BINGET's `< 256` filter leaves a candidate.
-/
import PFV.Proofs.GenWF
namespace PFV
open Mutators Lex Enc

/-- the memo is empty or holds key 0 -/
def J (m : Memo) : Prop := m = [] ∨ Memo.has m 0 = true

theorem has_insert_self (m : Memo) (i : Nat) (k : Kind) : Memo.has (Memo.insert m i k) i = true := by
  induction m with
  | nil => simp [Memo.insert, Memo.has, Memo.find?]
  | cons p t ih =>
    obtain ⟨j, k'⟩ := p
    by_cases hj : j = i
    · simp [Memo.insert, Memo.has, Memo.find?, hj]
    · simp only [Memo.insert, hj, if_false, Memo.has, Memo.find?]
      exact ih

theorem has_insert_of_has (m : Memo) (i j : Nat) (k : Kind) (h : Memo.has m j = true) :
    Memo.has (Memo.insert m i k) j = true := by
  induction m with
  | nil => simp [Memo.has, Memo.find?] at h
  | cons p t ih =>
    obtain ⟨a, k'⟩ := p
    by_cases ha : a = i
    · by_cases hj : a = j
      · simp [Memo.insert, Memo.has, Memo.find?, ha, hj]
        simp [← ha, hj]
      · simp only [Memo.has, Memo.find?, hj, if_false] at h
        simp only [Memo.insert, ha, if_true, Memo.has, Memo.find?]
        have : ¬ i = j := fun e => hj (ha.trans e)
        simp only [this, if_false]
        exact h
    · simp only [Memo.insert, ha, if_false, Memo.has, Memo.find?]
      by_cases hj : a = j
      · simp [hj]
      · simp only [hj, if_false]
        simp only [Memo.has, Memo.find?, hj, if_false] at h
        exact ih h

theorem J_insert (m : Memo) (i : Nat) (k : Kind) (hJ : J m) (h0 : m = [] → i = 0) : J (Memo.insert m i k) := by
  right
  rcases hJ with e | h
  · rw [h0 e]; exact has_insert_self _ _ _
  · exact has_insert_of_has _ _ _ _ h

/-- one step keeps `J`, provided a PUT-family instruction on an empty memo stores under key 0 -/
theorem process_J (v : Nat) (s : State) (op : Op) (a : Arg) (hJ : J s.memo)
    (hput : (op = .put ∨ op = .binPut ∨ op = .longBinPut) → s.memo = [] → ∀ i, memoIndexOf a = some i → i = 0) :
    J (process v s op a).memo := by
  cases op
  case put | binPut | longBinPut =>
    simp only [process]
    split
    · rename_i i hi
      split
      · exact hJ
      · split
        · exact hJ
        · exact J_insert _ _ _ hJ (fun e => hput (by simp) e i hi)
    · exact hJ
  case memoize =>
    simp only [process]
    split
    · exact hJ
    · exact J_insert _ _ _ hJ (fun e => by rw [e]; rfl)
  all_goals
    simp only [process]
    repeat' split
    all_goals exact hJ

theorem mem_keys_of_has {m : Memo} {i : Nat} (h : Memo.has m i = true) : i ∈ Memo.keys m := by
  induction m with
  | nil => simp [Memo.has, Memo.find?] at h
  | cons p t ih =>
    obtain ⟨j, k⟩ := p
    by_cases hj : j = i
    · simp [Memo.keys, hj]
    · simp only [Memo.has, Memo.find?, hj, if_false] at h
      have := ih h
      simp only [Memo.keys, List.map_cons, List.mem_cons] at this ⊢
      exact Or.inr this

namespace G
variable {σ : Type} (E : Entropy σ) (X : Ext) (c : Cfg)

theorem zero_mem_sortedKeys {m : Memo} (hJ : J m) (hne : m ≠ []) : 0 ∈ sortedKeys m := by
  rcases hJ with e | h
  · exact absurd e hne
  · have := mem_keys_of_has h
    simpa [sortedKeys] using this

/-- GET / BINGET / LONG_BINGET always write an instruction when their guard holds -/
theorem emitGet_some (sim : State) (hJ : J sim.memo) (hne : sim.memo ≠ []) (op : Op) (s s' : σ) (oi : Option Instr)
    (h : emitGet E c sim op s = .ok (oi, s')) : oi.isSome = true := by
  have h0 := zero_mem_sortedKeys hJ hne
  have hk : (if op == .binGet then (sortedKeys sim.memo).filter (· < 256) else sortedKeys sim.memo).isEmpty = false := by
    split
    · have : 0 ∈ (sortedKeys sim.memo).filter (· < 256) := List.mem_filter.mpr ⟨h0, by simp⟩
      cases hl : (sortedKeys sim.memo).filter (· < 256) with
      | nil => rw [hl] at this; simp at this
      | cons a t => rfl
    · cases hl : sortedKeys sim.memo with
      | nil => rw [hl] at h0; simp at h0
      | cons a t => rfl
  simp only [emitGet, hk, Bool.false_eq_true, if_false] at h
  split at h
  · simp at h
  · split at h
    · simp at h
    · split at h
      · simp only [Except.ok.injEq, Prod.mk.injEq] at h
        rw [← h.1]; rfl
      · simp only [Except.ok.injEq, Prod.mk.injEq] at h
        rw [← h.1]; rfl

theorem emitStr_some (hE : Lawful E) (op : Op) (s s' : σ) (oi : Option Instr)
    (h : emitStr E c op s = .ok (oi, s')) : oi.isSome = true := by
  simp only [emitStr] at h
  split at h
  · simp at h
  · rename_i cs s2 b hf
    have hlen : cs.length ≤ 71 := by
      rcases firstSome_cases (mutateString E) c.rateBits c.mutators _ _ cs s2 b hf with e | ⟨m, s1, s3, hm⟩
      · rw [e]; exact Nat.le_trans (genChars_len31 E _ _) (by decide)
      · have key : ∀ a b : Nat, a ≤ 2 * b + 9 → b ≤ 31 → a ≤ 71 := by intro a b h1 h2; omega
        exact key _ _ (mutateString_len E hE m _ s1 s3 _ cs hm) (genChars_len31 E _ _)
    have hp : PStr cs := by
      rcases firstSome_cases (mutateString E) c.rateBits c.mutators _ _ cs s2 b hf with e | ⟨m, s1, s3, hm⟩
      · rw [e]; exact genChars_pstr E hE _ _ [] pstr_nil
      · exact mutateString_pstr E m _ (genChars_pstr E hE _ _ [] pstr_nil) s1 s3 _ cs hm
    obtain ⟨u1, _⟩ := utf8_pstr cs hp
    have hlt : (utf8 cs).length < 256 := by omega
    repeat' split at h
    all_goals
      first
        | (simp only [Except.ok.injEq, Prod.mk.injEq] at h; rw [← h.1]; rfl)
        | (exfalso; omega)

theorem emitBytes_some (hE : Lawful E) (op : Op) (s s' : σ) (oi : Option Instr)
    (h : emitBytes E c op s = .ok (oi, s')) : oi.isSome = true := by
  simp only [emitBytes] at h
  split at h
  · simp at h
  · rename_i bs s2 b hf
    have hlen : bs.length ≤ 71 := by
      rcases firstSome_cases (mutateBytes E) c.rateBits c.mutators _ _ bs s2 b hf with e | ⟨m, s1, s3, hm⟩
      · rw [e]; exact Nat.le_trans (genRawBytes_len31 E _ _) (by decide)
      · have key : ∀ a b : Nat, a ≤ 2 * b + 9 → b ≤ 31 → a ≤ 71 := by intro a b h1 h2; omega
        exact key _ _ (mutateBytes_len E hE m _ s1 s3 _ bs hm) (genRawBytes_len31 E _ _)
    repeat' split at h
    all_goals
      first
        | (simp only [Except.ok.injEq, Prod.mk.injEq] at h; rw [← h.1]; rfl)
        | (exfalso; omega)

/-- **an emission never vanishes**: for every opcode whose guard holds, `emitOne` writes an instruction -/
theorem emitOne_some (hE : Lawful E) (sim : State) (hJ : J sim.memo) (op : Op) (hc : canEmit c sim op = true)
    (s s' : σ) (oi : Option Instr) (h : emitOne E X c sim op s = .ok (oi, s')) : oi.isSome = true := by
  cases op <;> simp only [emitOne] at h
  case int | long | long1 | long4 | binInt | binInt1 | binInt2 =>
    simp only [emitInt] at h
    split at h
    · simp at h
    · split at h
      · simp at h
      · simp only [Except.ok.injEq, Prod.mk.injEq] at h
        rw [← h.1]; rfl
  case float | binFloat =>
    simp only [emitFloat] at h
    split at h
    · simp at h
    · simp only [Except.ok.injEq, Prod.mk.injEq] at h
      rw [← h.1]; rfl
  case string | unicode | shortBinUnicode | binUnicode | binUnicode8 => exact emitStr_some E c hE _ s s' oi h
  case binString | shortBinString | shortBinBytes | binBytes | binBytes8 | byteArray8 => exact emitBytes_some E c hE _ s s' oi h
  case glob | inst =>
    simp only [emitGlobal] at h
    split at h
    · simp at h
    · simp only [Except.ok.injEq, Prod.mk.injEq] at h
      rw [← h.1]; rfl
  case get | longBinGet | binGet =>
    have hne : sim.memo ≠ [] := by
      intro e
      simp [canEmit, e] at hc
    exact emitGet_some E c sim hJ hne _ s s' oi h
  case frame => simp at h
  all_goals
    simp only [Except.ok.injEq, Prod.mk.injEq] at h
    rw [← h.1]; rfl


/-- the step taken for what `emitOne` wrote keeps `J` (a PUT on an empty memo stores under key 0) -/
theorem emitOne_J (sim : State) (hJ : J sim.memo) (op : Op) (s s' : σ) (i : Instr)
    (h : emitOne E X c sim op s = .ok (some i, s')) : J (process c.version sim i.op i.arg).memo := by
  apply process_J _ _ _ _ hJ
  intro hp he j hj
  rcases emitOne_op E X c sim op s s' i h with e | e
  · rcases hp with hp | hp | hp
    all_goals
      rw [hp] at e
      subst e
      simp only [emitOne, Except.ok.injEq, Prod.mk.injEq, Option.some.injEq] at h
      rw [← h.1] at hj
      simp [memoIndexOf, he] at hj
      exact hj.symm
  · rcases hp with hp | hp | hp <;> (rw [hp] at e; exact Bool.noConfusion e.1)

/-- **one iteration, one instruction** -/
theorem emitAndProcess_count (hE : Lawful E) (g g' : GenSt) (hJ : J g.sim.memo) (op : Op)
    (hc : canEmit c g.sim op = true) (s s' : σ) (h : emitAndProcess E X c g op s = .ok (g', s')) :
    g'.out.length = g.out.length + 1 ∧ J g'.sim.memo := by
  simp only [emitAndProcess] at h
  split at h
  · simp at h
  · rename_i oi s1 he
    have hsome := emitOne_some E X c hE g.sim hJ op hc s s1 oi he
    cases oi with
    | none => simp at hsome
    | some i =>
      have hJ' := emitOne_J E X c g.sim hJ op s s1 i he
      split at h
      · simp at h
      · rename_i repl s2 hp
        simp only [Except.ok.injEq, Prod.mk.injEq] at h
        obtain ⟨hg, _⟩ := h
        subst hg
        cases repl <;> exact ⟨by simp, hJ'⟩

theorem pnone_in_table : ∀ v, v ≤ 5 → Op.pnone ∈ Gen.table v := by decide

/-- the loop runs its full count: `n` iterations write `n` instructions -/
theorem bodyLoop_count (hE : Lawful E) (hv : c.version ≤ 5) :
    ∀ (n : Nat) (g g' : GenSt) (s s' : σ), J g.sim.memo →
      bodyLoop E X c n g s = .ok (g', s') → g'.out.length = g.out.length + n
  | 0, g, g', s, s', _, h => by
    simp only [bodyLoop, Except.ok.injEq, Prod.mk.injEq] at h
    rw [← h.1]; rfl
  | n + 1, g, g', s, s', hJ, h => by
    simp only [bodyLoop] at h
    split at h
    · rename_i hemp
      exfalso
      have : Op.pnone ∈ validOps (Gen.table c.version) c g.sim :=
        List.mem_filter.mpr ⟨pnone_in_table _ hv, rfl⟩
      rw [List.isEmpty_iff] at hemp
      rw [hemp] at this; simp at this
    · split at h
      · simp at h
      · rename_i chosen hch
        have hce := (List.mem_filter.mp (idx?_mem hch)).2
        split at h
        · simp at h
        · rename_i g1 s1 he
          obtain ⟨hl, hJ1⟩ := emitAndProcess_count E X c hE g g1 hJ chosen hce _ s1 he
          have := bodyLoop_count hE hv n g1 g' s1 s' hJ1 h
          omega

/-- **C11, exactness.**  The body of every generated pickle has exactly `target` instructions. -/
theorem generate_bodyLen (hE : Lawful E) (hv : c.version ≤ 5) (s s' : σ) (r : Result)
    (h : generate E X c s = .ok (r, s')) : r.bodyLen = r.target := by
  simp only [generate] at h
  split at h
  · simp at h
  · rename_i g s3 hb
    simp only [Except.ok.injEq, Prod.mk.injEq] at h
    obtain ⟨hr, _⟩ := h
    subst hr
    have := bodyLoop_count E X c hE hv _ { sim := initState c.version } g _ s3 (Or.inl rfl) hb
    simpa using this


theorem emitAndProcess_depth (g g' : GenSt) (op : Op) (s s' : σ)
    (h : emitAndProcess E X c g op s = .ok (g', s')) : g'.sim.stack.length ≤ g.sim.stack.length + 1 := by
  simp only [emitAndProcess] at h
  split at h
  · simp at h
  · rename_i oi s1 he
    split at h
    · simp at h
    · simp only [Except.ok.injEq, Prod.mk.injEq] at h
      obtain ⟨hg, _⟩ := h
      rw [← hg]
      cases oi with
      | none => simp
      | some i => exact process_len _ _ _ _

theorem bodyLoop_depth : ∀ (n : Nat) (g g' : GenSt) (s s' : σ),
      bodyLoop E X c n g s = .ok (g', s') → g'.sim.stack.length ≤ g.sim.stack.length + n
  | 0, g, g', s, s', h => by
    simp only [bodyLoop, Except.ok.injEq, Prod.mk.injEq] at h
    rw [← h.1]; simp
  | n + 1, g, g', s, s', h => by
    simp only [bodyLoop] at h
    split at h
    · simp only [Except.ok.injEq, Prod.mk.injEq] at h
      rw [← h.1]; omega
    · split at h
      · simp at h
      · split at h
        · simp at h
        · rename_i g1 s1 he
          have h1 := emitAndProcess_depth E X c g g1 _ _ s1 he
          have h2 := bodyLoop_depth n g1 g' s1 s' h
          omega

/-- **C11 for every configuration.**  The drawn target `T` obeys the knobs, the body has exactly `T`
instructions, and what follows is a collapse tail of at most `2T+1` opcodes and STOP. -/
theorem generate_counts (hE : Lawful E) (hv : c.version ≤ 5) (s s' : σ) (r : Result)
    (h : generate E X c s = .ok (r, s')) :
    c.minOps ≤ r.target ∧ (r.target < c.maxOps ∨ (c.maxOps ≤ c.minOps ∧ r.target = c.minOps)) ∧
    ∃ body tail : List Instr, r.instrs = body ++ tail ++ [stopInstr] ∧ body.length = r.target ∧
      tail.length ≤ 2 * r.target + 1 := by
  have hlen := generate_bodyLen E X c hE hv s s' r h
  simp only [generate] at h
  split at h
  · simp at h
  · rename_i g s3 hb
    simp only [Except.ok.injEq, Prod.mk.injEq] at h
    obtain ⟨hr, _⟩ := h
    subst hr
    simp only at hlen ⊢
    have hd := bodyLoop_depth E X c _ { sim := initState c.version } g _ s3 hb
    simp only [initState, List.length_nil, Nat.zero_add] at hd
    obtain ⟨_, _, c3, _⟩ := cleanup_spec c g.sim
    by_cases hpos : c.maxOps - c.minOps > 0
    · simp only [hpos, if_true] at hlen hd ⊢
      have key : ∀ k, k < c.maxOps - c.minOps → c.minOps ≤ c.minOps + k ∧
          (c.minOps + k < c.maxOps ∨ (c.maxOps ≤ c.minOps ∧ c.minOps + k = c.minOps)) := by
        intro k hk; omega
      obtain ⟨k1, k2⟩ := key _ (hE.chooseIndex_lt (if c.version ≥ 4 then E.genBool s else (false, s)).2 (c.maxOps - c.minOps) hpos)
      refine ⟨k1, k2, g.out.reverse, plain (cleanup c.version g.sim).2, rfl, by simpa using hlen, ?_⟩
      simp only [plain, List.length_map]
      exact Nat.le_trans c3 (by omega)
    · simp only [hpos, if_false] at hlen hd ⊢
      refine ⟨Nat.le_refl _, Or.inr ⟨by omega, trivial⟩, g.out.reverse, plain (cleanup c.version g.sim).2, rfl, by simpa using hlen, ?_⟩
      simp only [plain, List.length_map]
      exact Nat.le_trans c3 (by omega)

end G
end PFV
