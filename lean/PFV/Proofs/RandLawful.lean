/- C18 for the seeded source: the exact port of ChaCha8Rng + rand's samplers satisfies the entropy
contract for every generator state (the block function's output is used only as "some 32-bit words"). -/
import PFV.Rand
import PFV.Proofs.ArbLawful
namespace PFV
namespace Rand

theorem nextU32_lt (s : St) : (nextU32 s).1 < 4294967296 := by
  simp only [nextU32]
  exact UInt32.toNat_lt _

theorem nextU64_lt (s : St) : (nextU64 s).1 < 18446744073709551616 := by
  have key : ∀ a b : UInt32, a.toNat + 4294967296 * b.toNat < 18446744073709551616 := by
    intro a b
    have := a.toNat_lt; have := b.toNat_lt
    omega
  simp only [nextU64]
  split
  · exact key _ _
  · split <;> exact key _ _

/-- the widening-multiply sampler stays below the range, also after the bias correction -/
theorem wmul_bound (w : Nat) (hw : w = 4294967296 ∨ w = 18446744073709551616) (x r : Nat) (hx : x < w)
    (hr : 0 < r) : x * r / w < r ∧ (x * r % w > (w - r) % w → x * r / w + 1 < r) := by
  have hp : x * r ≤ (w - 1) * r := Nat.mul_le_mul_right r (by omega)
  rcases hw with rfl | rfl
  · by_cases hrw : r = 4294967296
    · subst hrw; omega
    · generalize x * r = p at *
      omega
  · by_cases hrw : r = 18446744073709551616
    · subst hrw; omega
    · generalize x * r = p at *
      omega

theorem sampleWith_in (draw : St → Nat × St) (w : Nat) (hw : w = 4294967296 ∨ w = 18446744073709551616)
    (hd : ∀ s, (draw s).1 < w) (low high : Nat) (h : low < high) (s : St) :
    low ≤ (sampleWith draw w low high s).1 ∧ (sampleWith draw w low high s).1 < high := by
  simp only [sampleWith]
  obtain ⟨b1, b2⟩ := wmul_bound w hw (draw s).1 (high - low) (hd s) (by omega)
  generalize (draw s).1 * (high - low) / w = hi at *
  generalize (draw s).1 * (high - low) % w = lo at *
  generalize (w - (high - low)) % w = th at *
  split
  · rename_i hlo
    have := b2 hlo
    simp only
    generalize ((draw (draw s).2).1 * (high - low)) / w = nh
    split <;> omega
  · simp only
    omega

theorem sampleRange_in (low high : Nat) (h : low < high) (s : St) :
    low ≤ (sampleRange low high s).1 ∧ (sampleRange low high s).1 < high := by
  unfold sampleRange
  split
  · exact sampleWith_in nextU64 _ (Or.inr rfl) nextU64_lt low high h s
  · exact sampleWith_in nextU32 _ (Or.inl rfl) nextU32_lt low high h s

theorem leBytes_length (w n : Nat) : (leBytes w n).length = n := by simp [leBytes]

theorem fillBytes_length : ∀ (fuel n : Nat) (s : St) (acc : List UInt8), n ≤ fuel →
    (fillBytes fuel n s acc).1.length = acc.length + n
  | 0, n, s, acc, h => by
    have : n = 0 := by omega
    subst this; simp [fillBytes]
  | fuel + 1, 0, s, acc, _ => by simp [fillBytes]
  | fuel + 1, n + 1, s, acc, h => by
    simp only [fillBytes]
    rw [fillBytes_length fuel _ _ _ (by omega)]
    simp only [List.length_append, leBytes_length]
    omega

/-- **C18 for the seeded source.** -/
theorem lawful : Lawful E where
  chooseIndex_lt := by
    intro s n hn
    simp only [E]
    have hn0 : n ≠ 0 := by omega
    simp only [hn0, if_false]
    exact (sampleRange_in 0 n hn s).2
  chooseIndex_zero := by intro s; simp [E]
  genU8_lt := by intro s; simp only [E]; exact Nat.mod_lt _ (by decide)
  genU16_lt := by intro s; simp only [E]; exact Nat.mod_lt _ (by decide)
  genU32_lt := by intro s; simp only [E]; exact nextU32_lt s
  genI32_range := by
    intro s
    have := Arb.toSigned_range 32 (by decide) (nextU32 s).1 (nextU32_lt s)
    simp only [E]
    constructor
    · have := this.1; simpa using this
    · have := this.2; simpa using this
  genI64_range := by
    intro s
    have := Arb.toSigned_range 64 (by decide) (nextU64 s).1 (nextU64_lt s)
    simp only [E]
    constructor
    · have := this.1; simpa using this
    · have := this.2; simpa using this
  genUnit_lt := by
    intro s
    have h := nextU64_lt s
    simp only [E]
    omega
  genRange_in := by
    intro s a b hab _
    simp only [E]
    have hn : ¬ a ≥ b := by omega
    simp only [hn, if_false]
    exact sampleRange_in a b hab s
  genRange_degenerate := by
    intro s a b hba
    simp only [E]
    have : a ≥ b := hba
    simp [this]
  genBytes_len := by
    intro s n
    simp only [E]
    rw [fillBytes_length n n s [] (Nat.le_refl _)]
    simp

end Rand
end PFV
