/- C17 one-step simulation, part B: fixed-arity opcodes. -/
import PFV.Proofs.StepSim
namespace PFV
open Ref (RKind RState RMemo)

variable {c : Cfg} {a : Arg}

theorem step_pop {s : State} {r : RState} (hR : SRel s r) (hd : Dense s.memo)
    (hc : canEmit c s .pop = true) : StepGoal c.version s r .pop a := by
  obtain ⟨st, m, pe⟩ := s
  obtain ⟨rst, rm⟩ := r
  obtain ⟨hs, hm⟩ := hR
  dsimp only at hs hm hd
  cases hs with
  | nil => simp [canEmit] at hc
  | @cons k rk ks rs hk ht =>
    exact ⟨⟨rs, rm⟩, by simp [Ref.step], ⟨by simpa [process] using ht, hm⟩, hd⟩

theorem step_dup {s : State} {r : RState} (hR : SRel s r) (hd : Dense s.memo)
    (hc : canEmit c s .dup = true) : StepGoal c.version s r .dup a := by
  obtain ⟨st, m, pe⟩ := s
  obtain ⟨rst, rm⟩ := r
  obtain ⟨hs, hm⟩ := hR
  dsimp only at hs hm hd
  cases hs with
  | nil => simp [canEmit, topNonMark] at hc
  | @cons k rk ks rs hk ht =>
    have hkm : k ≠ .mark := by simpa [canEmit, topNonMark] using hc
    have hrm : rk ≠ .mark := compat_nonmark hkm hk
    refine goal_of (s' := ⟨k :: k :: ks, m, pe⟩) (r' := ⟨rk :: rk :: rs, rm⟩) ?_ ?_ ⟨?_, hm⟩ hd
    · simp [process, hkm]
    · simp [Ref.step, Ref.chk, hrm]
    · exact Rel.cons hk (Rel.cons hk ht)

theorem step_append {s : State} {r : RState} (hR : SRel s r) (hd : Dense s.memo)
    (hc : canEmit c s .append = true) : StepGoal c.version s r .append a := by
  obtain ⟨st, m, pe⟩ := s
  obtain ⟨rst, rm⟩ := r
  obtain ⟨hs, hm⟩ := hR
  dsimp only at hs hm hd
  simp only [canEmit, Bool.and_eq_true, decide_eq_true_eq] at hc
  obtain ⟨x, t, rfl⟩ := isAt_one hc.2
  obtain ⟨rx, rt1, rfl, hx, h1⟩ := hs.cons_inv
  obtain ⟨rl, rt, rfl, hl, ht⟩ := h1.cons_inv
  refine goal_of (s' := ⟨.list :: t, m, pe⟩) (r' := ⟨rl :: rt, rm⟩) ?_ ?_ ⟨Rel.cons hl ht, hm⟩ hd
  · simp [process]
  · simp [Ref.step, Ref.chk, compat_list hl]

theorem step_setItem {s : State} {r : RState} (hR : SRel s r) (hd : Dense s.memo)
    (hc : canEmit c s .setItem = true) : StepGoal c.version s r .setItem a := by
  obtain ⟨st, m, pe⟩ := s
  obtain ⟨rst, rm⟩ := r
  obtain ⟨hs, hm⟩ := hR
  dsimp only at hs hm hd
  simp only [canEmit, Bool.and_eq_true, decide_eq_true_eq] at hc
  obtain ⟨x, y, t, rfl⟩ := isAt_two hc.2
  obtain ⟨rx, rt1, rfl, hx, h1⟩ := hs.cons_inv
  obtain ⟨ry, rt2, rfl, hy, h2⟩ := h1.cons_inv
  obtain ⟨rl, rt, rfl, hl, ht⟩ := h2.cons_inv
  refine goal_of (s' := ⟨.dict :: t, m, pe⟩) (r' := ⟨rl :: rt, rm⟩) ?_ ?_ ⟨Rel.cons hl ht, hm⟩ hd
  · simp [process]; omega
  · simp [Ref.step, Ref.chk, compat_dict hl]

theorem step_tuple1 {s : State} {r : RState} (hR : SRel s r) (hd : Dense s.memo)
    (hc : canEmit c s .tuple1 = true) : StepGoal c.version s r .tuple1 a := by
  obtain ⟨st, m, pe⟩ := s
  obtain ⟨rst, rm⟩ := r
  obtain ⟨hs, hm⟩ := hR
  dsimp only at hs hm hd
  cases hs with
  | nil => simp [canEmit] at hc
  | @cons k rk ks rs hk ht =>
    exact ⟨⟨.tuple :: rs, rm⟩, by simp [Ref.step], ⟨by simpa [process] using Rel.cons (by decide) ht, hm⟩, hd⟩

theorem step_tuple2 {s : State} {r : RState} (hR : SRel s r) (hd : Dense s.memo)
    (hc : canEmit c s .tuple2 = true) : StepGoal c.version s r .tuple2 a := by
  obtain ⟨st, m, pe⟩ := s
  obtain ⟨rst, rm⟩ := r
  obtain ⟨hs, hm⟩ := hR
  dsimp only at hs hm hd
  match st, hs, hc with
  | [], _, hc => simp [canEmit] at hc
  | [_], _, hc => simp [canEmit] at hc
  | x :: y :: t, hs, _ =>
    obtain ⟨rx, rt1, rfl, hx, h1⟩ := hs.cons_inv
    obtain ⟨ry, rt, rfl, hy, ht⟩ := h1.cons_inv
    exact ⟨⟨.tuple :: rt, rm⟩, by simp [Ref.step], ⟨by simpa [process] using Rel.cons (by decide) ht, hm⟩, hd⟩

theorem step_tuple3 {s : State} {r : RState} (hR : SRel s r) (hd : Dense s.memo)
    (hc : canEmit c s .tuple3 = true) : StepGoal c.version s r .tuple3 a := by
  obtain ⟨st, m, pe⟩ := s
  obtain ⟨rst, rm⟩ := r
  obtain ⟨hs, hm⟩ := hR
  dsimp only at hs hm hd
  match st, hs, hc with
  | [], _, hc => simp [canEmit] at hc
  | [_], _, hc => simp [canEmit] at hc
  | [_, _], _, hc => simp [canEmit] at hc
  | x :: y :: z :: t, hs, _ =>
    obtain ⟨rx, rt1, rfl, hx, h1⟩ := hs.cons_inv
    obtain ⟨ry, rt2, rfl, hy, h2⟩ := h1.cons_inv
    obtain ⟨rz, rt, rfl, hz, ht⟩ := h2.cons_inv
    exact ⟨⟨.tuple :: rt, rm⟩, by simp [Ref.step], ⟨by simpa [process] using Rel.cons (by decide) ht, hm⟩, hd⟩

theorem step_binPersID {s : State} {r : RState} (hR : SRel s r) (hd : Dense s.memo)
    (hc : canEmit c s .binPersID = true) : StepGoal c.version s r .binPersID a := by
  obtain ⟨st, m, pe⟩ := s
  obtain ⟨rst, rm⟩ := r
  obtain ⟨hs, hm⟩ := hR
  dsimp only at hs hm hd
  cases hs with
  | nil => simp [canEmit] at hc
  | @cons k rk ks rs hk ht =>
    exact ⟨⟨.any :: rs, rm⟩, by simp [Ref.step], ⟨by simpa [process] using Rel.cons (by decide) ht, hm⟩, hd⟩

theorem step_readOnlyBuffer {s : State} {r : RState} (hR : SRel s r) (hd : Dense s.memo)
    (hc : canEmit c s .readOnlyBuffer = true) : StepGoal c.version s r .readOnlyBuffer a := by
  obtain ⟨st, m, pe⟩ := s
  obtain ⟨rst, rm⟩ := r
  obtain ⟨hs, hm⟩ := hR
  dsimp only at hs hm hd
  cases hs with
  | nil => simp [canEmit, topNonMark] at hc
  | @cons k rk ks rs hk ht =>
    have hkm : k ≠ .mark := by
      simp only [canEmit, Bool.and_eq_true] at hc
      simpa [topNonMark] using hc.2
    have hka : compat k .any = true := by cases k <;> simp_all [compat]
    refine goal_of (s' := ⟨k :: ks, m, pe⟩) (r' := ⟨.any :: rs, rm⟩) ?_ ?_ ⟨Rel.cons hka ht, hm⟩ hd
    · simp [process]
    · simp [Ref.step]

end PFV
