/-
C09 (and the groundwork for the refinement `Gen ⊑ AbsGen`): under the entropy contract none of
the modelled panic sites of the mutators and of `emit_and_process` is reachable.
-/
import PFV.Gen
import PFV.Proofs.MutFacts
import PFV.Proofs.Tables
namespace PFV
open Mutators

variable {σ : Type} (E : Entropy σ)

theorem idx?_ok {α : Type} (site : String) (l : List α) (i : Nat) (h : i < l.length) :
    idx? site l i = .ok l[i] := by
  simp [idx?, List.getElem?_eq_getElem h]

/-! ### mutators never panic -/

theorem mutateInt_total (hE : Lawful E) (bits : Nat) (hb : bits ≤ 2 ^ 64) (bounds : List Int) (hne : bounds ≠ [])
    (hbl : bounds.length ≤ 2 ^ 64) (m : Mut) (v : Int) (s : σ) (rate : UInt64) :
    ∃ r, mutateInt E bits bounds m v s rate = .ok r := by
  cases m <;> simp only [mutateInt] <;> try exact ⟨_, rfl⟩
  · split <;> exact ⟨_, rfl⟩
  · split
    · exact ⟨_, rfl⟩
    · have hpos : 0 < bounds.length := List.length_pos_iff.mpr hne
      have := (hE.genRange_in (gate E s rate).2 0 bounds.length hpos hbl).2
      rw [idx?_ok _ _ _ this]
      exact ⟨_, rfl⟩
  · split <;> exact ⟨_, rfl⟩

theorem mutateFloat_total (hE : Lawful E) (m : Mut) (v : UInt64) (s : σ) (rate : UInt64) :
    ∃ r, mutateFloat E m v s rate = .ok r := by
  cases m <;> simp only [mutateFloat] <;> try exact ⟨_, rfl⟩
  split
  · exact ⟨_, rfl⟩
  · have hpos : 0 < Gen.boundFloat.length := by decide
    have := (hE.genRange_in (gate E s rate).2 0 Gen.boundFloat.length hpos (by decide)).2
    rw [idx?_ok _ _ _ this]
    exact ⟨_, rfl⟩

theorem mutateString_total (hE : Lawful E) (m : Mut) (v : List Char) (hv : v.length ≤ 2 ^ 64) (s : σ) (rate : UInt64) :
    ∃ r, mutateString E m v s rate = .ok r := by
  cases m <;> simp only [mutateString] <;> try exact ⟨_, rfl⟩
  · split
    · exact ⟨_, rfl⟩
    · split
      · split <;> exact ⟨_, rfl⟩
      · split <;> exact ⟨_, rfl⟩
  · split
    · exact ⟨_, rfl⟩
    · rename_i hc
      have hne : v.isEmpty = false := by
        cases h : v.isEmpty <;> simp_all
      have hpos : 0 < v.length := by
        cases v with
        | nil => simp at hne
        | cons _ _ => simp
      have := (hE.genRange_in (gate E s rate).2 0 v.length hpos hv).2
      simp only [this, if_true]
      exact ⟨_, rfl⟩

theorem mutateBytes_total (hE : Lawful E) (m : Mut) (v : List UInt8) (hv : v.length ≤ 2 ^ 64) (s : σ) (rate : UInt64) :
    ∃ r, mutateBytes E m v s rate = .ok r := by
  cases m <;> simp only [mutateBytes] <;> try exact ⟨_, rfl⟩
  · split
    · exact ⟨_, rfl⟩
    · split
      · split
        · exact ⟨_, rfl⟩
        · rename_i he
          have hpos : 0 < v.length := by
            cases v with
            | nil => simp at he
            | cons _ _ => simp
          have := (hE.genRange_in (E.genRange (gate E s rate).2 0 3).2 0 v.length hpos hv).2
          have hle : (E.genRange (E.genRange (gate E s rate).2 0 3).2 0 v.length).1 ≤ v.length := by omega
          simp only [hle, if_true]
          exact ⟨_, rfl⟩
      · split <;> exact ⟨_, rfl⟩
  · split
    · exact ⟨_, rfl⟩
    · rename_i hc
      have hne : v.isEmpty = false := by
        cases h : v.isEmpty <;> simp_all
      have hpos : 0 < v.length := by
        cases v with
        | nil => simp at hne
        | cons _ _ => simp
      have := (hE.genRange_in (gate E s rate).2 0 v.length hpos hv).2
      simp only [this, if_true]
      exact ⟨_, rfl⟩

theorem mutateMemo_total (m : Mut) (v : Nat) (s : σ) (rate : UInt64) :
    ∃ r, mutateMemo E m v s rate = .ok r := by
  cases m <;> simp only [mutateMemo] <;> try exact ⟨_, rfl⟩
  · split <;> exact ⟨_, rfl⟩
  · split
    · exact ⟨_, rfl⟩
    · split <;> exact ⟨_, rfl⟩

/-- if every mutator call is total on the values the loop can see, so is the loop;
`P` is an invariant of the value (it is not changed before the loop stops) -/
theorem firstSome_total {α : Type} (f : Mut → α → σ → UInt64 → Except Panic (Option α × σ)) (rate : UInt64)
    (v : α) (h : ∀ m s, ∃ r, f m v s rate = .ok r) :
    ∀ (ms : List Mut) (s : σ), ∃ x s' b, firstSome f ms v s rate = .ok (x, s', b)
  | [], s => ⟨v, s, false, rfl⟩
  | m :: ms, s => by
    obtain ⟨r, hr⟩ := h m s
    obtain ⟨o, s1⟩ := r
    cases o with
    | some x => exact ⟨x, s1, true, by simp [firstSome, hr]⟩
    | none =>
      obtain ⟨x, s', b, h2⟩ := firstSome_total f rate v h ms s1
      exact ⟨x, s', b, by simp [firstSome, hr, h2]⟩

theorem typeConfusion_total (hE : Lawful E) (u : Bool) (first : Option UInt8) (s : σ) (rate : UInt64) :
    ∃ r, typeConfusion E u first s rate = .ok r := by
  cases u
  · exact ⟨_, typeconfusion_safe E first s rate⟩
  · simp only [typeConfusion, Bool.not_true, Bool.false_eq_true, if_false]
    split
    · exact ⟨_, rfl⟩
    · cases first with
      | none => exact ⟨_, rfl⟩
      | some b =>
        simp only
        cases ht : Gen.opcodeToType b with
        | none => exact ⟨_, rfl⟩
        | some t0 =>
          simp only
          have hpos : 0 < (Gen.allTypes.filter (· != t0)).length := by
            cases t0 <;> decide
          have := hE.chooseIndex_lt (gate E s rate).2 _ hpos
          rw [idx?_ok _ _ _ this]
          exact ⟨_, rfl⟩

theorem postProcess_total (hE : Lawful E) (rate : UInt64) (first : Option UInt8) :
    ∀ (ms : List Mut) (cur : Option Instr) (s : σ), ∃ r, postProcess E ms first cur s rate = .ok r
  | [], cur, s => ⟨_, rfl⟩
  | m :: ms, cur, s => by
    cases m with
    | typeconfusion u =>
      obtain ⟨r, hr⟩ := typeConfusion_total E hE u first s rate
      obtain ⟨o, s1⟩ := r
      cases o with
      | some x =>
        obtain ⟨r2, h2⟩ := postProcess_total hE rate first ms (some x) s1
        exact ⟨r2, by simp [postProcess, hr, h2]⟩
      | none =>
        obtain ⟨r2, h2⟩ := postProcess_total hE rate first ms cur s1
        exact ⟨r2, by simp [postProcess, hr, h2]⟩
    | _ => simpa [postProcess] using postProcess_total hE rate first ms cur s

end PFV

namespace PFV
open Mutators
namespace G
variable {σ : Type} (E : Entropy σ)

theorem genChars_length : ∀ (n : Nat) (s : σ) (acc : List Char),
    (genChars E n s acc).1.length = acc.length + n
  | 0, s, acc => by simp [genChars]
  | n + 1, s, acc => by
    simp only [genChars]
    rw [genChars_length n]
    simp; omega

theorem genRawBytes_length : ∀ (n : Nat) (s : σ) (acc : List UInt8),
    (genRawBytes E n s acc).1.length = acc.length + n
  | 0, s, acc => by simp [genRawBytes]
  | n + 1, s, acc => by
    simp only [genRawBytes]
    rw [genRawBytes_length n]
    simp; omega

theorem sortedKeys_length (m : Memo) : (sortedKeys m).length = m.length := by
  simp [sortedKeys, Memo.keys]

variable (X : Ext) (c : Cfg)

theorem emitInt_total (hE : Lawful E) (hv : c.version < 6) (s : σ) : ∃ r, emitInt E c s = .ok r := by
  simp only [emitInt]
  have hne : (Gen.table c.version).filter isIntLike ≠ [] := by
    have := Tables.intlike_nonempty c.version hv
    have e : Tables.isIntLike = isIntLike := rfl
    rwa [e] at this
  have hlt := hE.chooseIndex_lt s _ (List.length_pos_iff.mpr hne)
  rw [idx?_ok _ _ _ hlt]
  simp only
  obtain ⟨x, s', b, hf⟩ := firstSome_total (mutateInt E 32 Gen.boundInt) c.rateBits
    (E.genI32 (E.chooseIndex s ((Gen.table c.version).filter isIntLike).length).2).1
    (fun m s => mutateInt_total E hE 32 (by decide) Gen.boundInt (by decide) (by decide) m _ s _) c.mutators
    (E.genI32 (E.chooseIndex s ((Gen.table c.version).filter isIntLike).length).2).2
  rw [hf]
  exact ⟨_, rfl⟩

theorem emitFloat_total (hE : Lawful E) (op : Op) (s : σ) : ∃ r, emitFloat E X c op s = .ok r := by
  simp only [emitFloat]
  obtain ⟨x, s', b, hf⟩ := firstSome_total (mutateFloat E) c.rateBits (E.genF64 s).1
    (fun m s => mutateFloat_total E hE m _ s _) c.mutators (E.genF64 s).2
  rw [hf]
  exact ⟨_, rfl⟩

theorem emitStr_total (hE : Lawful E) (op : Op) (s : σ) : ∃ r, emitStr E c op s = .ok r := by
  simp only [emitStr]
  obtain ⟨x, s', b, hf⟩ := firstSome_total (mutateString E) c.rateBits
    (genChars E ((E.genU8 s).1 % 32) (E.genU8 s).2 []).1
    (fun m s2 => mutateString_total E hE m _ (by
      rw [genChars_length]
      have : (E.genU8 s).1 % 32 < 32 := Nat.mod_lt _ (by decide)
      simp; omega) s2 _) c.mutators (genChars E ((E.genU8 s).1 % 32) (E.genU8 s).2 []).2
  rw [hf]
  simp only
  repeat' split
  all_goals exact ⟨_, rfl⟩

theorem emitBytes_total (hE : Lawful E) (op : Op) (s : σ) : ∃ r, emitBytes E c op s = .ok r := by
  simp only [emitBytes]
  obtain ⟨x, s', b, hf⟩ := firstSome_total (mutateBytes E) c.rateBits
    (genRawBytes E ((E.genU8 s).1 % 32) (E.genU8 s).2 []).1
    (fun m s2 => mutateBytes_total E hE m _ (by
      rw [genRawBytes_length]
      have : (E.genU8 s).1 % 32 < 32 := Nat.mod_lt _ (by decide)
      simp; omega) s2 _) c.mutators (genRawBytes E ((E.genU8 s).1 % 32) (E.genU8 s).2 []).2
  rw [hf]
  simp only
  repeat' split
  all_goals exact ⟨_, rfl⟩

theorem emitGlobal_total (hE : Lawful E) (hmods : X.mods ≠ []) (op : Op) (s : σ) :
    ∃ r, emitGlobal E X op s = .ok r := by
  simp only [emitGlobal]
  have hlt := hE.chooseIndex_lt s _ (List.length_pos_iff.mpr hmods)
  rw [idx?_ok _ _ _ hlt]
  exact ⟨_, rfl⟩

theorem emitGet_total (hE : Lawful E) (sim : State) (hmemo : sim.memo.length ≤ 2 ^ 64) (op : Op) (s : σ) :
    ∃ r, emitGet E c sim op s = .ok r := by
  simp only [emitGet]
  generalize hk : (if (op == Op.binGet) = true then List.filter (fun x => decide (x < 256)) (sortedKeys sim.memo)
      else sortedKeys sim.memo) = keys
  have hlen : keys.length ≤ 2 ^ 64 := by
    rw [← hk]
    split
    · exact Nat.le_trans (List.length_filter_le _ _) (by rw [sortedKeys_length]; exact hmemo)
    · rw [sortedKeys_length]; exact hmemo
  split
  · exact ⟨_, rfl⟩
  · rename_i hne
    have hpos : 0 < keys.length := by
      cases keys with
      | nil => simp at hne
      | cons _ _ => simp
    have hj := (hE.genRange_in s 0 keys.length hpos hlen).2
    rw [idx?_ok _ _ _ hj]
    simp only
    obtain ⟨x, s', b, hf⟩ := firstSome_total (mutateMemo E) c.rateBits
      (keys[(E.genRange s 0 keys.length).1]'hj)
      (fun m s => mutateMemo_total E m _ s _) c.mutators (E.genRange s 0 keys.length).2
    rw [hf]
    simp only
    split <;> exact ⟨_, rfl⟩

/-- **no panic in the emission step**: for every opcode the guards can select -/
theorem emitOne_total (hE : Lawful E) (hmods : X.mods ≠ []) (hv : c.version < 6) (sim : State)
    (hmemo : sim.memo.length ≤ 2 ^ 64) (op : Op) (hop : op ≠ .frame) (s : σ) :
    ∃ r, emitOne E X c sim op s = .ok r := by
  cases op <;> simp only [emitOne] <;>
    first
      | exact ⟨_, rfl⟩
      | exact emitInt_total E c hE hv s
      | exact emitFloat_total E X c hE _ s
      | exact emitStr_total E c hE _ s
      | exact emitBytes_total E c hE _ s
      | exact emitGlobal_total E X hE hmods _ s
      | exact emitGet_total E c hE sim hmemo _ s
      | exact absurd rfl hop

end G
end PFV

namespace PFV
open Mutators

theorem insert_length_le (m : Memo) (i : Nat) (k : Kind) : (Memo.insert m i k).length ≤ m.length + 1 := by
  induction m with
  | nil => simp [Memo.insert]
  | cons p t ih =>
    obtain ⟨j, k'⟩ := p
    by_cases hj : j = i <;> simp [Memo.insert, hj] <;> omega

/-- one opcode adds at most one memo entry -/
theorem process_memo_len (v : Nat) (s : State) (op : Op) (a : Arg) :
    (process v s op a).memo.length ≤ s.memo.length + 1 := by
  have hi := fun i k => insert_length_le s.memo i k
  cases op <;> simp only [process] <;> (repeat' split) <;> first | (simp; done) | (simp only []; omega) | exact hi _ _ | (simp; omega)

namespace G
variable {σ : Type} (E : Entropy σ) (X : Ext) (c : Cfg)

theorem emitAndProcess_total (hE : Lawful E) (hmods : X.mods ≠ []) (hv : c.version < 6) (g : GenSt)
    (hmemo : g.sim.memo.length ≤ 2 ^ 64) (op : Op) (hop : op ≠ .frame) (s : σ) :
    ∃ g' s', emitAndProcess E X c g op s = .ok (g', s') ∧ g'.sim.memo.length ≤ g.sim.memo.length + 1 := by
  obtain ⟨⟨oi, s1⟩, h1⟩ := emitOne_total E X c hE hmods hv g.sim hmemo op hop s
  simp only [emitAndProcess, h1]
  have hpost : ∃ r, (if c.mutators.isEmpty = true then (Except.ok (none, s1) : Except Panic (Option Instr × σ))
      else postProcess E c.mutators (oi.map fun i => Gen.asU8 i.op) none s1 c.rateBits) = .ok r := by
    split
    · exact ⟨_, rfl⟩
    · exact postProcess_total E hE _ _ _ _ _
  obtain ⟨⟨repl, s2⟩, h2⟩ := hpost
  rw [h2]
  refine ⟨_, _, rfl, ?_⟩
  simp only
  cases oi with
  | none => simp
  | some i => exact process_memo_len _ _ _ _

theorem validOps_ne_frame (table : List Op) (s : State) (op : Op) (h : op ∈ validOps table c s) : op ≠ .frame := by
  intro e
  subst e
  have := (List.mem_filter.mp h).2
  simp [canEmit] at this

theorem bodyLoop_total (hE : Lawful E) (hmods : X.mods ≠ []) (hv : c.version < 6) :
    ∀ (n : Nat) (g : GenSt) (s : σ), g.sim.memo.length + n ≤ 2 ^ 64 →
      ∃ g' s', bodyLoop E X c n g s = .ok (g', s')
  | 0, g, s, _ => ⟨g, s, rfl⟩
  | n + 1, g, s, hm => by
    simp only [bodyLoop]
    split
    · exact ⟨_, _, rfl⟩
    · rename_i hne
      have hpos : 0 < (validOps (Gen.table c.version) c g.sim).length := by
        cases h : validOps (Gen.table c.version) c g.sim with
        | nil => simp [h] at hne
        | cons _ _ => simp
      have hlt := hE.chooseIndex_lt s _ hpos
      rw [idx?_ok _ _ _ hlt]
      simp only
      have hmem := List.getElem_mem hlt
      obtain ⟨g1, s1, h1, hl⟩ := emitAndProcess_total E X c hE hmods hv g (by omega) _
        (validOps_ne_frame c _ _ _ hmem) (E.chooseIndex s (validOps (Gen.table c.version) c g.sim).length).2
      rw [h1]
      simp only
      exact bodyLoop_total hE hmods hv n g1 s1 (by omega)

/-- **C09 on the model.**  For every lawful entropy source, every protocol, every opcode range
(inverted and zero included), every mutator list, every rate bit pattern (NaN included) and all
flags: generation returns `Ok` with a non-empty byte string — no modelled panic site is reachable. -/
theorem generate_total (hE : Lawful E) (hmods : X.mods ≠ []) (hv : c.version < 6)
    (hmin : c.minOps ≤ 2 ^ 63) (hmax : c.maxOps ≤ 2 ^ 63) (s : σ) :
    ∃ r s', generate E X c s = .ok (r, s') ∧ r.bytes ≠ [] := by
  simp only [generate]
  generalize hs1 : (if c.version ≥ 4 then E.genBool s else (false, s)) = p1
  obtain ⟨useFrame, s1⟩ := p1
  simp only
  generalize hs2 : (if c.maxOps - c.minOps > 0 then
      (match E.chooseIndex s1 (c.maxOps - c.minOps) with | (k, s) => (c.minOps + k, s)) else (c.minOps, s1)) = p2
  obtain ⟨target, s2⟩ := p2
  have ht : target ≤ 2 ^ 63 + 2 ^ 63 := by
    have e : target = (if c.maxOps - c.minOps > 0 then
      (match E.chooseIndex s1 (c.maxOps - c.minOps) with | (k, s) => (c.minOps + k, s)) else (c.minOps, s1)).1 := by
      rw [hs2]
    rw [e]
    by_cases hr : c.maxOps - c.minOps > 0
    · have hk := hE.chooseIndex_lt s1 _ hr
      simp only [hr, if_true]
      show c.minOps + (E.chooseIndex s1 (c.maxOps - c.minOps)).1 ≤ _
      omega
    · simp only [hr, if_false]
      omega
  simp only
  obtain ⟨g, s3, hb⟩ := bodyLoop_total E X c hE hmods hv target { sim := initState c.version } s2 (by
    simp [initState]
    have : (2:Nat) ^ 64 = 2 ^ 63 + 2 ^ 63 := by rfl
    omega)
  rw [hb]
  refine ⟨_, _, rfl, ?_⟩
  simp [stopInstr, Enc.encode]

end G
end PFV
