/-
C04: the reference lexer inverts the generator's encoders — `lexOne (encode i ++ rest) = (i, rest)`
for every well-formed instruction `i` — and therefore lexes every encoded instruction list back.
-/
import PFV.Enc
import PFV.Lex
import PFV.Proofs.Tables
namespace PFV
open Lex Enc

/-! ### fixed-width little-endian fields -/

theorem takeN_append {α : Type} : True := trivial

theorem takeN_app (a rest : List UInt8) : takeN a.length (a ++ rest) = some (a, rest) := by
  induction a with
  | nil => simp [takeN]
  | cons b t ih => simp [takeN, ih]

theorem le_length (w v : Nat) : (le w v).length = w := by simp [le]

theorem le_succ (w v : Nat) : le (w + 1) v = UInt8.ofNat (v % 256) :: le w (v / 256) := by
  unfold le
  rw [List.range_succ_eq_map, List.map_cons, List.map_map]
  congr 1
  apply List.map_congr_left
  intro i _
  show UInt8.ofNat (v >>> (8 * (i + 1)) % 256) = UInt8.ofNat ((v / 256) >>> (8 * i) % 256)
  rw [show 8 * (i + 1) = 8 + 8 * i by omega, Nat.shiftRight_add]
  have : v >>> 8 = v / 256 := by rw [Nat.shiftRight_eq_div_pow]
  rw [this]

theorem leNat_le : ∀ (w v : Nat), leNat (le w v) = v % 2 ^ (8 * w)
  | 0, v => by simp [le, leNat, Nat.mod_one]
  | w + 1, v => by
    rw [le_succ]
    simp only [leNat]
    rw [leNat_le w (v / 256)]
    have h1 : (UInt8.ofNat (v % 256)).toNat = v % 256 := by
      rw [UInt8.toNat_ofNat']
      exact Nat.mod_eq_of_lt (Nat.mod_lt v (by decide : 0 < 256))
    rw [h1]
    have h2 : 2 ^ (8 * (w + 1)) = 256 * 2 ^ (8 * w) := by
      rw [show 8 * (w + 1) = 8 + 8 * w by omega, Nat.pow_add]
    rw [h2, Nat.mod_mul, Nat.add_comm]

theorem fixed_le (w v : Nat) (rest : List UInt8) :
    fixed w (le w v ++ rest) = .ok (le w v, rest) := by
  have := takeN_app (le w v) rest
  rw [le_length] at this
  simp [fixed, this]

/-! ### lines -/

theorem readLine_app (l rest : List UInt8) (h : nl ∉ l) : readLine (l ++ nl :: rest) = some (l, rest) := by
  induction l with
  | nil => simp [readLine, nl]
  | cons b t ih =>
    have hb : b ≠ 0x0a := fun e => h (by simp [nl, e])
    have ht : nl ∉ t := fun e => h (List.mem_cons_of_mem _ e)
    simp [readLine, hb, ih ht]

theorem line_app (l rest : List UInt8) (h : nl ∉ l) : Lex.line (l ++ nl :: rest) = .ok (l, rest) := by
  simp [Lex.line, readLine_app l rest h]

/-! ### decimal -/

/-- the ASCII digit of `n % 10` -/
theorem digitChar_spec (n : Nat) :
    isDigit (UInt8.ofNat (48 + n % 10)) = true ∧ (UInt8.ofNat (48 + n % 10)).toNat - 0x30 = n % 10 := by
  have h10 : n % 10 < 10 := Nat.mod_lt _ (by decide)
  generalize n % 10 = d at h10
  have : d = 0 ∨ d = 1 ∨ d = 2 ∨ d = 3 ∨ d = 4 ∨ d = 5 ∨ d = 6 ∨ d = 7 ∨ d = 8 ∨ d = 9 := by omega
  rcases this with rfl | rfl | rfl | rfl | rfl | rfl | rfl | rfl | rfl | rfl <;> decide

theorem digitsAux_spec : ∀ (fuel n : Nat) (acc : List UInt8), n < fuel →
    ∃ ds, digitsAux fuel n acc = ds ++ acc ∧ ds ≠ [] ∧ (∀ d ∈ ds, isDigit d = true) ∧
      ∀ a, ds.foldl (fun (x : Nat) (b : UInt8) => x * 10 + (b.toNat - 0x30)) a = a * 10 ^ ds.length + n
  | 0, n, acc, h => by omega
  | fuel + 1, n, acc, h => by
    simp only [digitsAux]
    have hd := digitChar_spec n
    by_cases h0 : n / 10 = 0
    · simp only [h0, if_true]
      refine ⟨[UInt8.ofNat (48 + n % 10)], by simp, by simp, ?_, ?_⟩
      · intro d hdm
        rw [List.mem_singleton] at hdm; rw [hdm]; exact hd.1
      · intro a
        simp only [List.foldl_cons, List.foldl_nil, List.length_singleton, Nat.pow_one, hd.2]
        have : n % 10 = n := by
          have := Nat.div_add_mod n 10
          omega
        omega
    · simp only [h0, if_false]
      obtain ⟨ds, e1, e2, e3, e4⟩ := digitsAux_spec fuel (n / 10) (UInt8.ofNat (48 + n % 10) :: acc) (by omega)
      refine ⟨ds ++ [UInt8.ofNat (48 + n % 10)], by rw [e1]; simp, by simp, ?_, ?_⟩
      · intro d hdm
        rcases List.mem_append.mp hdm with h1 | h1
        · exact e3 d h1
        · rw [List.mem_singleton] at h1; rw [h1]; exact hd.1
      · intro a
        rw [List.foldl_append, e4 a]
        simp only [List.foldl_cons, List.foldl_nil, hd.2, List.length_append, List.length_singleton, Nat.pow_succ]
        have := Nat.div_add_mod n 10
        rw [Nat.add_mul, Nat.mul_assoc]
        omega

theorem showNat_spec (n : Nat) :
    showNat n ≠ [] ∧ (∀ d ∈ showNat n, isDigit d = true) ∧
    (showNat n).foldl (fun (x : Nat) (b : UInt8) => x * 10 + (b.toNat - 0x30)) 0 = n := by
  obtain ⟨ds, e1, e2, e3, e4⟩ := digitsAux_spec (n + 1) n [] (by omega)
  simp only [List.append_nil] at e1
  unfold showNat
  rw [e1]
  exact ⟨e2, e3, by simpa using e4 0⟩

theorem digitsVal_digits : ∀ (ds : List UInt8) (acc : Nat) (lw : Bool), (∀ d ∈ ds, isDigit d = true) →
    (ds ≠ [] ∨ lw = true) →
    digitsVal ds acc lw = some (ds.foldl (fun (x : Nat) (b : UInt8) => x * 10 + (b.toNat - 0x30)) acc)
  | [], acc, lw, _, h => by
    rcases h with h | h
    · exact absurd rfl h
    · simp [digitsVal, h]
  | d :: ds, acc, lw, hd, _ => by
    have h1 := hd d (by simp)
    simp only [digitsVal, h1, if_true, List.foldl_cons]
    exact digitsVal_digits ds _ true (fun x hx => hd x (List.mem_cons_of_mem _ hx)) (Or.inr rfl)

theorem digit_not_space (d : UInt8) (h : isDigit d = true) : isSpace d = false := by
  simp only [isDigit, Bool.and_eq_true, decide_eq_true_eq, UInt8.le_iff_toNat_le] at h
  simp only [isSpace, Bool.or_eq_false_iff, decide_eq_false_iff_not, Bool.and_eq_false_iff,
    UInt8.le_iff_toNat_le]
  obtain ⟨h1, h2⟩ := h
  have e1 : (0x30 : UInt8).toNat = 48 := rfl
  have e2 : (0x39 : UInt8).toNat = 57 := rfl
  have e3 : (0x09 : UInt8).toNat = 9 := rfl
  have e4 : (0x0d : UInt8).toNat = 13 := rfl
  rw [e1] at h1; rw [e2] at h2
  refine ⟨?_, Or.inr ?_⟩
  · intro e; rw [e] at h1; revert h1; decide
  · rw [e4]; omega

theorem stripL_head {b : UInt8} {t : List UInt8} (h : isSpace b = false) : stripL (b :: t) = b :: t := by
  simp [stripL, h]

theorem strip_id (l : List UInt8) (b c : UInt8) (hb : l.head? = some b) (hc : l.getLast? = some c)
    (h1 : isSpace b = false) (h2 : isSpace c = false) : strip l = l := by
  cases l with
  | nil => simp at hb
  | cons x t =>
    simp only [List.head?_cons, Option.some.injEq] at hb
    subst hb
    unfold strip
    rw [stripL_head h1]
    have hr : (x :: t).reverse.head? = some c := by rw [List.head?_reverse]; exact hc
    cases hrev : (x :: t).reverse with
    | nil => simp at hrev
    | cons y u =>
      rw [hrev] at hr
      simp only [List.head?_cons, Option.some.injEq] at hr
      subst hr
      rw [stripL_head h2, ← hrev, List.reverse_reverse]

theorem digits_strip (ds : List UInt8) (hne : ds ≠ []) (hd : ∀ d ∈ ds, isDigit d = true) : strip ds = ds := by
  obtain ⟨b, hb⟩ : ∃ b, ds.head? = some b := by
    cases ds with
    | nil => exact absurd rfl hne
    | cons x t => exact ⟨x, rfl⟩
  obtain ⟨c, hc⟩ : ∃ c, ds.getLast? = some c := by
    cases h : ds.getLast? with
    | none => simp [List.getLast?_eq_none_iff] at h; exact absurd h hne
    | some c => exact ⟨c, rfl⟩
  exact strip_id ds b c hb hc (digit_not_space b (hd b (List.mem_of_mem_head? hb)))
    (digit_not_space c (hd c (List.mem_of_getLast? hc)))

theorem digit_not_sign (d : UInt8) (h : isDigit d = true) : d ≠ 0x2d ∧ d ≠ 0x2b := by
  simp only [isDigit, Bool.and_eq_true, decide_eq_true_eq, UInt8.le_iff_toNat_le] at h
  constructor <;> (intro e; rw [e] at h; revert h; decide)

theorem pyInt_showNat (n : Nat) : pyInt (showNat n) = some (n : Int) := by
  obtain ⟨hne, hd, hv⟩ := showNat_spec n
  unfold pyInt
  rw [digits_strip _ hne hd]
  cases hs : showNat n with
  | nil => exact absurd hs hne
  | cons b bs =>
    have hb : isDigit b = true := hd b (by rw [hs]; simp)
    obtain ⟨n1, n2⟩ := digit_not_sign b hb
    simp only [n1, n2, if_false]
    rw [digitsVal_digits (b :: bs) 0 false (by rw [← hs]; exact hd) (Or.inl (by simp))]
    rw [← hs, hv]
    rfl

theorem pyInt_showInt (v : Int) : pyInt (showInt v) = some v := by
  unfold showInt
  by_cases hv : v < 0
  · simp only [hv, if_true]
    obtain ⟨hne, hd, hval⟩ := showNat_spec v.natAbs
    unfold pyInt
    have hlast : ∃ c, (0x2d :: showNat v.natAbs).getLast? = some c ∧ isDigit c = true := by
      cases h : (showNat v.natAbs).getLast? with
      | none => simp [List.getLast?_eq_none_iff] at h; exact absurd h hne
      | some c =>
        refine ⟨c, ?_, hd c (List.mem_of_getLast? h)⟩
        cases hs : showNat v.natAbs with
        | nil => exact absurd hs hne
        | cons y u => rw [hs] at h; simpa [List.getLast?_cons_cons] using h
    obtain ⟨c, hc1, hc2⟩ := hlast
    rw [strip_id _ 0x2d c rfl hc1 (by decide) (digit_not_space c hc2)]
    show (if (0x2d : UInt8) = 0x2d then (digitsVal (showNat v.natAbs) 0 false).map (fun n => -(n : Int)) else _) = _
    rw [if_pos rfl, digitsVal_digits _ 0 false hd (Or.inl hne), hval]
    show some (-(v.natAbs : Int)) = some v
    congr 1
    omega
  · simp only [hv, if_false]
    rw [pyInt_showNat]
    congr 1
    omega

theorem showNat_small (n : Nat) (h : n < 10) : showNat n = [UInt8.ofNat (48 + n % 10)] := by
  unfold showNat
  have : n / 10 = 0 := by omega
  simp [digitsAux, this]

theorem showNat_ne_two_zero (n : Nat) (c : UInt8) : showNat n ≠ [0x30, c] := by
  intro e
  obtain ⟨_, hd, hv⟩ := showNat_spec n
  rw [e] at hd hv
  have hc : isDigit c = true := hd c (by simp)
  simp only [List.foldl_cons, List.foldl_nil] at hv
  have hc' := hc
  simp only [isDigit, Bool.and_eq_true, decide_eq_true_eq, UInt8.le_iff_toNat_le] at hc'
  have e1 : (0x30 : UInt8).toNat = 48 := rfl
  have e2 : (0x39 : UInt8).toNat = 57 := rfl
  rw [e1] at hc' hv; rw [e2] at hc'
  have hn : n < 10 := by omega
  have := showNat_small n hn
  rw [e] at this
  simp at this

theorem readDecimal_showInt (v : Int) : readDecimal (showInt v) = .ok (.int v) := by
  have hne0 : showInt v ≠ [0x30, 0x30] ∧ showInt v ≠ [0x30, 0x31] := by
    unfold showInt
    by_cases hv : v < 0
    · simp only [hv, if_true]
      constructor <;> (intro e; injection e with e1 _; revert e1; decide)
    · simp only [hv, if_false]
      exact ⟨showNat_ne_two_zero _ _, showNat_ne_two_zero _ _⟩
  unfold readDecimal
  simp only [hne0.1, hne0.2, if_false]
  rw [pyInt_showInt]

open Lex Enc

/-! ### well-formed instructions: argument shapes and domains per opcode -/

def noNl (l : List UInt8) : Bool := !l.contains nl

def isBytesArg (a : Arg) (f : List UInt8 → Bool) : Bool := match a with | .bytes p => f p | _ => false
def isIntArg (a : Arg) (f : Int → Bool) : Bool := match a with | .int v => f v | _ => false
def isNatArg (a : Arg) (f : Nat → Bool) : Bool := match a with | .nat n => f n | _ => false
def isPairArg (a : Arg) (f : List UInt8 → List UInt8 → Bool) : Bool := match a with | .pair m n => f m n | _ => false
def isNoArg (a : Arg) : Bool := match a with | .none => true | _ => false
def isFloatArg (a : Arg) : Bool := match a with | .float _ => true | _ => false

/-- the instructions whose encoding the lexer reads back exactly: argument shape and domain per opcode -/
def WF (i : Instr) : Bool :=
  let a := i.arg
  match i.op with
  | .int | .long => isIntArg a fun _ => true
  | .binInt | .ext4 => isIntArg a fun v => decide (-2147483648 ≤ v) && decide (v < 2147483648)
  | .binInt1 => isIntArg a fun v => decide (0 ≤ v) && decide (v < 256)
  | .binInt2 => isIntArg a fun v => decide (0 ≤ v) && decide (v.toNat < 65536)
  | .long1 | .shortBinString | .shortBinBytes => isBytesArg a fun p => decide (p.length < 256)
  | .long4 | .binString => isBytesArg a fun p => decide (p.length < 2147483648)
  | .float => isBytesArg a fun t => noNl t && pyFloatOk t
  | .binFloat => isFloatArg a
  | .string => isBytesArg a fun l => noNl l && (match readQuoted l with | .ok _ => true | .error _ => false)
  | .unicode => isBytesArg a fun l => noNl l && rawUnicodeOk l
  | .persID => isBytesArg a fun l => noNl l && escapeAsciiOk l
  | .glob | .inst => isPairArg a fun m n => noNl m && noNl n && escapeAsciiOk m && escapeAsciiOk n
  | .shortBinUnicode => isBytesArg a fun p => decide (p.length < 256) && utf8Ok p
  | .binUnicode => isBytesArg a fun p => decide (p.length < 4294967296) && utf8Ok p
  | .binUnicode8 => isBytesArg a fun p => decide (p.length < 18446744073709551616) && utf8Ok p
  | .binBytes => isBytesArg a fun p => decide (p.length < 4294967296)
  | .binBytes8 | .byteArray8 => isBytesArg a fun p => decide (p.length < 18446744073709551616)
  | .get | .put => isNatArg a fun _ => true
  | .binGet | .binPut | .ext1 | .proto => isNatArg a fun n => decide (n < 256)
  | .longBinGet | .longBinPut => isNatArg a fun n => decide (n < 4294967296)
  | .ext2 => isNatArg a fun n => decide (n < 65536)
  | .frame => isNatArg a fun n => decide (n < 18446744073709551616)
  | _ => isNoArg a

theorem ofCode_asU8 (o : Op) : ofCode? (Gen.asU8 o) = some o := by
  rw [Tables.asU8_eq_code]; exact Tables.ofCode_code o

theorem mem_of_noNl {l : List UInt8} (h : noNl l = true) : nl ∉ l := by
  simpa [noNl] using h

theorem readPrefixed_le (w : Nat) (p rest : List UInt8) (h : p.length < 2 ^ (8 * w)) :
    readPrefixed w (le w p.length ++ (p ++ rest)) = .ok (p, rest) := by
  have h1 := takeN_app (le w p.length) (p ++ rest)
  rw [le_length] at h1
  simp only [readPrefixed, h1, leNat_le, Nat.mod_eq_of_lt h, sized, takeN_app p rest]

theorem leInt_le4_len (n : Nat) (h : n < 2147483648) : leInt (le 4 n) = (n : Int) := by
  unfold leInt
  rw [leNat_le, le_length]
  have : n % 2 ^ (8 * 4) = n := Nat.mod_eq_of_lt (by
    have : (2:Nat) ^ (8 * 4) = 4294967296 := rfl
    omega)
  rw [this]
  have h2 : (2:Nat) ^ (8 * 4 - 1) = 2147483648 := rfl
  simp only [h2]
  split <;> omega

theorem readPrefixedS4_le (p rest : List UInt8) (h : p.length < 2147483648) :
    readPrefixedS4 (le 4 p.length ++ (p ++ rest)) = .ok (p, rest) := by
  have h1 := takeN_app (le 4 p.length) (p ++ rest)
  rw [le_length] at h1
  have h2 : ¬ leInt (le 4 p.length) < 0 := by rw [leInt_le4_len _ h]; omega
  have h3 : leNat (le 4 p.length) = p.length := by
    rw [leNat_le]
    exact Nat.mod_eq_of_lt (by
      have : (2:Nat) ^ (8 * 4) = 4294967296 := rfl
      omega)
  simp only [readPrefixedS4, h1, h2, if_false, h3, sized, takeN_app p rest]

theorem toU_small (bits : Nat) (v : Int) (h0 : 0 ≤ v) (h1 : v < ((2 ^ bits : Nat) : Int)) : toU bits v = v.toNat := by
  unfold toU
  rw [Int.emod_eq_of_lt h0 h1]

theorem leInt_le4_toU (v : Int) (h0 : -2147483648 ≤ v) (h1 : v < 2147483648) :
    leInt (le 4 (toU 32 v)) = v := by
  have hlt : toU 32 v < 2 ^ 32 := by
    unfold toU
    have hpos : (0 : Int) < ((2 ^ 32 : Nat) : Int) := by decide
    have a := Int.emod_nonneg v (Int.ne_of_gt hpos)
    have b := Int.emod_lt_of_pos v hpos
    omega
  unfold leInt
  rw [leNat_le, le_length]
  have e32 : (2:Nat) ^ (8 * 4) = 2 ^ 32 := rfl
  rw [e32, Nat.mod_eq_of_lt hlt]
  have h2 : (2:Nat) ^ (8 * 4 - 1) = 2147483648 := rfl
  have h3 : (2:Nat) ^ 32 = 4294967296 := rfl
  simp only [h2, h3]
  unfold toU
  by_cases hv : 0 ≤ v
  · have : v % ((2 ^ 32 : Nat) : Int) = v := Int.emod_eq_of_lt hv (by rw [h3]; omega)
    rw [this]
    split <;> omega
  · have : v % ((2 ^ 32 : Nat) : Int) = v + 4294967296 := by
      have h5 : (v + 4294967296) % ((2 ^ 32 : Nat) : Int) = v + 4294967296 :=
        Int.emod_eq_of_lt (by omega) (by rw [h3]; omega)
      rw [← h5, h3]
      simp
    rw [this]
    split <;> omega

open Lex Enc

theorem showNat_noNl (n : Nat) : nl ∉ showNat n := by
  intro h
  have := (showNat_spec n).2.1 nl h
  revert this; decide

theorem showInt_noNl (v : Int) : nl ∉ showInt v := by
  unfold showInt
  split
  · intro h
    rcases List.mem_cons.mp h with e | e
    · revert e; decide
    · exact showNat_noNl _ e
  · exact showNat_noNl _

theorem fixed_small (w : Nat) (n : Nat) (h : n < 2 ^ (8 * w)) (rest : List UInt8) :
    (do let (v, r) ← fixed w (le w n ++ rest); pure (Arg.nat (leNat v), r) : Except Err (Arg × List UInt8)) =
      .ok (.nat n, rest) := by
  rw [fixed_le]
  simp [leNat_le, Nat.mod_eq_of_lt h, pure, Except.pure, bind, Except.bind]

theorem beNat_be (n : Nat) : beNat (be 8 n) = n % 2 ^ 64 := by
  simp [beNat, be, leNat_le]

theorem uint64_ofNat_toNat (b : UInt64) : UInt64.ofNat b.toNat = b := by
  simp

theorem ra_int (v : Int)  (rest : List UInt8) :
    readArg .int (encodeArg .int (.int v) ++ rest) = .ok (.int v, rest) := by
  simp only [readArg, encodeArg, List.append_assoc, List.singleton_append]
  rw [line_app _ _ (showInt_noNl v)]
  simp [bind, Except.bind, readDecimal_showInt, pure, Except.pure]

theorem ra_long (v : Int)  (rest : List UInt8) :
    readArg .long (encodeArg .long (.int v) ++ rest) = .ok (.int v, rest) := by
  simp only [readArg, encodeArg, List.append_assoc, List.cons_append, List.nil_append]
  have hn : nl ∉ showInt v ++ [0x4c] := by
    intro hm
    rcases List.mem_append.mp hm with e | e
    · exact showInt_noNl v e
    · simp [nl] at e
  have : showInt v ++ 0x4c :: nl :: rest = (showInt v ++ [0x4c]) ++ nl :: rest := by simp
  rw [this, line_app _ _ hn]
  simp [bind, Except.bind, readDecimalLong, pyInt_showInt, pure, Except.pure]

theorem ra_binInt (v : Int) (h : -2147483648 ≤ v ∧ v < 2147483648) (rest : List UInt8) :
    readArg .binInt (encodeArg .binInt (.int v) ++ rest) = .ok (.int v, rest) := by
  simp only [readArg, encodeArg]
  rw [fixed_le]
  simp [bind, Except.bind, pure, Except.pure, leInt_le4_toU v h.1 h.2]

theorem ra_ext4 (v : Int) (h : -2147483648 ≤ v ∧ v < 2147483648) (rest : List UInt8) :
    readArg .ext4 (encodeArg .ext4 (.int v) ++ rest) = .ok (.int v, rest) := by
  simp only [readArg, encodeArg]
  rw [fixed_le]
  simp [bind, Except.bind, pure, Except.pure, leInt_le4_toU v h.1 h.2]

theorem ra_binInt1 (v : Int) (h : 0 ≤ v ∧ v < 256) (rest : List UInt8) :
    readArg .binInt1 (encodeArg .binInt1 (.int v) ++ rest) = .ok (.int v, rest) := by
  simp only [readArg, encodeArg]
  rw [fixed_le]
  have : toU 8 v = v.toNat := toU_small 8 v h.1 (by have : ((2 ^ 8 : Nat) : Int) = 256 := rfl; omega)
  have e8 : (2:Nat) ^ (8 * 1) = 256 := rfl
  simp only [bind, Except.bind, pure, Except.pure, leNat_le, this, e8]
  rw [Nat.mod_eq_of_lt (by omega), Int.toNat_of_nonneg h.1]

theorem ra_binInt2 (v : Int) (h : 0 ≤ v ∧ v.toNat < 65536) (rest : List UInt8) :
    readArg .binInt2 (encodeArg .binInt2 (.int v) ++ rest) = .ok (.int v, rest) := by
  simp only [readArg, encodeArg]
  rw [fixed_le]
  have : toU 16 v = v.toNat := toU_small 16 v h.1 (by
    have e : ((2 ^ 16 : Nat) : Int) = ((65536 : Nat) : Int) := rfl
    rw [e]
    have := Int.toNat_of_nonneg h.1
    omega)
  have e8 : (2:Nat) ^ (8 * 2) = 65536 := rfl
  simp only [bind, Except.bind, pure, Except.pure, leNat_le, this, e8]
  rw [Nat.mod_eq_of_lt (by omega), Int.toNat_of_nonneg h.1]

theorem ra_long1 (p : List UInt8) (h : p.length < 256) (rest : List UInt8) :
    readArg .long1 (encodeArg .long1 (.bytes p) ++ rest) = .ok (.bytes p, rest) := by
  simp only [readArg, encodeArg]
  have e : UInt8.ofNat p.length :: p ++ rest = le 1 p.length ++ (p ++ rest) := by
    simp [le, List.range_succ_eq_map, Nat.mod_eq_of_lt (show p.length < 256 by first | exact h | exact h.1)]
  rw [e, readPrefixed_le 1 p rest (by simpa using h)]
  rfl

theorem ra_long4 (p : List UInt8) (h : p.length < 2147483648) (rest : List UInt8) :
    readArg .long4 (encodeArg .long4 (.bytes p) ++ rest) = .ok (.bytes p, rest) := by
  simp only [readArg, encodeArg, List.append_assoc]
  rw [readPrefixedS4_le p rest h]
  rfl

theorem ra_binString (p : List UInt8) (h : p.length < 2147483648) (rest : List UInt8) :
    readArg .binString (encodeArg .binString (.bytes p) ++ rest) = .ok (.bytes p, rest) := by
  simp only [readArg, encodeArg, List.append_assoc]
  rw [readPrefixedS4_le p rest h]
  rfl

theorem ra_float (t : List UInt8) (h : noNl t = true ∧ pyFloatOk t = true) (rest : List UInt8) :
    readArg .float (encodeArg .float (.bytes t) ++ rest) = .ok (.bytes t, rest) := by
  simp only [readArg, encodeArg, List.append_assoc, List.singleton_append]
  rw [line_app _ _ (mem_of_noNl h.1)]
  simp [bind, Except.bind, h.2, pure, Except.pure]

theorem ra_binFloat (b : UInt64)  (rest : List UInt8) :
    readArg .binFloat (encodeArg .binFloat (.float b) ++ rest) = .ok (.float b, rest) := by
  simp only [readArg, encodeArg]
  have hl : (be 8 b.toNat).length = 8 := by simp [be, le_length]
  have := takeN_app (be 8 b.toNat) rest
  rw [hl] at this
  simp only [fixed, this, bind, Except.bind, pure, Except.pure, beNat_be]
  have hb : b.toNat % 2 ^ 64 = b.toNat := Nat.mod_eq_of_lt b.toNat_lt
  rw [hb, uint64_ofNat_toNat]

theorem readQuoted_ok {l : List UInt8} {a : Arg} (h : readQuoted l = .ok a) : a = .bytes l := by
  cases l with
  | nil => simp [readQuoted] at h
  | cons q t =>
    simp only [readQuoted] at h
    split at h
    · split at h
      · split at h
        · simp only [Except.ok.injEq] at h; exact h.symm
        · simp at h
      · simp at h
    · simp at h

theorem ra_string (l : List UInt8) (h : noNl l = true ∧ (match readQuoted l with | .ok _ => true | .error _ => false) = true) (rest : List UInt8) :
    readArg .string (encodeArg .string (.bytes l) ++ rest) = .ok (.bytes l, rest) := by
  simp only [readArg, encodeArg, List.append_assoc, List.singleton_append]
  rw [line_app _ _ (mem_of_noNl h.1)]
  have h2 := h.2
  cases hq : readQuoted l with
  | error e => simp [hq] at h2
  | ok a =>
    have := readQuoted_ok hq
    subst this
    simp [bind, Except.bind, hq, pure, Except.pure]

theorem ra_unicode (l : List UInt8) (h : noNl l = true ∧ rawUnicodeOk l = true) (rest : List UInt8) :
    readArg .unicode (encodeArg .unicode (.bytes l) ++ rest) = .ok (.bytes l, rest) := by
  simp only [readArg, encodeArg, List.append_assoc, List.singleton_append]
  rw [line_app _ _ (mem_of_noNl h.1)]
  simp [bind, Except.bind, h.2, pure, Except.pure]

theorem ra_persID (l : List UInt8) (h : noNl l = true ∧ escapeAsciiOk l = true) (rest : List UInt8) :
    readArg .persID (encodeArg .persID (.bytes l) ++ rest) = .ok (.bytes l, rest) := by
  simp only [readArg, encodeArg, List.append_assoc, List.singleton_append]
  rw [line_app _ _ (mem_of_noNl h.1)]
  simp [bind, Except.bind, h.2, pure, Except.pure]

theorem ra_glob (m n : List UInt8) (h : ((noNl m = true ∧ noNl n = true) ∧ escapeAsciiOk m = true) ∧ escapeAsciiOk n = true) (rest : List UInt8) :
    readArg .glob (encodeArg .glob (.pair m n) ++ rest) = .ok (.pair m n, rest) := by
  have e : encodeArg .glob (.pair m n) ++ rest = m ++ nl :: (n ++ nl :: rest) := by
    simp [encodeArg]
  rw [e]
  simp only [readArg, bind, Except.bind]
  rw [line_app _ _ (mem_of_noNl h.1.1.1)]
  simp only []
  rw [line_app _ _ (mem_of_noNl h.1.1.2)]
  simp [h.1.2, h.2, pure, Except.pure]

theorem ra_inst (m n : List UInt8) (h : ((noNl m = true ∧ noNl n = true) ∧ escapeAsciiOk m = true) ∧ escapeAsciiOk n = true) (rest : List UInt8) :
    readArg .inst (encodeArg .inst (.pair m n) ++ rest) = .ok (.pair m n, rest) := by
  have e : encodeArg .inst (.pair m n) ++ rest = m ++ nl :: (n ++ nl :: rest) := by
    simp [encodeArg]
  rw [e]
  simp only [readArg, bind, Except.bind]
  rw [line_app _ _ (mem_of_noNl h.1.1.1)]
  simp only []
  rw [line_app _ _ (mem_of_noNl h.1.1.2)]
  simp [h.1.2, h.2, pure, Except.pure]

theorem ra_shortBinUnicode (p : List UInt8) (h : p.length < 256 ∧ utf8Ok p = true) (rest : List UInt8) :
    readArg .shortBinUnicode (encodeArg .shortBinUnicode (.bytes p) ++ rest) = .ok (.bytes p, rest) := by
  simp only [readArg, encodeArg]
  have e : UInt8.ofNat p.length :: p ++ rest = le 1 p.length ++ (p ++ rest) := by
    simp [le, List.range_succ_eq_map, Nat.mod_eq_of_lt (show p.length < 256 by first | exact h | exact h.1)]
  rw [e, readPrefixed_le 1 p rest (by simpa using h.1)]
  simp [bind, Except.bind, h.2, pure, Except.pure]

theorem ra_binUnicode (p : List UInt8) (h : p.length < 4294967296 ∧ utf8Ok p = true) (rest : List UInt8) :
    readArg .binUnicode (encodeArg .binUnicode (.bytes p) ++ rest) = .ok (.bytes p, rest) := by
  simp only [readArg, encodeArg, List.append_assoc]
  rw [readPrefixed_le 4 p rest (by simpa using h.1)]
  simp [bind, Except.bind, h.2, pure, Except.pure]

theorem ra_binUnicode8 (p : List UInt8) (h : p.length < 18446744073709551616 ∧ utf8Ok p = true) (rest : List UInt8) :
    readArg .binUnicode8 (encodeArg .binUnicode8 (.bytes p) ++ rest) = .ok (.bytes p, rest) := by
  simp only [readArg, encodeArg, List.append_assoc]
  rw [readPrefixed_le 8 p rest (by simpa using h.1)]
  simp [bind, Except.bind, h.2, pure, Except.pure]

theorem ra_shortBinString (p : List UInt8) (h : p.length < 256) (rest : List UInt8) :
    readArg .shortBinString (encodeArg .shortBinString (.bytes p) ++ rest) = .ok (.bytes p, rest) := by
  simp only [readArg, encodeArg]
  have e : UInt8.ofNat p.length :: p ++ rest = le 1 p.length ++ (p ++ rest) := by
    simp [le, List.range_succ_eq_map, Nat.mod_eq_of_lt (show p.length < 256 by first | exact h | exact h.1)]
  rw [e, readPrefixed_le 1 p rest (by simpa using h)]
  rfl

theorem ra_shortBinBytes (p : List UInt8) (h : p.length < 256) (rest : List UInt8) :
    readArg .shortBinBytes (encodeArg .shortBinBytes (.bytes p) ++ rest) = .ok (.bytes p, rest) := by
  simp only [readArg, encodeArg]
  have e : UInt8.ofNat p.length :: p ++ rest = le 1 p.length ++ (p ++ rest) := by
    simp [le, List.range_succ_eq_map, Nat.mod_eq_of_lt (show p.length < 256 by first | exact h | exact h.1)]
  rw [e, readPrefixed_le 1 p rest (by simpa using h)]
  rfl

theorem ra_binBytes (p : List UInt8) (h : p.length < 4294967296) (rest : List UInt8) :
    readArg .binBytes (encodeArg .binBytes (.bytes p) ++ rest) = .ok (.bytes p, rest) := by
  simp only [readArg, encodeArg, List.append_assoc]
  rw [readPrefixed_le 4 p rest (by simpa using h)]
  rfl

theorem ra_binBytes8 (p : List UInt8) (h : p.length < 18446744073709551616) (rest : List UInt8) :
    readArg .binBytes8 (encodeArg .binBytes8 (.bytes p) ++ rest) = .ok (.bytes p, rest) := by
  simp only [readArg, encodeArg, List.append_assoc]
  rw [readPrefixed_le 8 p rest (by simpa using h)]
  rfl

theorem ra_byteArray8 (p : List UInt8) (h : p.length < 18446744073709551616) (rest : List UInt8) :
    readArg .byteArray8 (encodeArg .byteArray8 (.bytes p) ++ rest) = .ok (.bytes p, rest) := by
  simp only [readArg, encodeArg, List.append_assoc]
  rw [readPrefixed_le 8 p rest (by simpa using h)]
  rfl

theorem ra_get (n : Nat)  (rest : List UInt8) :
    readArg .get (encodeArg .get (.nat n) ++ rest) = .ok (.nat n, rest) := by
  simp only [readArg, encodeArg, List.append_assoc, List.singleton_append]
  rw [line_app _ _ (showNat_noNl n)]
  have : readDecimal (showNat n) = .ok (.int (n : Int)) := by
    have h1 := readDecimal_showInt (n : Int)
    have h2 : showInt (n : Int) = showNat n := by
      unfold showInt
      have : ¬ ((n : Int) < 0) := by omega
      simp [this]
    rw [h2] at h1
    exact h1
  simp [bind, Except.bind, this, pure, Except.pure]

theorem ra_put (n : Nat)  (rest : List UInt8) :
    readArg .put (encodeArg .put (.nat n) ++ rest) = .ok (.nat n, rest) := by
  simp only [readArg, encodeArg, List.append_assoc, List.singleton_append]
  rw [line_app _ _ (showNat_noNl n)]
  have : readDecimal (showNat n) = .ok (.int (n : Int)) := by
    have h1 := readDecimal_showInt (n : Int)
    have h2 : showInt (n : Int) = showNat n := by
      unfold showInt
      have : ¬ ((n : Int) < 0) := by omega
      simp [this]
    rw [h2] at h1
    exact h1
  simp [bind, Except.bind, this, pure, Except.pure]

theorem ra_binGet (n : Nat) (h : n < 2 ^ (8 * 1)) (rest : List UInt8) :
    readArg .binGet (encodeArg .binGet (.nat n) ++ rest) = .ok (.nat n, rest) := by
  simpa [readArg, encodeArg] using fixed_small 1 n h rest

theorem ra_binPut (n : Nat) (h : n < 2 ^ (8 * 1)) (rest : List UInt8) :
    readArg .binPut (encodeArg .binPut (.nat n) ++ rest) = .ok (.nat n, rest) := by
  simpa [readArg, encodeArg] using fixed_small 1 n h rest

theorem ra_ext1 (n : Nat) (h : n < 2 ^ (8 * 1)) (rest : List UInt8) :
    readArg .ext1 (encodeArg .ext1 (.nat n) ++ rest) = .ok (.nat n, rest) := by
  simpa [readArg, encodeArg] using fixed_small 1 n h rest

theorem ra_proto (n : Nat) (h : n < 2 ^ (8 * 1)) (rest : List UInt8) :
    readArg .proto (encodeArg .proto (.nat n) ++ rest) = .ok (.nat n, rest) := by
  simpa [readArg, encodeArg] using fixed_small 1 n h rest

theorem ra_ext2 (n : Nat) (h : n < 2 ^ (8 * 2)) (rest : List UInt8) :
    readArg .ext2 (encodeArg .ext2 (.nat n) ++ rest) = .ok (.nat n, rest) := by
  simpa [readArg, encodeArg] using fixed_small 2 n h rest

theorem ra_longBinGet (n : Nat) (h : n < 2 ^ (8 * 4)) (rest : List UInt8) :
    readArg .longBinGet (encodeArg .longBinGet (.nat n) ++ rest) = .ok (.nat n, rest) := by
  simpa [readArg, encodeArg] using fixed_small 4 n h rest

theorem ra_longBinPut (n : Nat) (h : n < 2 ^ (8 * 4)) (rest : List UInt8) :
    readArg .longBinPut (encodeArg .longBinPut (.nat n) ++ rest) = .ok (.nat n, rest) := by
  simpa [readArg, encodeArg] using fixed_small 4 n h rest

theorem ra_frame (n : Nat) (h : n < 2 ^ (8 * 8)) (rest : List UInt8) :
    readArg .frame (encodeArg .frame (.nat n) ++ rest) = .ok (.nat n, rest) := by
  simpa [readArg, encodeArg] using fixed_small 8 n h rest

set_option maxHeartbeats 1000000 in
/-- **C04, one instruction**: the reference reader reads back exactly the argument the generator's
encoder wrote, and leaves the rest of the stream untouched -/
theorem readArg_encode (i : Instr) (h : WF i = true) (rest : List UInt8) :
    readArg i.op (encodeArg i.op i.arg ++ rest) = .ok (i.arg, rest) := by
  obtain ⟨op, a⟩ := i
  cases op <;> cases a
  case int.int x => exact ra_int x rest
  case long.int x => exact ra_long x rest
  case binInt.int x => exact ra_binInt x (by simpa [WF, isBytesArg, isIntArg, isNatArg, isPairArg] using h) rest
  case ext4.int x => exact ra_ext4 x (by simpa [WF, isBytesArg, isIntArg, isNatArg, isPairArg] using h) rest
  case binInt1.int x => exact ra_binInt1 x (by simpa [WF, isBytesArg, isIntArg, isNatArg, isPairArg] using h) rest
  case binInt2.int x => exact ra_binInt2 x (by simpa [WF, isBytesArg, isIntArg, isNatArg, isPairArg] using h) rest
  case long1.bytes x => exact ra_long1 x (by simpa [WF, isBytesArg, isIntArg, isNatArg, isPairArg] using h) rest
  case long4.bytes x => exact ra_long4 x (by simpa [WF, isBytesArg, isIntArg, isNatArg, isPairArg] using h) rest
  case binString.bytes x => exact ra_binString x (by simpa [WF, isBytesArg, isIntArg, isNatArg, isPairArg] using h) rest
  case float.bytes x => exact ra_float x (by simpa [WF, isBytesArg, isIntArg, isNatArg, isPairArg] using h) rest
  case binFloat.float x => exact ra_binFloat x rest
  case string.bytes x => exact ra_string x (by simpa [WF, isBytesArg, isIntArg, isNatArg, isPairArg] using h) rest
  case unicode.bytes x => exact ra_unicode x (by simpa [WF, isBytesArg, isIntArg, isNatArg, isPairArg] using h) rest
  case persID.bytes x => exact ra_persID x (by simpa [WF, isBytesArg, isIntArg, isNatArg, isPairArg] using h) rest
  case glob.pair x y => exact ra_glob x y (by simpa [WF, isBytesArg, isIntArg, isNatArg, isPairArg] using h) rest
  case inst.pair x y => exact ra_inst x y (by simpa [WF, isBytesArg, isIntArg, isNatArg, isPairArg] using h) rest
  case shortBinUnicode.bytes x => exact ra_shortBinUnicode x (by simpa [WF, isBytesArg, isIntArg, isNatArg, isPairArg] using h) rest
  case binUnicode.bytes x => exact ra_binUnicode x (by simpa [WF, isBytesArg, isIntArg, isNatArg, isPairArg] using h) rest
  case binUnicode8.bytes x => exact ra_binUnicode8 x (by simpa [WF, isBytesArg, isIntArg, isNatArg, isPairArg] using h) rest
  case shortBinString.bytes x => exact ra_shortBinString x (by simpa [WF, isBytesArg, isIntArg, isNatArg, isPairArg] using h) rest
  case shortBinBytes.bytes x => exact ra_shortBinBytes x (by simpa [WF, isBytesArg, isIntArg, isNatArg, isPairArg] using h) rest
  case binBytes.bytes x => exact ra_binBytes x (by simpa [WF, isBytesArg, isIntArg, isNatArg, isPairArg] using h) rest
  case binBytes8.bytes x => exact ra_binBytes8 x (by simpa [WF, isBytesArg, isIntArg, isNatArg, isPairArg] using h) rest
  case byteArray8.bytes x => exact ra_byteArray8 x (by simpa [WF, isBytesArg, isIntArg, isNatArg, isPairArg] using h) rest
  case get.nat x => exact ra_get x rest
  case put.nat x => exact ra_put x rest
  case binGet.nat x => exact ra_binGet x (by simpa [WF, isBytesArg, isIntArg, isNatArg, isPairArg] using h) rest
  case binPut.nat x => exact ra_binPut x (by simpa [WF, isBytesArg, isIntArg, isNatArg, isPairArg] using h) rest
  case ext1.nat x => exact ra_ext1 x (by simpa [WF, isBytesArg, isIntArg, isNatArg, isPairArg] using h) rest
  case proto.nat x => exact ra_proto x (by simpa [WF, isBytesArg, isIntArg, isNatArg, isPairArg] using h) rest
  case ext2.nat x => exact ra_ext2 x (by simpa [WF, isBytesArg, isIntArg, isNatArg, isPairArg] using h) rest
  case longBinGet.nat x => exact ra_longBinGet x (by simpa [WF, isBytesArg, isIntArg, isNatArg, isPairArg] using h) rest
  case longBinPut.nat x => exact ra_longBinPut x (by simpa [WF, isBytesArg, isIntArg, isNatArg, isPairArg] using h) rest
  case frame.nat x => exact ra_frame x (by simpa [WF, isBytesArg, isIntArg, isNatArg, isPairArg] using h) rest
  all_goals first | exact Bool.noConfusion h | rfl

/-- **C04, one instruction.** -/
theorem lexOne_encode (i : Instr) (h : WF i = true) (rest : List UInt8) :
    lexOne (encode i ++ rest) = .ok (i, rest) := by
  obtain ⟨op, a⟩ := i
  simp only [encode, List.cons_append, lexOne, ofCode_asU8]
  have := readArg_encode ⟨op, a⟩ h rest
  simp only at this
  rw [this]

def stopI : Instr := ⟨.stop, .none⟩

theorem lexFuel_encode (pre : List Instr) (hwf : ∀ i ∈ pre, WF i = true)
    (hns : ∀ i ∈ pre, i.op ≠ .stop) : ∀ fuel, pre.length + 1 ≤ fuel →
    lexFuel fuel ((pre ++ [stopI]).flatMap encode) = .ok (pre ++ [stopI]) := by
  induction pre with
  | nil =>
    intro fuel hf
    cases fuel with
    | zero => omega
    | succ n =>
      have : lexOne (encode stopI ++ []) = .ok (stopI, []) := lexOne_encode _ rfl []
      simp only [List.append_nil] at this
      have hs : stopI.op = Op.stop := rfl
      simp [lexFuel, this, hs]
  | cons i t ih =>
    intro fuel hf
    cases fuel with
    | zero => omega
    | succ n =>
      have h1 := lexOne_encode i (hwf i (by simp)) ((t ++ [stopI]).flatMap encode)
      have h2 := ih (fun j hj => hwf j (List.mem_cons_of_mem _ hj)) (fun j hj => hns j (List.mem_cons_of_mem _ hj)) n
        (by simp at hf; omega)
      have hne : i.op ≠ .stop := hns i (by simp)
      simp only [List.cons_append, List.flatMap_cons, lexFuel, h1, hne, if_false, h2]

theorem encode_length_pos (i : Instr) : 1 ≤ (encode i).length := by simp [encode]

theorem flatMap_encode_length (is : List Instr) : is.length ≤ (is.flatMap encode).length := by
  induction is with
  | nil => simp
  | cons i t ih =>
    have := encode_length_pos i
    simp only [List.flatMap_cons, List.length_append, List.length_cons]
    omega

/-- **C04, whole streams.**  Any list of well-formed instructions that ends in its only STOP is
read back exactly by the reference lexer from its encoding: every opcode byte is known, every
argument complete, nothing follows STOP. -/
theorem lex_encode (pre : List Instr) (hwf : ∀ i ∈ pre, WF i = true) (hns : ∀ i ∈ pre, i.op ≠ .stop) :
    lex ((pre ++ [stopI]).flatMap encode) = .ok (pre ++ [stopI]) := by
  unfold lex
  apply lexFuel_encode pre hwf hns
  have := flatMap_encode_length (pre ++ [stopI])
  simp at this ⊢
  omega

end PFV
