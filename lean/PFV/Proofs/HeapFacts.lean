/- C14: the arena invariant, its preservation, and what `release` buys. -/
import PFV.Heap
namespace PFV
namespace Heap

theorem kidsOf_alloc_old (h : H) (ks : List Nat) (b : Bool) (c : Nat) (hc : c < h.kids.length) :
    kidsOf (alloc h ks b) c = kidsOf h c := by
  simp [kidsOf, alloc, List.getD, List.getElem?_append_left hc]

theorem kidsOf_alloc_new (h : H) (ks : List Nat) (b : Bool) : kidsOf (alloc h ks b) h.kids.length = ks := by
  simp [kidsOf, alloc, List.getD]

theorem kidsOf_alloc_beyond (h : H) (ks : List Nat) (b : Bool) (c : Nat) (hc : h.kids.length < c) :
    kidsOf (alloc h ks b) c = [] := by
  simp [kidsOf, alloc, List.getD]
  have : (h.kids ++ [ks])[c]? = none := by
    apply List.getElem?_eq_none
    simp; omega
  simp [this]

theorem empty_inv : ArenaInv empty ∧ Scoped empty := by
  constructor <;> intro c d hd <;> simp [kidsOf, empty] at hd

/-- allocation preserves the invariant: a new cell only references existing (older) cells -/
theorem alloc_inv (h : H) (ks : List Nat) (b : Bool) (hi : ArenaInv h) (hs : Scoped h)
    (hk : ∀ d ∈ ks, d < h.kids.length) : ArenaInv (alloc h ks b) ∧ Scoped (alloc h ks b) := by
  have hlen : (alloc h ks b).kids.length = h.kids.length + 1 := by simp [alloc]
  constructor
  · intro c d hd
    rcases Nat.lt_trichotomy c h.kids.length with hc | hc | hc
    · rw [kidsOf_alloc_old h ks b c hc] at hd
      rcases hi c d hd with h1 | h1
      · exact Or.inl h1
      · right; simp only [alloc]; split
        · exact List.mem_cons_of_mem _ h1
        · exact h1
    · subst hc
      rw [kidsOf_alloc_new] at hd
      exact Or.inl (hk d hd)
    · rw [kidsOf_alloc_beyond h ks b c hc] at hd; simp at hd
  · intro c d hd
    rw [hlen]
    rcases Nat.lt_trichotomy c h.kids.length with hc | hc | hc
    · rw [kidsOf_alloc_old h ks b c hc] at hd
      exact Nat.lt_succ_of_lt (hs c d hd)
    · subst hc
      rw [kidsOf_alloc_new] at hd
      exact Nat.lt_succ_of_lt (hk d hd)
    · rw [kidsOf_alloc_beyond h ks b c hc] at hd; simp at hd

theorem kidsOf_mutate (h : H) (c c' : Nat) (ks : List Nat) :
    kidsOf (mutate h c ks) c' = if c' = c ∧ c < h.kids.length then ks else kidsOf h c' := by
  simp only [kidsOf, mutate, List.getD]
  by_cases hc : c' = c
  · subst hc
    by_cases hl : c' < h.kids.length
    · simp [hl, List.getElem?_set_self hl]
    · have : c' ≥ h.kids.length := by omega
      simp [hl, List.getElem?_eq_none this, List.set_eq_of_length_le this]
  · simp [hc, List.getElem?_set_ne (Ne.symm hc)]

/-- in-place mutation of an arena cell preserves the invariant, whatever it is made to reference
(itself included) -/
theorem mutate_inv (h : H) (c : Nat) (ks : List Nat) (hi : ArenaInv h) (hs : Scoped h)
    (hc : c ∈ h.arena) (hk : ∀ d ∈ ks, d < h.kids.length) :
    ArenaInv (mutate h c ks) ∧ Scoped (mutate h c ks) := by
  constructor
  · intro c' d hd
    rw [kidsOf_mutate] at hd
    split at hd
    · rename_i h1; right; rw [h1.1]; exact hc
    · exact hi c' d hd
  · intro c' d hd
    have hl : (mutate h c ks).kids.length = h.kids.length := by simp [mutate]
    rw [hl]
    rw [kidsOf_mutate] at hd
    split at hd
    · exact hk d hd
    · exact hs c' d hd

theorem kidsOf_release (h : H) (c : Nat) :
    kidsOf (release h) c = if h.arena.contains c then [] else kidsOf h c := by
  simp only [kidsOf, release, List.getD]
  by_cases hl : c < h.kids.length
  · simp [List.getElem?_map, List.getElem?_zipIdx, hl, List.getElem?_eq_getElem hl]
  · have : c ≥ h.kids.length := by omega
    simp [List.getElem?_eq_none, this]

/-- **after `release` every strong edge points to a strictly older cell** -/
theorem release_decr (h : H) (hi : ArenaInv h) : Decr (release h) := by
  intro c d hd
  rw [kidsOf_release] at hd
  split at hd
  · simp at hd
  · rename_i hn
    rcases hi c d hd with h1 | h1
    · exact h1
    · exact absurd (List.contains_iff_mem.mpr h1) hn

theorem exists_max : ∀ (S : List Nat), S ≠ [] → ∃ m ∈ S, ∀ x ∈ S, x ≤ m
  | [], h => absurd rfl h
  | [a], _ => ⟨a, by simp, by intro x hx; simp at hx; omega⟩
  | a :: b :: t, _ => by
    obtain ⟨m, hm, hle⟩ := exists_max (b :: t) (by simp)
    by_cases ha : a ≤ m
    · exact ⟨m, List.mem_cons_of_mem _ hm, by
        intro x hx; rcases List.mem_cons.mp hx with rfl | hx
        · exact ha
        · exact hle x hx⟩
    · exact ⟨a, by simp, by
        intro x hx; rcases List.mem_cons.mp hx with rfl | hx
        · exact Nat.le_refl _
        · have := hle x hx; omega⟩

/-- **reference counting reclaims everything in such a heap**: there is no non-empty set of cells in
which every member is referenced by a member (the only way cells survive with no outside
references) -/
theorem no_self_sustaining_set (h : H) (hd : Decr h) (S : List Nat) (hne : S ≠ [])
    (hall : ∀ c ∈ S, ∃ c' ∈ S, c ∈ kidsOf h c') : False := by
  -- take the youngest member: whoever references it would have to be younger still
  obtain ⟨m, hm, hle⟩ := exists_max S hne
  obtain ⟨c', hc', hk⟩ := hall m hm
  have h1 := hd c' m hk
  have h2 := hle c' hc'
  omega


/-! ### the stack machine keeps the arena invariant -/

/-- heap invariant plus: every cell on the stack is an existing arena cell -/
def MInv (m : M) : Prop :=
  ArenaInv m.h ∧ Scoped m.h ∧ ∀ c ∈ m.stack, c ∈ m.h.arena ∧ c < m.h.kids.length

theorem okKids_spec (m : M) (ks : List Nat) (h : okKids m ks = true) : ∀ d ∈ ks, d < m.h.kids.length := by
  intro d hd
  have := List.all_eq_true.mp h d hd
  simpa using this

theorem arena_alloc (h : H) (ks : List Nat) (b : Bool) (c : Nat) (hc : c ∈ h.arena) : c ∈ (alloc h ks b).arena := by
  simp only [alloc]; split
  · exact List.mem_cons_of_mem _ hc
  · exact hc

theorem step_inv (m : M) (st : Step) (hi : MInv m) : MInv (step m st) := by
  obtain ⟨h1, h2, h3⟩ := hi
  cases st with
  | push ks =>
    simp only [step]
    split
    · rename_i hk
      obtain ⟨a1, a2⟩ := alloc_inv m.h ks true h1 h2 (okKids_spec m ks hk)
      refine ⟨a1, a2, ?_⟩
      intro c hc
      have hlen : (alloc m.h ks true).kids.length = m.h.kids.length + 1 := by simp [alloc]
      rcases List.mem_cons.mp hc with rfl | hc
      · exact ⟨by simp [alloc], by rw [hlen]; omega⟩
      · obtain ⟨b1, b2⟩ := h3 c hc
        exact ⟨arena_alloc _ _ _ _ b1, by rw [hlen]; omega⟩
    · exact ⟨h1, h2, h3⟩
  | dup =>
    simp only [step]
    split
    · exact ⟨h1, h2, h3⟩
    · rename_i c t hs
      refine ⟨h1, h2, ?_⟩
      intro d hd
      simp only at hd
      rcases List.mem_cons.mp hd with rfl | hd
      · exact h3 d (by rw [hs]; simp)
      · exact h3 d hd
  | pop =>
    simp only [step]
    exact ⟨h1, h2, fun c hc => h3 c (List.mem_of_mem_drop hc)⟩
  | mutate i ks =>
    simp only [step]
    split
    · rename_i c hc
      split
      · rename_i hk
        have hmem : c ∈ m.stack := List.mem_of_getElem? hc
        obtain ⟨a1, a2⟩ := mutate_inv m.h c ks h1 h2 (h3 c hmem).1 (okKids_spec m ks hk)
        refine ⟨a1, a2, ?_⟩
        intro d hd
        have hlen : (mutate m.h c ks).kids.length = m.h.kids.length := by simp [mutate]
        obtain ⟨b1, b2⟩ := h3 d hd
        exact ⟨by simpa [mutate] using b1, by rw [hlen]; exact b2⟩
      · exact ⟨h1, h2, h3⟩
    · exact ⟨h1, h2, h3⟩
  | aux ks =>
    simp only [step]
    split
    · rename_i hk
      obtain ⟨a1, a2⟩ := alloc_inv m.h ks false h1 h2 (okKids_spec m ks hk)
      refine ⟨a1, a2, ?_⟩
      intro c hc
      have hlen : (alloc m.h ks false).kids.length = m.h.kids.length + 1 := by simp [alloc]
      obtain ⟨b1, b2⟩ := h3 c hc
      exact ⟨arena_alloc _ _ _ _ b1, by rw [hlen]; omega⟩
    · exact ⟨h1, h2, h3⟩

theorem init_inv : MInv {} := by
  refine ⟨empty_inv.1, empty_inv.2, ?_⟩
  intro c hc; simp at hc

theorem foldl_inv : ∀ (steps : List Step) (m : M), MInv m → MInv (steps.foldl step m)
  | [], m, h => h
  | st :: t, m, h => foldl_inv t (step m st) (step_inv m st h)

/-- every program of the five shapes keeps the invariant -/
theorem run_inv (steps : List Step) : MInv (run steps) := foldl_inv steps {} init_inv

end Heap
end PFV
