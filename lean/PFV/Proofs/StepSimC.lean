/- C17 one-step simulation, part C: object-building opcodes and the no-ops. -/
import PFV.Proofs.StepSim
namespace PFV
open Ref (RKind RState RMemo)

variable {c : Cfg} {a : Arg}

theorem isCallableAt_one {st : List Kind} (h : isCallableAt st 1 = true) :
    ∃ x k t, st = x :: k :: t ∧ isCallableKind k = true := by
  match st, h with
  | [], h => simp [isCallableAt] at h
  | [_], h => simp [isCallableAt] at h
  | x :: k :: t, h => exact ⟨x, k, t, rfl, by simpa [isCallableAt] using h⟩

theorem isCallableAt_two {st : List Kind} (h : isCallableAt st 2 = true) :
    ∃ x y k t, st = x :: y :: k :: t ∧ isCallableKind k = true := by
  match st, h with
  | [], h => simp [isCallableAt] at h
  | [_], h => simp [isCallableAt] at h
  | [_, _], h => simp [isCallableAt] at h
  | x :: y :: k :: t, h => exact ⟨x, y, k, t, rfl, by simpa [isCallableAt] using h⟩

theorem step_stackGlobal {s : State} {r : RState} (hR : SRel s r) (hd : Dense s.memo)
    (hsafe : c.unsafeMut = false) (hc : canEmit c s .stackGlobal = true) :
    StepGoal c.version s r .stackGlobal a := by
  obtain ⟨st, m, pe⟩ := s
  obtain ⟨rst, rm⟩ := r
  obtain ⟨hs, hm⟩ := hR
  dsimp only at hs hm hd
  simp only [canEmit, hsafe, Bool.false_eq_true, if_false, Bool.and_eq_true] at hc
  obtain ⟨⟨_, h0⟩, h1⟩ := hc
  obtain ⟨t0, rfl⟩ := isAt_zero h0
  obtain ⟨x, t, hx⟩ := isAt_one h1
  injection hx with _ hx
  subst hx
  obtain ⟨r0, rt1, rfl, hc0, hr1⟩ := hs.cons_inv
  obtain ⟨r1, rt, rfl, hc1, ht⟩ := hr1.cons_inv
  refine goal_of (s' := ⟨.callable :: t, m, pe⟩) (r' := ⟨.callable :: rt, rm⟩) ?_ ?_
    ⟨Rel.cons (by decide) ht, hm⟩ hd
  · simp [process]
  · simp [Ref.step, Ref.chk, compat_string hc0, compat_string hc1]

theorem step_reduce_like {s : State} {r : RState} (hR : SRel s r) (hd : Dense s.memo) (op : Op)
    (hop : op = .reduce ∨ op = .newObj) (hc : canEmit c s op = true) :
    StepGoal c.version s r op a := by
  obtain ⟨st, m, pe⟩ := s
  obtain ⟨rst, rm⟩ := r
  obtain ⟨hs, hm⟩ := hR
  dsimp only at hs hm hd
  have hc' : isCallableAt st 1 = true ∧ isAt st 0 .tuple = true := by
    rcases hop with rfl | rfl <;> simp only [canEmit, Bool.and_eq_true] at hc <;> exact ⟨hc.1.2, hc.2⟩
  obtain ⟨x, k, t, rfl, hk⟩ := isCallableAt_one hc'.1
  obtain ⟨t0, hx⟩ := isAt_zero hc'.2
  injection hx with hx _
  subst hx
  obtain ⟨r0, rt1, rfl, hc0, hr1⟩ := hs.cons_inv
  obtain ⟨r1, rt, rfl, hc1, ht⟩ := hr1.cons_inv
  refine goal_of (s' := ⟨.obj :: t, m, pe⟩) (r' := ⟨.object :: rt, rm⟩) ?_ ?_
    ⟨Rel.cons (by decide) ht, hm⟩ hd
  · rcases hop with rfl | rfl <;> simp [process]
  · rcases hop with rfl | rfl <;> simp [Ref.step, Ref.chk, compat_tuple hc0, compat_callable hk hc1]

theorem step_newObjEx {s : State} {r : RState} (hR : SRel s r) (hd : Dense s.memo)
    (hc : canEmit c s .newObjEx = true) : StepGoal c.version s r .newObjEx a := by
  obtain ⟨st, m, pe⟩ := s
  obtain ⟨rst, rm⟩ := r
  obtain ⟨hs, hm⟩ := hR
  dsimp only at hs hm hd
  simp only [canEmit, Bool.and_eq_true] at hc
  obtain ⟨⟨⟨_, h2⟩, h1⟩, h0⟩ := hc
  obtain ⟨x, y, k, t, rfl, hk⟩ := isCallableAt_two h2
  obtain ⟨_, hx⟩ := isAt_zero h0
  injection hx with hx _
  subst hx
  obtain ⟨_, _, hy⟩ := isAt_one h1
  injection hy with _ hy
  injection hy with hy _
  subst hy
  obtain ⟨r0, rt1, rfl, hc0, hr1⟩ := hs.cons_inv
  obtain ⟨r1, rt2, rfl, hc1, hr2⟩ := hr1.cons_inv
  obtain ⟨r2, rt, rfl, hc2, ht⟩ := hr2.cons_inv
  refine goal_of (s' := ⟨.obj :: t, m, pe⟩) (r' := ⟨.object :: rt, rm⟩) ?_ ?_
    ⟨Rel.cons (by decide) ht, hm⟩ hd
  · simp [process]
  · simp [Ref.step, Ref.chk, compat_dict hc0, compat_tuple hc1, compat_callable hk hc2]

theorem step_build {s : State} {r : RState} (hR : SRel s r) (hd : Dense s.memo)
    (hc : canEmit c s .build = true) : StepGoal c.version s r .build a := by
  obtain ⟨st, m, pe⟩ := s
  obtain ⟨rst, rm⟩ := r
  obtain ⟨hs, hm⟩ := hR
  dsimp only at hs hm hd
  simp only [canEmit, Bool.and_eq_true, Bool.or_eq_true] at hc
  obtain ⟨⟨_, h1⟩, h0⟩ := hc
  obtain ⟨x, t, rfl⟩ := isAt_one h1
  obtain ⟨r0, rt1, rfl, hc0, hr1⟩ := hs.cons_inv
  obtain ⟨r1, rt, rfl, hc1, ht⟩ := hr1.cons_inv
  have hst : (Ref.isK .tuple r0 || Ref.isK .dict r0) = true := by
    rcases h0 with h0 | h0
    · obtain ⟨_, hx⟩ := isAt_zero h0
      injection hx with hx _
      subst hx
      simp [compat_tuple hc0]
    · obtain ⟨_, hx⟩ := isAt_zero h0
      injection hx with hx _
      subst hx
      simp [compat_dict hc0]
  refine goal_of (s' := ⟨.obj :: t, m, pe⟩) (r' := ⟨r1 :: rt, rm⟩) ?_ ?_
    ⟨Rel.cons hc1 ht, hm⟩ hd
  · simp [process]
  · simp [Ref.step, Ref.chk, hst, compat_obj hc1]

theorem step_noop {s : State} {r : RState} (hR : SRel s r) (hd : Dense s.memo) (op : Op)
    (hop : op = .proto ∨ op = .frame) : StepGoal c.version s r op a := by
  rcases hop with rfl | rfl <;> exact goal_of rfl rfl hR hd

end PFV
