/-
C06 (and the unsafe half of C10): facts about *every* configuration of the exact generator,
unsafe mutations included — which opcodes can appear in the instructions it writes, and the
layout PROTO / FRAME / body of the bytes.
-/
import PFV.Proofs.GenRun
import PFV.Proofs.ProcessFacts
namespace PFV
open Mutators
namespace G
variable {σ : Type} (E : Entropy σ) (X : Ext) (c : Cfg)

theorem emitGet_op (sim : State) (op : Op) (hop : op = .get ∨ op = .longBinGet ∨ op = .binGet) (s s' : σ) (i : Instr)
    (h : emitGet E c sim op s = .ok (some i, s')) : i.op = op := by
  rcases hop with rfl | rfl | rfl
  · simp only [emitGet, show (Op.get == Op.binGet) = false from rfl, Bool.false_eq_true, if_false,
      beq_self_eq_true, if_true] at h
    split at h
    · simp at h
    · split at h
      · simp at h
      · split at h
        · simp at h
        · simp only [Except.ok.injEq, Prod.mk.injEq, Option.some.injEq] at h
          rw [← h.1]
  · simp only [emitGet, show (Op.longBinGet == Op.binGet) = false from rfl, Bool.false_eq_true, if_false,
      show (Op.longBinGet == Op.get) = false from rfl] at h
    split at h
    · simp at h
    · split at h
      · simp at h
      · split at h
        · simp at h
        · simp only [Except.ok.injEq, Prod.mk.injEq, Option.some.injEq] at h
          rw [← h.1]
  · simp only [emitGet, beq_self_eq_true, if_true] at h
    split at h
    · simp at h
    · split at h
      · simp at h
      · split at h
        · simp at h
        · simp only [Except.ok.injEq, Prod.mk.injEq, Option.some.injEq] at h
          rw [← h.1]

/-- what `emitOne` writes is the chosen opcode itself or, for the integer family, one of the
protocol's int-like opcodes -/
theorem emitOne_op (sim : State) (op : Op) (s s' : σ) (i : Instr)
    (h : emitOne E X c sim op s = .ok (some i, s')) : i.op = op ∨ (isIntLike i.op = true ∧ isIntLike op = true) := by
  cases op <;> simp only [emitOne] at h
  case int | long | long1 | long4 | binInt | binInt1 | binInt2 =>
    simp only [emitInt] at h
    split at h
    · simp at h
    · rename_i chosen hch
      have hil := (List.mem_filter.mp (idx?_mem hch)).2
      split at h
      · simp at h
      · simp only [Except.ok.injEq, Prod.mk.injEq, Option.some.injEq] at h
        obtain ⟨hi, _⟩ := h
        subst hi
        right
        rcases isIntLike_cases hil with e | e | e | e | e | e | e <;> subst e <;> exact ⟨rfl, rfl⟩
  case float | binFloat =>
    simp only [emitFloat] at h
    split at h
    · simp at h
    · simp only [Except.ok.injEq, Prod.mk.injEq, Option.some.injEq] at h
      obtain ⟨hi, _⟩ := h
      subst hi
      left; rfl
  case string | unicode | shortBinUnicode | binUnicode | binUnicode8 =>
    simp only [emitStr] at h
    split at h
    · simp at h
    · repeat' split at h
      all_goals
        first
          | (simp only [Except.ok.injEq, Prod.mk.injEq, Option.some.injEq] at h
             obtain ⟨hi, _⟩ := h
             subst hi
             first | (left; rfl) | (simp at *))
          | (simp at h)
  case binString | shortBinString | shortBinBytes | binBytes | binBytes8 | byteArray8 =>
    simp only [emitBytes] at h
    split at h
    · simp at h
    · repeat' split at h
      all_goals
        first
          | (simp only [Except.ok.injEq, Prod.mk.injEq, Option.some.injEq] at h
             obtain ⟨hi, _⟩ := h
             subst hi
             left; rfl)
          | (simp at h)
  case glob | inst =>
    simp only [emitGlobal] at h
    split at h
    · simp at h
    · simp only [Except.ok.injEq, Prod.mk.injEq, Option.some.injEq] at h
      obtain ⟨hi, _⟩ := h
      subst hi
      left; rfl
  case get => exact Or.inl (emitGet_op E c sim .get (Or.inl rfl) s s' i h)
  case longBinGet => exact Or.inl (emitGet_op E c sim .longBinGet (Or.inr (Or.inl rfl)) s s' i h)
  case binGet => exact Or.inl (emitGet_op E c sim .binGet (Or.inr (Or.inr rfl)) s s' i h)
  case frame => simp at h
  all_goals
    simp only [Except.ok.injEq, Prod.mk.injEq, Option.some.injEq] at h
    obtain ⟨hi, _⟩ := h
    subst hi
    left; rfl

/-- opcodes type confusion can write -/
def tcOp (o : Op) : Bool :=
  o == .binInt || o == .binFloat || o == .shortBinUnicode || o == .shortBinBytes || o == .emptyList ||
  o == .emptyDict || o == .emptyTuple || o == .pnone || o == .newTrue || o == .newFalse

theorem opcodeForType_tcOp (t : Gen.StackType) (s : σ) : tcOp (opcodeForType E t s).1.op = true := by
  cases t <;> simp only [opcodeForType] <;> try rfl
  cases (E.genBool s).1 <;> rfl

theorem typeConfusion_tcOp (u : Bool) (first : Option UInt8) (s s' : σ) (rate : UInt64) (r : Instr)
    (h : typeConfusion E u first s rate = .ok (some r, s')) : tcOp r.op = true := by
  cases u
  · simp [typeConfusion] at h
  · simp only [typeConfusion, Bool.not_true, Bool.false_eq_true, if_false] at h
    split at h
    · simp at h
    · cases first with
      | none => simp at h
      | some b =>
        simp only at h
        cases ht : Gen.opcodeToType b with
        | none => simp [ht] at h
        | some t0 =>
          simp only [ht] at h
          split at h
          · simp at h
          · simp only [Except.ok.injEq, Prod.mk.injEq, Option.some.injEq] at h
            rw [← h.1]
            exact opcodeForType_tcOp E _ _

theorem postProcess_tcOp (rate : UInt64) (first : Option UInt8) :
    ∀ (ms : List Mut) (cur : Option Instr) (s s' : σ) (r : Instr),
      (∀ x, cur = some x → tcOp x.op = true) →
      postProcess E ms first cur s rate = .ok (some r, s') → tcOp r.op = true
  | [], cur, s, s', r, hc, h => by
    simp only [postProcess, Except.ok.injEq, Prod.mk.injEq] at h
    exact hc r h.1
  | m :: ms, cur, s, s', r, hc, h => by
    cases m with
    | typeconfusion u =>
      simp only [postProcess] at h
      split at h
      · simp at h
      · rename_i x s1 ht
        exact postProcess_tcOp rate first ms (some x) s1 s' r
          (fun y hy => by simp at hy; rw [← hy]; exact typeConfusion_tcOp E u first s s1 rate x ht) h
      · rename_i s1 ht
        exact postProcess_tcOp rate first ms cur s1 s' r hc h
    | _ => exact postProcess_tcOp rate first ms cur s s' r hc (by simpa [postProcess] using h)

/-- opcodes the body can write for a chosen opcode `op`: `op` itself, an int-like opcode, or a
type-confusion replacement -/
theorem emitAndProcess_ops (g g' : GenSt) (op : Op) (s s' : σ)
    (h : emitAndProcess E X c g op s = .ok (g', s')) :
    g'.out = g.out ∨ ∃ i, g'.out = i :: g.out ∧ (i.op = op ∨ (isIntLike i.op = true ∧ isIntLike op = true) ∨ tcOp i.op = true) := by
  simp only [emitAndProcess] at h
  split at h
  · simp at h
  · rename_i oi s1 he
    split at h
    · simp at h
    · rename_i repl s2 hp
      simp only [Except.ok.injEq, Prod.mk.injEq] at h
      obtain ⟨hg, _⟩ := h
      subst hg
      cases repl with
      | some r =>
        have hr : tcOp r.op = true := by
          split at hp
          · simp at hp
          · exact postProcess_tcOp E _ _ _ none _ _ r (fun x hx => by simp at hx) hp
        cases oi <;> exact Or.inr ⟨r, rfl, Or.inr (Or.inr hr)⟩
      | none =>
        cases oi with
        | none => exact Or.inl rfl
        | some i =>
          rcases emitOne_op E X c g.sim op s s1 i he with e | e
          · exact Or.inr ⟨i, rfl, Or.inl e⟩
          · exact Or.inr ⟨i, rfl, Or.inr (Or.inl e)⟩

theorem emitAndProcess_pe (g g' : GenSt) (op : Op) (s s' : σ)
    (h : emitAndProcess E X c g op s = .ok (g', s')) : g'.sim.protoEmitted = g.sim.protoEmitted := by
  simp only [emitAndProcess] at h
  split at h
  · simp at h
  · rename_i oi s1 he
    split at h
    · simp at h
    · simp only [Except.ok.injEq, Prod.mk.injEq] at h
      obtain ⟨hg, _⟩ := h
      rw [← hg]
      cases oi with
      | none => rfl
      | some i => exact process_pe _ _ _ _

/-- a predicate on opcodes that holds of everything the body loop writes, given that it holds of
every opcode the guards can select (and of the int-like and type-confusion opcodes) -/
theorem bodyLoop_ops (P : Op → Prop) (hint : ∀ o, isIntLike o = true → P o) (htc : ∀ o, tcOp o = true → P o) :
    ∀ (n : Nat) (g g' : GenSt) (s s' : σ),
      (∀ sim, sim.protoEmitted = g.sim.protoEmitted → ∀ o ∈ validOps (Gen.table c.version) c sim, P o) →
      (∀ i ∈ g.out, P i.op) → bodyLoop E X c n g s = .ok (g', s') → ∀ i ∈ g'.out, P i.op
  | 0, g, g', s, s', _, hout, h => by
    simp only [bodyLoop, Except.ok.injEq, Prod.mk.injEq] at h
    rw [← h.1]; exact hout
  | n + 1, g, g', s, s', hvalid, hout, h => by
    simp only [bodyLoop] at h
    split at h
    · simp only [Except.ok.injEq, Prod.mk.injEq] at h
      rw [← h.1]; exact hout
    · split at h
      · simp at h
      · rename_i chosen hch
        have hPc : P chosen := hvalid g.sim rfl chosen (idx?_mem hch)
        split at h
        · simp at h
        · rename_i g1 s1 he
          have hpe := emitAndProcess_pe E X c g g1 chosen _ s1 he
          apply bodyLoop_ops P hint htc n g1 g' s1 s' (fun sim hs => hvalid sim (hs.trans hpe)) _ h
          rcases emitAndProcess_ops E X c g g1 chosen _ s1 he with e | ⟨i, e, hi⟩
          · rw [e]; exact hout
          · rw [e]
            intro j hj
            rcases List.mem_cons.mp hj with rfl | hj
            · rcases hi with h1 | h1 | h1
              · rw [h1]; exact hPc
              · exact hint _ h1.1
              · exact htc _ h1
            · exact hout j hj

end G
end PFV
