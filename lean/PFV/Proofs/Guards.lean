/-
The guards of the generator, re-read from the Rust source on every run (`GeneratedGuards.lean`, written by
tools/translate.py + tools/guards.py from `src/generator/validation.rs::can_emit`), are the hand-written `canEmit`
of `Sim.lean` — the function every theorem about the simulated VM mentions.  A guard that changes in the Rust
changes `Gen.canEmitSrc`, and this equality stops being provable (the check then reports it under every property
that rests on the guards and searches for a failing input).
-/
import PFV.GeneratedGuards
namespace PFV
namespace Tables

theorem canEmit_from_source (c : Cfg) (s : State) (op : Op) : Gen.canEmitSrc c s op = canEmit c s op := by
  cases op <;> simp only [Gen.canEmitSrc, canEmit] <;> first
    | rfl
    | (cases hs : s.stack <;> simp [topNonMark, hs, Bool.and_comm, Bool.and_assoc])

/-- hence the candidate list of the model is the source's guards filtered over the protocol table -/
theorem validOps_from_source (table : List Op) (c : Cfg) (s : State) :
    validOps table c s = table.filter (Gen.canEmitSrc c s) := by
  simp only [validOps]
  congr 1
  funext op
  exact (canEmit_from_source c s op).symm

end Tables
end PFV
