/-
The guards of the generator, re-read from the Rust source on every run (`GeneratedGuards.lean`, written by
tools/translate.py + tools/guards.py from `src/generator/validation.rs::can_emit`), are the hand-written `canEmit`
of `Sim.lean` — the function every theorem about the simulated VM mentions.  A guard that changes in the Rust
changes `Gen.canEmitSrc`, and this equality stops being provable (the check then reports it under every property
that rests on the guards and searches for a failing input).
-/
import PFV.GeneratedGuards
namespace PFV
namespace Tables

theorem canEmit_from_source (c : Cfg) (s : State) (op : Op) : Gen.canEmitSrc c s op = canEmit c s op := by
  cases op <;> simp only [Gen.canEmitSrc, canEmit] <;> first
    | rfl
    | (cases hs : s.stack <;> simp [topNonMark, hs, Bool.and_comm, Bool.and_assoc])

/-- hence the candidate list of the model is the source's guards filtered over the protocol table -/
theorem validOps_from_source (table : List Op) (c : Cfg) (s : State) :
    validOps table c s = table.filter (Gen.canEmitSrc c s) := by
  simp only [validOps]
  congr 1
  funext op
  exact (canEmit_from_source c s op).symm

/-- the helper predicates the guards are written in have, in the Rust source of this run, exactly the shapes and
variant lists the model's `isAt` / `isCallableAt` / `hasMark` / `belowMark` / `aboveMark` / `countToMark` implement:
`at` = the slot `depth` below the top, `belowTopMark` / `aboveTopMark` = the slot directly below / above the TOPMOST
MARK (found by scanning from the top), `countToTopMark` = the number of slots above it, `anyMark` = some slot is a MARK -/
theorem helpers_from_source : Gen.helpers =
    [("peek_at", "peekAt", []), ("has_mark", "anyMark", []),
     ("is_list_at", "at", [.list]), ("is_dict_at", "at", [.dict]), ("is_tuple_at", "at", [.tuple]),
     ("is_string_at", "at", [.string]), ("is_instance_at", "at", [.obj]), ("is_callable_at", "at", [.callable, .glob]),
     ("is_list_at_mark", "belowTopMark", [.list]), ("is_dict_at_mark", "belowTopMark", [.dict]),
     ("is_set_at_mark", "belowTopMark", [.set]), ("is_callable_above_mark", "aboveTopMark", [.callable, .glob]),
     ("count_items_to_mark", "countToTopMark", [])] := by decide

/-- what the model means by "callable" is that variant list -/
theorem callable_kinds (k : Kind) : isCallableKind k = [Kind.callable, Kind.glob].contains k := by
  cases k <;> rfl

end Tables
end PFV
