/- Uniform facts about `process` over all 68 opcodes. -/
import PFV.Proofs.Rel
namespace PFV

theorem popToMark_length_le (st : List Kind) : (popToMark st).length ≤ st.length := by
  unfold popToMark
  cases h : splitMark st with
  | none => simp
  | some p =>
    obtain ⟨a, b⟩ := p
    simp only
    induction st generalizing a with
    | nil => simp [splitMark] at h
    | cons k t ih =>
      by_cases hk : k = .mark
      · simp [splitMark, hk] at h; obtain ⟨_, rfl⟩ := h; simp
      · cases hs : splitMark t with
        | none => simp [splitMark, hk, hs] at h
        | some q =>
          obtain ⟨q1, q2⟩ := q
          simp [splitMark, hk, hs] at h
          obtain ⟨_, rfl⟩ := h
          have := ih q1 hs
          simp; omega

theorem dictPop_length_le : ∀ (st : List Kind), (dictPop st).length ≤ st.length
  | [] => by simp [dictPop]
  | [v] => by by_cases hv : v = .mark <;> simp [dictPop, hv]
  | v :: k :: t => by
    have := dictPop_length_le t
    by_cases hv : v = .mark <;> simp [dictPop, hv] <;> omega

/-- `process` never touches `proto_emitted` -/
theorem process_pe (v : Nat) (s : State) (op : Op) (a : Arg) :
    (process v s op a).protoEmitted = s.protoEmitted := by
  cases op <;> simp only [process] <;> (repeat' split) <;> rfl

theorem splitMark_len {st a b : List Kind} (h : splitMark st = some (a, b)) :
    b.length + a.length + 1 = st.length := by
  induction st generalizing a with
  | nil => simp [splitMark] at h
  | cons k t ih =>
    by_cases hk : k = .mark
    · simp [splitMark, hk] at h; obtain ⟨rfl, rfl⟩ := h; simp
    · cases hs : splitMark t with
      | none => simp [splitMark, hk, hs] at h
      | some q =>
        obtain ⟨q1, q2⟩ := q
        simp [splitMark, hk, hs] at h
        obtain ⟨rfl, rfl⟩ := h
        have := ih hs
        simp; omega

/-- one opcode grows the simulated stack by at most one slot -/
theorem process_len (v : Nat) (s : State) (op : Op) (a : Arg) :
    (process v s op a).stack.length ≤ s.stack.length + 1 := by
  have h1 := popToMark_length_le s.stack
  have h2 := dictPop_length_le s.stack
  by_cases ho : op = .obj
  · subst ho
    simp only [process]
    split
    · rename_i a1 b1 h
      have := splitMark_len h
      split <;> simp <;> omega
    · split <;> simp
  · cases op <;> first
      | exact absurd rfl ho
      | (simp only [process] <;> (repeat' split) <;> simp_all <;> omega)

end PFV
