/-
Table obligations: the generated tables (re-extracted from /repo on every run) against the
independent pickletools columns in `Lex.lean`.
-/
import PFV.Generated
import PFV.Lex
import PFV.Sim
namespace PFV
namespace Tables

theorem asU8_eq_code (o : Op) : Gen.asU8 o = Lex.code o := by
  cases o <;> rfl

theorem ofCode_code (o : Op) : Lex.ofCode? (Lex.code o) = some o := by
  cases o <;> rfl

theorem code_injective (a b : Op) (h : Lex.code a = Lex.code b) : a = b := by
  have := ofCode_code a
  rw [h, ofCode_code b] at this
  exact (Option.some.inj this).symm

theorem table_le_intro : ∀ p, p < 6 → ∀ o ∈ Gen.table p, Lex.introduced o ≤ p := by
  decide

theorem table_empty_of_ge6 (p : Nat) (h : 6 ≤ p) : Gen.table p = [] := by
  match p, h with
  | n + 6, _ => rfl

/-- every opcode pickletools lists for protocol ≤ p is in the generator's table for p -/
theorem table_complete : ∀ p, p < 6 → ∀ o ∈ Op.all, Lex.introduced o ≤ p → o ∈ Gen.table p := by
  decide

theorem op_all_complete (o : Op) : o ∈ Op.all := by
  cases o <;> decide

def isIntLike (o : Op) : Bool :=
  o == .int || o == .long || o == .long1 || o == .long4 || o == .binInt || o == .binInt1 || o == .binInt2

/-- `emit_int` always has something to choose from -/
theorem intlike_nonempty : ∀ p, p < 6 → (Gen.table p).filter isIntLike ≠ [] := by
  decide

theorem ascii_printable : ∀ b ∈ Gen.asciiChars, 32 ≤ b ∧ b ≤ 126 := by
  decide

theorem ascii_nonempty : Gen.asciiChars ≠ [] := by decide

end Tables
end PFV
