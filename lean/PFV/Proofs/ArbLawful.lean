/- C18: the exact port of `arbitrary::Unstructured` satisfies the entropy contract. -/
import PFV.Entropy
namespace PFV
namespace Arb

theorem takeLE_lt : ∀ (n : Nat) (bs : St), (takeLE n bs).1 < 2 ^ (8 * n)
  | 0, bs => by simp [takeLE]
  | n + 1, [] => by simp [takeLE]; exact Nat.two_pow_pos _
  | n + 1, b :: rest => by
    have ih := takeLE_lt n rest
    have hb : b.toNat < 256 := b.toNat_lt
    simp only [takeLE]
    have : 2 ^ (8 * (n + 1)) = 256 * 2 ^ (8 * n) := by
      rw [show 8 * (n + 1) = 8 + 8 * n by omega, Nat.pow_add]
    omega

theorem consume_lt (delta size : Nat) (hs : 0 < size) : ∀ (fuel consumed acc : Nat) (bs : St),
    acc < 2 ^ (8 * size) → (consume delta size fuel consumed acc bs).1 < 2 ^ (8 * size)
  | 0, _, _, _, h => by simpa [consume] using h
  | fuel + 1, consumed, acc, bs, h => by
    simp only [consume]
    split
    · cases bs with
      | nil => simpa using h
      | cons b rest =>
        simp only
        apply consume_lt delta size hs fuel
        split
        · rename_i h1
          subst h1
          have : b.toNat < 256 := b.toNat_lt
          simpa using this
        · exact Nat.mod_lt _ (Nat.two_pow_pos _)
    · simpa using h

theorem intInRange_le (start end_ : Nat) (bs : St) (h : start ≤ end_) (he : end_ < 2 ^ 64) :
    start ≤ (intInRange 8 start end_ bs).1 ∧ (intInRange 8 start end_ bs).1 ≤ end_ := by
  unfold intInRange
  by_cases hse : start = end_
  · simp [hse]
  · simp only [hse, if_false]
    have harb := consume_lt (end_ - start) 8 (by decide) 8 0 0 bs (by decide)
    generalize (consume (end_ - start) 8 8 0 0 bs) = p at harb
    obtain ⟨arb, rest⟩ := p
    simp only at harb ⊢
    have h64 : (2:Nat) ^ (8 * 8) = 2 ^ 64 := rfl
    by_cases hd : end_ - start = 2 ^ (8 * 8) - 1
    · simp only [hd, if_true]
      have hs0 : start = 0 := by omega
      subst hs0
      rw [Nat.zero_add, Nat.mod_eq_of_lt harb]
      omega
    · simp only [hd, if_false]
      have hoff : arb % (end_ - start + 1) ≤ end_ - start := Nat.lt_succ_iff.mp (Nat.mod_lt _ (by omega))
      have hlt : start + arb % (end_ - start + 1) < 2 ^ (8 * 8) := by omega
      rw [Nat.mod_eq_of_lt hlt]
      omega

theorem toSigned_range (bits : Nat) (hb : 0 < bits) (v : Nat) (hv : v < 2 ^ bits) :
    -((2 ^ (bits - 1) : Nat) : Int) ≤ toSigned bits v ∧ toSigned bits v < ((2 ^ (bits - 1) : Nat) : Int) := by
  have h2 : 2 ^ bits = 2 * 2 ^ (bits - 1) := by
    cases bits with
    | zero => omega
    | succ n => simp [Nat.pow_succ, Nat.mul_comm]
  unfold toSigned
  split <;> omega

/-- **C18** for the fuzzer-bytes source: for every remaining-bytes state (the empty one included)
every draw stays in range; on exhaustion the fixed fallbacks are returned. -/
theorem lawful : Lawful E where
  chooseIndex_lt := by
    intro s n hn
    simp only [E]
    have hn0 : n ≠ 0 := by omega
    simp only [hn0, if_false]
    by_cases hbig : n - 1 < 2 ^ 64
    · have := (intInRange_le 0 (n - 1) s (by omega) hbig).2
      omega
    · -- not representable as usize; the model still answers below 2^64 ≤ n
      unfold intInRange
      by_cases h0 : 0 = n - 1
      · omega
      · simp only [h0, if_false]
        have : ∀ x : Nat, x % 2 ^ (8 * 8) < n := by
          intro x
          have := Nat.mod_lt x (Nat.two_pow_pos (8 * 8))
          have : (2:Nat) ^ (8 * 8) = 2 ^ 64 := rfl
          omega
        exact this _
  chooseIndex_zero := by intro s; simp [E]
  genU8_lt := by intro s; simpa [E] using takeLE_lt 1 s
  genU16_lt := by intro s; simpa [E] using takeLE_lt 2 s
  genU32_lt := by intro s; simpa [E] using takeLE_lt 4 s
  genI32_range := by
    intro s
    have h := takeLE_lt 4 s
    have := toSigned_range 32 (by decide) (takeLE 4 s).1 (by simpa using h)
    simp only [E]
    constructor
    · have := this.1; simpa using this
    · have := this.2; simpa using this
  genI64_range := by
    intro s
    have h := takeLE_lt 8 s
    have := toSigned_range 64 (by decide) (takeLE 8 s).1 (by simpa using h)
    simp only [E]
    constructor
    · have := this.1; simpa using this
    · have := this.2; simpa using this
  genUnit_lt := by
    intro s
    have h := takeLE_lt 8 s
    simp only [E]
    have : (2:Nat) ^ (8 * 8) = 2048 * 9007199254740992 := rfl
    omega
  genRange_in := by
    intro s a b hab hb
    simp only [E]
    have hn : ¬ a ≥ b := by omega
    simp only [hn, if_false]
    have := intInRange_le a (b - 1) s (by omega) (by omega)
    omega
  genRange_degenerate := by
    intro s a b hba
    simp only [E]
    have : a ≥ b := hba
    simp [this]
  genBytes_len := by
    intro s n
    simp only [E]
    split
    · simp
    · simp; omega

end Arb
end PFV
