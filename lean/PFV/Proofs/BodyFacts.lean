/- Facts about bodies of guarded steps used by C05, C10, C11. -/
import PFV.AbsGen
import PFV.Proofs.ProcessFacts
namespace PFV

theorem Body.ops_mem {c : Cfg} {table s is s'} (h : Body c table s is s') :
    ∀ i ∈ is, i.op ∈ table := by
  induction h with
  | nil => simp
  | step hm _ _ _ ih =>
    intro i hi
    rcases List.mem_cons.mp hi with rfl | hi
    · exact hm
    · exact ih i hi

theorem Body.ops_guard {c : Cfg} {table s is s'} (h : Body c table s is s') :
    ∀ i ∈ is, ∃ s0, canEmit c s0 i.op = true := by
  induction h with
  | nil => simp
  | step _ hc _ _ ih =>
    intro i hi
    rcases List.mem_cons.mp hi with rfl | hi
    · exact ⟨_, hc⟩
    · exact ih i hi

theorem Body.no_proto {c : Cfg} {table s is s'} (h : Body c table s is s')
    (hp : s.protoEmitted = true) : ∀ i ∈ is, i.op ≠ .proto := by
  induction h with
  | nil => simp
  | @step s op a is s' _ hc _ _ ih =>
    intro i hi
    rcases List.mem_cons.mp hi with rfl | hi
    · intro e
      simp only at e
      subst e
      simp [canEmit, hp] at hc
    · exact ih (by rw [process_pe]; exact hp) i hi

theorem Body.depth {c : Cfg} {table s is s'} (h : Body c table s is s') :
    s'.stack.length ≤ s.stack.length + is.length := by
  induction h with
  | nil => simp
  | @step s op a is s' _ _ _ _ ih =>
    have := process_len c.version s op a
    simp only [List.length_cons]
    omega

end PFV
