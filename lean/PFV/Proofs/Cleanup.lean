/-
`cleanup_for_stop`: the collapse phase is a sequence of guarded steps (so the simulation theorem
applies to it), it terminates with the given fuel, and it leaves exactly one non-MARK object.
-/
import PFV.Proofs.RunSim
namespace PFV
open Ref (RKind RState RMemo)

/-- guarded steps without a table constraint (the collapse phase does not consult the table),
plus the header opcodes PROTO/FRAME, which are written without consulting a guard and do not
touch the simulated state -/
inductive Steps (c : Cfg) : State → List Instr → State → Prop
  | nil {s} : Steps c s [] s
  | step {s op a is s'} :
      canEmit c s op = true → argOK s op a = true →
      Steps c (process c.version s op a) is s' →
      Steps c s (⟨op, a⟩ :: is) s'
  | hdr {s op a is s'} : (op = .proto ∨ op = .frame) → Steps c s is s' → Steps c s (⟨op, a⟩ :: is) s'

theorem Body.toSteps {c : Cfg} {table s is s'} (h : Body c table s is s') : Steps c s is s' := by
  induction h with
  | nil => exact Steps.nil
  | step _ hc ha _ ih => exact Steps.step hc ha ih

theorem Steps.append {c : Cfg} {s s1 s2 a b} (h1 : Steps c s a s1) (h2 : Steps c s1 b s2) :
    Steps c s (a ++ b) s2 := by
  induction h1 with
  | nil => simpa using h2
  | step hc ha _ ih => exact Steps.step hc ha (ih h2)
  | hdr ho _ ih => exact Steps.hdr ho (ih h2)

theorem steps_sim {c : Cfg} (hsafe : c.unsafeMut = false) {s s' : State} {is : List Instr}
    (hb : Steps c s is s') {r : RState} (hR : SRel s r) (hd : Dense s.memo) :
    ∃ r', Ref.run r is = .ok (r', []) ∧ SRel s' r' ∧ Dense s'.memo := by
  induction hb generalizing r with
  | nil => exact ⟨r, rfl, hR, hd⟩
  | step hc ha _ ih =>
    obtain ⟨r1, h1, hR1, hd1⟩ := step_sim c hsafe _ r hR hd _ _ hc ha
    obtain ⟨r2, h2, hR2, hd2⟩ := ih hR1 hd1
    exact ⟨r2, run_cons_ok h1 h2, hR2, hd2⟩
  | @hdr s op a is s' ho _ ih =>
    obtain ⟨r1, h1, hR1, hd1⟩ := step_noop (c := c) (a := a) hR hd op ho
    have hp : process c.version s op a = s := by rcases ho with rfl | rfl <;> rfl
    rw [hp] at hR1 hd1
    obtain ⟨r2, h2, hR2, hd2⟩ := ih hR1 hd1
    exact ⟨r2, run_cons_ok h1 h2, hR2, hd2⟩

theorem Steps.simRun_eq {c : Cfg} {s s' : State} {is : List Instr} (h : Steps c s is s') :
    simRun c.version s is = s' := by
  induction h with
  | nil => rfl
  | step _ _ _ ih => simpa [simRun] using ih
  | @hdr s op a is s' ho _ ih =>
    have hp : process c.version s op a = s := by rcases ho with rfl | rfl <;> rfl
    simpa [simRun, hp] using ih

/-- guarded-step sequences are closed under taking prefixes -/
theorem Steps.prefix {c : Cfg} {s s' : State} {is : List Instr} (h : Steps c s is s')
    {p : List Instr} (hp : p <+: is) : ∃ s1, Steps c s p s1 := by
  induction h generalizing p with
  | nil => simp at hp; subst hp; exact ⟨_, Steps.nil⟩
  | step hc ha _ ih =>
    rcases List.prefix_cons_iff.mp hp with rfl | ⟨t, rfl, ht⟩
    · exact ⟨_, Steps.nil⟩
    · obtain ⟨s1, h1⟩ := ih ht
      exact ⟨s1, Steps.step hc ha h1⟩
  | hdr ho _ ih =>
    rcases List.prefix_cons_iff.mp hp with rfl | ⟨t, rfl, ht⟩
    · exact ⟨_, Steps.nil⟩
    · obtain ⟨s1, h1⟩ := ih ht
      exact ⟨s1, Steps.hdr ho h1⟩

/-- number of MARKs on a stack -/
def marks (st : List Kind) : Nat := st.countP (· == .mark)

theorem marks_le_length (st : List Kind) : marks st ≤ st.length := List.countP_le_length

theorem hasMark_false_iff {st : List Kind} : hasMark st = false ↔ marks st = 0 := by
  induction st with
  | nil => simp [hasMark, marks]
  | cons k t ih =>
    by_cases hk : k = .mark
    · simp [hasMark, marks, hk]
    · have hb : (k == Kind.mark) = false := by simpa using hk
      simp only [hasMark, List.any_cons, hb, Bool.false_or, marks, List.countP_cons, hb] at ih ⊢
      simpa using ih

theorem marks_split {st a1 a2 : List Kind} (h : splitMark st = some (a1, a2)) :
    marks st = marks a2 + 1 ∧ a2.length + a1.length + 1 = st.length := by
  induction st generalizing a1 with
  | nil => simp [splitMark] at h
  | cons k t ih =>
    by_cases hk : k = .mark
    · subst hk
      simp [splitMark] at h
      obtain ⟨rfl, rfl⟩ := h
      simp [marks]
    · have hb : (k == Kind.mark) = false := by simpa using hk
      cases hs : splitMark t with
      | none => simp [splitMark, hk, hs] at h
      | some p =>
        obtain ⟨p1, p2⟩ := p
        simp [splitMark, hk, hs] at h
        obtain ⟨rfl, rfl⟩ := h
        obtain ⟨i1, i2⟩ := ih hs
        constructor
        · simp only [marks, List.countP_cons, hb] at i1 ⊢; simpa using i1
        · simp; omega

theorem argOK_plain (s : State) (op : Op) (h1 : isGetFam op = false) (h2 : isPutFam op = false)
    (h3 : needsArg op = false) : argOK s op .none = true := by
  simp [argOK, h1, h2, h3]

variable (c : Cfg)

theorem cleanupMarks_spec : ∀ (n : Nat) (s : State), marks s.stack ≤ n →
    Steps c s (plain (cleanupMarks c.version n s).2) (cleanupMarks c.version n s).1 ∧
    hasMark (cleanupMarks c.version n s).1.stack = false ∧
    (cleanupMarks c.version n s).2.length = marks s.stack ∧
    (cleanupMarks c.version n s).1.stack.length ≤ s.stack.length ∧
    (∀ o ∈ (cleanupMarks c.version n s).2, o = .tuple) := by
  intro n
  induction n with
  | zero =>
    intro s h
    have h0 : marks s.stack = 0 := by omega
    exact ⟨by simpa [cleanupMarks, plain] using Steps.nil, by simpa [cleanupMarks] using hasMark_false_iff.mpr h0,
      by simp [cleanupMarks, h0], by simp [cleanupMarks], by simp [cleanupMarks]⟩
  | succ n ih =>
    intro s h
    by_cases hm : hasMark s.stack = true
    · obtain ⟨a1, a2, hsp⟩ := split_of_hasMark hm
      obtain ⟨m1, m2⟩ := marks_split hsp
      have hp : (process c.version s .tuple .none).stack = .tuple :: a2 := by
        simp [process, popToMark, hsp]
      have hmk : marks (process c.version s .tuple .none).stack = marks a2 := by
        rw [hp]; simp [marks]
      obtain ⟨i1, i2, i3, i4, i5⟩ := ih (process c.version s .tuple .none) (by rw [hmk]; omega)
      have hce : canEmit c s .tuple = true := by simpa [canEmit] using hm
      refine ⟨?_, ?_, ?_, ?_, ?_⟩
      · simpa [cleanupMarks, hm, plain] using Steps.step hce (argOK_plain s .tuple rfl rfl rfl) (by simpa [plain] using i1)
      · simpa [cleanupMarks, hm] using i2
      · simp only [cleanupMarks, hm, if_true, List.length_cons, i3, hmk]; omega
      · simp only [cleanupMarks, hm, if_true]
        rw [hp] at i4; simp at i4; omega
      · intro o ho
        simp only [cleanupMarks, hm, if_true, List.mem_cons] at ho
        rcases ho with rfl | ho
        · rfl
        · exact i5 o ho
    · have hm' : hasMark s.stack = false := by simpa using hm
      have h0 := hasMark_false_iff.mp hm'
      exact ⟨by simpa [cleanupMarks, hm', plain] using Steps.nil, by simpa [cleanupMarks, hm'] using hm',
        by simp [cleanupMarks, hm', h0], by simp [cleanupMarks, hm'], by simp [cleanupMarks, hm']⟩

theorem hasMark_drop {st : List Kind} (h : hasMark st = false) (k : Nat) : hasMark (st.drop k) = false := by
  induction k generalizing st with
  | zero => simpa using h
  | succ k ih =>
    cases st with
    | nil => simpa using h
    | cons x t =>
      simp only [hasMark, List.any_cons, Bool.or_eq_false_iff] at h
      simpa using ih (st := t) h.2

/-- one collapse iteration: guard holds, no MARK appears, the stack shrinks but does not vanish -/
theorem collapse_step (s : State) (hm : hasMark s.stack = false) (hl : s.stack.length > 1) :
    let op := collapseOp c.version s.stack.length
    canEmit c s op = true ∧ argOK s op .none = true ∧
    hasMark (process c.version s op .none).stack = false ∧
    (process c.version s op .none).stack.length < s.stack.length ∧
    1 ≤ (process c.version s op .none).stack.length := by
  obtain ⟨st, m, pe⟩ := s
  dsimp only at hm hl ⊢
  unfold collapseOp
  by_cases hv : c.version < 2
  · simp only [hv, if_true]
    refine ⟨by simp [canEmit]; omega, rfl, ?_, ?_, ?_⟩
    · simpa [process] using hasMark_drop hm 1
    · simp [process]; omega
    · simp [process]; omega
  · simp only [hv, if_false]
    by_cases h3 : st.length ≥ 3
    · simp only [h3, if_true]
      refine ⟨by simp [canEmit]; omega, rfl, ?_, ?_, ?_⟩
      · have := hasMark_drop hm 3
        simp [process, h3, hasMark] at this ⊢
        exact this
      · simp [process, h3]; omega
      · simp [process, h3]
    · simp only [h3, if_false]
      have h2 : st.length ≥ 2 := by omega
      refine ⟨by simp [canEmit]; omega, rfl, ?_, ?_, ?_⟩
      · have := hasMark_drop hm 2
        simp [process, h2, hasMark] at this ⊢
        exact this
      · simp [process, h2]; omega
      · simp [process, h2]

theorem cleanupCollapse_spec : ∀ (n : Nat) (s : State), hasMark s.stack = false →
    s.stack.length ≤ n + 1 →
    Steps c s (plain (cleanupCollapse c.version n s).2) (cleanupCollapse c.version n s).1 ∧
    hasMark (cleanupCollapse c.version n s).1.stack = false ∧
    (cleanupCollapse c.version n s).1.stack.length ≤ 1 ∧
    (1 ≤ s.stack.length → (cleanupCollapse c.version n s).1.stack.length = 1) ∧
    (cleanupCollapse c.version n s).2.length + 1 ≤ max s.stack.length 1 ∧
    (∀ o ∈ (cleanupCollapse c.version n s).2,
        (c.version < 2 ∧ o = .pop) ∨ (2 ≤ c.version ∧ (o = .tuple2 ∨ o = .tuple3))) := by
  intro n
  induction n with
  | zero =>
    intro s hm hl
    refine ⟨by simpa [cleanupCollapse, plain] using Steps.nil, by simpa [cleanupCollapse] using hm,
      by simpa [cleanupCollapse] using hl, ?_, by simp [cleanupCollapse]; omega, by simp [cleanupCollapse]⟩
    intro h1; simp [cleanupCollapse]; omega
  | succ n ih =>
    intro s hm hl
    by_cases hgt : s.stack.length > 1
    · obtain ⟨h1, h2, h3, h4, h5⟩ := collapse_step c s hm hgt
      obtain ⟨i1, i2, i3, i4, i5, i6⟩ := ih (process c.version s (collapseOp c.version s.stack.length) .none) h3 (by omega)
      refine ⟨?_, ?_, ?_, ?_, ?_, ?_⟩
      · simpa [cleanupCollapse, hgt, plain] using Steps.step h1 h2 (by simpa [plain] using i1)
      · simpa [cleanupCollapse, hgt] using i2
      · simpa [cleanupCollapse, hgt] using i3
      · intro _; simpa [cleanupCollapse, hgt] using i4 h5
      · simp only [cleanupCollapse, hgt, if_true, List.length_cons]
        have : max (process c.version s (collapseOp c.version s.stack.length) .none).stack.length 1 =
            (process c.version s (collapseOp c.version s.stack.length) .none).stack.length := by omega
        rw [this] at i5
        have : max s.stack.length 1 = s.stack.length := by omega
        rw [this]; omega
      · intro o ho
        simp only [cleanupCollapse, hgt, if_true, List.mem_cons] at ho
        rcases ho with rfl | ho
        · unfold collapseOp
          by_cases hv : c.version < 2
          · left; simp [hv]
          · right
            refine ⟨by omega, ?_⟩
            by_cases h3 : s.stack.length ≥ 3 <;> simp [hv, h3]
        · exact i6 o ho
    · refine ⟨by simpa [cleanupCollapse, hgt, plain] using Steps.nil, by simpa [cleanupCollapse, hgt] using hm,
        by simp [cleanupCollapse, hgt]; omega, ?_, by simp [cleanupCollapse, hgt]; omega, by simp [cleanupCollapse, hgt]⟩
      intro h1; simp [cleanupCollapse, hgt]; omega

end PFV

namespace PFV
open Ref (RKind RState RMemo)

theorem cleanupFinal_spec (c : Cfg) (s2 : State) (hm : hasMark s2.stack = false)
    (hl : s2.stack.length ≤ 1) :
    Steps c s2 (plain (cleanupFinal c.version s2).2) (cleanupFinal c.version s2).1 ∧
    (∃ k, (cleanupFinal c.version s2).1.stack = [k] ∧ k ≠ .mark) ∧
    (cleanupFinal c.version s2).2.length + s2.stack.length = 1 ∧
    (∀ o ∈ (cleanupFinal c.version s2).2, o = .pnone) := by
  obtain ⟨st, m, pe⟩ := s2
  dsimp only at hm hl
  match st, hm, hl with
  | [], _, _ =>
    refine ⟨?_, ⟨.pnone, ?_, by decide⟩, ?_, ?_⟩
    · simpa [cleanupFinal, process, plain] using
        Steps.step (c := c) (s := ⟨[], m, pe⟩) (op := .pnone) (a := .none) rfl rfl Steps.nil
    · simp [cleanupFinal, process]
    · simp [cleanupFinal, process]
    · simp [cleanupFinal, process]
  | [k], hm, _ =>
    have hk : k ≠ .mark := by
      intro e; subst e; simp [hasMark] at hm
    refine ⟨?_, ⟨k, ?_, hk⟩, ?_, ?_⟩
    · simpa [cleanupFinal, hk, plain] using Steps.nil
    · simp [cleanupFinal, hk]
    · simp [cleanupFinal, hk]
    · simp [cleanupFinal, hk]
  | _ :: _ :: _, _, hl => simp at hl

/-- **Collapse phase**: a sequence of guarded steps that leaves exactly one non-MARK object;
its length is at most twice the stack depth plus one; its opcodes are TUPLE, NONE, and POP
(protocol < 2) or TUPLE2/TUPLE3 (protocol ≥ 2). -/
theorem cleanup_spec (c : Cfg) (s : State) :
    Steps c s (plain (cleanup c.version s).2) (cleanup c.version s).1 ∧
    (∃ k, (cleanup c.version s).1.stack = [k] ∧ k ≠ .mark) ∧
    (cleanup c.version s).2.length ≤ 2 * s.stack.length + 1 ∧
    (∀ o ∈ (cleanup c.version s).2, o = .tuple ∨ o = .pnone ∨ (c.version < 2 ∧ o = .pop) ∨
        (2 ≤ c.version ∧ (o = .tuple2 ∨ o = .tuple3))) := by
  obtain ⟨a1, a2, a3, a4, a5⟩ := cleanupMarks_spec c s.stack.length s (marks_le_length _)
  obtain ⟨b1, b2, b3, b4, b5, b6⟩ := cleanupCollapse_spec c
    (cleanupMarks c.version s.stack.length s).1.stack.length (cleanupMarks c.version s.stack.length s).1 a2 (by omega)
  obtain ⟨d1, d2, d3, d4⟩ := cleanupFinal_spec c _ b2 b3
  refine ⟨?_, ?_, ?_, ?_⟩
  · simpa [cleanup, plain] using (a1.append b1).append d1
  · simpa [cleanup] using d2
  · simp only [cleanup, List.length_append]
    have := marks_le_length s.stack
    omega
  · intro o ho
    simp only [cleanup, List.mem_append] at ho
    rcases ho with (ho | ho) | ho
    · exact Or.inl (a5 o ho)
    · rcases b6 o ho with h | h
      · exact Or.inr (Or.inr (Or.inl h))
      · exact Or.inr (Or.inr (Or.inr h))
    · exact Or.inr (Or.inl (d4 o ho))

end PFV
