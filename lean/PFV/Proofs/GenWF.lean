/-
C04, byte level: every instruction the exact generator writes is well-formed (`WF`) and inside its
argument domain (`Lex.domainOk`) — for every configuration, unsafe mutations included — hence the
reference lexer reads the whole output back (`Spec.wellFormed`).
Assumptions about the two external parameters, both checked on every run by the driver / translator:
`FloatOK fmt` (Rust's float `Display` yields a literal Python's `float()` accepts, without newline)
and `ModsOK mods` (module / attribute names are newline-free and valid for `escape_decode` + ASCII).
-/
import PFV.Proofs.LexEnc
import PFV.Proofs.GenFrame
import PFV.Proofs.ArbLawful
import PFV.Spec
namespace PFV
open Mutators Lex Enc

def FloatOK (fmt : UInt64 → List UInt8) : Prop := ∀ b, noNl (fmt b) = true ∧ pyFloatOk (fmt b) = true

def ModsOK (mods : List (List UInt8 × List UInt8)) : Prop :=
  ∀ p ∈ mods, noNl p.1 = true ∧ noNl p.2 = true ∧ escapeAsciiOk p.1 = true ∧ escapeAsciiOk p.2 = true

theorem modsOK_of_check (mods : List (List UInt8 × List UInt8)) (h : Spec.modsOk mods = true) : ModsOK mods := by
  intro p hp
  have := List.all_eq_true.mp h p hp
  simp only [Bool.and_eq_true] at this
  exact ⟨this.1.1.1, this.1.1.2, this.1.2, this.2⟩

/-- printable 7-bit character -/
def printable (b : UInt8) : Bool := 32 ≤ b && b ≤ 126

/-! ### the string validators on printable input -/

/-- a property of bytes is decided by running through all 256 of them -/
theorem forall_uint8 (P : UInt8 → Prop) (h : ∀ n, n < 256 → P (UInt8.ofNat n)) : ∀ b, P b := by
  intro b
  have := h b.toNat b.toNat_lt
  simpa using this

theorem estep_plain (b : UInt8) (hb : printable b = true) (hbs : b ≠ 0x5c) : estep .norm b = .norm := by
  revert hb hbs
  revert b
  apply forall_uint8
  decide +kernel

theorem printable_facts (b : UInt8) (hb : printable b = true) :
    b ≠ nl ∧ b ≠ 0x0d ∧ b ≠ 0x09 ∧ b < 0x80 := by
  revert hb
  revert b
  apply forall_uint8
  decide +kernel

theorem escapeAsciiOk_plain : ∀ (l : List UInt8), (∀ b ∈ l, printable b = true ∧ b ≠ 0x5c) →
    l.foldl estep .norm = .norm
  | [], _ => rfl
  | b :: t, h => by
    simp only [List.foldl_cons]
    rw [estep_plain b (h b (by simp)).1 (h b (by simp)).2]
    exact escapeAsciiOk_plain t (fun x hx => h x (List.mem_cons_of_mem _ hx))

/-- the STRING escaping of printable bytes is accepted by `escape_decode` + ASCII -/
theorem escapeString_ok : ∀ (l : List UInt8), (∀ b ∈ l, printable b = true) →
    (escapeString l).foldl estep .norm = .norm
  | [], _ => rfl
  | b :: t, h => by
    have hb := h b (by simp)
    have ih := escapeString_ok t (fun x hx => h x (List.mem_cons_of_mem _ hx))
    simp only [escapeString]
    by_cases h1 : b = 0x5c
    · subst h1; simp only [if_true, List.foldl_append, List.foldl_cons, List.foldl_nil]
      have : estep (estep .norm 0x5c) 0x5c = .norm := by decide
      rw [this]; exact ih
    · by_cases h2 : b = 0x27
      · subst h2
        simp only [show ¬ ((0x27 : UInt8) = 0x5c) by decide, if_false, if_true, List.foldl_append, List.foldl_cons, List.foldl_nil]
        have : estep (estep .norm 0x5c) 0x27 = .norm := by decide
        rw [this]; exact ih
      · obtain ⟨h3, h4, h5, _⟩ := printable_facts b hb
        have h3' : b ≠ 0x0a := h3
        simp only [h1, h2, h3', h4, h5, if_false, List.foldl_append, List.foldl_cons, List.foldl_nil]
        rw [estep_plain b hb h1]; exact ih

theorem escapeString_noNl : ∀ (l : List UInt8), (∀ b ∈ l, printable b = true) → nl ∉ escapeString l
  | [], _ => by simp [escapeString]
  | b :: t, h => by
    have hb := h b (by simp)
    have ih := escapeString_noNl t (fun x hx => h x (List.mem_cons_of_mem _ hx))
    obtain ⟨h3, _, _, _⟩ := printable_facts b hb
    simp only [escapeString]
    intro hm
    rcases List.mem_append.mp hm with hm | hm
    · by_cases h1 : b = 0x5c
      · simp [h1, nl] at hm
      · by_cases h2 : b = 0x27
        · simp [h1, h2, nl] at hm
        · by_cases h4 : b = 0x0a
          · exact h3 h4
          · by_cases h5 : b = 0x0d
            · simp [h1, h2, h4, h5, nl] at hm
            · by_cases h6 : b = 0x09
              · simp [h1, h2, h4, h5, h6, nl] at hm
              · simp [h1, h2, h4, h5, h6] at hm
                exact h3 hm.symm
    · exact ih hm

/-- UNICODE: doubling every backslash keeps the run parity even, so no `\u` escape can form -/
theorem rawUnicode_escaped : ∀ (l : List UInt8), (escapeBackslash l).foldl ustep (.norm false) = .norm false
  | [] => rfl
  | b :: t => by
    have ih := rawUnicode_escaped t
    simp only [escapeBackslash]
    by_cases h1 : b = 0x5c
    · subst h1
      simp only [if_true, List.foldl_append, List.foldl_cons, List.foldl_nil]
      have : ustep (ustep (.norm false) 0x5c) 0x5c = .norm false := by decide
      rw [this]; exact ih
    · simp only [h1, if_false, List.foldl_append, List.foldl_cons, List.foldl_nil]
      have : ustep (.norm false) b = .norm false := by
        simp [ustep, h1]
      rw [this]; exact ih

theorem escapeBackslash_noNl : ∀ (l : List UInt8), nl ∉ l → nl ∉ escapeBackslash l
  | [], _ => by simp [escapeBackslash]
  | b :: t, h => by
    have hb : b ≠ nl := fun e => h (by simp [e])
    have ih := escapeBackslash_noNl t (fun e => h (List.mem_cons_of_mem _ e))
    simp only [escapeBackslash]
    intro hm
    rcases List.mem_append.mp hm with hm | hm
    · split at hm
      · simp [nl] at hm
      · simp at hm; exact hb hm.symm
    · exact ih hm

theorem utf8Ok_printable : ∀ (l : List UInt8), (∀ b ∈ l, printable b = true) → l.foldl u8step {} = {}
  | [], _ => rfl
  | b :: t, h => by
    have hb := h b (by simp)
    simp only [List.foldl_cons]
    have : u8step {} b = {} := by
      have hlt : b < 0x80 := (printable_facts b hb).2.2.2
      simp [u8step, hlt]
    rw [this]
    exact utf8Ok_printable t (fun x hx => h x (List.mem_cons_of_mem _ hx))

end PFV

namespace PFV
open Mutators Lex Enc

/-- strings of printable 7-bit characters -/
def PStr (cs : List Char) : Prop := ∀ c ∈ cs, 32 ≤ c.toNat ∧ c.toNat ≤ 126

theorem pstr_nil : PStr [] := by intro c hc; simp at hc

theorem pstr_append {a b : List Char} (ha : PStr a) (hb : PStr b) : PStr (a ++ b) := by
  intro c hc
  rcases List.mem_append.mp hc with h | h
  · exact ha c h
  · exact hb c h

namespace G
variable {σ : Type} (E : Entropy σ)

theorem asciiChar_printable (hE : Lawful E) (s : σ) :
    32 ≤ (Char.ofNat (E.genAsciiChar s).1.toNat).toNat ∧ (Char.ofNat (E.genAsciiChar s).1.toNat).toNat ≤ 126 := by
  have hpos : 0 < Gen.asciiChars.length := by decide
  have hlt := hE.chooseIndex_lt s Gen.asciiChars.length hpos
  have hmem : (E.genAsciiChar s).1 ∈ Gen.asciiChars := by
    simp only [Entropy.genAsciiChar]
    have : Gen.asciiChars.getD (E.chooseIndex s Gen.asciiChars.length).1 0 =
        Gen.asciiChars[(E.chooseIndex s Gen.asciiChars.length).1] := by
      simp [List.getD, List.getElem?_eq_getElem hlt]
    rw [this]
    exact List.getElem_mem hlt
  have hp := Tables.ascii_printable _ hmem
  have h1 : 32 ≤ (E.genAsciiChar s).1.toNat := by
    have := hp.1; rw [UInt8.le_iff_toNat_le] at this; exact this
  have h2 : (E.genAsciiChar s).1.toNat ≤ 126 := by
    have := hp.2; rw [UInt8.le_iff_toNat_le] at this; exact this
  rw [char_ofNat_toNat _ (by omega)]
  exact ⟨h1, h2⟩

theorem genChars_pstr (hE : Lawful E) : ∀ (n : Nat) (s : σ) (acc : List Char), PStr acc → PStr (genChars E n s acc).1
  | 0, s, acc, h => by simpa [genChars] using h
  | n + 1, s, acc, h => by
    simp only [genChars]
    apply genChars_pstr hE n
    apply pstr_append h
    intro c hc
    simp only [List.mem_singleton] at hc
    subst hc
    exact asciiChar_printable E hE s

theorem mutateString_pstr (m : Mut) (v : List Char) (hv : PStr v) (s s' : σ) (rate : UInt64) (x : List Char)
    (h : mutateString E m v s rate = .ok (some x, s')) : PStr x := by
  cases m <;> simp only [mutateString] at h <;> try (simp at h; done)
  · -- stringlen
    split at h
    · simp at h
    · split at h
      · split at h
        · simp only [Except.ok.injEq, Prod.mk.injEq, Option.some.injEq] at h
          rw [← h.1]; exact hv
        · simp only [Except.ok.injEq, Prod.mk.injEq, Option.some.injEq] at h
          rw [← h.1]
          intro c hc
          exact hv c (List.mem_of_mem_take hc)
      · split at h
        · simp only [Except.ok.injEq, Prod.mk.injEq, Option.some.injEq] at h
          rw [← h.1]
          apply pstr_append hv
          obtain ⟨ext, e1, _, e3⟩ := extendLower_spec E (E.genRange (E.genRange (gate E s rate).2 0 3).2 1 10).1
            (E.genRange (E.genRange (gate E s rate).2 0 3).2 1 10).2 []
          simp only [List.nil_append] at e1
          rw [e1]
          intro c hc
          simp only [List.mem_map] at hc
          obtain ⟨b, hb, rfl⟩ := hc
          have := e3 b hb
          have hlt : b.toNat < 256 := b.toNat_lt
          rw [char_ofNat_toNat _ (by omega)]
          omega
        · simp only [Except.ok.injEq, Prod.mk.injEq, Option.some.injEq] at h
          rw [← h.1]
          exact pstr_append hv hv
  · -- character
    split at h
    · simp at h
    · split at h
      · simp only [Except.ok.injEq, Prod.mk.injEq, Option.some.injEq] at h
        rw [← h.1]
        intro c hc
        rcases List.mem_or_eq_of_mem_set hc with h1 | h1
        · exact hv c h1
        · rw [h1, char_ofNat_toNat _ (by omega)]
          omega
      · simp at h

theorem firstSome_inv {α : Type} (P : α → Prop) (f : Mut → α → σ → UInt64 → Except Panic (Option α × σ)) (rate : UInt64)
    (hf : ∀ m v s s' x, P v → f m v s rate = .ok (some x, s') → P x) :
    ∀ (ms : List Mut) (v : α) (s : σ) (x : α) (s' : σ) (b : Bool), P v →
      firstSome f ms v s rate = .ok (x, s', b) → P x
  | [], v, s, x, s', b, hv, h => by
    simp only [firstSome, Except.ok.injEq, Prod.mk.injEq] at h
    rw [← h.1]; exact hv
  | m :: ms, v, s, x, s', b, hv, h => by
    simp only [firstSome] at h
    split at h
    · simp at h
    · rename_i y s1 hm
      simp only [Except.ok.injEq, Prod.mk.injEq] at h
      rw [← h.1]; exact hf m v s s1 y hv hm
    · rename_i s1 hm
      exact firstSome_inv P f rate hf ms v s1 x s' b hv h

/-- UTF-8 of a printable string: one byte per character, all printable -/
theorem utf8_pstr : ∀ (cs : List Char), PStr cs →
    (utf8 cs).length = cs.length ∧ ∀ b ∈ utf8 cs, printable b = true
  | [], _ => by simp [utf8]
  | c :: t, h => by
    have hc := h c (by simp)
    obtain ⟨i1, i2⟩ := utf8_pstr t (fun x hx => h x (List.mem_cons_of_mem _ hx))
    have hv : c.val.toNat = c.toNat := rfl
    have e : utf8Char c = [UInt8.ofNat c.toNat] := by
      simp only [utf8Char, hv]
      have : c.toNat < 0x80 := by omega
      simp [this]
    simp only [utf8, List.flatMap_cons, e] at i1 i2 ⊢
    refine ⟨by simp [utf8] at i1 ⊢; omega, ?_⟩
    intro b hb
    rcases List.mem_append.mp hb with h1 | h1
    · simp only [List.mem_singleton] at h1
      subst h1
      simp only [printable, Bool.and_eq_true, decide_eq_true_eq, UInt8.le_iff_toNat_le]
      have e1 : (32 : UInt8).toNat = 32 := rfl
      have e2 : (126 : UInt8).toNat = 126 := rfl
      have e3 : (UInt8.ofNat c.toNat).toNat = c.toNat := by
        rw [UInt8.toNat_ofNat']; exact Nat.mod_eq_of_lt (by omega)
      rw [e1, e2, e3]; exact hc
    · exact i2 b h1

end G
end PFV

namespace PFV
open Mutators Lex Enc
namespace G
variable {σ : Type} (E : Entropy σ)

theorem mutateString_len (hE : Lawful E) (m : Mut) (v : List Char) (s s' : σ) (rate : UInt64) (x : List Char)
    (h : mutateString E m v s rate = .ok (some x, s')) : x.length ≤ 2 * v.length + 9 := by
  cases m <;> simp only [mutateString] at h <;> try (simp at h; done)
  · split at h
    · simp at h
    · split at h
      · split at h
        · simp only [Except.ok.injEq, Prod.mk.injEq, Option.some.injEq] at h
          rw [← h.1]; omega
        · simp only [Except.ok.injEq, Prod.mk.injEq, Option.some.injEq] at h
          rw [← h.1]; simp [List.length_take]; omega
      · split at h
        · simp only [Except.ok.injEq, Prod.mk.injEq, Option.some.injEq] at h
          rw [← h.1]
          obtain ⟨ext, e1, e2, _⟩ := extendLower_spec E (E.genRange (E.genRange (gate E s rate).2 0 3).2 1 10).1
            (E.genRange (E.genRange (gate E s rate).2 0 3).2 1 10).2 []
          simp only [List.nil_append] at e1
          have hr := hE.genRange_in (E.genRange (gate E s rate).2 0 3).2 1 10 (by decide) (by decide)
          simp only [List.length_append, List.length_map, e1, e2]
          omega
        · simp only [Except.ok.injEq, Prod.mk.injEq, Option.some.injEq] at h
          rw [← h.1]; simp; omega
  · split at h
    · simp at h
    · split at h
      · simp only [Except.ok.injEq, Prod.mk.injEq, Option.some.injEq] at h
        rw [← h.1]; simp; omega
      · simp at h

theorem extendBytes_len : ∀ (n : Nat) (s : σ) (acc : List UInt8), (extendBytes E n s acc).1.length = acc.length + n
  | 0, s, acc => by simp [extendBytes]
  | n + 1, s, acc => by
    simp only [extendBytes]
    rw [extendBytes_len n]
    simp; omega

theorem mutateBytes_len (hE : Lawful E) (m : Mut) (v : List UInt8) (s s' : σ) (rate : UInt64) (x : List UInt8)
    (h : mutateBytes E m v s rate = .ok (some x, s')) : x.length ≤ 2 * v.length + 9 := by
  cases m <;> simp only [mutateBytes] at h <;> try (simp at h; done)
  · split at h
    · simp at h
    · split at h
      · split at h
        · simp only [Except.ok.injEq, Prod.mk.injEq, Option.some.injEq] at h
          rw [← h.1]; omega
        · split at h
          · simp only [Except.ok.injEq, Prod.mk.injEq, Option.some.injEq] at h
            rw [← h.1]; simp [List.length_take]; omega
          · simp at h
      · split at h
        · simp only [Except.ok.injEq, Prod.mk.injEq, Option.some.injEq] at h
          rw [← h.1]
          simp only [List.length_append, extendBytes_len, List.length_nil]
          have key : ∀ k, k < 10 → v.length + (0 + k) ≤ 2 * v.length + 9 := by intro k hk; omega
          exact key _ (hE.genRange_in _ 1 10 (by decide) (by decide)).2
        · simp only [Except.ok.injEq, Prod.mk.injEq, Option.some.injEq] at h
          rw [← h.1]; simp; omega
  · split at h
    · simp at h
    · split at h
      · simp only [Except.ok.injEq, Prod.mk.injEq, Option.some.injEq] at h
        rw [← h.1]; simp; omega
      · simp at h

abbrev i32ok (v : Int) : Prop := -2147483648 ≤ v ∧ v < 2147483648

theorem toSigned32_ok (n : Nat) (hn : n < 2 ^ 32) : i32ok (Arb.toSigned 32 n) := by
  have := Arb.toSigned_range 32 (by decide) n hn
  have e : ((2 ^ (32 - 1) : Nat) : Int) = 2147483648 := rfl
  rw [e] at this
  exact this

theorem mutateInt_i32 (hE : Lawful E) (m : Mut) (v : Int) (s s' : σ) (rate : UInt64) (x : Int)
    (h : mutateInt E 32 Gen.boundInt m v s rate = .ok (some x, s')) : i32ok x := by
  cases m <;> simp only [mutateInt] at h <;> try (simp at h; done)
  · split at h
    · simp at h
    · simp only [Except.ok.injEq, Prod.mk.injEq, Option.some.injEq] at h
      rw [← h.1]
      unfold flipBit
      apply toSigned32_ok
      have hp := (hE.genRange_in (gate E s rate).2 0 32 (by decide) (by decide)).2
      exact Nat.xor_lt_two_pow (toU_lt 32 v) (Nat.pow_lt_pow_right (by decide) hp)
  · split at h
    · simp at h
    · split at h
      · rename_i y hy
        simp only [Except.ok.injEq, Prod.mk.injEq, Option.some.injEq] at h
        rw [← h.1]
        have hm := idx?_mem hy
        have hall : ∀ z ∈ Gen.boundInt, i32ok z := by decide
        exact hall y hm
      · simp at h
  · split at h
    · simp at h
    · simp only [Except.ok.injEq, Prod.mk.injEq, Option.some.injEq] at h
      rw [← h.1]
      split <;> (unfold wrap; exact toSigned32_ok _ (toU_lt 32 _))

end G
end PFV

namespace PFV
open Mutators Lex Enc
namespace G
variable {σ : Type} (E : Entropy σ) (X : Ext) (c : Cfg)

/-- well-formed and inside its argument domain -/
def Good (i : Instr) : Prop := WF i = true ∧ domainOk i = true

/-- the first-`Some`-wins loop applies at most one mutator, to the original value -/
theorem firstSome_cases {α : Type} (f : Mut → α → σ → UInt64 → Except Panic (Option α × σ)) (rate : UInt64) :
    ∀ (ms : List Mut) (v : α) (s : σ) (x : α) (s' : σ) (b : Bool),
      firstSome f ms v s rate = .ok (x, s', b) →
      x = v ∨ ∃ m s1 s2, f m v s1 rate = .ok (some x, s2)
  | [], v, s, x, s', b, h => by
    simp only [firstSome, Except.ok.injEq, Prod.mk.injEq] at h
    exact Or.inl h.1.symm
  | m :: ms, v, s, x, s', b, h => by
    simp only [firstSome] at h
    split at h
    · simp at h
    · rename_i y s1 hm
      simp only [Except.ok.injEq, Prod.mk.injEq] at h
      exact Or.inr ⟨m, s, s1, by rw [← h.1]; exact hm⟩
    · rename_i s1 hm
      exact firstSome_cases f rate ms v s1 x s' b h

theorem noNl_of_printable {l : List UInt8} (h : ∀ b ∈ l, printable b = true) : noNl l = true := by
  simp only [noNl, Bool.not_eq_true', List.contains_eq_mem, decide_eq_false_iff_not]
  intro hm
  exact (printable_facts nl (h nl hm)).1 rfl

theorem wf_int (v : Int) : Good ⟨.int, .int v⟩ := ⟨rfl, rfl⟩
theorem wf_long (v : Int) : Good ⟨.long, .int v⟩ := ⟨rfl, rfl⟩
theorem wf_long1 (v : Nat) : Good ⟨.long1, .bytes (Enc.le 4 v)⟩ := by
  refine ⟨?_, rfl⟩
  simp only [WF, isBytesArg, le_length]; rfl
theorem wf_long4 (v : Nat) : Good ⟨.long4, .bytes (Enc.le 4 v)⟩ := by
  refine ⟨?_, rfl⟩
  simp only [WF, isBytesArg, le_length]; rfl
theorem wf_binInt (v : Int) (h : i32ok v) : Good ⟨.binInt, .int v⟩ := by
  refine ⟨?_, rfl⟩
  simp only [WF, isIntArg, Bool.and_eq_true, decide_eq_true_eq]; exact h
theorem wf_binInt1 (n : Nat) (h : n < 256) : Good ⟨.binInt1, .int (n : Int)⟩ := by
  refine ⟨?_, rfl⟩
  simp only [WF, isIntArg, Bool.and_eq_true, decide_eq_true_eq]
  exact ⟨Int.natCast_nonneg n, Int.ofNat_lt.mpr h⟩
theorem wf_binInt2 (n : Nat) (h : n < 65536) : Good ⟨.binInt2, .int (n : Int)⟩ := by
  refine ⟨?_, rfl⟩
  simp only [WF, isIntArg, Bool.and_eq_true, decide_eq_true_eq]
  exact ⟨Int.natCast_nonneg n, by simpa using h⟩

theorem emitInt_good (hE : Lawful E) (s s' : σ) (i : Instr) (h : emitInt E c s = .ok (some i, s')) : Good i := by
  simp only [emitInt] at h
  split at h
  · simp at h
  · rename_i chosen hch
    have hil := (List.mem_filter.mp (idx?_mem hch)).2
    split at h
    · simp at h
    · rename_i v s2 b hf
      have hv : i32ok v := by
        rcases firstSome_cases (mutateInt E 32 Gen.boundInt) c.rateBits c.mutators _ _ v s2 b hf with e | ⟨m, s1, s3, hm⟩
        · rw [e]; exact hE.genI32_range _
        · exact mutateInt_i32 E hE m _ s1 s3 _ v hm
      simp only [Except.ok.injEq, Prod.mk.injEq, Option.some.injEq] at h
      obtain ⟨hi, _⟩ := h
      subst hi
      rcases isIntLike_cases hil with e | e | e | e | e | e | e <;> subst e
      · exact wf_int v
      · exact wf_long v
      · exact wf_long1 _
      · exact wf_long4 _
      · exact wf_binInt v hv
      · exact wf_binInt1 _ (Nat.mod_lt _ (by decide))
      · exact wf_binInt2 _ (Nat.mod_lt _ (by decide))

theorem emitFloat_good (hF : FloatOK X.fmt) (op : Op) (hop : op = .float ∨ op = .binFloat) (s s' : σ) (i : Instr)
    (h : emitFloat E X c op s = .ok (some i, s')) : Good i := by
  simp only [emitFloat] at h
  split at h
  · simp at h
  · simp only [Except.ok.injEq, Prod.mk.injEq, Option.some.injEq] at h
    obtain ⟨hi, _⟩ := h
    subst hi
    rcases hop with rfl | rfl
    · simp only [beq_self_eq_true, if_true]
      refine ⟨?_, rfl⟩
      simp only [WF, isBytesArg, (hF _).1, (hF _).2, Bool.and_self]
    · simp only [show (Op.binFloat == Op.float) = false from rfl, Bool.false_eq_true, if_false]
      exact ⟨rfl, rfl⟩


theorem getLast_q (body : List UInt8) : ((0x27 : UInt8) :: (body ++ [0x27])).getLast? = some 0x27 := by
  have : ((0x27 : UInt8) :: (body ++ [0x27])) = (0x27 :: body) ++ [0x27] := rfl
  rw [this, List.getLast?_concat]

theorem readQuoted_quoted (body : List UInt8) (hb : body.foldl estep .norm = .norm) :
    (match readQuoted ([0x27] ++ body ++ [0x27]) with | .ok _ => true | .error _ => false) = true := by
  have h2 : (((0x27 : UInt8) :: (body ++ [0x27])).drop 1).dropLast = body := by simp
  simp only [readQuoted, List.singleton_append, List.cons_append, List.nil_append]
  simp [getLast_q, h2, escapeAsciiOk, hb, eAccept]

theorem genChars_len31 (n : Nat) (s : σ) : (genChars E (n % 32) s []).1.length ≤ 31 := by
  rw [genChars_length]
  have := Nat.mod_lt n (show 0 < 32 by decide)
  simp; omega

theorem emitStr_good (hE : Lawful E) (op : Op)
    (hop : op = .string ∨ op = .unicode ∨ op = .shortBinUnicode ∨ op = .binUnicode ∨ op = .binUnicode8)
    (s s' : σ) (i : Instr) (h : emitStr E c op s = .ok (some i, s')) : Good i := by
  simp only [emitStr] at h
  split at h
  · simp at h
  · rename_i cs s2 b hf
    have hboth : PStr cs ∧ cs.length ≤ 71 := by
      rcases firstSome_cases (mutateString E) c.rateBits c.mutators _ _ cs s2 b hf with e | ⟨m, s1, s3, hm⟩
      · rw [e]; exact ⟨genChars_pstr E hE _ _ [] pstr_nil, Nat.le_trans (genChars_len31 E _ _) (by decide)⟩
      · refine ⟨mutateString_pstr E m _ (genChars_pstr E hE _ _ [] pstr_nil) s1 s3 _ cs hm, ?_⟩
        have key : ∀ a b : Nat, a ≤ 2 * b + 9 → b ≤ 31 → a ≤ 71 := by intro a b h1 h2; omega
        exact key _ _ (mutateString_len E hE m _ s1 s3 _ cs hm) (genChars_len31 E _ _)
    obtain ⟨u1, u2⟩ := utf8_pstr cs hboth.1
    have hlen : (utf8 cs).length ≤ 71 := by omega
    have hnl := noNl_of_printable u2
    have hutf : utf8Ok (utf8 cs) = true := by
      simp [utf8Ok, utf8Ok_printable _ u2]
    rcases hop with rfl | rfl | rfl | rfl | rfl
    · simp only [beq_self_eq_true, if_true, Except.ok.injEq, Prod.mk.injEq, Option.some.injEq] at h
      rw [← h.1]
      refine ⟨?_, rfl⟩
      have hq := readQuoted_quoted (escapeString (utf8 cs)) (escapeString_ok _ u2)
      have hn2 : noNl ([0x27] ++ escapeString (utf8 cs) ++ [0x27]) = true := by
        have := escapeString_noNl _ u2
        simp only [noNl, Bool.not_eq_true', List.contains_eq_mem, decide_eq_false_iff_not]
        intro hm
        simp only [List.mem_append, List.mem_singleton] at hm
        rcases hm with (hm | hm) | hm
        · revert hm; decide
        · exact this hm
        · revert hm; decide
      simp only [WF, isBytesArg, hn2, Bool.true_and]
      exact hq
    · simp only [show (Op.unicode == Op.string) = false from rfl, Bool.false_eq_true, if_false, beq_self_eq_true, if_true,
        Except.ok.injEq, Prod.mk.injEq, Option.some.injEq] at h
      rw [← h.1]
      refine ⟨?_, rfl⟩
      have hn2 : noNl (escapeBackslash (utf8 cs)) = true := by
        have := escapeBackslash_noNl (utf8 cs) (mem_of_noNl hnl)
        simpa [noNl] using this
      simp only [WF, isBytesArg, hn2, rawUnicodeOk, rawUnicode_escaped, uAccept, Bool.and_self]
    · simp only [show (Op.shortBinUnicode == Op.string) = false from rfl, show (Op.shortBinUnicode == Op.unicode) = false from rfl,
        Bool.false_eq_true, if_false, beq_self_eq_true, if_true] at h
      split at h
      · simp only [Except.ok.injEq, Prod.mk.injEq, Option.some.injEq] at h
        rw [← h.1]
        refine ⟨?_, rfl⟩
        have : (utf8 cs).length < 256 := by omega
        simp only [WF, isBytesArg, this, hutf, decide_true, Bool.and_self]
      · simp at h
    · simp only [show (Op.binUnicode == Op.string) = false from rfl, show (Op.binUnicode == Op.unicode) = false from rfl,
        show (Op.binUnicode == Op.shortBinUnicode) = false from rfl, Bool.false_eq_true, if_false,
        Except.ok.injEq, Prod.mk.injEq, Option.some.injEq] at h
      rw [← h.1]
      refine ⟨?_, rfl⟩
      have : (utf8 cs).length < 4294967296 := by omega
      simp only [WF, isBytesArg, this, hutf, decide_true, Bool.and_self]
    · simp only [show (Op.binUnicode8 == Op.string) = false from rfl, show (Op.binUnicode8 == Op.unicode) = false from rfl,
        show (Op.binUnicode8 == Op.shortBinUnicode) = false from rfl, Bool.false_eq_true, if_false,
        Except.ok.injEq, Prod.mk.injEq, Option.some.injEq] at h
      rw [← h.1]
      refine ⟨?_, rfl⟩
      have : (utf8 cs).length < 18446744073709551616 := by omega
      simp only [WF, isBytesArg, this, hutf, decide_true, Bool.and_self]


theorem genRawBytes_len31 (n : Nat) (s : σ) : (genRawBytes E (n % 32) s []).1.length ≤ 31 := by
  rw [genRawBytes_length]
  have := Nat.mod_lt n (show 0 < 32 by decide)
  simp; omega

theorem emitBytes_good (hE : Lawful E) (op : Op)
    (hop : op = .binString ∨ op = .shortBinString ∨ op = .shortBinBytes ∨ op = .binBytes ∨ op = .binBytes8 ∨ op = .byteArray8)
    (s s' : σ) (i : Instr) (h : emitBytes E c op s = .ok (some i, s')) : Good i := by
  simp only [emitBytes] at h
  split at h
  · simp at h
  · rename_i bs s2 b hf
    have hlen : bs.length ≤ 71 := by
      rcases firstSome_cases (mutateBytes E) c.rateBits c.mutators _ _ bs s2 b hf with e | ⟨m, s1, s3, hm⟩
      · rw [e]; exact Nat.le_trans (genRawBytes_len31 E _ _) (by decide)
      · have key : ∀ a b : Nat, a ≤ 2 * b + 9 → b ≤ 31 → a ≤ 71 := by intro a b h1 h2; omega
        exact key _ _ (mutateBytes_len E hE m _ s1 s3 _ bs hm) (genRawBytes_len31 E _ _)
    rcases hop with rfl | rfl | rfl | rfl | rfl | rfl
    all_goals
      first
        | (simp only [show (Op.binString == Op.shortBinString || Op.binString == Op.shortBinBytes) = false from rfl,
             show (Op.binBytes == Op.shortBinString || Op.binBytes == Op.shortBinBytes) = false from rfl,
             show (Op.binBytes8 == Op.shortBinString || Op.binBytes8 == Op.shortBinBytes) = false from rfl,
             show (Op.byteArray8 == Op.shortBinString || Op.byteArray8 == Op.shortBinBytes) = false from rfl,
             Bool.false_eq_true, if_false, Except.ok.injEq, Prod.mk.injEq, Option.some.injEq] at h
           rw [← h.1]
           refine ⟨?_, rfl⟩
           simp only [WF, isBytesArg, decide_eq_true_eq]
           omega)
        | (simp only [show (Op.shortBinString == Op.shortBinString || Op.shortBinString == Op.shortBinBytes) = true from rfl,
             show (Op.shortBinBytes == Op.shortBinString || Op.shortBinBytes == Op.shortBinBytes) = true from rfl, if_true] at h
           split at h
           · simp only [Except.ok.injEq, Prod.mk.injEq, Option.some.injEq] at h
             rw [← h.1]
             refine ⟨?_, rfl⟩
             simp only [WF, isBytesArg, decide_eq_true_eq]
             omega
           · simp at h)

theorem emitGlobal_good (hM : ModsOK X.mods) (op : Op) (hop : op = .glob ∨ op = .inst) (s s' : σ) (i : Instr)
    (h : emitGlobal E X op s = .ok (some i, s')) : Good i := by
  simp only [emitGlobal] at h
  split at h
  · simp at h
  · rename_i m a hi
    have hm := hM _ (idx?_mem hi)
    simp only [Except.ok.injEq, Prod.mk.injEq, Option.some.injEq] at h
    rw [← h.1]
    rcases hop with rfl | rfl <;>
    · refine ⟨?_, rfl⟩
      simp only [WF, isPairArg, hm.1, hm.2.1, hm.2.2.1, hm.2.2.2, Bool.and_self]

theorem emitGet_good (sim : State) (op : Op) (hop : op = .get ∨ op = .longBinGet ∨ op = .binGet) (s s' : σ) (i : Instr)
    (h : emitGet E c sim op s = .ok (some i, s')) : Good i := by
  rcases hop with rfl | rfl | rfl
  · simp only [emitGet, show (Op.get == Op.binGet) = false from rfl, Bool.false_eq_true, if_false,
      beq_self_eq_true, if_true] at h
    split at h
    · simp at h
    · split at h
      · simp at h
      · split at h
        · simp at h
        · simp only [Except.ok.injEq, Prod.mk.injEq, Option.some.injEq] at h
          rw [← h.1]; exact ⟨rfl, rfl⟩
  · simp only [emitGet, show (Op.longBinGet == Op.binGet) = false from rfl, Bool.false_eq_true, if_false,
      show (Op.longBinGet == Op.get) = false from rfl] at h
    split at h
    · simp at h
    · split at h
      · simp at h
      · split at h
        · simp at h
        · simp only [Except.ok.injEq, Prod.mk.injEq, Option.some.injEq] at h
          rw [← h.1]
          refine ⟨?_, rfl⟩
          simp only [WF, isNatArg, decide_eq_true_eq]
          exact Nat.mod_lt _ (by decide)
  · simp only [emitGet, beq_self_eq_true, if_true] at h
    split at h
    · simp at h
    · split at h
      · simp at h
      · split at h
        · simp at h
        · simp only [Except.ok.injEq, Prod.mk.injEq, Option.some.injEq] at h
          rw [← h.1]
          refine ⟨?_, rfl⟩
          simp only [WF, isNatArg, decide_eq_true_eq]
          exact Nat.mod_lt _ (by decide)

theorem isDigit_plain (b : UInt8) (h : isDigit b = true) : printable b = true ∧ b ≠ 0x5c := by
  revert h
  revert b
  apply forall_uint8
  decide +kernel

theorem persID_good (v : Nat) : Good ⟨.persID, .bytes (pidPrefix ++ Enc.showNat v)⟩ := by
  refine ⟨?_, rfl⟩
  obtain ⟨_, hd, _⟩ := showNat_spec v
  have hall : ∀ b ∈ pidPrefix ++ Enc.showNat v, printable b = true ∧ b ≠ 0x5c := by
    intro b hb
    rcases List.mem_append.mp hb with hb | hb
    · have hp : ∀ b ∈ pidPrefix, printable b = true ∧ b ≠ 0x5c := by decide
      exact hp b hb
    · exact isDigit_plain b (hd b hb)
  have h1 := noNl_of_printable (fun b hb => (hall b hb).1)
  have h2 : escapeAsciiOk (pidPrefix ++ Enc.showNat v) = true := by
    simp only [escapeAsciiOk, escapeAsciiOk_plain _ hall, eAccept]
  simp only [WF, isBytesArg, h1, h2, Bool.and_self]

theorem natmod_good (op : Op) (k : Nat) (n : Nat) (hop : (op = .binPut ∧ k = 256) ∨ (op = .longBinPut ∧ k = 4294967296)) :
    Good ⟨op, .nat (n % k)⟩ := by
  rcases hop with ⟨rfl, rfl⟩ | ⟨rfl, rfl⟩ <;>
  · refine ⟨?_, rfl⟩
    simp only [WF, isNatArg, decide_eq_true_eq]
    exact Nat.mod_lt _ (by decide)

theorem ext1_good (b : Nat) : Good ⟨.ext1, .nat (min (b + 1) 255)⟩ := by
  refine ⟨?_, ?_⟩
  · simp only [WF, isNatArg, decide_eq_true_eq]; omega
  · simp only [domainOk, decide_eq_true_eq]; omega

theorem ext2_good (b : Nat) : Good ⟨.ext2, .nat (min (b + 1) 65535)⟩ := by
  refine ⟨?_, ?_⟩
  · simp only [WF, isNatArg, decide_eq_true_eq]; omega
  · simp only [domainOk, decide_eq_true_eq]; omega

theorem wf_ext4 (v : Int) (h1 : -2147483648 ≤ v) (h2 : v < 2147483648) (h3 : v ≥ 1) : Good ⟨.ext4, .int v⟩ := by
  refine ⟨?_, ?_⟩
  · simp only [WF, isIntArg, Bool.and_eq_true, decide_eq_true_eq]
    exact ⟨h1, h2⟩
  · simp only [domainOk, decide_eq_true_eq]
    exact h3

theorem ext4_good' (n : Nat) (h : n < 2147483647) : Good ⟨.ext4, .int ((n + 1 : Nat) : Int)⟩ :=
  wf_ext4 _ (Int.le_trans (by decide) (Int.natCast_nonneg _)) (Int.ofNat_lt.mpr (by omega : n + 1 < 2147483648))
    (Int.ofNat_le.mpr (by omega : 1 ≤ n + 1))

theorem ext4_good (b : Nat) : Good ⟨.ext4, .int ((b % 2147483647 + 1 : Nat) : Int)⟩ :=
  ext4_good' _ (Nat.mod_lt b (by decide))

/-- what `emitOne` writes for an opcode the guards can select is well-formed and inside its domain -/
theorem emitOne_good (hE : Lawful E) (hF : FloatOK X.fmt) (hM : ModsOK X.mods) (sim : State) (op : Op)
    (hp : op ≠ .proto) (s s' : σ) (i : Instr)
    (h : emitOne E X c sim op s = .ok (some i, s')) : Good i := by
  cases op <;> simp only [emitOne] at h
  case int | long | long1 | long4 | binInt | binInt1 | binInt2 => exact emitInt_good E c hE s s' i h
  case float => exact emitFloat_good E X c hF .float (Or.inl rfl) s s' i h
  case binFloat => exact emitFloat_good E X c hF .binFloat (Or.inr rfl) s s' i h
  case string => exact emitStr_good E c hE .string (by simp) s s' i h
  case unicode => exact emitStr_good E c hE .unicode (by simp) s s' i h
  case shortBinUnicode => exact emitStr_good E c hE .shortBinUnicode (by simp) s s' i h
  case binUnicode => exact emitStr_good E c hE .binUnicode (by simp) s s' i h
  case binUnicode8 => exact emitStr_good E c hE .binUnicode8 (by simp) s s' i h
  case binString => exact emitBytes_good E c hE .binString (by simp) s s' i h
  case shortBinString => exact emitBytes_good E c hE .shortBinString (by simp) s s' i h
  case shortBinBytes => exact emitBytes_good E c hE .shortBinBytes (by simp) s s' i h
  case binBytes => exact emitBytes_good E c hE .binBytes (by simp) s s' i h
  case binBytes8 => exact emitBytes_good E c hE .binBytes8 (by simp) s s' i h
  case byteArray8 => exact emitBytes_good E c hE .byteArray8 (by simp) s s' i h
  case glob => exact emitGlobal_good E X hM .glob (Or.inl rfl) s s' i h
  case inst => exact emitGlobal_good E X hM .inst (Or.inr rfl) s s' i h
  case get => exact emitGet_good E c sim .get (Or.inl rfl) s s' i h
  case longBinGet => exact emitGet_good E c sim .longBinGet (Or.inr (Or.inl rfl)) s s' i h
  case binGet => exact emitGet_good E c sim .binGet (Or.inr (Or.inr rfl)) s s' i h
  case frame => simp at h
  case proto => exact absurd rfl hp
  case persID =>
    simp only [Except.ok.injEq, Prod.mk.injEq, Option.some.injEq] at h
    rw [← h.1]; exact persID_good _
  case put =>
    simp only [Except.ok.injEq, Prod.mk.injEq, Option.some.injEq] at h
    rw [← h.1]; exact ⟨rfl, rfl⟩
  case binPut =>
    simp only [Except.ok.injEq, Prod.mk.injEq, Option.some.injEq] at h
    rw [← h.1]; exact natmod_good _ _ _ (Or.inl ⟨rfl, rfl⟩)
  case longBinPut =>
    simp only [Except.ok.injEq, Prod.mk.injEq, Option.some.injEq] at h
    rw [← h.1]; exact natmod_good _ _ _ (Or.inr ⟨rfl, rfl⟩)
  case ext1 =>
    simp only [Except.ok.injEq, Prod.mk.injEq, Option.some.injEq] at h
    rw [← h.1]; exact ext1_good _
  case ext2 =>
    simp only [Except.ok.injEq, Prod.mk.injEq, Option.some.injEq] at h
    rw [← h.1]; exact ext2_good _
  case ext4 =>
    simp only [Except.ok.injEq, Prod.mk.injEq, Option.some.injEq] at h
    rw [← h.1]; exact ext4_good _
  all_goals
    simp only [Except.ok.injEq, Prod.mk.injEq, Option.some.injEq] at h
    rw [← h.1]
    exact ⟨rfl, rfl⟩


/-! ### type-confusion replacements -/

theorem opcodeForType_good (hE : Lawful E) (t : Gen.StackType) (s : σ) : Good (opcodeForType E t s).1 := by
  cases t <;> simp only [opcodeForType]
  case tInt => exact wf_binInt _ (hE.genI32_range _)
  case tBool => cases (E.genBool s).1 <;> exact ⟨rfl, rfl⟩
  case tFloat => exact ⟨rfl, rfl⟩
  all_goals exact ⟨by decide, rfl⟩

theorem typeConfusion_good (hE : Lawful E) (u : Bool) (first : Option UInt8) (s s' : σ) (rate : UInt64) (r : Instr)
    (h : typeConfusion E u first s rate = .ok (some r, s')) : Good r := by
  cases u
  · simp [typeConfusion] at h
  · simp only [typeConfusion, Bool.not_true, Bool.false_eq_true, if_false] at h
    split at h
    · simp at h
    · cases first with
      | none => simp at h
      | some b =>
        simp only at h
        cases ht : Gen.opcodeToType b with
        | none => simp [ht] at h
        | some t0 =>
          simp only [ht] at h
          split at h
          · simp at h
          · simp only [Except.ok.injEq, Prod.mk.injEq, Option.some.injEq] at h
            rw [← h.1]
            exact opcodeForType_good E hE _ _

theorem postProcess_good (hE : Lawful E) (rate : UInt64) (first : Option UInt8) :
    ∀ (ms : List Mut) (cur : Option Instr) (s s' : σ) (r : Instr),
      (∀ x, cur = some x → Good x) →
      postProcess E ms first cur s rate = .ok (some r, s') → Good r
  | [], cur, s, s', r, hc, h => by
    simp only [postProcess, Except.ok.injEq, Prod.mk.injEq] at h
    exact hc r h.1
  | m :: ms, cur, s, s', r, hc, h => by
    cases m with
    | typeconfusion u =>
      simp only [postProcess] at h
      split at h
      · simp at h
      · rename_i x s1 ht
        exact postProcess_good hE rate first ms (some x) s1 s' r
          (fun y hy => by simp at hy; rw [← hy]; exact typeConfusion_good E hE u first s s1 rate x ht) h
      · rename_i s1 ht
        exact postProcess_good hE rate first ms cur s1 s' r hc h
    | _ => exact postProcess_good hE rate first ms cur s s' r hc (by simpa [postProcess] using h)

/-! ### the body loop -/

/-- well-formed, inside its domain, and not STOP -/
def Fine (i : Instr) : Prop := Good i ∧ i.op ≠ .stop

theorem emitAndProcess_fine (hE : Lawful E) (hF : FloatOK X.fmt) (hM : ModsOK X.mods) (g g' : GenSt) (op : Op)
    (hp : op ≠ .proto) (hs : op ≠ .stop) (s s' : σ)
    (h : emitAndProcess E X c g op s = .ok (g', s')) :
    g'.out = g.out ∨ ∃ i, g'.out = i :: g.out ∧ Fine i := by
  simp only [emitAndProcess] at h
  split at h
  · simp at h
  · rename_i oi s1 he
    split at h
    · simp at h
    · rename_i repl s2 hpp
      simp only [Except.ok.injEq, Prod.mk.injEq] at h
      obtain ⟨hg, _⟩ := h
      subst hg
      cases repl with
      | some r =>
        have hr : Fine r := by
          split at hpp
          · simp at hpp
          · refine ⟨postProcess_good E hE _ _ _ none _ _ r (fun x hx => by simp at hx) hpp, ?_⟩
            have := postProcess_tcOp E _ _ _ none _ _ r (fun x hx => by simp at hx) hpp
            intro e; rw [e] at this; exact Bool.noConfusion this
        cases oi <;> exact Or.inr ⟨r, rfl, hr⟩
      | none =>
        cases oi with
        | none => exact Or.inl rfl
        | some i =>
          refine Or.inr ⟨i, rfl, emitOne_good E X c hE hF hM g.sim op hp s s1 i he, ?_⟩
          rcases emitOne_op E X c g.sim op s s1 i he with e | e
          · rw [e]; exact hs
          · intro e2; rw [e2] at e; exact Bool.noConfusion e.1

theorem noProto : ∀ p, p < 2 → Op.proto ∉ Gen.table p := by decide

theorem valid_not_proto_stop (sim : State) (hpe : sim.protoEmitted = decide (c.version ≥ 2)) (o : Op)
    (ho : o ∈ validOps (Gen.table c.version) c sim) : o ≠ .proto ∧ o ≠ .stop := by
  have hc := (List.mem_filter.mp ho).2
  have hm := (List.mem_filter.mp ho).1
  constructor
  · intro e; subst e
    by_cases hv : c.version ≥ 2
    · simp [canEmit, hpe, hv] at hc
    · exact noProto c.version (by omega) hm
  · intro e; subst e; simp [canEmit] at hc

theorem bodyLoop_fine (hE : Lawful E) (hF : FloatOK X.fmt) (hM : ModsOK X.mods) :
    ∀ (n : Nat) (g g' : GenSt) (s s' : σ),
      g.sim.protoEmitted = decide (c.version ≥ 2) →
      (∀ i ∈ g.out, Fine i) → bodyLoop E X c n g s = .ok (g', s') → ∀ i ∈ g'.out, Fine i
  | 0, g, g', s, s', _, hout, h => by
    simp only [bodyLoop, Except.ok.injEq, Prod.mk.injEq] at h
    rw [← h.1]; exact hout
  | n + 1, g, g', s, s', hpe, hout, h => by
    simp only [bodyLoop] at h
    split at h
    · simp only [Except.ok.injEq, Prod.mk.injEq] at h
      rw [← h.1]; exact hout
    · split at h
      · simp at h
      · rename_i chosen hch
        obtain ⟨hp, hs⟩ := valid_not_proto_stop c g.sim hpe chosen (idx?_mem hch)
        split at h
        · simp at h
        · rename_i g1 s1 he
          have hpe1 := emitAndProcess_pe E X c g g1 chosen _ s1 he
          apply bodyLoop_fine hE hF hM n g1 g' s1 s' (hpe1.trans hpe) _ h
          rcases emitAndProcess_fine E X c hE hF hM g g1 chosen hp hs _ s1 he with e | ⟨i, e, hi⟩
          · rw [e]; exact hout
          · rw [e]
            intro j hj
            rcases List.mem_cons.mp hj with rfl | hj
            · exact hi
            · exact hout j hj


/-! ### the whole output -/

theorem generate_shape (s s' : σ) (r : Result) (h : generate E X c s = .ok (r, s')) :
    (∃ n g s2 s3, bodyLoop E X c n { sim := initState c.version } s2 = .ok (g, s3) ∧
      r.instrs = g.out.reverse ++ plain (cleanup c.version g.sim).2 ++ [stopInstr]) ∧
    r.bytes = (if c.version ≥ 2 then Enc.encode (protoInstr c.version) else []) ++
      (if r.framed then Enc.encode ⟨.frame, .nat (r.instrs.flatMap Enc.encode).length⟩ else []) ++
      r.instrs.flatMap Enc.encode := by
  simp only [generate] at h
  split at h
  · simp at h
  · rename_i g s3 hb
    simp only [Except.ok.injEq, Prod.mk.injEq] at h
    obtain ⟨hr, _⟩ := h
    subst hr
    exact ⟨⟨_, g, _, s3, hb, rfl⟩, rfl⟩

/-- **C04, end to end.**  For every configuration with a protocol ≤ 5 (unsafe mutations and type
confusion included), every lawful entropy source and every result of the exact generator: the
bytes it returns decode completely under the reference lexer — every opcode known, every argument
complete and in its prescribed encoding, exactly one STOP, last — and every argument is inside
its domain.  `FloatOK` and `ModsOK` are the two parameters taken as given (Rust's float
formatting; the embedded module list, checked on every run by the translator/driver). -/
theorem generate_lex (hE : Lawful E) (hF : FloatOK X.fmt) (hM : ModsOK X.mods) (hv : c.version ≤ 5)
    (s s' : σ) (r : Result) (h : generate E X c s = .ok (r, s'))
    (hlen : (r.instrs.flatMap Enc.encode).length < 18446744073709551616) :
    ∃ hdr : List Instr, hdr.length ≤ 2 ∧ Lex.lex r.bytes = .ok (hdr ++ r.instrs) ∧
      (∀ i ∈ hdr ++ r.instrs, domainOk i = true) ∧
      hdr = header c.version (if r.framed then some (r.instrs.flatMap Enc.encode).length else none) := by
  obtain ⟨⟨n, g, s2, s3, hb, hi⟩, hbytes⟩ := generate_shape E X c s s' r h
  have hbody := bodyLoop_fine E X c hE hF hM n { sim := initState c.version } g s2 s3
    (by simp [initState]) (by simp) hb
  obtain ⟨_, _, _, c4⟩ := cleanup_spec c g.sim
  -- the instruction list the bytes encode
  let hdr : List Instr := (if c.version ≥ 2 then [protoInstr c.version] else []) ++
    (if r.framed then [⟨.frame, .nat (r.instrs.flatMap Enc.encode).length⟩] else [])
  let pre : List Instr := g.out.reverse ++ plain (cleanup c.version g.sim).2
  have hfine : ∀ i ∈ hdr ++ pre, Fine i := by
    intro i hi'
    simp only [hdr, pre, List.mem_append, List.mem_reverse, plain, List.mem_map] at hi'
    rcases hi' with (hp | hf) | (hi' | ⟨o, ho, rfl⟩)
    · split at hp
      · simp only [List.mem_singleton] at hp
        subst hp
        refine ⟨⟨?_, ?_⟩, by simp [protoInstr]⟩
        · simp only [WF, protoInstr, isNatArg, decide_eq_true_eq]; omega
        · simp only [domainOk, protoInstr, decide_eq_true_eq]; omega
      · simp at hp
    · split at hf
      · simp only [List.mem_singleton] at hf
        subst hf
        refine ⟨⟨?_, rfl⟩, by simp⟩
        simp only [WF, isNatArg, decide_eq_true_eq]; exact hlen
      · simp at hf
    · exact hbody i hi'
    · rcases c4 o ho with rfl | rfl | ⟨_, rfl⟩ | ⟨_, rfl | rfl⟩ <;> exact ⟨⟨rfl, rfl⟩, by simp⟩
  have hflat : r.instrs.flatMap Enc.encode = pre.flatMap Enc.encode ++ Enc.encode stopI := by
    rw [hi]; simp [pre, stopI, stopInstr, List.flatMap_append]
  have hhdr : hdr.flatMap Enc.encode = (if c.version ≥ 2 then Enc.encode (protoInstr c.version) else []) ++
      (if r.framed then Enc.encode ⟨.frame, .nat (r.instrs.flatMap Enc.encode).length⟩ else []) := by
    simp only [hdr, List.flatMap_append]
    congr 1 <;> split <;> simp
  have henc : r.bytes = ((hdr ++ pre) ++ [stopI]).flatMap Enc.encode := by
    rw [hbytes, List.flatMap_append, List.flatMap_append, hhdr, hflat]
    simp [List.append_assoc]
  have hl := lex_encode (hdr ++ pre) (fun i hi' => (hfine i hi').1.1) (fun i hi' => (hfine i hi').2)
  have hinstrs : hdr ++ r.instrs = (hdr ++ pre) ++ [stopI] := by
    rw [hi]; simp [pre, stopI, stopInstr, List.append_assoc]
  refine ⟨hdr, ?_, ?_, ?_, ?_⟩
  rotate_left 3
  · simp only [hdr, header]
    cases r.framed <;> simp
  · simp only [hdr, List.length_append]
    have a1 : (if c.version ≥ 2 then [protoInstr c.version] else []).length ≤ 1 := by split <;> simp
    have a2 : (if r.framed then [(⟨.frame, .nat (r.instrs.flatMap Enc.encode).length⟩ : Instr)] else []).length ≤ 1 := by
      split <;> simp
    omega
  · rw [hinstrs, henc, hl]
  · rw [hinstrs]
    intro i hi'
    rcases List.mem_append.mp hi' with hi' | hi'
    · exact (hfine i hi').1.2
    · simp only [List.mem_singleton] at hi'
      subst hi'; rfl

theorem generate_wf (hE : Lawful E) (hF : FloatOK X.fmt) (hM : ModsOK X.mods) (hv : c.version ≤ 5)
    (s s' : σ) (r : Result) (h : generate E X c s = .ok (r, s'))
    (hlen : (r.instrs.flatMap Enc.encode).length < 18446744073709551616) :
    Spec.wellFormed r.bytes = true := by
  obtain ⟨hdr, _, hl, hd, _⟩ := generate_lex E X c hE hF hM hv s s' r h hlen
  unfold Spec.wellFormed
  rw [hl]
  simp only [List.all_eq_true]
  exact hd

end G
end PFV
