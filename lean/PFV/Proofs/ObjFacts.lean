/-
The object-level model (`Obj.lean`) projected to heap traffic (`Heap.lean`): every primitive is a step of
the stack machine `Heap.M` (or leaves it alone), hence every program of opcodes is a program of `Heap.Step`s
and inherits `Heap.run_inv`; `Obj.release` is `Heap.release`.
-/
import PFV.Obj
import PFV.Proofs.HeapFacts
namespace PFV
namespace Obj

/-- ids (ascending, starting at `i`) of the arena cells of a cell list -/
def arenaFrom : Nat → List Cell → List Nat
  | _, [] => []
  | i, c :: t => if c.arena then i :: arenaFrom (i + 1) t else arenaFrom (i + 1) t

def arenaOf (cells : List Cell) : List Nat := (arenaFrom 0 cells).reverse

theorem arenaFrom_snoc (l : List Cell) (x : Cell) : ∀ i,
    arenaFrom i (l ++ [x]) = arenaFrom i l ++ (if x.arena then [i + l.length] else []) := by
  induction l with
  | nil => intro i; simp [arenaFrom]
  | cons c t ih =>
    intro i
    simp only [List.cons_append, arenaFrom, ih (i + 1), List.length_cons]
    have : i + 1 + t.length = i + (t.length + 1) := by omega
    split <;> simp [this]

theorem arenaFrom_set (l : List Cell) (c : Nat) (y : Cell) : ∀ i,
    (∀ x, l[c]? = some x → y.arena = x.arena) → arenaFrom i (l.set c y) = arenaFrom i l := by
  induction l generalizing c with
  | nil => intro i _; simp
  | cons a t ih =>
    intro i h
    cases c with
    | zero =>
      have : y.arena = a.arena := h a (by simp)
      simp [arenaFrom, this]
    | succ n =>
      simp only [List.set_cons_succ, arenaFrom]
      rw [ih n (i + 1) (fun x hx => h x (by simpa using hx))]

theorem mem_arenaFrom (l : List Cell) : ∀ i c, c ∈ arenaFrom i l ↔ i ≤ c ∧ ∃ x, l[c - i]? = some x ∧ x.arena = true := by
  induction l with
  | nil => intro i c; simp [arenaFrom]
  | cons a t ih =>
    intro i c
    simp only [arenaFrom]
    by_cases hci : c = i
    · subst hci
      by_cases ha : a.arena = true
      · simp [ha]
      · simp only [ha, Bool.false_eq_true, if_false, ih]
        constructor
        · rintro ⟨h, _⟩; omega
        · rintro ⟨_, x, hx, hxa⟩
          simp at hx; subst hx; exact absurd hxa ha
    · have key : (i + 1 ≤ c ∧ ∃ x, t[c - (i + 1)]? = some x ∧ x.arena = true) ↔
          (i ≤ c ∧ ∃ x, (a :: t)[c - i]? = some x ∧ x.arena = true) := by
        constructor
        · rintro ⟨h1, x, hx, hxa⟩
          refine ⟨by omega, x, ?_, hxa⟩
          have : c - i = (c - (i + 1)) + 1 := by omega
          rw [this]; simpa using hx
        · rintro ⟨h1, x, hx, hxa⟩
          have hlt : i < c := by omega
          refine ⟨by omega, x, ?_, hxa⟩
          have : c - i = (c - (i + 1)) + 1 := by omega
          rw [this] at hx; simpa using hx
      split
      · rw [List.mem_cons, ih, key]
        constructor
        · rintro (h | h)
          · exact absurd h hci
          · exact h
        · intro h; exact Or.inr h
      · rw [ih, key]

theorem mem_arenaOf (cells : List Cell) (c : Nat) :
    c ∈ arenaOf cells ↔ ∃ x, cells[c]? = some x ∧ x.arena = true := by
  simp [arenaOf, mem_arenaFrom]

/-- the heap behind an object-level state -/
def toH (s : OS) : Heap.H := { kids := s.cells.map (·.kids), arena := arenaOf s.cells }

def toM (s : OS) : Heap.M := { h := toH s, stack := s.stack }

/-- the heap traffic of a primitive -/
def conv : Prim → List Heap.Step
  | .push _ ks => [.push ks]
  | .aux _ ks => [.aux ks]
  | .dup => [.dup]
  | .pop => [.pop]
  | .setKids i ks => [.mutate i ks]
  | .memoPut _ _ => []

theorem okKids_toM (s : OS) (ks : List Nat) : Heap.okKids (toM s) ks = okKids s ks := by
  simp [Heap.okKids, okKids, toM, toH]

theorem toM_applyPrim (s : OS) (p : Prim) : toM (applyPrim s p) = (conv p).foldl Heap.step (toM s) := by
  cases p with
  | push k ks =>
    simp only [applyPrim, conv, List.foldl_cons, List.foldl_nil, Heap.step, okKids_toM]
    split
    · simp only [toM, toH, Heap.alloc, List.map_append, List.map_cons, List.map_nil, List.length_map, if_true]
      congr 1
      simp [arenaOf, arenaFrom_snoc]
    · rfl
  | aux k ks =>
    simp only [applyPrim, conv, List.foldl_cons, List.foldl_nil, Heap.step, okKids_toM]
    split
    · simp only [toM, toH, Heap.alloc, List.map_append, List.map_cons, List.map_nil]
      congr 1
      simp [arenaOf, arenaFrom_snoc]
    · rfl
  | dup =>
    simp only [applyPrim, conv, List.foldl_cons, List.foldl_nil, Heap.step, toM]
    cases hs : s.stack <;> simp [toH, hs]
  | pop => simp [applyPrim, conv, Heap.step, toM, toH]
  | setKids i ks =>
    simp only [applyPrim, conv, List.foldl_cons, List.foldl_nil, Heap.step, okKids_toM]
    have hst : (toM s).stack = s.stack := rfl
    rw [hst]
    cases hc : s.stack[i]? with
    | none => rfl
    | some c =>
      simp only
      split
      · simp only [toM, toH, Heap.mutate, setCellKids]
        cases hx : s.cells[c]? with
        | none =>
          have : s.cells.length ≤ c := by
            rcases Nat.lt_or_ge c s.cells.length with h | h
            · rw [List.getElem?_eq_getElem h] at hx; cases hx
            · exact h
          simp [List.set_eq_of_length_le, this]
        | some x =>
          simp only [List.map_set]
          congr 1
          simp only [arenaOf]
          rw [arenaFrom_set]
          intro y hy
          rw [hx] at hy; cases hy; rfl
      · rfl
  | memoPut key c =>
    simp only [applyPrim, conv, List.foldl_nil]
    split <;> rfl

theorem toM_applyPrims (ps : List Prim) : ∀ s, toM (applyPrims s ps) = (ps.flatMap conv).foldl Heap.step (toM s) := by
  induction ps with
  | nil => intro s; rfl
  | cons p t ih =>
    intro s
    simp only [applyPrims, List.foldl_cons, List.flatMap_cons, List.foldl_append]
    have := ih (applyPrim s p)
    simp only [applyPrims] at this
    rw [this, toM_applyPrim]

/-- every run of the object-level model is a program of the stack machine of `Heap.lean` -/
theorem toM_run (ver : Nat) (is : List Instr) : ∃ steps, toM (run ver is) = Heap.run steps := by
  suffices h : ∀ (is : List Instr) (s : OS) (pre : List Heap.Step), toM s = Heap.run pre →
      ∃ steps, toM (is.foldl (fun s i => process ver s i.op i.arg) s) = Heap.run steps from
    h is {} [] rfl
  intro is
  induction is with
  | nil => intro s pre h; exact ⟨pre, h⟩
  | cons i t ih =>
    intro s pre h
    simp only [List.foldl_cons]
    apply ih _ (pre ++ (prims ver s i.op i.arg).flatMap conv)
    simp only [process, toM_applyPrims, h, Heap.run, List.foldl_append]

theorem kidsOf_toH (s : OS) (c : Nat) : Heap.kidsOf (toH s) c = kidsOf s c := by
  simp only [Heap.kidsOf, toH, kidsOf, List.getD, List.getElem?_map]
  cases s.cells[c]? <;> rfl

/-- `Obj.release` empties exactly the cells `Heap.release` empties -/
theorem kidsOf_release (s : OS) (c : Nat) :
    kidsOf (release s) c = Heap.kidsOf (Heap.release (toH s)) c := by
  rw [Heap.kidsOf_release, kidsOf_toH]
  simp only [kidsOf, release, List.getElem?_map, toH]
  cases hx : s.cells[c]? with
  | none => simp
  | some x =>
    simp only [Option.map_some]
    by_cases ha : x.arena = true
    · have : c ∈ arenaOf s.cells := (mem_arenaOf _ _).mpr ⟨x, hx, ha⟩
      simp [ha, this]
    · have : ¬ c ∈ arenaOf s.cells := by
        intro h
        obtain ⟨y, hy, hya⟩ := (mem_arenaOf _ _).mp h
        rw [hx] at hy; cases hy; exact ha hya
      simp [ha, this]

/-- **C14 on the object-level model**: whatever opcodes were processed, with whatever arguments, after
`reset` / `Drop` no set of cells keeps itself alive -/
theorem run_reclaimed (ver : Nat) (is : List Instr) (S : List Nat) (hne : S ≠ [])
    (hall : ∀ c ∈ S, ∃ c' ∈ S, c ∈ kidsOf (release (run ver is)) c') : False := by
  obtain ⟨steps, hst⟩ := toM_run ver is
  have hinv := Heap.run_inv steps
  have hh : toH (run ver is) = (Heap.run steps).h := by
    have := congrArg Heap.M.h hst
    simpa [toM] using this
  apply Heap.no_self_sustaining_set (Heap.release (toH (run ver is))) (Heap.release_decr _ (hh ▸ hinv.1)) S hne
  intro c hc
  obtain ⟨c', hc', hk⟩ := hall c hc
  exact ⟨c', hc', by rw [← kidsOf_release]; exact hk⟩

/-- every cell the model leaves on the stack was created by `Stack::push` (I1 of DESIGN §14, now a theorem
about the opcode-level model rather than a syntactic check alone) -/
theorem run_stack_arena (ver : Nat) (is : List Instr) :
    ∀ c ∈ (run ver is).stack, ∃ x, (run ver is).cells[c]? = some x ∧ x.arena = true := by
  obtain ⟨steps, hst⟩ := toM_run ver is
  have hinv := Heap.run_inv steps
  intro c hc
  have h3 := hinv.2.2 c (by rw [← hst]; exact hc)
  rw [← hst] at h3
  exact (mem_arenaOf _ _).mp h3.1

end Obj
end PFV
