/-
C17: the one-step theorem assembled over all opcodes, lifted to bodies, the collapse tail and
whole runs of the abstract generator.
-/
import PFV.Proofs.StepSimA
import PFV.Proofs.StepSimB
import PFV.Proofs.StepSimC
import PFV.Proofs.StepSimD
import PFV.Proofs.StepSimE
namespace PFV
open Ref (RKind RState RMemo)

/-- **One-step simulation.**  In safe mode, for every simulated state `s` related to a reference
state `r`, every opcode whose guard holds and every argument the emitter can hand over:
the reference machine accepts the instruction with no memo/typed violation, and the successor
states are related again (and the memo stays dense). -/
theorem step_sim (c : Cfg) (hsafe : c.unsafeMut = false) (s : State) (r : RState)
    (hR : SRel s r) (hd : Dense s.memo) (op : Op) (a : Arg)
    (hc : canEmit c s op = true) (ha : argOK s op a = true) : StepGoal c.version s r op a := by
  cases op
  case int => exact step_int hR hd
  case binInt => exact step_push_arg hR hd _ (by simp) ha
  case binInt1 => exact step_push_arg hR hd _ (by simp) ha
  case binInt2 => exact step_push_arg hR hd _ (by simp) ha
  case long => exact step_push_plain hR hd _ (by simp)
  case long1 => exact step_push_arg hR hd _ (by simp) ha
  case long4 => exact step_push_arg hR hd _ (by simp) ha
  case string => exact step_push_plain hR hd _ (by simp)
  case binString => exact step_push_plain hR hd _ (by simp)
  case shortBinString => exact step_push_plain hR hd _ (by simp)
  case binBytes => exact step_push_plain hR hd _ (by simp)
  case shortBinBytes => exact step_push_plain hR hd _ (by simp)
  case binBytes8 => exact step_push_plain hR hd _ (by simp)
  case byteArray8 => exact step_push_plain hR hd _ (by simp)
  case nextBuffer => exact step_push_plain hR hd _ (by simp)
  case readOnlyBuffer => exact step_readOnlyBuffer hR hd hc
  case pnone => exact step_push_plain hR hd _ (by simp)
  case newTrue => exact step_push_plain hR hd _ (by simp)
  case newFalse => exact step_push_plain hR hd _ (by simp)
  case unicode => exact step_push_plain hR hd _ (by simp)
  case shortBinUnicode => exact step_push_plain hR hd _ (by simp)
  case binUnicode => exact step_push_plain hR hd _ (by simp)
  case binUnicode8 => exact step_push_plain hR hd _ (by simp)
  case float => exact step_push_plain hR hd _ (by simp)
  case binFloat => exact step_push_arg hR hd _ (by simp) ha
  case emptyList => exact step_push_plain hR hd _ (by simp)
  case append => exact step_append hR hd hc
  case appends => obtain ⟨st, m, pe⟩ := s; obtain ⟨rst, rm⟩ := r; exact step_mark_target hR.stack hR.memo hd _ (by simp) hc
  case list => obtain ⟨st, m, pe⟩ := s; obtain ⟨rst, rm⟩ := r; exact step_mark_simple hR.stack hR.memo hd _ (by simp) hc
  case emptyTuple => exact step_push_plain hR hd _ (by simp)
  case tuple => obtain ⟨st, m, pe⟩ := s; obtain ⟨rst, rm⟩ := r; exact step_mark_simple hR.stack hR.memo hd _ (by simp) hc
  case tuple1 => exact step_tuple1 hR hd hc
  case tuple2 => exact step_tuple2 hR hd hc
  case tuple3 => exact step_tuple3 hR hd hc
  case emptyDict => exact step_push_plain hR hd _ (by simp)
  case dict => obtain ⟨st, m, pe⟩ := s; obtain ⟨rst, rm⟩ := r; exact step_dict hR.stack hR.memo hd hc
  case setItem => exact step_setItem hR hd hc
  case setItems => obtain ⟨st, m, pe⟩ := s; obtain ⟨rst, rm⟩ := r; exact step_mark_target hR.stack hR.memo hd _ (by simp) hc
  case emptySet => exact step_push_plain hR hd _ (by simp)
  case addItems => obtain ⟨st, m, pe⟩ := s; obtain ⟨rst, rm⟩ := r; exact step_mark_target hR.stack hR.memo hd _ (by simp) hc
  case frozenSet => obtain ⟨st, m, pe⟩ := s; obtain ⟨rst, rm⟩ := r; exact step_mark_simple hR.stack hR.memo hd _ (by simp) hc
  case pop => exact step_pop hR hd hc
  case dup => exact step_dup hR hd hc
  case mark => exact step_push_plain hR hd _ (by simp)
  case popMark => obtain ⟨st, m, pe⟩ := s; obtain ⟨rst, rm⟩ := r; exact step_mark_simple hR.stack hR.memo hd _ (by simp) hc
  case get => obtain ⟨st, m, pe⟩ := s; obtain ⟨rst, rm⟩ := r; exact step_get_like hR.stack hR.memo hd _ (by simp) ha
  case binGet => obtain ⟨st, m, pe⟩ := s; obtain ⟨rst, rm⟩ := r; exact step_get_like hR.stack hR.memo hd _ (by simp) ha
  case longBinGet => obtain ⟨st, m, pe⟩ := s; obtain ⟨rst, rm⟩ := r; exact step_get_like hR.stack hR.memo hd _ (by simp) ha
  case put => obtain ⟨st, m, pe⟩ := s; obtain ⟨rst, rm⟩ := r; exact step_put_like hR.stack hR.memo hd _ (by simp) hc ha
  case binPut => obtain ⟨st, m, pe⟩ := s; obtain ⟨rst, rm⟩ := r; exact step_put_like hR.stack hR.memo hd _ (by simp) hc ha
  case longBinPut => obtain ⟨st, m, pe⟩ := s; obtain ⟨rst, rm⟩ := r; exact step_put_like hR.stack hR.memo hd _ (by simp) hc ha
  case memoize => obtain ⟨st, m, pe⟩ := s; obtain ⟨rst, rm⟩ := r; exact step_memoize hR.stack hR.memo hd hc
  case ext1 => exact step_push_plain hR hd _ (by simp)
  case ext2 => exact step_push_plain hR hd _ (by simp)
  case ext4 => exact step_push_plain hR hd _ (by simp)
  case glob => exact step_push_arg hR hd _ (by simp) ha
  case stackGlobal => exact step_stackGlobal hR hd hsafe hc
  case reduce => exact step_reduce_like hR hd _ (by simp) hc
  case build => exact step_build hR hd hc
  case inst => obtain ⟨st, m, pe⟩ := s; obtain ⟨rst, rm⟩ := r; exact step_inst hR.stack hR.memo hd hc ha
  case obj => obtain ⟨st, m, pe⟩ := s; obtain ⟨rst, rm⟩ := r; exact step_obj hR.stack hR.memo hd hc
  case newObj => exact step_reduce_like hR hd _ (by simp) hc
  case newObjEx => exact step_newObjEx hR hd hc
  case proto => exact step_noop hR hd _ (by simp)
  case stop => simp [canEmit] at hc
  case frame => simp [canEmit] at hc
  case persID => exact step_push_arg hR hd _ (by simp) ha
  case binPersID => exact step_binPersID hR hd hc

end PFV

namespace PFV
open Ref (RKind RState RMemo)

theorem run_cons_ok {r r1 r2 : RState} {i : Instr} {is : List Instr} {v2 : List Ref.Viol}
    (h1 : Ref.step r i = .ok (r1, [])) (h2 : Ref.run r1 is = .ok (r2, v2)) :
    Ref.run r (i :: is) = .ok (r2, v2) := by
  simp [Ref.run, h1, h2]

theorem run_append_ok {r r1 r2 : RState} {a b : List Instr}
    (h1 : Ref.run r a = .ok (r1, [])) (h2 : Ref.run r1 b = .ok (r2, [])) :
    Ref.run r (a ++ b) = .ok (r2, []) := by
  induction a generalizing r with
  | nil => simp [Ref.run] at h1; obtain ⟨rfl⟩ := h1; simpa using h2
  | cons i is ih =>
    simp only [Ref.run] at h1
    cases hs : Ref.step r i with
    | error e => simp [hs] at h1
    | ok p =>
      obtain ⟨r', v1⟩ := p
      simp only [hs] at h1
      cases hr : Ref.run r' is with
      | error e => simp [hr] at h1
      | ok q =>
        obtain ⟨r'', v2⟩ := q
        simp only [hr, Except.ok.injEq, Prod.mk.injEq, List.append_eq_nil_iff] at h1
        obtain ⟨rfl, rfl, rfl⟩ := h1
        have := ih hr
        simp [Ref.run, hs, this]

/-- the simulated state after a list of instructions -/
def simRun (v : Nat) (s : State) (is : List Instr) : State :=
  is.foldl (fun s i => process v s i.op i.arg) s

/-- **Body simulation**: along any body of guarded steps the reference machine accepts every
instruction without violation and ends in a related state. -/
theorem body_sim {c : Cfg} (hsafe : c.unsafeMut = false) {table : List Op} {s s' : State}
    {is : List Instr} (hb : Body c table s is s') {r : RState} (hR : SRel s r) (hd : Dense s.memo) :
    ∃ r', Ref.run r is = .ok (r', []) ∧ SRel s' r' ∧ Dense s'.memo := by
  induction hb generalizing r with
  | nil => exact ⟨r, rfl, hR, hd⟩
  | step _ hc ha _ ih =>
    obtain ⟨r1, h1, hR1, hd1⟩ := step_sim c hsafe _ r hR hd _ _ hc ha
    obtain ⟨r2, h2, hR2, hd2⟩ := ih hR1 hd1
    exact ⟨r2, run_cons_ok h1 h2, hR2, hd2⟩

theorem body_simRun {c : Cfg} {table : List Op} {s s' : State} {is : List Instr}
    (hb : Body c table s is s') : simRun c.version s is = s' := by
  induction hb with
  | nil => rfl
  | step _ _ _ _ ih => simpa [simRun] using ih

end PFV
