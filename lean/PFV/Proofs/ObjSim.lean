/-
The object-level model (`Obj.lean`) projected to slot kinds is the simulated VM of `Sim.lean`:
`proj (Obj.process ver s op arg) = process ver (proj s) op arg` for every well-formed object state, every
opcode and every argument.  Route: every primitive acts on the kind-level abstraction `KS` (slot kinds, memo
kinds, number of cells, kind of every cell) as `stepKS` does (`abs_applyPrim`, proved once); per opcode it
then remains to run `stepKS` over the short program `prims` yields and compare with `process`.
-/
import PFV.Obj
namespace PFV
namespace Obj

/-- ids on the stack, in the memo and inside cells name existing cells -/
def WF (s : OS) : Prop :=
  (∀ c ∈ s.stack, c < s.cells.length) ∧ (∀ p ∈ s.memo, p.2 < s.cells.length) ∧
  (∀ c k, k ∈ kidsOf s c → k < s.cells.length)

def proj (s : OS) (pe : Bool) : State := { stack := projStack s, memo := projMemo s, protoEmitted := pe }

def upd (kc : Nat → Kind) (n : Nat) (k : Kind) : Nat → Kind := fun c => if c = n then k else kc c

/-- what the kind level sees of an object state -/
structure KS where
  st : State
  n : Nat
  kc : Nat → Kind

def stepKS (x : KS) : Prim → KS
  | .push k ks => if ks.all (· < x.n) then
      { st := { x.st with stack := k :: x.st.stack }, n := x.n + 1, kc := upd x.kc x.n k } else x
  | .aux k ks => if ks.all (· < x.n) then { x with n := x.n + 1, kc := upd x.kc x.n k } else x
  | .dup => match x.st.stack with
    | [] => x
    | k :: _ => { x with st := { x.st with stack := k :: x.st.stack } }
  | .pop => { x with st := { x.st with stack := x.st.stack.drop 1 } }
  | .setKids _ _ => x
  | .memoPut key c => if c < x.n then { x with st := { x.st with memo := Memo.insert x.st.memo key (x.kc c) } } else x

def absKS (s : OS) (pe : Bool) : KS := { st := proj s pe, n := s.cells.length, kc := kindOf s }

theorem kindOf_snoc (cells : List Cell) (x : Cell) (st : List Nat) (m : List (Nat × Nat)) :
    kindOf ⟨cells ++ [x], st, m⟩ = upd (kindOf ⟨cells, st, m⟩) cells.length x.kind := by
  funext c
  simp only [kindOf, upd]
  rcases Nat.lt_trichotomy c cells.length with h | h | h
  · simp [List.getElem?_append_left h, Nat.ne_of_lt h]
  · subst h; simp
  · have h1 : ¬ c = cells.length := by omega
    have h2 : cells.length ≤ c := by omega
    have h3 : (cells ++ [x]).length ≤ c := by simp; omega
    simp [h1, List.getElem?_eq_none h2, List.getElem?_eq_none h3]

theorem kidsOf_snoc_lt (cells : List Cell) (x : Cell) (st st' : List Nat) (m m' : List (Nat × Nat)) (c : Nat)
    (h : c < cells.length) : kidsOf ⟨cells ++ [x], st, m⟩ c = kidsOf ⟨cells, st', m'⟩ c := by
  simp [kidsOf, List.getElem?_append_left h]

theorem kidsOf_snoc_ge (cells : List Cell) (x : Cell) (st : List Nat) (m : List (Nat × Nat)) (c k : Nat)
    (h : k ∈ kidsOf ⟨cells ++ [x], st, m⟩ c) (hc : cells.length ≤ c) : k ∈ x.kids := by
  simp only [kidsOf] at h
  rcases Nat.lt_or_ge cells.length c with h1 | h1
  · have : (cells ++ [x]).length ≤ c := by simp; omega
    simp [List.getElem?_eq_none this] at h
  · have : c = cells.length := by omega
    subst this
    simpa using h

theorem length_setCellKids (cells : List Cell) (c : Nat) (ks : List Nat) : (setCellKids cells c ks).length = cells.length := by
  simp only [setCellKids]; split <;> simp

theorem getElem?_setCellKids (cells : List Cell) (c : Nat) (ks : List Nat) (d : Nat) :
    (setCellKids cells c ks)[d]? = if c = d then (cells[c]?).map (fun x => { x with kids := ks }) else cells[d]? := by
  simp only [setCellKids]
  cases hx : cells[c]? with
  | none =>
    by_cases hcd : c = d
    · subst hcd; simp [hx]
    · simp [hcd]
  | some x =>
    have hl : c < cells.length := by
      rcases Nat.lt_or_ge c cells.length with h | h
      · exact h
      · simp [List.getElem?_eq_none h] at hx
    by_cases hcd : c = d
    · subst hcd; simp [List.getElem?_set_self hl]
    · simp [hcd, List.getElem?_set_ne hcd]

theorem kindOf_setCellKids (cells : List Cell) (c : Nat) (ks : List Nat) (st st' : List Nat) (m m' : List (Nat × Nat)) :
    kindOf ⟨setCellKids cells c ks, st, m⟩ = kindOf ⟨cells, st', m'⟩ := by
  funext d
  simp only [kindOf, getElem?_setCellKids]
  by_cases hcd : c = d
  · subst hcd
    cases cells[c]? <;> simp
  · simp [hcd]

theorem kidsOf_setCellKids (cells : List Cell) (c : Nat) (ks : List Nat) (st st' : List Nat) (m m' : List (Nat × Nat)) (d k : Nat)
    (h : k ∈ kidsOf ⟨setCellKids cells c ks, st, m⟩ d) : k ∈ ks ∨ k ∈ kidsOf ⟨cells, st', m'⟩ d := by
  simp only [kidsOf, getElem?_setCellKids] at h ⊢
  by_cases hcd : c = d
  · subst hcd
    cases hx : cells[c]? with
    | none => simp [hx] at h
    | some x => simp [hx] at h; exact Or.inl h
  · simp only [hcd, if_false] at h; exact Or.inr h

theorem all_lt_of_okKids {s : OS} {ks : List Nat} (h : okKids s ks = true) : ∀ k ∈ ks, k < s.cells.length := by
  intro k hk
  have := List.all_eq_true.mp h k hk
  simpa using this

theorem map_upd_of_lt (kc : Nat → Kind) (n : Nat) (k : Kind) (l : List Nat) (h : ∀ c ∈ l, c < n) :
    l.map (upd kc n k) = l.map kc := by
  apply List.map_congr_left
  intro c hc
  have := h c hc
  simp [upd, Nat.ne_of_lt this]

theorem memo_map_upd_of_lt (kc : Nat → Kind) (n : Nat) (k : Kind) (m : List (Nat × Nat)) (h : ∀ p ∈ m, p.2 < n) :
    m.map (fun p => (p.1, upd kc n k p.2)) = m.map (fun p => (p.1, kc p.2)) := by
  apply List.map_congr_left
  intro p hp
  have := h p hp
  simp [upd, Nat.ne_of_lt this]

theorem projMemo_insert (kc : Nat → Kind) (m : List (Nat × Nat)) (key c : Nat) :
    (memoInsert m key c).map (fun p => (p.1, kc p.2)) = Memo.insert (m.map (fun p => (p.1, kc p.2))) key (kc c) := by
  induction m with
  | nil => simp [memoInsert, Memo.insert]
  | cons a t ih =>
    obtain ⟨j, d⟩ := a
    simp only [memoInsert, List.map_cons, Memo.insert]
    split
    · simp
    · simp [ih]

theorem mem_memoInsert (m : List (Nat × Nat)) (key c : Nat) (p : Nat × Nat) (h : p ∈ memoInsert m key c) :
    p.2 = c ∨ p ∈ m := by
  induction m with
  | nil => simp [memoInsert] at h; exact Or.inl (by rw [h])
  | cons a t ih =>
    obtain ⟨j, d⟩ := a
    simp only [memoInsert] at h
    split at h
    · rcases List.mem_cons.mp h with h | h
      · exact Or.inl (by rw [h])
      · exact Or.inr (List.mem_cons_of_mem _ h)
    · rcases List.mem_cons.mp h with h | h
      · exact Or.inr (by rw [h]; exact List.mem_cons_self)
      · rcases ih h with h | h
        · exact Or.inl h
        · exact Or.inr (List.mem_cons_of_mem _ h)

theorem wf_snoc (s : OS) (hw : WF s) (x : Cell) (hks : ∀ k ∈ x.kids, k < s.cells.length) (st : List Nat)
    (hst : ∀ c ∈ st, c < s.cells.length + 1) : WF ⟨s.cells ++ [x], st, s.memo⟩ := by
  obtain ⟨_, w2, w3⟩ := hw
  refine ⟨?_, ?_, ?_⟩
  · intro c hc
    simp only [List.length_append, List.length_cons, List.length_nil]
    exact hst c hc
  · intro p hp
    simp only [List.length_append, List.length_cons, List.length_nil]
    have := w2 p hp; omega
  · intro c d hd
    simp only [List.length_append, List.length_cons, List.length_nil]
    rcases Nat.lt_or_ge c s.cells.length with h | h
    · rw [kidsOf_snoc_lt _ _ _ s.stack _ s.memo c h] at hd
      have := w3 c d hd; omega
    · have := kidsOf_snoc_ge _ _ _ _ _ _ hd h
      have := hks d this; omega

/-- one primitive: well-formedness is kept and the kind-level abstraction moves by `stepKS` -/
theorem abs_applyPrim (s : OS) (hw : WF s) (p : Prim) (pe : Bool) :
    WF (applyPrim s p) ∧ absKS (applyPrim s p) pe = stepKS (absKS s pe) p := by
  have hw' := hw
  obtain ⟨w1, w2, w3⟩ := hw
  have hk0 : ∀ st m, kindOf ⟨s.cells, st, m⟩ = kindOf s := fun _ _ => rfl
  cases p with
  | push k ks =>
    by_cases hok : okKids s ks = true
    · have hks := all_lt_of_okKids (s := s) hok
      have hok' : (ks.all fun x => decide (x < (absKS s pe).n)) = true := hok
      simp only [applyPrim, stepKS, hok, hok', if_true]
      refine ⟨wf_snoc s hw' _ hks _ ?_, ?_⟩
      · intro c hc
        rcases List.mem_cons.mp hc with h | h
        · omega
        · have := w1 c h; omega
      · simp only [absKS, proj, projStack, projMemo, kindOf_snoc, List.map_cons, List.length_append, List.length_cons,
          List.length_nil, hk0]
        rw [map_upd_of_lt _ _ _ _ w1, memo_map_upd_of_lt _ _ _ _ w2]
        simp [upd]
    · have hok' : ¬ (ks.all fun x => decide (x < (absKS s pe).n)) = true := hok
      simp only [applyPrim, stepKS, hok, hok', Bool.false_eq_true, if_false]
      exact ⟨hw', trivial⟩
  | aux k ks =>
    by_cases hok : okKids s ks = true
    · have hks := all_lt_of_okKids (s := s) hok
      have hok' : (ks.all fun x => decide (x < (absKS s pe).n)) = true := hok
      simp only [applyPrim, stepKS, hok, hok', if_true]
      refine ⟨wf_snoc s hw' _ hks _ (fun c hc => by have := w1 c hc; omega), ?_⟩
      simp only [absKS, proj, projStack, projMemo, kindOf_snoc, List.length_append, List.length_cons,
          List.length_nil, hk0]
      rw [map_upd_of_lt _ _ _ _ w1, memo_map_upd_of_lt _ _ _ _ w2]
    · have hok' : ¬ (ks.all fun x => decide (x < (absKS s pe).n)) = true := hok
      simp only [applyPrim, stepKS, hok, hok', Bool.false_eq_true, if_false]
      exact ⟨hw', trivial⟩
  | dup =>
    cases hs : s.stack with
    | nil =>
      have e : applyPrim s .dup = s := by simp [applyPrim, hs]
      have e2 : stepKS (absKS s pe) .dup = absKS s pe := by simp [stepKS, absKS, proj, projStack, hs]
      rw [e, e2]; exact ⟨hw', rfl⟩
    | cons c t =>
      have e : applyPrim s .dup = { s with stack := c :: s.stack } := by simp [applyPrim, hs]
      have e2 : stepKS (absKS s pe) .dup =
          { absKS s pe with st := { (absKS s pe).st with stack := kindOf s c :: (absKS s pe).st.stack } } := by
        simp [stepKS, absKS, proj, projStack, hs]
      rw [e, e2]
      refine ⟨⟨?_, w2, w3⟩, rfl⟩
      intro d hd
      have hc : c < s.cells.length := w1 c (by rw [hs]; exact List.mem_cons_self)
      rcases List.mem_cons.mp hd with h | h
      · rw [h]; exact hc
      · exact w1 d h
  | pop =>
    refine ⟨⟨fun c hc => w1 c (List.mem_of_mem_drop hc), w2, w3⟩, ?_⟩
    simp only [applyPrim, stepKS, absKS, proj, projStack, projMemo, hk0, List.map_drop]
  | setKids i ks =>
    simp only [applyPrim, stepKS]
    cases hc : s.stack[i]? with
    | none => exact ⟨hw', rfl⟩
    | some c =>
      by_cases hok : okKids s ks = true
      · have hks := all_lt_of_okKids (s := s) hok
        simp only [hok, if_true]
        refine ⟨⟨?_, ?_, ?_⟩, ?_⟩
        · intro d hd; simp only [length_setCellKids]; exact w1 d hd
        · intro p hp; simp only [length_setCellKids]; exact w2 p hp
        · intro d k hk
          simp only [length_setCellKids]
          rcases kidsOf_setCellKids _ _ _ _ s.stack _ s.memo _ _ hk with h | h
          · exact hks k h
          · exact w3 d k h
        · simp only [absKS, proj, projStack, projMemo, length_setCellKids]
          rw [kindOf_setCellKids _ _ _ _ s.stack _ s.memo]
      · simp only [hok, Bool.false_eq_true, if_false]
        exact ⟨hw', trivial⟩
  | memoPut key c =>
    by_cases hlt : c < s.cells.length
    · have hlt' : c < (absKS s pe).n := hlt
      simp only [applyPrim, stepKS, hlt, hlt', if_true]
      refine ⟨⟨w1, ?_, w3⟩, ?_⟩
      · intro p hp
        rcases mem_memoInsert _ _ _ _ hp with h | h
        · rw [h]; exact hlt
        · exact w2 p h
      · simp only [absKS, proj, projStack, projMemo, hk0, projMemo_insert]
    · have hlt' : ¬ c < (absKS s pe).n := hlt
      simp only [applyPrim, stepKS, hlt, hlt', if_false]
      exact ⟨hw', trivial⟩

theorem abs_applyPrims (ps : List Prim) : ∀ (s : OS), WF s → ∀ pe,
    WF (applyPrims s ps) ∧ absKS (applyPrims s ps) pe = ps.foldl stepKS (absKS s pe) := by
  induction ps with
  | nil => intro s hw pe; exact ⟨hw, rfl⟩
  | cons p t ih =>
    intro s hw pe
    obtain ⟨h1, h2⟩ := abs_applyPrim s hw p pe
    obtain ⟨h3, h4⟩ := ih (applyPrim s p) h1 pe
    simp only [applyPrims, List.foldl_cons] at h3 h4 ⊢
    exact ⟨h3, by rw [h4, h2]⟩


/-! ### running `stepKS` over the programs `prims` yields -/

theorem foldl_pops (k : Nat) : ∀ (x : KS), (pops k).foldl stepKS x = { x with st := { x.st with stack := x.st.stack.drop k } } := by
  induction k with
  | zero => intro x; simp [pops]
  | succ k ih =>
    intro x
    have : pops (k + 1) = Prim.pop :: pops k := by simp [pops, List.replicate_succ]
    rw [this, List.foldl_cons, ih]
    simp [stepKS, List.drop_drop, Nat.add_comm]

theorem stepKS_push_ok (x : KS) (k : Kind) (ks : List Nat) (h : ∀ c ∈ ks, c < x.n) :
    stepKS x (.push k ks) = { st := { x.st with stack := k :: x.st.stack }, n := x.n + 1, kc := upd x.kc x.n k } := by
  have : (ks.all fun c => decide (c < x.n)) = true := List.all_eq_true.mpr (fun c hc => by simpa using h c hc)
  simp [stepKS, this]

theorem stepKS_aux_ok (x : KS) (k : Kind) (ks : List Nat) (h : ∀ c ∈ ks, c < x.n) :
    stepKS x (.aux k ks) = { x with n := x.n + 1, kc := upd x.kc x.n k } := by
  have : (ks.all fun c => decide (c < x.n)) = true := List.all_eq_true.mpr (fun c hc => by simpa using h c hc)
  simp [stepKS, this]

/-- `toMark` on cells against `splitMark` on their kinds -/
theorem toMark_split (s : OS) : ∀ (l : List Nat),
    match splitMark (l.map (kindOf s)) with
    | some (a, b) => (toMark s l).1.map (kindOf s) = a ∧ (l.drop (toMark s l).2).map (kindOf s) = b
    | none => (toMark s l).1 = l ∧ (toMark s l).2 = l.length := by
  intro l
  induction l with
  | nil => simp [splitMark, toMark]
  | cons c t ih =>
    simp only [List.map_cons, splitMark, toMark]
    by_cases hm : kindOf s c = .mark
    · simp [hm]
    · simp only [hm, if_false]
      cases hsp : splitMark (t.map (kindOf s)) with
      | none => rw [hsp] at ih; simp [ih.1, ih.2]
      | some ab => obtain ⟨a, b⟩ := ab; rw [hsp] at ih; simp [ih.1, ih.2]

theorem toMark_mem (s : OS) : ∀ (l : List Nat), ∀ c ∈ (toMark s l).1, c ∈ l := by
  intro l
  induction l with
  | nil => simp [toMark]
  | cons d t ih =>
    intro c hc
    simp only [toMark] at hc
    split at hc
    · simp at hc
    · rcases List.mem_cons.mp hc with h | h
      · rw [h]; exact List.mem_cons_self
      · exact List.mem_cons_of_mem _ (ih c h)

theorem toMark_drop (s : OS) (l : List Nat) :
    (l.drop (toMark s l).2).map (kindOf s) = popToMark (l.map (kindOf s)) := by
  have := toMark_split s l
  simp only [popToMark]
  cases hsp : splitMark (l.map (kindOf s)) with
  | none => rw [hsp] at this; simp [this.2]
  | some ab => obtain ⟨a, b⟩ := ab; rw [hsp] at this; simp [this.2]

/-- the `DICT` / `SETITEMS` loop on cells against `dictPop` on their kinds -/
theorem dictPairs_drop (s : OS) : ∀ (n : Nat) (l : List Nat), l.length ≤ n →
    (l.drop (dictPairs s l).2).map (kindOf s) = dictPop (l.map (kindOf s)) := by
  intro n
  induction n with
  | zero => intro l hl; cases l <;> simp_all [dictPairs, dictPop]
  | succ n ih =>
    intro l hl
    match l with
    | [] => simp [dictPairs, dictPop]
    | [v] =>
      simp only [dictPairs, List.map_cons, List.map_nil, dictPop]
      by_cases hm : kindOf s v = .mark <;> simp [hm]
    | v :: k :: t =>
      simp only [dictPairs, List.map_cons, dictPop]
      by_cases hm : kindOf s v = .mark
      · simp [hm]
      · simp only [hm, if_false]
        have := ih t (by simp at hl; omega)
        simpa using this

theorem dictPairs_mem (s : OS) : ∀ (n : Nat) (l : List Nat), l.length ≤ n →
    ∀ p ∈ (dictPairs s l).1, p.1 ∈ l ∧ p.2 ∈ l := by
  intro n
  induction n with
  | zero => intro l hl; cases l <;> simp_all [dictPairs]
  | succ n ih =>
    intro l hl
    match l with
    | [] => simp [dictPairs]
    | [v] => simp only [dictPairs]; split <;> simp
    | v :: k :: t =>
      simp only [dictPairs]
      split
      · simp
      · intro p hp
        rcases List.mem_cons.mp hp with h | h
        · rw [h]; simp
        · have := ih t (by simp at hl; omega) p h
          exact ⟨List.mem_cons_of_mem _ (List.mem_cons_of_mem _ this.1), List.mem_cons_of_mem _ (List.mem_cons_of_mem _ this.2)⟩


def isValueOp : Op → Bool
  | .mark | .emptyList | .emptyTuple | .emptyDict | .emptySet
  | .int | .binInt | .binInt1 | .binInt2 | .long | .long1 | .long4
  | .string | .shortBinUnicode | .unicode | .binUnicode | .binUnicode8
  | .binString | .shortBinString | .binBytes | .shortBinBytes | .binBytes8 | .byteArray8
  | .pnone | .newTrue | .newFalse | .float | .binFloat | .persID | .nextBuffer => true
  | _ => false

theorem process_value (ver : Nat) (st : State) (op : Op) (arg : Arg) (h : isValueOp op = true) :
    PFV.process ver st op arg = (match pushedKind ver op arg with
      | some k => { st with stack := k :: st.stack }
      | none => st) := by
  cases op <;> simp [isValueOp] at h <;> simp only [PFV.process, pushedKind] <;> (repeat' split) <;> simp_all

theorem prims_value (ver : Nat) (s : OS) (op : Op) (arg : Arg) (h : isValueOp op = true) :
    prims ver s op arg = (match pushedKind ver op arg with
      | some k => [.push k []]
      | none => []) := by
  cases op <;> simp [isValueOp] at h <;> rfl

theorem run_pops_push (x : KS) (k : Nat) (K : Kind) (ks : List Nat) (h : ∀ c ∈ ks, c < x.n) :
    ((pops k ++ [Prim.push K ks]).foldl stepKS x).st = { x.st with stack := K :: x.st.stack.drop k } := by
  rw [List.foldl_append, foldl_pops, List.foldl_cons, List.foldl_nil, stepKS_push_ok _ _ _ (by simpa using h)]

theorem run_pops (x : KS) (k : Nat) : ((pops k).foldl stepKS x).st = { x.st with stack := x.st.stack.drop k } := by
  rw [foldl_pops]

theorem run_pops_setKids (x : KS) (k i : Nat) (ks : List Nat) :
    ((pops k ++ [Prim.setKids i ks]).foldl stepKS x).st = { x.st with stack := x.st.stack.drop k } := by
  rw [List.foldl_append, foldl_pops]; rfl

theorem unwrap_lt (s : OS) (hw : WF s) (c : Nat) (hc : c < s.cells.length) : unwrapCallable s c < s.cells.length := by
  simp only [unwrapCallable]
  split
  · cases hk : kidsOf s c with
    | nil => exact hc
    | cons i t => exact hw.2.2 c i (by rw [hk]; exact List.mem_cons_self)
  · exact hc


theorem mem_setInsertAll (cs : List Nat) : ∀ (ks : List Nat) (c : Nat), c ∈ setInsertAll ks cs → c ∈ ks ∨ c ∈ cs := by
  induction cs with
  | nil => intro ks c h; exact Or.inl h
  | cons d t ih =>
    intro ks c h
    simp only [setInsertAll, List.foldl_cons] at h
    rcases ih _ c h with h1 | h1
    · simp only [setInsert] at h1
      split at h1
      · exact Or.inl h1
      · rcases List.mem_append.mp h1 with h2 | h2
        · exact Or.inl h2
        · simp at h2; exact Or.inr (by rw [h2]; exact List.mem_cons_self)
    · exact Or.inr (List.mem_cons_of_mem _ h1)

theorem mem_dictInsert : ∀ (n : Nat) (ks : List Nat), ks.length ≤ n → ∀ (k v c : Nat), c ∈ dictInsert ks k v → c ∈ ks ∨ c = k ∨ c = v := by
  intro n
  induction n with
  | zero => intro ks hl k v c h; cases ks <;> simp_all [dictInsert]
  | succ n ih =>
    intro ks hl k v c h
    match ks with
    | [] => simp [dictInsert] at h; exact Or.inr h
    | [x] => simp [dictInsert] at h; rcases h with h | h | h <;> simp [h]
    | k' :: v' :: t =>
      simp only [dictInsert] at h
      split at h
      · simp at h; rcases h with h | h | h <;> simp [h]
      · simp at h
        rcases h with h | h | h
        · simp [h]
        · simp [h]
        · rcases ih t (by simp at hl; omega) k v c h with h1 | h1
          · exact Or.inl (by simp [h1])
          · exact Or.inr h1

theorem mem_dictInsertAll (ps : List (Nat × Nat)) : ∀ (ks : List Nat) (c : Nat), c ∈ dictInsertAll ks ps →
    c ∈ ks ∨ ∃ p ∈ ps, c = p.1 ∨ c = p.2 := by
  induction ps with
  | nil => intro ks c h; exact Or.inl h
  | cons p t ih =>
    intro ks c h
    simp only [dictInsertAll, List.foldl_cons] at h
    rcases ih _ c h with h1 | ⟨q, hq, h1⟩
    · rcases mem_dictInsert _ ks (Nat.le_refl _) p.1 p.2 c h1 with h2 | h2
      · exact Or.inl h2
      · exact Or.inr ⟨p, List.mem_cons_self, h2⟩
    · exact Or.inr ⟨q, List.mem_cons_of_mem _ hq, h1⟩

theorem find_projMemo (s : OS) (i : Nat) : ∀ (m : List (Nat × Nat)),
    Memo.find? (m.map (fun p => (p.1, kindOf s p.2))) i = (memoFind? m i).map (kindOf s) := by
  intro m
  induction m with
  | nil => rfl
  | cons a t ih =>
    obtain ⟨j, d⟩ := a
    simp only [List.map_cons, Memo.find?, memoFind?]
    split <;> simp [ih]

theorem memoFind_mem : ∀ (m : List (Nat × Nat)) (i c : Nat), memoFind? m i = some c → ∃ p ∈ m, p.2 = c := by
  intro m
  induction m with
  | nil => intro i c h; simp [memoFind?] at h
  | cons a t ih =>
    intro i c h
    obtain ⟨j, d⟩ := a
    simp only [memoFind?] at h
    split at h
    · simp at h; exact ⟨(j, d), List.mem_cons_self, h⟩
    · obtain ⟨p, hp, h2⟩ := ih i c h
      exact ⟨p, List.mem_cons_of_mem _ hp, h2⟩

theorem run_aux_push (x : KS) (K1 K2 : Kind) (ks1 ks2 : List Nat) (h1 : ∀ c ∈ ks1, c < x.n) (h2 : ∀ c ∈ ks2, c < x.n + 1) :
    ([Prim.aux K1 ks1, Prim.push K2 ks2].foldl stepKS x).st = { x.st with stack := K2 :: x.st.stack } := by
  rw [List.foldl_cons, stepKS_aux_ok _ _ _ h1, List.foldl_cons, stepKS_push_ok _ _ _ (by simpa using h2)]; rfl

theorem run_inst (x : KS) (k : Nat) (items : List Nat) (hi : ∀ c ∈ items, c < x.n) :
    (([Prim.aux .glob []] ++ pops k ++ [Prim.aux .tuple items, Prim.push .obj [x.n, x.n + 1]]).foldl stepKS x).st =
      { x.st with stack := .obj :: x.st.stack.drop k } := by
  simp only [List.foldl_append, List.foldl_cons, List.foldl_nil]
  rw [stepKS_aux_ok x _ _ (by simp), foldl_pops]
  rw [stepKS_aux_ok _ _ _ (by intro c hc; have := hi c hc; simp; omega)]
  rw [stepKS_push_ok _ _ _ (by intro c hc; simp at hc; simp; omega)]

theorem run_obj (x : KS) (k : Nat) (cls : Nat) (rest : List Nat) (hc : cls < x.n) (hi : ∀ c ∈ rest, c < x.n) :
    ((pops k ++ [Prim.aux .tuple rest, Prim.push .obj [cls, x.n]]).foldl stepKS x).st =
      { x.st with stack := .obj :: x.st.stack.drop k } := by
  simp only [List.foldl_append, List.foldl_cons, List.foldl_nil]
  rw [foldl_pops, stepKS_aux_ok _ _ _ (by intro c h; exact hi c h)]
  rw [stepKS_push_ok _ _ _ (by intro c h; simp at h; simp; omega)]

theorem stepKS_memoPut_ok (x : KS) (key c : Nat) (h : c < x.n) :
    stepKS x (.memoPut key c) = { x with st := { x.st with memo := Memo.insert x.st.memo key (x.kc c) } } := by
  simp [stepKS, h]

theorem run_memoize (x : KS) (K : Kind) (ks : List Nat) (key : Nat) (h : ∀ c ∈ ks, c < x.n) :
    ([Prim.pop, Prim.aux K ks, Prim.memoPut key x.n, Prim.push K ks].foldl stepKS x).st =
      { x.st with stack := K :: x.st.stack.drop 1, memo := Memo.insert x.st.memo key K } := by
  simp only [List.foldl_cons, List.foldl_nil]
  have e1 : stepKS x .pop = { x with st := { x.st with stack := x.st.stack.drop 1 } } := rfl
  rw [e1, stepKS_aux_ok _ _ _ (by intro c hc; exact h c hc), stepKS_memoPut_ok _ _ _ (by simp)]
  rw [stepKS_push_ok _ _ _ (by intro c hc; have := h c hc; simp; omega)]
  simp [upd]

theorem map_drop' (f : Nat → Kind) (l : List Nat) (k : Nat) : (l.map f).drop k = (l.drop k).map f := by
  rw [List.map_drop]

/-- per opcode: running the kind-level abstraction over the opcode's program is `Sim.process` -/
theorem sim_prims (ver : Nat) (s : OS) (hw : WF s) (op : Op) (arg : Arg) (pe : Bool) :
    ((prims ver s op arg).foldl stepKS (absKS s pe)).st = PFV.process ver (proj s pe) op arg := by
  have hw' := hw
  obtain ⟨w1, w2, w3⟩ := hw
  have hn : (absKS s pe).n = s.cells.length := rfl
  have hstk : (absKS s pe).st.stack = s.stack.map (kindOf s) := rfl
  by_cases hv : isValueOp op = true
  · rw [process_value _ _ _ _ hv, prims_value _ _ _ _ hv]
    cases pushedKind ver op arg with
    | none => rfl
    | some k => simp [stepKS, absKS, proj]
  · -- items above the MARK name existing cells
    have hitems : ∀ c ∈ (toMark s s.stack).1, c < (absKS s pe).n := fun c hc => w1 c (toMark_mem s _ c hc)
    have hdrop := toMark_drop s s.stack
    have hsplit := toMark_split s s.stack
    have hddrop := dictPairs_drop s s.stack.length s.stack (Nat.le_refl _)
    cases op <;> simp [isValueOp] at hv
    case pop => simp [prims, stepKS, absKS, proj, PFV.process]
    case dup =>
      cases hs : s.stack with
      | nil => simp [prims, hs, PFV.process, proj, projStack, absKS]
      | cons c t => by_cases hm : kindOf s c = .mark <;> simp [prims, hs, PFV.process, proj, projStack, absKS, stepKS, hm]
    case popMark =>
      simp only [prims, run_pops, PFV.process, hstk, map_drop', hdrop]; rfl
    case append =>
      simp only [prims, PFV.process, proj, projStack, List.length_map]
      by_cases hl : s.stack.length < 2
      · simp [hl, absKS, proj, projStack]
      · simp only [hl, if_false]
        match hs : s.stack with
        | [] => simp [hs] at hl
        | [_] => simp [hs] at hl
        | item :: cell :: t =>
          simp only
          by_cases hk : kindOf s cell = .list <;> simp [hk, stepKS, absKS, proj, projStack, hs]
    case appends =>
      simp only [prims, PFV.process]
      have : ∀ ps : List Prim, (ps = pops (toMark s s.stack).2 ∨ ∃ i ks, ps = pops (toMark s s.stack).2 ++ [Prim.setKids i ks]) →
          (ps.foldl stepKS (absKS s pe)).st = { proj s pe with stack := popToMark (proj s pe).stack } := by
        intro ps h
        rcases h with h | ⟨i, ks, h⟩
        · rw [h, run_pops, hstk, map_drop', hdrop]; rfl
        · rw [h, run_pops_setKids, hstk, map_drop', hdrop]; rfl
      apply this
      split
      · split
        · exact Or.inr ⟨_, _, rfl⟩
        · exact Or.inl rfl
      · exact Or.inl rfl
    case addItems =>
      simp only [prims, PFV.process]
      have : ∀ ps : List Prim, (ps = pops (toMark s s.stack).2 ∨ ∃ i ks, ps = pops (toMark s s.stack).2 ++ [Prim.setKids i ks]) →
          (ps.foldl stepKS (absKS s pe)).st = { proj s pe with stack := popToMark (proj s pe).stack } := by
        intro ps h
        rcases h with h | ⟨i, ks, h⟩
        · rw [h, run_pops, hstk, map_drop', hdrop]; rfl
        · rw [h, run_pops_setKids, hstk, map_drop', hdrop]; rfl
      apply this
      split
      · split
        · exact Or.inr ⟨_, _, rfl⟩
        · exact Or.inl rfl
      · exact Or.inl rfl
    case setItems =>
      simp only [prims, PFV.process]
      have : ∀ ps : List Prim, (ps = pops (dictPairs s s.stack).2 ∨ ∃ i ks, ps = pops (dictPairs s s.stack).2 ++ [Prim.setKids i ks]) →
          (ps.foldl stepKS (absKS s pe)).st = { proj s pe with stack := dictPop (proj s pe).stack } := by
        intro ps h
        rcases h with h | ⟨i, ks, h⟩
        · rw [h, run_pops, hstk, map_drop', hddrop]; rfl
        · rw [h, run_pops_setKids, hstk, map_drop', hddrop]; rfl
      apply this
      split
      · split
        · exact Or.inr ⟨_, _, rfl⟩
        · exact Or.inl rfl
      · exact Or.inl rfl
    case list =>
      simp only [prims, PFV.process]
      rw [run_pops_push _ _ _ _ (by intro c hc; exact hitems c (List.mem_reverse.mp hc)), hstk, map_drop', hdrop]; rfl
    case tuple =>
      simp only [prims, PFV.process]
      rw [run_pops_push _ _ _ _ (by intro c hc; exact hitems c (List.mem_reverse.mp hc)), hstk, map_drop', hdrop]; rfl
    case frozenSet =>
      simp only [prims, PFV.process]
      rw [run_pops_push _ _ _ _ ?_, hstk, map_drop', hdrop]; rfl
      intro c hc
      rcases mem_setInsertAll _ _ c hc with h | h
      · simp at h
      · exact hitems c h
    case dict =>
      simp only [prims, PFV.process]
      rw [run_pops_push _ _ _ _ ?_, hstk, map_drop', hddrop]; rfl
      intro c hc
      rcases mem_dictInsertAll _ _ c hc with h | ⟨q, hq, h⟩
      · simp at h
      · have := dictPairs_mem s s.stack.length s.stack (Nat.le_refl _) q hq
        rcases h with h | h
        · rw [h]; exact w1 _ this.1
        · rw [h]; exact w1 _ this.2
    case tuple1 =>
      match hs : s.stack with
      | [] => simp [prims, hs, PFV.process, proj, projStack, absKS]
      | a :: t =>
        have ha : a < s.cells.length := w1 a (by rw [hs]; exact List.mem_cons_self)
        simp only [prims, hs, PFV.process, proj, projStack, List.map_cons, List.foldl_cons, List.foldl_nil]
        rw [stepKS_push_ok _ _ _ (by intro c hc; simp at hc; rw [hc]; exact ha)]
        simp [stepKS, absKS, proj, projStack, hs]
    case tuple2 =>
      match hs : s.stack with
      | [] => simp [prims, hs, PFV.process, proj, projStack, absKS]
      | [_] => simp [prims, hs, PFV.process, proj, projStack, absKS]
      | b :: a :: t =>
        have ha : a < s.cells.length := w1 a (by rw [hs]; simp)
        have hb : b < s.cells.length := w1 b (by rw [hs]; simp)
        simp only [prims, hs, PFV.process, proj, projStack, List.map_cons, List.foldl_cons, List.foldl_nil]
        rw [stepKS_push_ok _ _ _ (by intro c hc; simp at hc; rcases hc with h | h <;> (rw [h]; assumption))]
        simp [stepKS, absKS, proj, projStack, hs]
    case tuple3 =>
      match hs : s.stack with
      | [] => simp [prims, hs, PFV.process, proj, projStack, absKS]
      | [_] => simp [prims, hs, PFV.process, proj, projStack, absKS]
      | [_, _] => simp [prims, hs, PFV.process, proj, projStack, absKS]
      | c3 :: b :: a :: t =>
        have ha : a < s.cells.length := w1 a (by rw [hs]; simp)
        have hb : b < s.cells.length := w1 b (by rw [hs]; simp)
        have hc3 : c3 < s.cells.length := w1 c3 (by rw [hs]; simp)
        simp only [prims, hs, PFV.process, proj, projStack, List.map_cons, List.foldl_cons, List.foldl_nil]
        rw [stepKS_push_ok _ _ _ (by intro c hc; simp at hc; rcases hc with h | h | h <;> (rw [h]; assumption))]
        simp [stepKS, absKS, proj, projStack, hs]
    case setItem =>
      simp only [prims, PFV.process, proj, projStack, List.length_map]
      by_cases hl : s.stack.length < 3
      · simp [hl, absKS, proj, projStack]
      · simp only [hl, if_false]
        match hs : s.stack with
        | [] => simp [hs] at hl
        | [_] => simp [hs] at hl
        | [_, _] => simp [hs] at hl
        | v :: k :: cell :: t =>
          simp only
          by_cases hk : kindOf s cell = .dict <;> simp [hk, stepKS, absKS, proj, projStack, hs]
    case glob =>
      have hA := run_aux_push (absKS s pe) .glob .callable [] [s.cells.length] (by simp) (by simp [hn])
      cases arg <;> simp only [prims, PFV.process, Bool.false_eq_true, if_false, if_true] <;> first | exact hA | rfl
    case ext1 => exact run_aux_push (absKS s pe) .glob .callable [] [s.cells.length] (by simp) (by simp [hn])
    case ext2 => exact run_aux_push (absKS s pe) .glob .callable [] [s.cells.length] (by simp) (by simp [hn])
    case ext4 => exact run_aux_push (absKS s pe) .glob .callable [] [s.cells.length] (by simp) (by simp [hn])
    case stackGlobal =>
      match hs : s.stack with
      | [] => simp [prims, hs, PFV.process, proj, projStack, absKS]
      | [_] => simp [prims, hs, PFV.process, proj, projStack, absKS, stepKS]
      | a :: m :: t =>
        simp only [prims, hs, PFV.process, proj, projStack, List.map_cons]
        by_cases hk : kindOf s a = .string ∧ kindOf s m = .string
        · have hk' : (kindOf s a == Kind.string && kindOf s m == Kind.string) = true := by simp [hk.1, hk.2]
          have hk'' : (decide (kindOf s a = Kind.string) && decide (kindOf s m = Kind.string)) = true := by simp [hk.1, hk.2]
          simp only [hk', hk'', if_true, List.foldl_cons, List.foldl_nil]
          rw [stepKS_aux_ok _ _ _ (by simp), stepKS_push_ok _ _ _ (by simp [stepKS, hn])]
          simp [stepKS, absKS, proj, projStack, hs]
        · have hk' : (kindOf s a == Kind.string && kindOf s m == Kind.string) = false := by
            cases h1 : (kindOf s a == Kind.string) <;> cases h2 : (kindOf s m == Kind.string) <;> simp_all
          have hk'' : (decide (kindOf s a = Kind.string) && decide (kindOf s m = Kind.string)) = false := by
            cases h1 : decide (kindOf s a = Kind.string) <;> cases h2 : decide (kindOf s m = Kind.string) <;> simp_all
          simp [hk', hk'', stepKS, absKS, proj, projStack, hs]
    case reduce =>
      simp only [prims, PFV.process, proj, projStack, List.length_map]
      by_cases hl : s.stack.length < 2
      · simp [hl, absKS, proj, projStack]
      · simp only [hl, if_false]
        match hs : s.stack with
        | [] => simp [hs] at hl
        | [_] => simp [hs] at hl
        | args :: cal :: t =>
          have ha : args < s.cells.length := w1 args (by rw [hs]; simp)
          have hc : unwrapCallable s cal < s.cells.length := unwrap_lt s hw' cal (w1 cal (by rw [hs]; simp))
          simp only [List.foldl_cons, List.foldl_nil]
          rw [stepKS_push_ok _ _ _ (by intro c h; simp at h; rcases h with h | h <;> (rw [h]; assumption))]
          simp [stepKS, absKS, proj, projStack, hs]
    case newObj =>
      match hs : s.stack with
      | [] => simp [prims, hs, PFV.process, proj, projStack, absKS]
      | [_] => simp [prims, hs, PFV.process, proj, projStack, absKS, stepKS]
      | args :: cal :: t =>
        have ha : args < s.cells.length := w1 args (by rw [hs]; simp)
        have hc : unwrapCallable s cal < s.cells.length := unwrap_lt s hw' cal (w1 cal (by rw [hs]; simp))
        simp only [prims, hs, PFV.process, proj, projStack, List.map_cons, List.foldl_cons, List.foldl_nil]
        rw [stepKS_push_ok _ _ _ (by intro c h; simp at h; rcases h with h | h <;> (rw [h]; assumption))]
        simp [stepKS, absKS, proj, projStack, hs]
    case newObjEx =>
      match hs : s.stack with
      | [] => simp [prims, hs, PFV.process, proj, projStack, absKS, pops]
      | [_] => simp [prims, hs, PFV.process, proj, projStack, absKS, stepKS, pops]
      | [_, _] => simp [prims, hs, PFV.process, proj, projStack, absKS, stepKS, pops, List.replicate]
      | kw :: args :: cal :: t =>
        have ha : args < s.cells.length := w1 args (by rw [hs]; simp)
        have hc : unwrapCallable s cal < s.cells.length := unwrap_lt s hw' cal (w1 cal (by rw [hs]; simp))
        simp only [prims, hs, PFV.process, proj, projStack, List.map_cons, List.foldl_cons, List.foldl_nil]
        rw [stepKS_push_ok _ _ _ (by intro c h; simp at h; rcases h with h | h <;> (rw [h]; assumption))]
        simp [stepKS, absKS, proj, projStack, hs]
    case build =>
      simp only [prims, PFV.process, proj, projStack, List.length_map]
      by_cases hl : s.stack.length < 2
      · simp [hl, absKS, proj, projStack]
      · simp only [hl, if_false]
        match hs : s.stack with
        | [] => simp [hs] at hl
        | [_] => simp [hs] at hl
        | state :: inst :: t =>
          have hst : state < s.cells.length := w1 state (by rw [hs]; simp)
          have hkids : ∀ c ∈ kidsOf s inst, c < s.cells.length := fun c h => w3 inst c h
          simp only
          by_cases hk : kindOf s inst = .obj
          · simp only [hk, if_true, List.foldl_cons, List.foldl_nil]
            rw [stepKS_push_ok _ _ _ (by
              intro c h
              rcases List.mem_append.mp h with h | h
              · exact hkids c (List.mem_of_mem_take h)
              · simp at h; rw [h]; exact hst)]
            simp [stepKS, absKS, proj, projStack, hs, hk]
          · simp only [hk, if_false, List.foldl_cons, List.foldl_nil]
            rw [stepKS_push_ok _ _ _ (by intro c h; exact hkids c h)]
            simp [stepKS, absKS, proj, projStack, hs]
    case binPersID =>
      match hs : s.stack with
      | [] => simp [prims, hs, PFV.process, proj, projStack, absKS]
      | a :: t => simp [prims, hs, PFV.process, proj, projStack, absKS, stepKS]
    case proto => rfl
    case readOnlyBuffer => rfl
    case stop => rfl
    case frame => rfl
    case inst =>
      cases arg <;> simp only [prims, PFV.process, Bool.false_eq_true, if_false, if_true] <;>
        first
        | rfl
        | (refine (run_inst (absKS s pe) _ _ (by intro c hc; exact hitems c (List.mem_reverse.mp hc))).trans ?_
           rw [hstk, map_drop', hdrop]; rfl)
    case obj =>
      simp only [prims, PFV.process, proj, projStack]
      cases hsp : splitMark (s.stack.map (kindOf s)) with
      | some ab =>
        obtain ⟨a, b⟩ := ab
        rw [hsp] at hsplit
        obtain ⟨h1, h2⟩ := hsplit
        cases hrev : (toMark s s.stack).1.reverse with
        | nil =>
          have hit : (toMark s s.stack).1 = [] := by simpa using hrev
          have ha : a = [] := by rw [← h1, hit]; rfl
          simp only [run_pops, hstk, map_drop', h2, ha, List.isEmpty_nil, if_true]
          rfl
        | cons cls rest =>
          have hmem : ∀ c, c ∈ cls :: rest → c < (absKS s pe).n := by
            intro c hc; rw [← hrev] at hc; exact hitems c (List.mem_reverse.mp hc)
          have ha : a.isEmpty = false := by
            rw [← h1]
            have : (toMark s s.stack).1 ≠ [] := by intro h; rw [h] at hrev; simp at hrev
            cases hx : (toMark s s.stack).1 with
            | nil => exact absurd hx this
            | cons _ _ => rfl
          simp only
          refine (run_obj (absKS s pe) _ _ _ (hmem cls List.mem_cons_self) (fun c hc => hmem c (List.mem_cons_of_mem _ hc))).trans ?_
          rw [hstk, map_drop', h2]
          simp [ha, absKS, proj]
      | none =>
        rw [hsp] at hsplit
        obtain ⟨h1, h2⟩ := hsplit
        by_cases hemp : s.stack = []
        · simp [hemp, toMark, pops, absKS, proj, projStack]
        · cases hrev : (toMark s s.stack).1.reverse with
          | nil =>
            have hit : (toMark s s.stack).1 = [] := by simpa using hrev
            rw [h1] at hit; exact absurd hit hemp
          | cons cls rest =>
            have hmem : ∀ c, c ∈ cls :: rest → c < (absKS s pe).n := by
              intro c hc; rw [← hrev] at hc; exact hitems c (List.mem_reverse.mp hc)
            simp only
            refine (run_obj (absKS s pe) _ _ _ (hmem cls List.mem_cons_self) (fun c hc => hmem c (List.mem_cons_of_mem _ hc))).trans ?_
            rw [hstk, h2]
            simp [absKS, proj, hemp]
    case get =>
      simp only [prims, PFV.process]
      cases hm : memoIndexOf arg with
      | none => rfl
      | some i =>
        simp only [proj, projMemo, find_projMemo]
        cases hf : memoFind? s.memo i with
        | none => rfl
        | some c =>
          obtain ⟨q, hq, hqc⟩ := memoFind_mem _ _ _ hf
          simp only [Option.map_some, List.foldl_cons, List.foldl_nil]
          rw [stepKS_push_ok _ _ _ (by intro d hd; exact w3 c d hd)]
          rfl
    case binGet =>
      simp only [prims, PFV.process]
      cases hm : memoIndexOf arg with
      | none => rfl
      | some i =>
        simp only [proj, projMemo, find_projMemo]
        cases hf : memoFind? s.memo i with
        | none => rfl
        | some c =>
          obtain ⟨q, hq, hqc⟩ := memoFind_mem _ _ _ hf
          simp only [Option.map_some, List.foldl_cons, List.foldl_nil]
          rw [stepKS_push_ok _ _ _ (by intro d hd; exact w3 c d hd)]
          rfl
    case longBinGet =>
      simp only [prims, PFV.process]
      cases hm : memoIndexOf arg with
      | none => rfl
      | some i =>
        simp only [proj, projMemo, find_projMemo]
        cases hf : memoFind? s.memo i with
        | none => rfl
        | some c =>
          obtain ⟨q, hq, hqc⟩ := memoFind_mem _ _ _ hf
          simp only [Option.map_some, List.foldl_cons, List.foldl_nil]
          rw [stepKS_push_ok _ _ _ (by intro d hd; exact w3 c d hd)]
          rfl
    case put =>
      simp only [prims, PFV.process]
      cases hm : memoIndexOf arg with
      | none => rfl
      | some i =>
        match hs : s.stack with
        | [] => simp [proj, projStack, hs, absKS]
        | c :: t =>
          simp only [proj, projStack, List.map_cons]
          by_cases hk : kindOf s c = .mark
          · simp [hk, absKS, proj, projStack, hs]
          · simp only [hk, if_false, List.foldl_cons, List.foldl_nil]
            rw [stepKS_aux_ok _ _ _ (by intro d hd; exact w3 c d hd)]
            simp [stepKS, absKS, proj, projStack, projMemo, hs, upd, hk]
    case binPut =>
      simp only [prims, PFV.process]
      cases hm : memoIndexOf arg with
      | none => rfl
      | some i =>
        match hs : s.stack with
        | [] => simp [proj, projStack, hs, absKS]
        | c :: t =>
          simp only [proj, projStack, List.map_cons]
          by_cases hk : kindOf s c = .mark
          · simp [hk, absKS, proj, projStack, hs]
          · simp only [hk, if_false, List.foldl_cons, List.foldl_nil]
            rw [stepKS_aux_ok _ _ _ (by intro d hd; exact w3 c d hd)]
            simp [stepKS, absKS, proj, projStack, projMemo, hs, upd, hk]
    case longBinPut =>
      simp only [prims, PFV.process]
      cases hm : memoIndexOf arg with
      | none => rfl
      | some i =>
        match hs : s.stack with
        | [] => simp [proj, projStack, hs, absKS]
        | c :: t =>
          simp only [proj, projStack, List.map_cons]
          by_cases hk : kindOf s c = .mark
          · simp [hk, absKS, proj, projStack, hs]
          · simp only [hk, if_false, List.foldl_cons, List.foldl_nil]
            rw [stepKS_aux_ok _ _ _ (by intro d hd; exact w3 c d hd)]
            simp [stepKS, absKS, proj, projStack, projMemo, hs, upd, hk]
    case memoize =>
      match hs : s.stack with
      | [] => simp [prims, hs, PFV.process, proj, projStack, absKS]
      | c :: t =>
        simp only [prims, hs, PFV.process, proj, projStack, List.map_cons, List.foldl_cons, List.foldl_nil]
        have hkids : ∀ d ∈ kidsOf s c, d < (absKS s pe).n := fun d hd => w3 c d hd
        refine (run_memoize (absKS s pe) _ _ _ hkids).trans ?_
        simp [absKS, proj, projStack, projMemo, hs]


/-- **the object-level model refines the simulated VM of `Sim.lean`** (one opcode) -/
theorem proj_process (ver : Nat) (s : OS) (hw : WF s) (op : Op) (arg : Arg) (pe : Bool) :
    WF (Obj.process ver s op arg) ∧ proj (Obj.process ver s op arg) pe = PFV.process ver (proj s pe) op arg := by
  obtain ⟨h1, h2⟩ := abs_applyPrims (prims ver s op arg) s hw pe
  refine ⟨h1, ?_⟩
  have h3 := congrArg KS.st h2
  exact h3.trans (sim_prims ver s hw op arg pe)

theorem wf_init : WF {} := by
  refine ⟨?_, ?_, ?_⟩
  · intro c hc; cases hc
  · intro p hp; cases hp
  · intro c k hk; simp [kidsOf] at hk

/-- … and every run of it, from the empty state -/
theorem proj_run (ver : Nat) (is : List Instr) (pe : Bool) :
    WF (run ver is) ∧
    proj (run ver is) pe = is.foldl (fun st i => PFV.process ver st i.op i.arg) { protoEmitted := pe } := by
  suffices h : ∀ (is : List Instr) (s : OS), WF s →
      WF (is.foldl (fun s i => Obj.process ver s i.op i.arg) s) ∧
      proj (is.foldl (fun s i => Obj.process ver s i.op i.arg) s) pe =
        is.foldl (fun st i => PFV.process ver st i.op i.arg) (proj s pe) from h is {} wf_init
  intro is
  induction is with
  | nil => intro s hw; exact ⟨hw, rfl⟩
  | cons i t ih =>
    intro s hw
    obtain ⟨h1, h2⟩ := proj_process ver s hw i.op i.arg pe
    obtain ⟨h3, h4⟩ := ih _ h1
    simp only [List.foldl_cons]
    exact ⟨h3, by rw [h4, h2]⟩


/-- `stepKS` only ever assigns a kind to the *new* cell -/
theorem stepKS_kc_stable (x : KS) (p : Prim) (c : Nat) (hc : c < x.n) :
    (stepKS x p).kc c = x.kc c ∧ x.n ≤ (stepKS x p).n := by
  cases p with
  | push k ks =>
    simp only [stepKS]; split
    · exact ⟨by simp [upd, Nat.ne_of_lt hc], Nat.le_succ _⟩
    · exact ⟨rfl, Nat.le_refl _⟩
  | aux k ks =>
    simp only [stepKS]; split
    · exact ⟨by simp [upd, Nat.ne_of_lt hc], Nat.le_succ _⟩
    · exact ⟨rfl, Nat.le_refl _⟩
  | dup => simp only [stepKS]; split <;> exact ⟨rfl, Nat.le_refl _⟩
  | pop => exact ⟨rfl, Nat.le_refl _⟩
  | setKids i ks => exact ⟨rfl, Nat.le_refl _⟩
  | memoPut key d => simp only [stepKS]; split <;> exact ⟨rfl, Nat.le_refl _⟩

theorem foldl_kc_stable (ps : List Prim) : ∀ (x : KS) (c : Nat), c < x.n →
    (ps.foldl stepKS x).kc c = x.kc c ∧ x.n ≤ (ps.foldl stepKS x).n := by
  induction ps with
  | nil => intro x c _; exact ⟨rfl, Nat.le_refl _⟩
  | cons p t ih =>
    intro x c hc
    obtain ⟨h1, h2⟩ := stepKS_kc_stable x p c hc
    obtain ⟨h3, h4⟩ := ih (stepKS x p) c (Nat.lt_of_lt_of_le hc h2)
    simp only [List.foldl_cons]
    exact ⟨by rw [h3, h1], Nat.le_trans h2 h4⟩

/-- **no opcode ever changes the variant of an existing cell** (in-place mutation — APPEND(S), SETITEM(S), ADDITEMS,
BUILD — changes what a cell holds, never what it is), and cells are never removed -/
theorem kind_stable (ver : Nat) (s : OS) (hw : WF s) (op : Op) (arg : Arg) (c : Nat) (hc : c < s.cells.length) :
    kindOf (Obj.process ver s op arg) c = kindOf s c ∧ s.cells.length ≤ (Obj.process ver s op arg).cells.length := by
  obtain ⟨_, h2⟩ := abs_applyPrims (prims ver s op arg) s hw false
  obtain ⟨h3, h4⟩ := foldl_kc_stable (prims ver s op arg) (absKS s false) c hc
  have hk : (absKS (applyPrims s (prims ver s op arg)) false).kc c = (absKS s false).kc c := by rw [h2]; exact h3
  have hn : (absKS s false).n ≤ (absKS (applyPrims s (prims ver s op arg)) false).n := by rw [h2]; exact h4
  exact ⟨hk, hn⟩

end Obj
end PFV
