/-
The object-level model (`Obj.lean`) projected to slot kinds is the simulated VM of `Sim.lean`:
`proj (Obj.process ver s op arg) = process ver (proj s) op arg` for every well-formed object state, every
opcode and every argument.  Route: every primitive acts on the kind-level abstraction `KS` (slot kinds, memo
kinds, number of cells, kind of every cell) as `stepKS` does (`abs_applyPrim`, proved once); per opcode it
then remains to run `stepKS` over the short program `prims` yields and compare with `process`.
-/
import PFV.Obj
namespace PFV
namespace Obj

/-- ids on the stack, in the memo and inside cells name existing cells -/
def WF (s : OS) : Prop :=
  (∀ c ∈ s.stack, c < s.cells.length) ∧ (∀ p ∈ s.memo, p.2 < s.cells.length) ∧
  (∀ c k, k ∈ kidsOf s c → k < s.cells.length)

def proj (s : OS) (pe : Bool) : State := { stack := projStack s, memo := projMemo s, protoEmitted := pe }

def upd (kc : Nat → Kind) (n : Nat) (k : Kind) : Nat → Kind := fun c => if c = n then k else kc c

/-- what the kind level sees of an object state -/
structure KS where
  st : State
  n : Nat
  kc : Nat → Kind

def stepKS (x : KS) : Prim → KS
  | .push k ks => if ks.all (· < x.n) then
      { st := { x.st with stack := k :: x.st.stack }, n := x.n + 1, kc := upd x.kc x.n k } else x
  | .aux k ks => if ks.all (· < x.n) then { x with n := x.n + 1, kc := upd x.kc x.n k } else x
  | .dup => match x.st.stack with
    | [] => x
    | k :: _ => { x with st := { x.st with stack := k :: x.st.stack } }
  | .pop => { x with st := { x.st with stack := x.st.stack.drop 1 } }
  | .setKids _ _ => x
  | .memoPut key c => if c < x.n then { x with st := { x.st with memo := Memo.insert x.st.memo key (x.kc c) } } else x

def absKS (s : OS) (pe : Bool) : KS := { st := proj s pe, n := s.cells.length, kc := kindOf s }

theorem kindOf_snoc (cells : List Cell) (x : Cell) (st : List Nat) (m : List (Nat × Nat)) :
    kindOf ⟨cells ++ [x], st, m⟩ = upd (kindOf ⟨cells, st, m⟩) cells.length x.kind := by
  funext c
  simp only [kindOf, upd]
  rcases Nat.lt_trichotomy c cells.length with h | h | h
  · simp [List.getElem?_append_left h, Nat.ne_of_lt h]
  · subst h; simp
  · have h1 : ¬ c = cells.length := by omega
    have h2 : cells.length ≤ c := by omega
    have h3 : (cells ++ [x]).length ≤ c := by simp; omega
    simp [h1, List.getElem?_eq_none h2, List.getElem?_eq_none h3]

theorem kidsOf_snoc_lt (cells : List Cell) (x : Cell) (st st' : List Nat) (m m' : List (Nat × Nat)) (c : Nat)
    (h : c < cells.length) : kidsOf ⟨cells ++ [x], st, m⟩ c = kidsOf ⟨cells, st', m'⟩ c := by
  simp [kidsOf, List.getElem?_append_left h]

theorem kidsOf_snoc_ge (cells : List Cell) (x : Cell) (st : List Nat) (m : List (Nat × Nat)) (c k : Nat)
    (h : k ∈ kidsOf ⟨cells ++ [x], st, m⟩ c) (hc : cells.length ≤ c) : k ∈ x.kids := by
  simp only [kidsOf] at h
  rcases Nat.lt_or_ge cells.length c with h1 | h1
  · have : (cells ++ [x]).length ≤ c := by simp; omega
    simp [List.getElem?_eq_none this] at h
  · have : c = cells.length := by omega
    subst this
    simpa using h

theorem length_setCellKids (cells : List Cell) (c : Nat) (ks : List Nat) : (setCellKids cells c ks).length = cells.length := by
  simp only [setCellKids]; split <;> simp

theorem getElem?_setCellKids (cells : List Cell) (c : Nat) (ks : List Nat) (d : Nat) :
    (setCellKids cells c ks)[d]? = if c = d then (cells[c]?).map (fun x => { x with kids := ks }) else cells[d]? := by
  simp only [setCellKids]
  cases hx : cells[c]? with
  | none =>
    by_cases hcd : c = d
    · subst hcd; simp [hx]
    · simp [hcd]
  | some x =>
    have hl : c < cells.length := by
      rcases Nat.lt_or_ge c cells.length with h | h
      · exact h
      · simp [List.getElem?_eq_none h] at hx
    by_cases hcd : c = d
    · subst hcd; simp [List.getElem?_set_self hl]
    · simp [hcd, List.getElem?_set_ne hcd]

theorem kindOf_setCellKids (cells : List Cell) (c : Nat) (ks : List Nat) (st st' : List Nat) (m m' : List (Nat × Nat)) :
    kindOf ⟨setCellKids cells c ks, st, m⟩ = kindOf ⟨cells, st', m'⟩ := by
  funext d
  simp only [kindOf, getElem?_setCellKids]
  by_cases hcd : c = d
  · subst hcd
    cases cells[c]? <;> simp
  · simp [hcd]

theorem kidsOf_setCellKids (cells : List Cell) (c : Nat) (ks : List Nat) (st st' : List Nat) (m m' : List (Nat × Nat)) (d k : Nat)
    (h : k ∈ kidsOf ⟨setCellKids cells c ks, st, m⟩ d) : k ∈ ks ∨ k ∈ kidsOf ⟨cells, st', m'⟩ d := by
  simp only [kidsOf, getElem?_setCellKids] at h ⊢
  by_cases hcd : c = d
  · subst hcd
    cases hx : cells[c]? with
    | none => simp [hx] at h
    | some x => simp [hx] at h; exact Or.inl h
  · simp only [hcd, if_false] at h; exact Or.inr h

theorem all_lt_of_okKids {s : OS} {ks : List Nat} (h : okKids s ks = true) : ∀ k ∈ ks, k < s.cells.length := by
  intro k hk
  have := List.all_eq_true.mp h k hk
  simpa using this

theorem map_upd_of_lt (kc : Nat → Kind) (n : Nat) (k : Kind) (l : List Nat) (h : ∀ c ∈ l, c < n) :
    l.map (upd kc n k) = l.map kc := by
  apply List.map_congr_left
  intro c hc
  have := h c hc
  simp [upd, Nat.ne_of_lt this]

theorem memo_map_upd_of_lt (kc : Nat → Kind) (n : Nat) (k : Kind) (m : List (Nat × Nat)) (h : ∀ p ∈ m, p.2 < n) :
    m.map (fun p => (p.1, upd kc n k p.2)) = m.map (fun p => (p.1, kc p.2)) := by
  apply List.map_congr_left
  intro p hp
  have := h p hp
  simp [upd, Nat.ne_of_lt this]

theorem projMemo_insert (kc : Nat → Kind) (m : List (Nat × Nat)) (key c : Nat) :
    (memoInsert m key c).map (fun p => (p.1, kc p.2)) = Memo.insert (m.map (fun p => (p.1, kc p.2))) key (kc c) := by
  induction m with
  | nil => simp [memoInsert, Memo.insert]
  | cons a t ih =>
    obtain ⟨j, d⟩ := a
    simp only [memoInsert, List.map_cons, Memo.insert]
    split
    · simp
    · simp [ih]

theorem mem_memoInsert (m : List (Nat × Nat)) (key c : Nat) (p : Nat × Nat) (h : p ∈ memoInsert m key c) :
    p.2 = c ∨ p ∈ m := by
  induction m with
  | nil => simp [memoInsert] at h; exact Or.inl (by rw [h])
  | cons a t ih =>
    obtain ⟨j, d⟩ := a
    simp only [memoInsert] at h
    split at h
    · rcases List.mem_cons.mp h with h | h
      · exact Or.inl (by rw [h])
      · exact Or.inr (List.mem_cons_of_mem _ h)
    · rcases List.mem_cons.mp h with h | h
      · exact Or.inr (by rw [h]; exact List.mem_cons_self)
      · rcases ih h with h | h
        · exact Or.inl h
        · exact Or.inr (List.mem_cons_of_mem _ h)

theorem wf_snoc (s : OS) (hw : WF s) (x : Cell) (hks : ∀ k ∈ x.kids, k < s.cells.length) (st : List Nat)
    (hst : ∀ c ∈ st, c < s.cells.length + 1) : WF ⟨s.cells ++ [x], st, s.memo⟩ := by
  obtain ⟨_, w2, w3⟩ := hw
  refine ⟨?_, ?_, ?_⟩
  · intro c hc
    simp only [List.length_append, List.length_cons, List.length_nil]
    exact hst c hc
  · intro p hp
    simp only [List.length_append, List.length_cons, List.length_nil]
    have := w2 p hp; omega
  · intro c d hd
    simp only [List.length_append, List.length_cons, List.length_nil]
    rcases Nat.lt_or_ge c s.cells.length with h | h
    · rw [kidsOf_snoc_lt _ _ _ s.stack _ s.memo c h] at hd
      have := w3 c d hd; omega
    · have := kidsOf_snoc_ge _ _ _ _ _ _ hd h
      have := hks d this; omega

/-- one primitive: well-formedness is kept and the kind-level abstraction moves by `stepKS` -/
theorem abs_applyPrim (s : OS) (hw : WF s) (p : Prim) (pe : Bool) :
    WF (applyPrim s p) ∧ absKS (applyPrim s p) pe = stepKS (absKS s pe) p := by
  have hw' := hw
  obtain ⟨w1, w2, w3⟩ := hw
  have hk0 : ∀ st m, kindOf ⟨s.cells, st, m⟩ = kindOf s := fun _ _ => rfl
  cases p with
  | push k ks =>
    by_cases hok : okKids s ks = true
    · have hks := all_lt_of_okKids (s := s) hok
      have hok' : (ks.all fun x => decide (x < (absKS s pe).n)) = true := hok
      simp only [applyPrim, stepKS, hok, hok', if_true]
      refine ⟨wf_snoc s hw' _ hks _ ?_, ?_⟩
      · intro c hc
        rcases List.mem_cons.mp hc with h | h
        · omega
        · have := w1 c h; omega
      · simp only [absKS, proj, projStack, projMemo, kindOf_snoc, List.map_cons, List.length_append, List.length_cons,
          List.length_nil, hk0]
        rw [map_upd_of_lt _ _ _ _ w1, memo_map_upd_of_lt _ _ _ _ w2]
        simp [upd]
    · have hok' : ¬ (ks.all fun x => decide (x < (absKS s pe).n)) = true := hok
      simp only [applyPrim, stepKS, hok, hok', Bool.false_eq_true, if_false]
      exact ⟨hw', trivial⟩
  | aux k ks =>
    by_cases hok : okKids s ks = true
    · have hks := all_lt_of_okKids (s := s) hok
      have hok' : (ks.all fun x => decide (x < (absKS s pe).n)) = true := hok
      simp only [applyPrim, stepKS, hok, hok', if_true]
      refine ⟨wf_snoc s hw' _ hks _ (fun c hc => by have := w1 c hc; omega), ?_⟩
      simp only [absKS, proj, projStack, projMemo, kindOf_snoc, List.length_append, List.length_cons,
          List.length_nil, hk0]
      rw [map_upd_of_lt _ _ _ _ w1, memo_map_upd_of_lt _ _ _ _ w2]
    · have hok' : ¬ (ks.all fun x => decide (x < (absKS s pe).n)) = true := hok
      simp only [applyPrim, stepKS, hok, hok', Bool.false_eq_true, if_false]
      exact ⟨hw', trivial⟩
  | dup =>
    cases hs : s.stack with
    | nil =>
      have e : applyPrim s .dup = s := by simp [applyPrim, hs]
      have e2 : stepKS (absKS s pe) .dup = absKS s pe := by simp [stepKS, absKS, proj, projStack, hs]
      rw [e, e2]; exact ⟨hw', rfl⟩
    | cons c t =>
      have e : applyPrim s .dup = { s with stack := c :: s.stack } := by simp [applyPrim, hs]
      have e2 : stepKS (absKS s pe) .dup =
          { absKS s pe with st := { (absKS s pe).st with stack := kindOf s c :: (absKS s pe).st.stack } } := by
        simp [stepKS, absKS, proj, projStack, hs]
      rw [e, e2]
      refine ⟨⟨?_, w2, w3⟩, rfl⟩
      intro d hd
      have hc : c < s.cells.length := w1 c (by rw [hs]; exact List.mem_cons_self)
      rcases List.mem_cons.mp hd with h | h
      · rw [h]; exact hc
      · exact w1 d h
  | pop =>
    refine ⟨⟨fun c hc => w1 c (List.mem_of_mem_drop hc), w2, w3⟩, ?_⟩
    simp only [applyPrim, stepKS, absKS, proj, projStack, projMemo, hk0, List.map_drop]
  | setKids i ks =>
    simp only [applyPrim, stepKS]
    cases hc : s.stack[i]? with
    | none => exact ⟨hw', rfl⟩
    | some c =>
      by_cases hok : okKids s ks = true
      · have hks := all_lt_of_okKids (s := s) hok
        simp only [hok, if_true]
        refine ⟨⟨?_, ?_, ?_⟩, ?_⟩
        · intro d hd; simp only [length_setCellKids]; exact w1 d hd
        · intro p hp; simp only [length_setCellKids]; exact w2 p hp
        · intro d k hk
          simp only [length_setCellKids]
          rcases kidsOf_setCellKids _ _ _ _ s.stack _ s.memo _ _ hk with h | h
          · exact hks k h
          · exact w3 d k h
        · simp only [absKS, proj, projStack, projMemo, length_setCellKids]
          rw [kindOf_setCellKids _ _ _ _ s.stack _ s.memo]
      · simp only [hok, Bool.false_eq_true, if_false]
        exact ⟨hw', trivial⟩
  | memoPut key c =>
    by_cases hlt : c < s.cells.length
    · have hlt' : c < (absKS s pe).n := hlt
      simp only [applyPrim, stepKS, hlt, hlt', if_true]
      refine ⟨⟨w1, ?_, w3⟩, ?_⟩
      · intro p hp
        rcases mem_memoInsert _ _ _ _ hp with h | h
        · rw [h]; exact hlt
        · exact w2 p h
      · simp only [absKS, proj, projStack, projMemo, hk0, projMemo_insert]
    · have hlt' : ¬ c < (absKS s pe).n := hlt
      simp only [applyPrim, stepKS, hlt, hlt', if_false]
      exact ⟨hw', trivial⟩

theorem abs_applyPrims (ps : List Prim) : ∀ (s : OS), WF s → ∀ pe,
    WF (applyPrims s ps) ∧ absKS (applyPrims s ps) pe = ps.foldl stepKS (absKS s pe) := by
  induction ps with
  | nil => intro s hw pe; exact ⟨hw, rfl⟩
  | cons p t ih =>
    intro s hw pe
    obtain ⟨h1, h2⟩ := abs_applyPrim s hw p pe
    obtain ⟨h3, h4⟩ := ih (applyPrim s p) h1 pe
    simp only [applyPrims, List.foldl_cons] at h3 h4 ⊢
    exact ⟨h3, by rw [h4, h2]⟩


/-! ### running `stepKS` over the programs `prims` yields -/

theorem foldl_pops (k : Nat) : ∀ (x : KS), (pops k).foldl stepKS x = { x with st := { x.st with stack := x.st.stack.drop k } } := by
  induction k with
  | zero => intro x; simp [pops]
  | succ k ih =>
    intro x
    have : pops (k + 1) = Prim.pop :: pops k := by simp [pops, List.replicate_succ]
    rw [this, List.foldl_cons, ih]
    simp [stepKS, List.drop_drop, Nat.add_comm]

theorem stepKS_push_ok (x : KS) (k : Kind) (ks : List Nat) (h : ∀ c ∈ ks, c < x.n) :
    stepKS x (.push k ks) = { st := { x.st with stack := k :: x.st.stack }, n := x.n + 1, kc := upd x.kc x.n k } := by
  have : (ks.all fun c => decide (c < x.n)) = true := List.all_eq_true.mpr (fun c hc => by simpa using h c hc)
  simp [stepKS, this]

theorem stepKS_aux_ok (x : KS) (k : Kind) (ks : List Nat) (h : ∀ c ∈ ks, c < x.n) :
    stepKS x (.aux k ks) = { x with n := x.n + 1, kc := upd x.kc x.n k } := by
  have : (ks.all fun c => decide (c < x.n)) = true := List.all_eq_true.mpr (fun c hc => by simpa using h c hc)
  simp [stepKS, this]

/-- `toMark` on cells against `splitMark` on their kinds -/
theorem toMark_split (s : OS) : ∀ (l : List Nat),
    match splitMark (l.map (kindOf s)) with
    | some (a, b) => (toMark s l).1.map (kindOf s) = a ∧ (l.drop (toMark s l).2).map (kindOf s) = b
    | none => (toMark s l).1 = l ∧ (toMark s l).2 = l.length := by
  intro l
  induction l with
  | nil => simp [splitMark, toMark]
  | cons c t ih =>
    simp only [List.map_cons, splitMark, toMark]
    by_cases hm : kindOf s c = .mark
    · simp [hm]
    · simp only [hm, if_false]
      cases hsp : splitMark (t.map (kindOf s)) with
      | none => rw [hsp] at ih; simp [ih.1, ih.2]
      | some ab => obtain ⟨a, b⟩ := ab; rw [hsp] at ih; simp [ih.1, ih.2]

theorem toMark_mem (s : OS) : ∀ (l : List Nat), ∀ c ∈ (toMark s l).1, c ∈ l := by
  intro l
  induction l with
  | nil => simp [toMark]
  | cons d t ih =>
    intro c hc
    simp only [toMark] at hc
    split at hc
    · simp at hc
    · rcases List.mem_cons.mp hc with h | h
      · rw [h]; exact List.mem_cons_self
      · exact List.mem_cons_of_mem _ (ih c h)

theorem toMark_drop (s : OS) (l : List Nat) :
    (l.drop (toMark s l).2).map (kindOf s) = popToMark (l.map (kindOf s)) := by
  have := toMark_split s l
  simp only [popToMark]
  cases hsp : splitMark (l.map (kindOf s)) with
  | none => rw [hsp] at this; simp [this.2]
  | some ab => obtain ⟨a, b⟩ := ab; rw [hsp] at this; simp [this.2]

/-- the `DICT` / `SETITEMS` loop on cells against `dictPop` on their kinds -/
theorem dictPairs_drop (s : OS) : ∀ (n : Nat) (l : List Nat), l.length ≤ n →
    (l.drop (dictPairs s l).2).map (kindOf s) = dictPop (l.map (kindOf s)) := by
  intro n
  induction n with
  | zero => intro l hl; cases l <;> simp_all [dictPairs, dictPop]
  | succ n ih =>
    intro l hl
    match l with
    | [] => simp [dictPairs, dictPop]
    | [v] =>
      simp only [dictPairs, List.map_cons, List.map_nil, dictPop]
      by_cases hm : kindOf s v = .mark <;> simp [hm]
    | v :: k :: t =>
      simp only [dictPairs, List.map_cons, dictPop]
      by_cases hm : kindOf s v = .mark
      · simp [hm]
      · simp only [hm, if_false]
        have := ih t (by simp at hl; omega)
        simpa using this

theorem dictPairs_mem (s : OS) : ∀ (n : Nat) (l : List Nat), l.length ≤ n →
    ∀ p ∈ (dictPairs s l).1, p.1 ∈ l ∧ p.2 ∈ l := by
  intro n
  induction n with
  | zero => intro l hl; cases l <;> simp_all [dictPairs]
  | succ n ih =>
    intro l hl
    match l with
    | [] => simp [dictPairs]
    | [v] => simp only [dictPairs]; split <;> simp
    | v :: k :: t =>
      simp only [dictPairs]
      split
      · simp
      · intro p hp
        rcases List.mem_cons.mp hp with h | h
        · rw [h]; simp
        · have := ih t (by simp at hl; omega) p h
          exact ⟨List.mem_cons_of_mem _ (List.mem_cons_of_mem _ this.1), List.mem_cons_of_mem _ (List.mem_cons_of_mem _ this.2)⟩

end Obj
end PFV
