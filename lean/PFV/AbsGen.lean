/-
The generator as a set of runs ("abstract generator"): every opcode choice and every argument
the emitter could make is allowed, so a statement about all runs covers every entropy source.
`Gen.lean` (the exact, entropy-driven model) is shown to produce only such runs.
-/
import PFV.Sim
namespace PFV

def needsArg (op : Op) : Bool :=
  op == .binInt || op == .binInt1 || op == .binInt2 || op == .long1 || op == .long4 ||
  op == .binFloat || op == .glob || op == .inst || op == .persID

def isGetFam (op : Op) : Bool := op == .get || op == .binGet || op == .longBinGet
def isPutFam (op : Op) : Bool := op == .put || op == .binPut || op == .longBinPut

/-- arguments the emitter hands to `process_stack_ops` in safe mode (`emission.rs`):
GET-family indices name an existing key (a mutated index is kept only if it exists),
PUT-family indices are the memo size, argument-carrying opcodes carry their argument. -/
def argOK (s : State) (op : Op) (a : Arg) : Bool :=
  if isGetFam op then (match a with | .nat i => Memo.has s.memo i | _ => false)
  else if isPutFam op then a == .nat s.memo.length
  else if needsArg op then a != .none
  else true

/-- the body of a generation: guarded steps over the protocol's table -/
inductive Body (c : Cfg) (table : List Op) : State → List Instr → State → Prop
  | nil {s} : Body c table s [] s
  | step {s op a is s'} :
      op ∈ table → canEmit c s op = true → argOK s op a = true →
      Body c table (process c.version s op a) is s' →
      Body c table s (⟨op, a⟩ :: is) s'

def protoInstr (v : Nat) : Instr := ⟨.proto, .nat v⟩
def stopInstr : Instr := ⟨.stop, .none⟩
def plain (ops : List Op) : List Instr := ops.map (fun o => ⟨o, .none⟩)

/-- PROTO for protocol ≥ 2, then optionally FRAME (protocol ≥ 4) with any length argument -/
def header (v : Nat) (frame : Option Nat) : List Instr :=
  (if v ≥ 2 then [protoInstr v] else []) ++
  (match frame with | some n => [⟨.frame, .nat n⟩] | none => [])

def initState (v : Nat) : State := { protoEmitted := decide (v ≥ 2) }

/-- a whole run: header, body, collapse tail, STOP -/
structure Run (c : Cfg) (table : List Op) (is : List Instr) : Prop where
  run : ∃ (frame : Option Nat) (body : List Instr) (s' : State),
    (frame.isSome → c.version ≥ 4) ∧
    Body c table (initState c.version) body s' ∧
    is = header c.version frame ++ body ++ plain (cleanup c.version s').2 ++ [stopInstr]

end PFV
