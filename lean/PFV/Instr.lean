/-
Instructions as the reference lexer produces them and as the model's encoders consume them.
No imports outside the project.
-/
import PFV.Op
namespace PFV

/-- Decoded argument of one opcode. Payload-carrying forms keep the raw payload so that the
encoding of an instruction is determined by it. -/
inductive Arg
  | none
  | int (v : Int)                 -- INT (not 00/01), LONG, BININT, BININT1, BININT2, EXT4 (signed int4)
  | bool (b : Bool)               -- INT 00 / INT 01
  | nat (n : Nat)                 -- GET/PUT family, PROTO, EXT1, EXT2, FRAME
  | bytes (p : List UInt8)        -- length-prefixed payloads; LONG1/LONG4 payload; raw STRING/UNICODE/PERSID/FLOAT line (without `\n`)
  | float (bits : UInt64)         -- BINFLOAT
  | pair (m n : List UInt8)       -- GLOBAL / INST: two lines
  deriving DecidableEq, Repr, Inhabited

structure Instr where
  op : Op
  arg : Arg
  deriving DecidableEq, Repr, Inhabited

/-- Mutators as the generator holds them (`MemoIndexMutator` and `TypeConfusionMutator` carry
their own `unsafe_mode`, set at construction). -/
inductive Mut
  | bitflip | boundary | offbyone | stringlen | character
  | memoindex (unsafeMode : Bool) | typeconfusion (unsafeMode : Bool)
  deriving DecidableEq, Repr, Inhabited

/-- Generator configuration = the public fields of `Generator` that survive `reset`
(`src/generator/mod.rs`). `rateBits` is the IEEE-754 bit pattern of `mutation_rate`. -/
structure Cfg where
  version : Nat
  minOps : Nat := 60
  maxOps : Nat := 300
  mutators : List Mut := []
  rateBits : UInt64 := 0x3FB999999999999A
  unsafeMut : Bool := false
  allowExt : Bool := false
  allowBuf : Bool := false
  deriving Repr, Inhabited

end PFV
