/-
What each byte-level property demands of one output, as executable predicates over the lexed
instruction list.  The theorems in `Properties.lean` are stated with these, and the driver
evaluates the very same definitions on the implementation's real outputs (the oracle).
-/
import PFV.Lex
import PFV.Ref
namespace PFV
namespace Spec

def isExt (o : Op) : Bool := o == .ext1 || o == .ext2 || o == .ext4
def isBuffer (o : Op) : Bool := o == .nextBuffer || o == .readOnlyBuffer

/-- C04: the bytes decode completely (known opcodes, complete arguments in their prescribed
encoding, one STOP, last) and every argument is inside its domain. -/
def wellFormed (out : List UInt8) : Bool :=
  match Lex.lex out with
  | .ok is => is.all Lex.domainOk
  | .error _ => false

/-- C01: the reference stack emulation accepts the whole list (incl. the STOP rule). -/
def stackOk (is : List Instr) : Bool :=
  match Ref.run {} is with
  | .ok _ => true
  | .error _ => false

/-- C02: no memo violation is recorded (vacuous if the stack emulation aborts: that is C01's). -/
def memoOk (is : List Instr) : Bool :=
  match Ref.run {} is with
  | .ok (_, v) => v.all (fun x => !x.isMemo)
  | .error _ => true

/-- C03: no operand-kind violation is recorded. -/
def typedOk (is : List Instr) : Bool :=
  match Ref.run {} is with
  | .ok (_, v) => v.all (fun x => x.isMemo)
  | .error _ => true

/-- C05 (1): only opcodes introduced in protocol ≤ P. -/
def opsInProto (p : Nat) (is : List Instr) : Bool := is.all (fun i => Lex.introduced i.op ≤ p)

/-- C05 (2): exactly one PROTO, first, with argument P, for P ≥ 2; none for P < 2. -/
def headerOk (p : Nat) (is : List Instr) : Bool :=
  if p ≥ 2 then
    match is with
    | i :: rest => i.op == .proto && i.arg == .nat p && rest.all (fun j => j.op != .proto)
    | [] => false
  else is.all (fun j => j.op != .proto)

/-- C05 (3): protocol 0 output is 7-bit. -/
def asciiOk (p : Nat) (out : List UInt8) : Bool := p != 0 || out.all (· < 0x80)

/-- C06: for P ≥ 4 at most one FRAME; if present it is the second instruction, right after
PROTO, and its argument is the number of bytes that follow its 8-byte argument; for P < 4 no FRAME. -/
def frameOk (p : Nat) (out : List UInt8) (is : List Instr) : Bool :=
  let frames := is.filter (fun i => i.op == .frame)
  if p < 4 then frames.isEmpty
  else match frames with
    | [] => true
    | [f] => (match is with
        | _ :: g :: _ => g.op == .frame && f.arg == .nat (out.length - 11)
        | _ => false) && out.length ≥ 11
    | _ => false

/-- C10 -/
def optinOk (allowExt allowBuf : Bool) (is : List Instr) : Bool :=
  (allowExt || is.all (fun i => !isExt i.op)) && (allowBuf || is.all (fun i => !isBuffer i.op))

/-- C11 (decoded length): min+1 ≤ |instrs| ≤ 3·max(min,max)+4 -/
def countOk (mn mx : Nat) (is : List Instr) : Bool :=
  mn + 1 ≤ is.length && is.length ≤ 3 * (max mn mx) + 4

/-- the hypothesis `ModsOK` of the end-to-end C04 theorem, as a check the driver runs on the module
list it loads from `/repo/data/stdlib_complete.txt`: module and attribute names are newline-free and
valid `escape_decode` + ASCII text -/
def modsOk (mods : List (List UInt8 × List UInt8)) : Bool :=
  mods.all fun p => !p.1.contains (0x0a : UInt8) && !p.2.contains (0x0a : UInt8) && Lex.escapeAsciiOk p.1 && Lex.escapeAsciiOk p.2

/-- the hypothesis `FloatOK`, on one formatted float: newline-free and accepted by the FLOAT reader -/
def floatOk (t : List UInt8) : Bool := !t.contains (0x0a : UInt8) && Lex.pyFloatOk t && t.all (· < 0x80)

end Spec
end PFV
