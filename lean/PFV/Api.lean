/-
L7 — the generator *object* (`src/generator/mod.rs`): configuration plus scratch state that
persists between calls (`state`, `output`), `reset()`, and the two public generation calls.
`generate_internal` begins with `self.reset()` (commit b6d776c); the pre-repair behaviour is kept
as `Legacy.generateOn` with the proof that it violates C08.
-/
import PFV.Gen
namespace PFV
namespace Api
open G

/-- scratch state of a `Generator` between calls -/
structure Scratch where
  sim : State
  out : List Instr          -- instructions still sitting in `self.output`
  deriving Inhabited

structure Obj where
  cfg : Cfg
  scratch : Scratch

def fresh (c : Cfg) : Obj := { cfg := c, scratch := { sim := initState c.version, out := [] } }

/-- `Generator::reset` -/
def reset (o : Obj) : Obj := { o with scratch := { sim := { stack := [], memo := [], protoEmitted := false }, out := [] } }

variable {σ : Type} (E : Entropy σ) (X : Ext)

/-- one generation call on an object: `reset()` first, then `generate_internal`'s body; the scratch
state left behind is whatever the call ended with -/
def generateOn (o : Obj) (s : σ) : Except Panic (List UInt8 × Obj × σ) :=
  let o := reset o
  match generate E X o.cfg s with
  | .error e => .error e
  | .ok (r, s') => .ok (r.bytes, { o with scratch := { sim := r.sim, out := r.instrs.reverse } }, s')

inductive Call (σ : Type)
  | gen (input : σ)          -- `generate()` / `generate_from_arbitrary(x)`: the entropy state it starts from
  | reset

/-- run a history of calls; returns the object afterwards -/
def runHistory (o : Obj) : List (Call σ) → Obj
  | [] => o
  | .reset :: rest => runHistory (reset o) rest
  | .gen s :: rest =>
    match generateOn E X o s with
    | .ok (_, o', _) => runHistory o' rest
    | .error _ => runHistory o rest

/-- the bytes a call returns -/
def result (o : Obj) (s : σ) : Except Panic (List UInt8) :=
  match generateOn E X o s with
  | .ok (b, _, _) => .ok b
  | .error e => .error e

namespace Legacy
/-- pre-repair `generate_internal` at the level that matters for C08: it did not reset, so the
bytes already in `self.output` stayed in front of the new ones -/
def result (o : Obj) (s : σ) : Except Panic (List UInt8) :=
  match generate E X o.cfg s with
  | .error e => .error e
  | .ok (r, _) => .ok (o.scratch.out.reverse.flatMap Enc.encode ++ r.bytes)
end Legacy

end Api
end PFV
