/-
L1 — opcode and stack-kind vocabularies (hand-written; mirrors `OpcodeKind` in
`src/opcodes.rs` and the variants of `StackObject` in `src/stack.rs`).
The translator (`tools/translate.py`) refuses to run if the Rust enums gain or lose
a variant, so a change there shows up as a broken proof obligation.
No imports: this file is part of the natively compiled driver.
-/
namespace PFV

/-- The 68 `OpcodeKind` variants, in the order of `src/opcodes.rs`.
`None` is `pnone`, `Global` is `glob` (avoids clashes with `Option.none` / keywords). -/
inductive Op
  | int | binInt | binInt1 | binInt2 | long | long1 | long4
  | string | binString | shortBinString | binBytes | shortBinBytes | binBytes8 | byteArray8
  | nextBuffer | readOnlyBuffer
  | pnone | newTrue | newFalse
  | unicode | shortBinUnicode | binUnicode | binUnicode8
  | float | binFloat
  | emptyList | append | appends | list | emptyTuple | tuple | tuple1 | tuple2 | tuple3
  | emptyDict | dict | setItem | setItems | emptySet | addItems | frozenSet
  | pop | dup | mark | popMark
  | get | binGet | longBinGet | put | binPut | longBinPut | memoize
  | ext1 | ext2 | ext4
  | glob | stackGlobal | reduce | build | inst | obj | newObj | newObjEx
  | proto | stop | frame | persID | binPersID
  deriving DecidableEq, Repr, Inhabited

/-- All opcodes, in declaration order. -/
def Op.all : List Op :=
  [.int, .binInt, .binInt1, .binInt2, .long, .long1, .long4,
   .string, .binString, .shortBinString, .binBytes, .shortBinBytes, .binBytes8, .byteArray8,
   .nextBuffer, .readOnlyBuffer,
   .pnone, .newTrue, .newFalse,
   .unicode, .shortBinUnicode, .binUnicode, .binUnicode8,
   .float, .binFloat,
   .emptyList, .append, .appends, .list, .emptyTuple, .tuple, .tuple1, .tuple2, .tuple3,
   .emptyDict, .dict, .setItem, .setItems, .emptySet, .addItems, .frozenSet,
   .pop, .dup, .mark, .popMark,
   .get, .binGet, .longBinGet, .put, .binPut, .longBinPut, .memoize,
   .ext1, .ext2, .ext4,
   .glob, .stackGlobal, .reduce, .build, .inst, .obj, .newObj, .newObjEx,
   .proto, .stop, .frame, .persID, .binPersID]

/-- Name used on the wire between harness and driver = the Rust variant name. -/
def Op.name : Op → String
  | .int => "Int" | .binInt => "BinInt" | .binInt1 => "BinInt1" | .binInt2 => "BinInt2"
  | .long => "Long" | .long1 => "Long1" | .long4 => "Long4"
  | .string => "String" | .binString => "BinString" | .shortBinString => "ShortBinString"
  | .binBytes => "BinBytes" | .shortBinBytes => "ShortBinBytes" | .binBytes8 => "BinBytes8"
  | .byteArray8 => "ByteArray8" | .nextBuffer => "NextBuffer" | .readOnlyBuffer => "ReadOnlyBuffer"
  | .pnone => "None" | .newTrue => "NewTrue" | .newFalse => "NewFalse"
  | .unicode => "Unicode" | .shortBinUnicode => "ShortBinUnicode" | .binUnicode => "BinUnicode"
  | .binUnicode8 => "BinUnicode8" | .float => "Float" | .binFloat => "BinFloat"
  | .emptyList => "EmptyList" | .append => "Append" | .appends => "Appends" | .list => "List"
  | .emptyTuple => "EmptyTuple" | .tuple => "Tuple" | .tuple1 => "Tuple1" | .tuple2 => "Tuple2"
  | .tuple3 => "Tuple3" | .emptyDict => "EmptyDict" | .dict => "Dict" | .setItem => "SetItem"
  | .setItems => "SetItems" | .emptySet => "EmptySet" | .addItems => "AddItems"
  | .frozenSet => "FrozenSet" | .pop => "Pop" | .dup => "Dup" | .mark => "Mark"
  | .popMark => "PopMark" | .get => "Get" | .binGet => "BinGet" | .longBinGet => "LongBinGet"
  | .put => "Put" | .binPut => "BinPut" | .longBinPut => "LongBinPut" | .memoize => "Memoize"
  | .ext1 => "Ext1" | .ext2 => "Ext2" | .ext4 => "Ext4" | .glob => "Global"
  | .stackGlobal => "StackGlobal" | .reduce => "Reduce" | .build => "Build" | .inst => "Inst"
  | .obj => "Obj" | .newObj => "NewObj" | .newObjEx => "NewObjEx" | .proto => "Proto"
  | .stop => "Stop" | .frame => "Frame" | .persID => "PersID" | .binPersID => "BinPersID"

def Op.ofName? (s : String) : Option Op := Op.all.find? (fun o => o.name == s)

/-- The 18 variants of `StackObject` (`src/stack.rs`); the simulated VM only ever looks at
the variant of a slot, never inside it (DESIGN §1). -/
inductive Kind
  | int | float | bool | pnone | bytes | string | byteArray
  | list | tuple | dict | set | frozenSet
  | mark | glob | obj | callable | extension | any
  deriving DecidableEq, Repr, Inhabited

def Kind.all : List Kind :=
  [.int, .float, .bool, .pnone, .bytes, .string, .byteArray, .list, .tuple, .dict, .set,
   .frozenSet, .mark, .glob, .obj, .callable, .extension, .any]

/-- One-letter wire code (harness `verif.rs::kind_code` uses the same table). -/
def Kind.code : Kind → Char
  | .int => 'i' | .float => 'f' | .bool => 'b' | .pnone => 'n' | .bytes => 'y' | .string => 's'
  | .byteArray => 'a' | .list => 'l' | .tuple => 't' | .dict => 'd' | .set => 'e'
  | .frozenSet => 'z' | .mark => 'M' | .glob => 'g' | .obj => 'o' | .callable => 'c'
  | .extension => 'x' | .any => '?'

def Kind.ofCode? (c : Char) : Option Kind := Kind.all.find? (fun k => k.code == c)

end PFV
