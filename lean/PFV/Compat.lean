/-
The kind-compatibility table between the generator's slot kinds and the reference machine's
kinds (DESIGN Appendix A).  Shared by the theorems (`Proofs/Rel.lean`) and by the driver, which
evaluates C17 directly on the implementation's traced states.
-/
import PFV.Sim
import PFV.Ref
namespace PFV
open Ref (RKind)

/-- Appendix A: which reference kinds a simulated kind may stand for.  `mark ~ mark` only. -/
def compat : Kind → RKind → Bool
  | .mark, r => r == .mark
  | _, .mark => false
  | .extension, r | .any, r => r == .any
  | _, .any => true
  | .int, r | .bool, r => r == .intOrBool || r == .int || r == .bool
  | .float, r => r == .float
  | .pnone, r => r == .pnone
  | .bytes, r => r == .bytes || r == .bytesOrStr
  | .string, r => r == .str || r == .bytesOrStr
  | .byteArray, r => r == .bytearray
  | .list, r => r == .list
  | .tuple, r => r == .tuple
  | .dict, r => r == .dict
  | .set, r => r == .set
  | .frozenSet, r => r == .frozenset
  | .glob, r | .callable, r => r == .callable
  | .obj, r => r == .object

end PFV
