/-
L8b — the simulated pickle VM at the level of *objects*: the `Rc<RefCell<StackObject>>` cells behind
the stack and the memo (`src/stack.rs`), which cell every opcode allocates, aliases, mutates in place
or drops (`src/generator/stack_ops.rs`, `utils.rs::put/get`).  `Sim.lean` is the projection of this
model to slot kinds (`Proofs/ObjFacts.lean`: `proj_process`); `Heap.lean` is its projection to heap
traffic (`toM_applyPrim`).  Cells are numbered by age (allocation order).  Children:
  list / tuple      the items, in order
  dict              key₁, value₁, key₂, value₂, … in insertion order (`HashMap::insert` keyed by cell
                    identity: an existing key keeps its place and gets the new value)
  set / frozenset   the members in insertion order, each cell once
  callable          [the wrapped cell]
  instance          [callable, args]
Every opcode is a short program of six primitives (`Prim`); `prims` computes that program from the
current state exactly as the Rust arm does, faithful rather than tidy (a `NEWOBJ` on a one-element
stack pops it; `DICT` on an odd count eats the MARK as a key; `MEMOIZE` replaces the top cell by a copy).
No imports outside the project: part of the natively compiled driver.
-/
import PFV.Sim
namespace PFV
namespace Obj

structure Cell where
  kind : Kind
  kids : List Nat
  arena : Bool           -- created by `Stack::push` (the stack keeps a weak handle to it)
  deriving Repr, DecidableEq, Inhabited

structure OS where
  cells : List Cell := []
  stack : List Nat := []          -- cell ids, TOP FIRST
  memo : List (Nat × Nat) := []   -- memo key ↦ cell id
  deriving Repr, Inhabited

inductive Prim
  | push (k : Kind) (kids : List Nat)     -- `Stack::push(value)`: a new arena cell, placed on the stack
  | aux (k : Kind) (kids : List Nat)      -- `StackObjectRef::new(value)` that does not go on the stack
  | dup                                   -- DUP: the top cell once more
  | pop                                   -- `Stack::pop`
  | setKids (i : Nat) (kids : List Nat)   -- in-place mutation of the cell at stack position `i`
  | memoPut (key : Nat) (c : Nat)         -- `memo.insert(key, cell)`
  deriving Repr, DecidableEq

def kindOf (s : OS) (c : Nat) : Kind := match s.cells[c]? with | some x => x.kind | none => .any
def kidsOf (s : OS) (c : Nat) : List Nat := match s.cells[c]? with | some x => x.kids | none => []

def okKids (s : OS) (ks : List Nat) : Bool := ks.all (· < s.cells.length)

def memoInsert (m : List (Nat × Nat)) (i c : Nat) : List (Nat × Nat) :=
  match m with
  | [] => [(i, c)]
  | (j, d) :: t => if j = i then (j, c) :: t else (j, d) :: memoInsert t i c

def memoFind? (m : List (Nat × Nat)) (i : Nat) : Option Nat :=
  match m with
  | [] => none
  | (j, d) :: t => if j = i then some d else memoFind? t i

def setCellKids (cells : List Cell) (c : Nat) (ks : List Nat) : List Cell :=
  match cells[c]? with
  | some x => cells.set c { x with kids := ks }
  | none => cells

/-- a primitive that would reference a cell that does not exist is a no-op (never happens: `Proofs/ObjFacts`) -/
def applyPrim (s : OS) : Prim → OS
  | .push k ks =>
    if okKids s ks then { s with cells := s.cells ++ [⟨k, ks, true⟩], stack := s.cells.length :: s.stack } else s
  | .aux k ks => if okKids s ks then { s with cells := s.cells ++ [⟨k, ks, false⟩] } else s
  | .dup => match s.stack with
    | [] => s
    | c :: _ => { s with stack := c :: s.stack }
  | .pop => { s with stack := s.stack.drop 1 }
  | .setKids i ks => match s.stack[i]? with
    | some c => if okKids s ks then { s with cells := setCellKids s.cells c ks } else s
    | none => s
  | .memoPut key c => if c < s.cells.length then { s with memo := memoInsert s.memo key c } else s

def applyPrims (s : OS) (ps : List Prim) : OS := ps.foldl applyPrim s

/-! ### what the opcode arms read off the stack -/

/-- `while let Some(item) = self.pop() { if item is Mark { break }; acc.push(item) }`:
(the items popped before the MARK, top first; how many cells were popped, the MARK included) -/
def toMark (s : OS) : List Nat → List Nat × Nat
  | [] => ([], 0)
  | c :: t => if kindOf s c = .mark then ([], 1) else (c :: (toMark s t).1, (toMark s t).2 + 1)

/-- the `DICT` / `SETITEMS` loop: pop a value, stop at the MARK, otherwise also pop a key (whatever it is);
(the (key, value) pairs in the order they were popped; how many cells were popped) -/
def dictPairs (s : OS) : List Nat → List (Nat × Nat) × Nat
  | [] => ([], 0)
  | v :: t =>
    if kindOf s v = .mark then ([], 1)
    else match t with
      | [] => ([], 1)
      | k :: t' => ((k, v) :: (dictPairs s t').1, (dictPairs s t').2 + 2)

/-- `HashMap::insert` on the flattened child list of a dict cell (keys are compared by cell identity) -/
def dictInsert : List Nat → Nat → Nat → List Nat
  | [], k, v => [k, v]
  | [x], k, v => [x, k, v]          -- not a dict child list; kept total
  | k' :: v' :: t, k, v => if k' = k then k' :: v :: t else k' :: v' :: dictInsert t k v

def dictInsertAll (ks : List Nat) (ps : List (Nat × Nat)) : List Nat :=
  ps.foldl (fun acc p => dictInsert acc p.1 p.2) ks

/-- `HashSet::insert` -/
def setInsert (ks : List Nat) (c : Nat) : List Nat := if ks.contains c then ks else ks ++ [c]

def setInsertAll (ks : List Nat) (cs : List Nat) : List Nat := cs.foldl setInsert ks

def pops (n : Nat) : List Prim := List.replicate n .pop

/-- `if let StackObject::Callable(inner) = &*callable.borrow() { inner.clone() } else { callable.clone() }` -/
def unwrapCallable (s : OS) (c : Nat) : Nat :=
  if kindOf s c = .callable then (match kidsOf s c with | i :: _ => i | [] => c) else c

/-- the kind a value-pushing opcode pushes (`none`: the arm does nothing), read off `Sim.process` -/
def pushedKind (ver : Nat) (op : Op) (arg : Arg) : Option Kind :=
  match (process ver {} op arg).stack with
  | k :: _ => some k
  | [] => none

/-- the program of primitives `process_stack_ops(op, arg)` performs in state `s` -/
def prims (ver : Nat) (s : OS) (op : Op) (arg : Arg) : List Prim :=
  let st := s.stack
  let n := s.cells.length
  let hasArg : Bool := match arg with | .none => false | _ => true
  match op with
  | .pop => [.pop]
  | .dup => (match st with
    | [] => []
    | c :: _ => if kindOf s c = .mark then [] else [.dup])
  | .popMark => pops (toMark s st).2
  | .append =>
    if st.length < 2 then [] else
    (match st with
     | item :: cell :: _ =>
       if kindOf s cell = .list then [.pop, .setKids 0 (kidsOf s cell ++ [item])] else [.pop]
     | _ => [])
  | .appends =>
    let (items, k) := toMark s st
    (match st.drop k with
     | cell :: _ => if kindOf s cell = .list then pops k ++ [.setKids 0 (kidsOf s cell ++ items.reverse)] else pops k
     | [] => pops k)
  | .list => let (items, k) := toMark s st; pops k ++ [.push .list items.reverse]
  | .tuple => let (items, k) := toMark s st; pops k ++ [.push .tuple items.reverse]
  | .frozenSet => let (items, k) := toMark s st; pops k ++ [.push .frozenSet (setInsertAll [] items)]
  | .tuple1 => (match st with
    | [] => []
    | a :: _ => [.pop, .push .tuple [a]])
  | .tuple2 => (match st with
    | b :: a :: _ => [.pop, .pop, .push .tuple [a, b]]
    | _ => [])
  | .tuple3 => (match st with
    | c :: b :: a :: _ => [.pop, .pop, .pop, .push .tuple [a, b, c]]
    | _ => [])
  | .dict => let (ps, k) := dictPairs s st; pops k ++ [.push .dict (dictInsertAll [] ps)]
  | .setItem =>
    if st.length < 3 then [] else
    (match st with
     | v :: k :: cell :: _ =>
       if kindOf s cell = .dict then [.pop, .pop, .setKids 0 (dictInsert (kidsOf s cell) k v)] else [.pop, .pop]
     | _ => [])
  | .setItems =>
    let (ps, k) := dictPairs s st
    (match st.drop k with
     | cell :: _ => if kindOf s cell = .dict then pops k ++ [.setKids 0 (dictInsertAll (kidsOf s cell) ps)] else pops k
     | [] => pops k)
  | .addItems =>
    let (items, k) := toMark s st
    (match st.drop k with
     | cell :: _ => if kindOf s cell = .set then pops k ++ [.setKids 0 (setInsertAll (kidsOf s cell) items.reverse)] else pops k
     | [] => pops k)
  | .glob => if hasArg then [.aux .glob [], .push .callable [n]] else []
  | .ext1 | .ext2 | .ext4 => [.aux .glob [], .push .callable [n]]
  | .stackGlobal => (match st with
    | [] => []
    | [_] => [.pop]
    | a :: m :: _ =>
      if kindOf s a = .string && kindOf s m = .string then [.pop, .pop, .aux .glob [], .push .callable [n]]
      else [.pop, .pop])
  | .reduce =>
    if st.length < 2 then [] else
    (match st with
     | args :: cal :: _ => [.pop, .pop, .push .obj [unwrapCallable s cal, args]]
     | _ => [])
  | .newObj => (match st with
    | args :: cal :: _ => [.pop, .pop, .push .obj [unwrapCallable s cal, args]]
    | [_] => [.pop]
    | [] => [])
  | .newObjEx => (match st with
    | _ :: args :: cal :: _ => [.pop, .pop, .pop, .push .obj [unwrapCallable s cal, args]]
    | l => pops l.length)
  | .build =>
    if st.length < 2 then [] else
    (match st with
     | state :: inst :: _ =>
       if kindOf s inst = .obj then
         let ks := (kidsOf s inst).take 1 ++ [state]
         [.setKids 1 ks, .pop, .pop, .push .obj ks]
       else [.pop, .pop, .push (kindOf s inst) (kidsOf s inst)]
     | _ => [])
  | .inst =>
    if hasArg then
      let (items, k) := toMark s st
      [.aux .glob []] ++ pops k ++ [.aux .tuple items.reverse, .push .obj [n, n + 1]]
    else []
  | .obj =>
    let (items, k) := toMark s st
    (match items.reverse with
     | [] => pops k
     | cls :: rest => pops k ++ [.aux .tuple rest, .push .obj [cls, n]])
  | .binPersID => (match st with
    | [] => []
    | _ :: _ => [.pop, .push .string []])
  | .get | .binGet | .longBinGet => (match memoIndexOf arg with
    | some i => (match memoFind? s.memo i with
      | some c => [.push (kindOf s c) (kidsOf s c)]
      | none => [])
    | none => [])
  | .put | .binPut | .longBinPut => (match memoIndexOf arg with
    | some i => (match st with
      | [] => []
      | c :: _ => if kindOf s c = .mark then [] else [.aux (kindOf s c) (kidsOf s c), .memoPut i n])
    | none => [])
  | .memoize => (match st with
    | [] => []
    | c :: _ => [.pop, .aux (kindOf s c) (kidsOf s c), .memoPut s.memo.length n, .push (kindOf s c) (kidsOf s c)])
  | .proto | .readOnlyBuffer | .stop | .frame => []
  | .mark | .emptyList | .emptyTuple | .emptyDict | .emptySet
  | .int | .binInt | .binInt1 | .binInt2 | .long | .long1 | .long4
  | .string | .shortBinUnicode | .unicode | .binUnicode | .binUnicode8
  | .binString | .shortBinString | .binBytes | .shortBinBytes | .binBytes8 | .byteArray8
  | .pnone | .newTrue | .newFalse | .float | .binFloat | .persID | .nextBuffer =>
    (match pushedKind ver op arg with
     | some k => [.push k []]
     | none => [])

/-- `process_stack_ops` on objects -/
def process (ver : Nat) (s : OS) (op : Op) (arg : Arg) : OS := applyPrims s (prims ver s op arg)

def run (ver : Nat) (is : List Instr) : OS := is.foldl (fun s i => process ver s i.op i.arg) {}

/-- `State::reset` / `Drop`: the memo and the stack are cleared and every arena cell is emptied -/
def release (s : OS) : OS :=
  { cells := s.cells.map (fun x => if x.arena then { x with kids := [] } else x), stack := [], memo := [] }

/-- projection to slot kinds (`Sim.State` without the `proto_emitted` flag) -/
def projStack (s : OS) : List Kind := s.stack.map (kindOf s)
def projMemo (s : OS) : Memo := s.memo.map (fun p => (p.1, kindOf s p.2))

end Obj
end PFV
