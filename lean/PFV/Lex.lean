/-
L3 (specification side) — the reference lexer: CPython `pickletools` opcode table and argument
readers, written from pickletools, NOT from `src/`.  `tools/specval.py` compares it with
CPython's `pickletools.genops` on every run.  Appendix B of DESIGN.md.
No imports outside the project.
-/
import PFV.Instr
namespace PFV
namespace Lex

inductive Err
  | eof            -- ran out of bytes inside an opcode / no STOP
  | unknownOpcode (b : UInt8)
  | noNewline
  | badDecimal
  | badFloat
  | badQuote
  | badEscape
  | notAscii
  | badUtf8
  | negativeLength
  | shortPayload
  | trailing       -- bytes after STOP
  deriving Repr, DecidableEq, Inhabited

/-- pickletools opcode byte -/
def code : Op → UInt8
  | .int => 0x49 | .binInt => 0x4a | .binInt1 => 0x4b | .binInt2 => 0x4d | .long => 0x4c
  | .long1 => 0x8a | .long4 => 0x8b | .string => 0x53 | .binString => 0x54
  | .shortBinString => 0x55 | .binBytes => 0x42 | .shortBinBytes => 0x43 | .binBytes8 => 0x8e
  | .byteArray8 => 0x96 | .nextBuffer => 0x97 | .readOnlyBuffer => 0x98 | .pnone => 0x4e
  | .newTrue => 0x88 | .newFalse => 0x89 | .unicode => 0x56 | .shortBinUnicode => 0x8c
  | .binUnicode => 0x58 | .binUnicode8 => 0x8d | .float => 0x46 | .binFloat => 0x47
  | .emptyList => 0x5d | .append => 0x61 | .appends => 0x65 | .list => 0x6c
  | .emptyTuple => 0x29 | .tuple => 0x74 | .tuple1 => 0x85 | .tuple2 => 0x86 | .tuple3 => 0x87
  | .emptyDict => 0x7d | .dict => 0x64 | .setItem => 0x73 | .setItems => 0x75
  | .emptySet => 0x8f | .addItems => 0x90 | .frozenSet => 0x91 | .pop => 0x30 | .dup => 0x32
  | .mark => 0x28 | .popMark => 0x31 | .get => 0x67 | .binGet => 0x68 | .longBinGet => 0x6a
  | .put => 0x70 | .binPut => 0x71 | .longBinPut => 0x72 | .memoize => 0x94 | .ext1 => 0x82
  | .ext2 => 0x83 | .ext4 => 0x84 | .glob => 0x63 | .stackGlobal => 0x93 | .reduce => 0x52
  | .build => 0x62 | .inst => 0x69 | .obj => 0x6f | .newObj => 0x81 | .newObjEx => 0x92
  | .proto => 0x80 | .stop => 0x2e | .frame => 0x95 | .persID => 0x50 | .binPersID => 0x51

/-- protocol in which pickletools says the opcode was introduced -/
def introduced : Op → Nat
  | .int | .long | .string | .pnone | .unicode | .float | .append | .list | .tuple | .dict
  | .setItem | .pop | .dup | .mark | .get | .put | .glob | .reduce | .build | .inst | .stop
  | .persID => 0
  | .binInt | .binInt1 | .binInt2 | .binString | .shortBinString | .binUnicode | .binFloat
  | .emptyList | .appends | .emptyTuple | .emptyDict | .setItems | .popMark | .binGet
  | .longBinGet | .binPut | .longBinPut | .obj | .binPersID => 1
  | .long1 | .long4 | .newTrue | .newFalse | .tuple1 | .tuple2 | .tuple3 | .ext1 | .ext2
  | .ext4 | .newObj | .proto => 2
  | .binBytes | .shortBinBytes => 3
  | .binBytes8 | .shortBinUnicode | .binUnicode8 | .emptySet | .addItems | .frozenSet
  | .memoize | .stackGlobal | .newObjEx | .frame => 4
  | .byteArray8 | .nextBuffer | .readOnlyBuffer => 5

def ofCode? (b : UInt8) : Option Op := Op.all.find? (fun o => code o == b)

/-! ### byte-level helpers -/

def takeN : Nat → List UInt8 → Option (List UInt8 × List UInt8)
  | 0, bs => some ([], bs)
  | _ + 1, [] => none
  | n + 1, b :: bs => match takeN n bs with
    | some (a, r) => some (b :: a, r)
    | none => none

/-- little-endian unsigned value -/
def leNat : List UInt8 → Nat
  | [] => 0
  | b :: bs => b.toNat + 256 * leNat bs

/-- two's complement little-endian value of a non-empty byte string (0 for empty) -/
def leInt (bs : List UInt8) : Int :=
  let n := leNat bs
  let bits := 8 * bs.length
  if bs.length > 0 ∧ n ≥ 2 ^ (bits - 1) then (n : Int) - (2 ^ bits : Nat) else (n : Int)

/-- big-endian unsigned value -/
def beNat (bs : List UInt8) : Nat := leNat bs.reverse

/-- split at the first `\n`: (line without the newline, rest after it) -/
def readLine : List UInt8 → Option (List UInt8 × List UInt8)
  | [] => none
  | b :: bs =>
    if b = 0x0a then some ([], bs)
    else match readLine bs with
      | some (l, r) => some (b :: l, r)
      | none => none

def isDigit (b : UInt8) : Bool := 0x30 ≤ b && b ≤ 0x39
def isHex (b : UInt8) : Bool :=
  isDigit b || (0x41 ≤ b && b ≤ 0x46) || (0x61 ≤ b && b ≤ 0x66)
/-- Python `bytes.strip()` whitespace -/
def isSpace (b : UInt8) : Bool := b = 0x20 || (0x09 ≤ b && b ≤ 0x0d)

def stripL : List UInt8 → List UInt8
  | [] => []
  | b :: bs => if isSpace b then stripL bs else b :: bs
def strip (bs : List UInt8) : List UInt8 := (stripL (stripL bs).reverse).reverse

/-- digits with single underscores allowed between digits (Python `int()` grammar);
returns the value -/
def digitsVal : List UInt8 → Nat → Bool → Option Nat
  | [], acc, lastWasDigit => if lastWasDigit then some acc else none
  | b :: bs, acc, lastWasDigit =>
    if isDigit b then digitsVal bs (acc * 10 + (b.toNat - 0x30)) true
    else if b = 0x5f && lastWasDigit && !bs.isEmpty then digitsVal bs acc false
    else none

/-- Python `int(bytes)` in base 10: surrounding whitespace, optional sign, digits -/
def pyInt (s : List UInt8) : Option Int :=
  match strip s with
  | [] => none
  | b :: bs =>
    if b = 0x2d then (digitsVal bs 0 false).map (fun n => -(n : Int))
    else if b = 0x2b then (digitsVal bs 0 false).map (fun n => (n : Int))
    else (digitsVal (b :: bs) 0 false).map (fun n => (n : Int))

def lower (b : UInt8) : UInt8 := if 0x41 ≤ b && b ≤ 0x5a then b + 0x20 else b

/-- states of the float-literal acceptor -/
inductive FSt
  | start      -- nothing of the number seen yet
  | int        -- inside the integer digits (last byte a digit)
  | intUs      -- just saw `_` inside the integer digits
  | dot0       -- saw `.` with no integer digits before it
  | dotN       -- saw `.` after integer digits
  | frac       -- inside fraction digits
  | fracUs
  | e          -- saw `e`/`E`
  | eSign      -- saw exponent sign
  | exp        -- inside exponent digits
  | expUs
  | bad
  deriving DecidableEq, Repr

def fstep (s : FSt) (b : UInt8) : FSt :=
  let d := isDigit b
  match s with
  | .start => if d then .int else if b = 0x2e then .dot0 else .bad
  | .int => if d then .int else if b = 0x5f then .intUs else if b = 0x2e then .dotN
            else if b = 0x65 || b = 0x45 then .e else .bad
  | .intUs => if d then .int else .bad
  | .dot0 => if d then .frac else .bad
  | .dotN => if d then .frac else if b = 0x65 || b = 0x45 then .e else .bad
  | .frac => if d then .frac else if b = 0x5f then .fracUs
             else if b = 0x65 || b = 0x45 then .e else .bad
  | .fracUs => if d then .frac else .bad
  | .e => if d then .exp else if b = 0x2d || b = 0x2b then .eSign else .bad
  | .eSign => if d then .exp else .bad
  | .exp => if d then .exp else if b = 0x5f then .expUs else .bad
  | .expUs => if d then .exp else .bad
  | .bad => .bad

def fAccept : FSt → Bool
  | .int | .dotN | .frac | .exp => true
  | _ => false

def kwInf : List UInt8 := [0x69, 0x6e, 0x66]
def kwInfinity : List UInt8 := [0x69, 0x6e, 0x66, 0x69, 0x6e, 0x69, 0x74, 0x79]
def kwNan : List UInt8 := [0x6e, 0x61, 0x6e]

/-- acceptor for what Python's `float()` parses: `[ws][sign](inf|infinity|nan|number)[ws]` -/
def pyFloatOk (s : List UInt8) : Bool :=
  let t := strip s
  let t := match t with
    | b :: bs => if b = 0x2d || b = 0x2b then bs else b :: bs
    | [] => []
  let l := t.map lower
  if l = kwInf || l = kwInfinity || l = kwNan then true
  else fAccept (t.foldl fstep .start)

/-- states of the `codecs.escape_decode(..).decode("ascii")` acceptor -/
inductive ESt
  | norm
  | bs                 -- just saw a backslash
  | x2 | x1            -- `\x` needs 2 / 1 more hex digits
  | o1 (hi : Bool)     -- one octal digit seen (hi: first digit ≥ 2)
  | o2 (hi : Bool)     -- two octal digits seen
  | bad
  deriving DecidableEq, Repr

def isOct (b : UInt8) : Bool := 0x30 ≤ b && b ≤ 0x37

def enorm (b : UInt8) : ESt := if b ≥ 0x80 then .bad else if b = 0x5c then .bs else .norm

/-- Unknown escapes are kept verbatim by CPython (with a warning), hence accepted. -/
def estep (s : ESt) (b : UInt8) : ESt :=
  match s with
  | .norm => enorm b
  | .bs => if b = 0x78 then .x2 else if isOct b then .o1 (b ≥ 0x32)
           else if b ≥ 0x80 then .bad else .norm
  | .x2 => if isDigit b && b ≤ 0x37 then .x1 else .bad     -- value must stay < 0x80
  | .x1 => if isHex b then .norm else .bad
  | .o1 hi => if isOct b then .o2 hi else enorm b
  | .o2 hi => if isOct b then (if hi then .bad else .norm) else enorm b
  | .bad => .bad

def eAccept : ESt → Bool
  | .norm | .o1 _ | .o2 _ => true
  | _ => false

def escapeAsciiOk (s : List UInt8) : Bool := eAccept (s.foldl estep .norm)

def hexVal (b : UInt8) : Nat :=
  if isDigit b then b.toNat - 0x30 else if b ≥ 0x61 then b.toNat - 0x61 + 10 else b.toNat - 0x41 + 10

/-- states of the `raw-unicode-escape` acceptor -/
inductive USt
  | norm (odd : Bool)              -- parity of the run of backslashes just before
  | hex (n : Nat) (acc : Nat)      -- n more hex digits needed
  | bad
  deriving DecidableEq, Repr

def ustep (s : USt) (b : UInt8) : USt :=
  match s with
  | .norm odd =>
    if b = 0x5c then .norm (!odd)
    else if odd && b = 0x75 then .hex 4 0
    else if odd && b = 0x55 then .hex 8 0
    else .norm false
  | .hex n acc =>
    if isHex b then
      let acc := acc * 16 + hexVal b
      if n ≤ 1 then (if acc ≤ 0x10FFFF then .norm false else .bad) else .hex (n - 1) acc
    else .bad
  | .bad => .bad

def uAccept : USt → Bool
  | .norm _ => true
  | _ => false

def rawUnicodeOk (s : List UInt8) : Bool := uAccept (s.foldl ustep (.norm false))

/-- UTF-8 DFA state: `rem` continuation bytes still needed; the next one must lie in [lo,hi] -/
structure U8St where
  rem : Nat := 0
  lo : UInt8 := 0x80
  hi : UInt8 := 0xbf
  bad : Bool := false
  deriving DecidableEq, Repr

/-- strict UTF-8 except that encoded surrogates are allowed (`surrogatepass`) -/
def u8step (s : U8St) (b : UInt8) : U8St :=
  if s.bad then s
  else if s.rem = 0 then
    if b < 0x80 then {}
    else if 0xc2 ≤ b && b ≤ 0xdf then { rem := 1 }
    else if b = 0xe0 then { rem := 2, lo := 0xa0 }
    else if 0xe1 ≤ b && b ≤ 0xef then { rem := 2 }
    else if b = 0xf0 then { rem := 3, lo := 0x90 }
    else if 0xf1 ≤ b && b ≤ 0xf3 then { rem := 3 }
    else if b = 0xf4 then { rem := 3, hi := 0x8f }
    else { bad := true }
  else if s.lo ≤ b && b ≤ s.hi then { rem := s.rem - 1 }
  else { bad := true }

def utf8Ok (s : List UInt8) : Bool :=
  let r := s.foldl u8step {}
  !r.bad && r.rem = 0

/-! ### the readers -/

def readDecimal (line : List UInt8) : Except Err Arg :=
  if line = [0x30, 0x30] then .ok (.bool false)
  else if line = [0x30, 0x31] then .ok (.bool true)
  else match pyInt line with
    | some v => .ok (.int v)
    | none => .error .badDecimal

def readDecimalLong (line : List UInt8) : Except Err Arg :=
  let l := match line.getLast? with
    | some c => if c = 0x4c then line.dropLast else line
    | none => line
  match pyInt l with
  | some v => .ok (.int v)
  | none => .error .badDecimal

/-- `stringnl`: quotes at both ends (same character), body ok for escape_decode + ascii -/
def readQuoted (line : List UInt8) : Except Err Arg :=
  match line with
  | [] => .error .badQuote
  | q :: _ =>
    if q = 0x22 || q = 0x27 then
      if line.getLast? = some q then
        let body := (line.drop 1).dropLast
        if escapeAsciiOk body then .ok (.bytes line) else .error .badEscape
      else .error .badQuote
    else .error .badQuote

def sized (n : Nat) (bs : List UInt8) : Except Err (List UInt8 × List UInt8) :=
  match takeN n bs with
  | some r => .ok r
  | none => .error .shortPayload

/-- unsigned length prefix of `w` bytes followed by the payload -/
def readPrefixed (w : Nat) (bs : List UInt8) : Except Err (List UInt8 × List UInt8) :=
  match takeN w bs with
  | none => .error .eof
  | some (l, r) => sized (leNat l) r

/-- signed 4-byte length prefix (`string4`, `long4`) -/
def readPrefixedS4 (bs : List UInt8) : Except Err (List UInt8 × List UInt8) :=
  match takeN 4 bs with
  | none => .error .eof
  | some (l, r) => if leInt l < 0 then .error .negativeLength else sized (leNat l) r

def fixed (w : Nat) (bs : List UInt8) : Except Err (List UInt8 × List UInt8) :=
  match takeN w bs with
  | some r => .ok r
  | none => .error .eof

def line (bs : List UInt8) : Except Err (List UInt8 × List UInt8) :=
  match readLine bs with
  | some r => .ok r
  | none => .error .noNewline

/-- read the argument of `op` from `bs` -/
def readArg (op : Op) (bs : List UInt8) : Except Err (Arg × List UInt8) :=
  match op with
  | .int => do
    let (l, r) ← line bs
    let a ← readDecimal l
    pure (a, r)
  | .get | .put => do
    let (l, r) ← line bs
    match ← readDecimal l with
    | .int v => if v < 0 then pure (.int v, r) else pure (.nat v.toNat, r)   -- negative: see `domainOk`
    | .bool b => pure (.nat (if b then 1 else 0), r)
    | _ => throw .badDecimal
  | .long => do
    let (l, r) ← line bs
    let a ← readDecimalLong l
    pure (a, r)
  | .float => do
    let (l, r) ← line bs
    if pyFloatOk l then pure (.bytes l, r) else throw .badFloat
  | .string => do
    let (l, r) ← line bs
    let a ← readQuoted l
    pure (a, r)
  | .unicode => do
    let (l, r) ← line bs
    if rawUnicodeOk l then pure (.bytes l, r) else throw .badEscape
  | .persID => do
    let (l, r) ← line bs
    if escapeAsciiOk l then pure (.bytes l, r) else throw .badEscape
  | .glob | .inst => do
    let (m, r) ← line bs
    let (n, r) ← line r
    if escapeAsciiOk m && escapeAsciiOk n then pure (.pair m n, r) else throw .badEscape
  | .binInt => do
    let (v, r) ← fixed 4 bs
    pure (.int (leInt v), r)
  | .binInt1 => do
    let (v, r) ← fixed 1 bs
    pure (.int (leNat v), r)
  | .binInt2 => do
    let (v, r) ← fixed 2 bs
    pure (.int (leNat v), r)
  | .binGet | .binPut => do
    let (v, r) ← fixed 1 bs
    pure (.nat (leNat v), r)
  | .longBinGet | .longBinPut => do
    let (v, r) ← fixed 4 bs
    pure (.nat (leNat v), r)
  | .proto => do
    let (v, r) ← fixed 1 bs
    pure (.nat (leNat v), r)
  | .ext1 => do
    let (v, r) ← fixed 1 bs
    pure (.nat (leNat v), r)
  | .ext2 => do
    let (v, r) ← fixed 2 bs
    pure (.nat (leNat v), r)
  | .ext4 => do
    let (v, r) ← fixed 4 bs
    pure (.int (leInt v), r)
  | .frame => do
    let (v, r) ← fixed 8 bs
    pure (.nat (leNat v), r)
  | .binFloat => do
    let (v, r) ← fixed 8 bs
    pure (.float (UInt64.ofNat (beNat v)), r)
  | .long1 => do
    let (p, r) ← readPrefixed 1 bs
    pure (.bytes p, r)
  | .long4 => do
    let (p, r) ← readPrefixedS4 bs
    pure (.bytes p, r)
  | .binString => do
    let (p, r) ← readPrefixedS4 bs
    pure (.bytes p, r)
  | .shortBinString | .shortBinBytes => do
    let (p, r) ← readPrefixed 1 bs
    pure (.bytes p, r)
  | .binBytes => do
    let (p, r) ← readPrefixed 4 bs
    pure (.bytes p, r)
  | .binBytes8 | .byteArray8 => do
    let (p, r) ← readPrefixed 8 bs
    pure (.bytes p, r)
  | .shortBinUnicode => do
    let (p, r) ← readPrefixed 1 bs
    if utf8Ok p then pure (.bytes p, r) else throw .badUtf8
  | .binUnicode => do
    let (p, r) ← readPrefixed 4 bs
    if utf8Ok p then pure (.bytes p, r) else throw .badUtf8
  | .binUnicode8 => do
    let (p, r) ← readPrefixed 8 bs
    if utf8Ok p then pure (.bytes p, r) else throw .badUtf8
  | _ => pure (.none, bs)

/-- argument domains the format prescribes beyond "the bytes are there" (C04): EXT codes ≥ 1,
memo indices ≥ 0, PROTO ≤ 5.  Kept apart from `lexOne` so that a domain violation does not
hide the rest of the stream from the other properties. -/
def domainOk (i : Instr) : Bool :=
  match i.op, i.arg with
  | .ext1, .nat n | .ext2, .nat n => n ≥ 1
  | .ext4, .int v => v ≥ 1
  | .ext1, _ | .ext2, _ | .ext4, _ => false
  | .get, .nat _ | .put, .nat _ => true
  | .get, _ | .put, _ => false
  | .proto, .nat n => n ≤ 5
  | _, _ => true

/-- one instruction from the front of `bs` -/
def lexOne (bs : List UInt8) : Except Err (Instr × List UInt8) :=
  match bs with
  | [] => .error .eof
  | b :: r =>
    match ofCode? b with
    | none => .error (.unknownOpcode b)
    | some op =>
      match readArg op r with
      | .ok (a, r') => .ok (⟨op, a⟩, r')
      | .error e => .error e

/-- instructions up to and including the first STOP; nothing may follow it -/
def lexFuel : Nat → List UInt8 → Except Err (List Instr)
  | 0, _ => .error .eof
  | n + 1, bs =>
    match lexOne bs with
    | .error e => .error e
    | .ok (i, r) =>
      if i.op = .stop then (if r.isEmpty then .ok [i] else .error .trailing)
      else match lexFuel n r with
        | .ok is => .ok (i :: is)
        | .error e => .error e

def lex (bs : List UInt8) : Except Err (List Instr) := lexFuel (bs.length + 1) bs

end Lex
end PFV
