/-
L7 — option plumbing of the front ends (`src/main.rs`, `src/python.rs`): which generator
configuration a set of parsed options denotes.  `cliCfg` mirrors main.rs (after commits e90aa36,
7f3de9d); `specCfg` is written from README / `--help`; `Legacy.*` keep the pre-repair plumbing
with the counterexamples.  clap's parsing itself, rayon and PyO3 are not modelled (S7 goes
through the real binary / extension).
-/
import PFV.Gen
namespace PFV
namespace Front

/-- a `--mutators` value -/
inductive MArg
  | all | bitflip | boundary | offbyone | stringlen | character | memoindex | typeconfusion
  deriving DecidableEq, Repr

structure CliArgs where
  protocol : Option Nat := none
  seed : Option Nat := none
  minOps : Nat := Gen.defaultMin
  maxOps : Nat := Gen.defaultMax
  mutators : List MArg := []
  rateBits : UInt64 := Gen.defaultRateBits
  unsafeM : Bool := false
  allowExt : Bool := false
  allowBuf : Bool := false

/-- a configured generator as the library sees it: configuration and seed -/
structure LibCfg where
  cfg : Cfg
  seed : Option Nat
  deriving Repr

def create (u : Bool) : MArg → Option Mut
  | .all => none          -- `MutatorKind::All` must be expanded first (`create` panics on it)
  | .bitflip => some .bitflip | .boundary => some .boundary | .offbyone => some .offbyone
  | .stringlen => some .stringlen | .character => some .character
  | .memoindex => some (.memoindex u) | .typeconfusion => some (.typeconfusion u)

/-- `MutatorKind::all_mutators(unsafe)` -/
def allMutators (u : Bool) : List MArg :=
  [.bitflip, .boundary, .offbyone, .stringlen, .character, .typeconfusion] ++ (if u then [.memoindex] else [])

def expand (a : CliArgs) : List MArg := if a.mutators.contains .all then allMutators a.unsafeM else a.mutators

/-- protocol selection of main.rs when a seed is present (without a seed it is drawn from the OS RNG) -/
def version (a : CliArgs) (seed : Nat) : Nat :=
  match a.protocol with
  | some p => p
  | none => seed % 6

/-- main.rs, single-file and batch mode alike (each batch sample builds the same generator) -/
def cliCfg (a : CliArgs) (seed : Nat) : LibCfg :=
  { cfg := { version := version a seed, minOps := a.minOps, maxOps := a.maxOps,
             mutators := (expand a).filterMap (create a.unsafeM),
             rateBits := G.clampRate a.rateBits, unsafeMut := a.unsafeM,
             allowExt := a.allowExt, allowBuf := a.allowBuf },
    seed := some seed }

/-- what the documented options denote (README "Usage", `--help`): every option reaches the
generator setting of the same name; `all` = every mutator kind that is safe, plus memoindex in
unsafe mode; no `--protocol` but a seed ⇒ protocol = seed mod 6 -/
def specCfg (a : CliArgs) (seed : Nat) : LibCfg :=
  let kinds := if a.mutators.contains .all then allMutators a.unsafeM else a.mutators
  { cfg := { version := (a.protocol.getD (seed % 6)), minOps := a.minOps, maxOps := a.maxOps,
             mutators := kinds.filterMap (create a.unsafeM),
             rateBits := G.clampRate a.rateBits, unsafeMut := a.unsafeM,
             allowExt := a.allowExt, allowBuf := a.allowBuf },
    seed := some seed }

/-- batch mode: file names written for `--samples n` -/
def batchFiles (n : Nat) : List String := (List.range n).map (fun i => toString i ++ ".pkl")

/-! ### Python class (`src/python.rs`) -/

/-- `Generator(protocol, seed)` -/
def pyNew (protocol : Nat) (seed : Option Nat) : LibCfg := { cfg := { version := protocol }, seed := seed }

/-- `set_opcode_range(min, max)` -/
def pySetRange (g : LibCfg) (mn mx : Nat) : LibCfg := { g with cfg := { g.cfg with minOps := mn, maxOps := mx } }

/-- `PickleMutator.mutate(data, max_size)`: the library's bytes, truncated -/
def pyMutate (bytes : List UInt8) (maxSize : Nat) : List UInt8 := if bytes.length ≤ maxSize then bytes else bytes.take maxSize

namespace Legacy
/-- pre-repair main.rs: rate and unsafe flag only reached the generator together with mutators -/
def cliCfg (a : CliArgs) (seed : Nat) : LibCfg :=
  let ms := (expand a).filterMap (create a.unsafeM)
  { cfg := { version := version a seed, minOps := a.minOps, maxOps := a.maxOps,
             mutators := ms,
             rateBits := if ms.isEmpty then Gen.defaultRateBits else G.clampRate a.rateBits,
             unsafeMut := if ms.isEmpty then false else a.unsafeM,
             allowExt := a.allowExt, allowBuf := a.allowBuf },
    seed := some seed }

/-- pre-repair set_opcode_range: a new generator from defaults -/
def pySetRange (g : LibCfg) (mn mx : Nat) : LibCfg :=
  { cfg := { version := g.cfg.version, minOps := mn, maxOps := mx }, seed := none }
end Legacy

end Front
end PFV
