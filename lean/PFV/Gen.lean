/-
L6 — the exact, entropy-driven generator: `emit_and_process` (`src/generator/emission.rs`),
`post_process_emission` (`mutation.rs`) and `generate_internal` (`core.rs`), with exactly the
Rust's order of entropy draws.  Parameters taken as given (trusted base): the module table
`mods` (`data/stdlib_complete.txt`, split like `get_random_module`) and `fmt`, Rust's `Display`
for `f64`.  No imports outside the project.
-/
import PFV.Sim
import PFV.AbsGen
import PFV.Mutators
namespace PFV
namespace G
open Mutators

def isIntLike (o : Op) : Bool :=
  o == .int || o == .long || o == .long1 || o == .long4 || o == .binInt || o == .binInt1 || o == .binInt2

/-- UTF-8 encoding of one Unicode scalar value -/
def utf8Char (c : Char) : List UInt8 :=
  let v := c.val.toNat
  if v < 0x80 then [UInt8.ofNat v]
  else if v < 0x800 then [UInt8.ofNat (0xc0 + v / 64), UInt8.ofNat (0x80 + v % 64)]
  else if v < 0x10000 then
    [UInt8.ofNat (0xe0 + v / 4096), UInt8.ofNat (0x80 + (v / 64) % 64), UInt8.ofNat (0x80 + v % 64)]
  else
    [UInt8.ofNat (0xf0 + v / 262144), UInt8.ofNat (0x80 + (v / 4096) % 64),
     UInt8.ofNat (0x80 + (v / 64) % 64), UInt8.ofNat (0x80 + v % 64)]

def utf8 (cs : List Char) : List UInt8 := cs.flatMap utf8Char

variable {σ : Type} (E : Entropy σ)

/-- `(0..len).map(|_| source.gen_ascii_char()).collect()` -/
def genChars : Nat → σ → List Char → List Char × σ
  | 0, s, acc => (acc, s)
  | n + 1, s, acc =>
    let (b, s') := E.genAsciiChar s
    genChars n s' (acc ++ [Char.ofNat b.toNat])

/-- `(0..len).map(|_| source.gen_u8()).collect()` -/
def genRawBytes : Nat → σ → List UInt8 → List UInt8 × σ
  | 0, s, acc => (acc, s)
  | n + 1, s, acc =>
    let (b, s') := E.genU8 s
    genRawBytes n s' (acc ++ [UInt8.ofNat b])

def sortedKeys (m : Memo) : List Nat := (Memo.keys m).mergeSort (fun a b => a ≤ b)

def pidPrefix : List UInt8 := [0x70, 0x69, 0x64, 0x5f]

/-- the parameters the model takes as given -/
structure Ext where
  mods : List (List UInt8 × List UInt8)      -- (module, attribute) per line of stdlib_complete.txt
  fmt : UInt64 → List UInt8                  -- Rust `format!("{}", f64)`

variable (X : Ext) (c : Cfg)

/-- `emit_int`: choose one of the protocol's int-like opcodes, draw an i32, mutate, encode -/
def emitInt (s : σ) : Except Panic (Option Instr × σ) :=
  let intLike := (Gen.table c.version).filter isIntLike
  let (i, s) := E.chooseIndex s intLike.length
  match idx? "emission.rs:int_like[idx]" intLike i with
  | .error e => .error e
  | .ok chosen =>
    let (v0, s) := E.genI32 s
    match firstSome (mutateInt E 32 Gen.boundInt) c.mutators v0 s c.rateBits with
    | .error e => .error e
    | .ok (v, s, _) =>
      let ins : Instr := match chosen with
        | .int => ⟨.int, .int v⟩
        | .long => ⟨.long, .int v⟩
        | .long1 => ⟨.long1, .bytes (Enc.le 4 (Enc.toU 32 v))⟩
        | .long4 => ⟨.long4, .bytes (Enc.le 4 (Enc.toU 32 v))⟩
        | .binInt => ⟨.binInt, .int v⟩
        | .binInt1 => ⟨.binInt1, .int (Enc.toU 32 v % 256)⟩
        | _ => ⟨.binInt2, .int (Enc.toU 32 v % 65536)⟩
      .ok (some ins, s)

/-- FLOAT / BINFLOAT -/
def emitFloat (op : Op) (s : σ) : Except Panic (Option Instr × σ) :=
  let (b0, s) := E.genF64 s
  match firstSome (mutateFloat E) c.mutators b0 s c.rateBits with
  | .error e => .error e
  | .ok (b, s, _) =>
    .ok (some (if op == .float then ⟨.float, .bytes (X.fmt b)⟩ else ⟨.binFloat, .float b⟩), s)

/-- `emit_string` -/
def emitStr (op : Op) (s : σ) : Except Panic (Option Instr × σ) :=
  let (n, s) := E.genU8 s
  let (cs0, s) := genChars E (n % 32) s []
  match firstSome (mutateString E) c.mutators cs0 s c.rateBits with
  | .error e => .error e
  | .ok (cs, s, _) =>
    let bytes := utf8 cs
    if op == .string then .ok (some ⟨.string, .bytes ([0x27] ++ Enc.escapeString bytes ++ [0x27])⟩, s)
    else if op == .unicode then .ok (some ⟨.unicode, .bytes (Enc.escapeBackslash bytes)⟩, s)
    else if op == .shortBinUnicode then
      (if bytes.length < 256 then .ok (some ⟨.shortBinUnicode, .bytes bytes⟩, s) else .ok (none, s))
    else .ok (some ⟨op, .bytes bytes⟩, s)

/-- `emit_bytes` -/
def emitBytes (op : Op) (s : σ) : Except Panic (Option Instr × σ) :=
  let (n, s) := E.genU8 s
  let (bs0, s) := genRawBytes E (n % 32) s []
  match firstSome (mutateBytes E) c.mutators bs0 s c.rateBits with
  | .error e => .error e
  | .ok (bs, s, _) =>
    if op == .shortBinString || op == .shortBinBytes then
      (if bs.length < 256 then .ok (some ⟨op, .bytes bs⟩, s) else .ok (none, s))
    else .ok (some ⟨op, .bytes bs⟩, s)

/-- `emit_global` / INST: `get_random_module` -/
def emitGlobal (op : Op) (s : σ) : Except Panic (Option Instr × σ) :=
  let (i, s) := E.chooseIndex s X.mods.length
  match idx? "emission.rs:modules[idx]" X.mods i with
  | .error e => .error e
  | .ok (m, a) => .ok (some ⟨op, .pair m a⟩, s)

/-- GET / BINGET / LONG_BINGET: pick an existing key (BINGET: below 256), mutate it, keep the
mutated index only if it exists (or always in unsafe mode) -/
def emitGet (sim : State) (op : Op) (s : σ) : Except Panic (Option Instr × σ) :=
  let keys := if op == .binGet then (sortedKeys sim.memo).filter (· < 256) else sortedKeys sim.memo
  if keys.isEmpty then .ok (none, s) else
    let (j, s) := E.genRange s 0 keys.length
    match idx? "emission.rs:keys[..]" keys j with
    | .error e => .error e
    | .ok index =>
      match firstSome (mutateMemo E) c.mutators index s c.rateBits with
      | .error e => .error e
      | .ok (m0, s, _) =>
        if op == .binGet then
          let mi := min m0 255
          let idx := if c.unsafeMut || (mi < 256 && Memo.has sim.memo mi) then mi else index
          .ok (some ⟨.binGet, .nat (idx % 256)⟩, s)
        else
          let idx := if c.unsafeMut || Memo.has sim.memo m0 then m0 else index
          .ok (some (if op == .get then ⟨.get, .nat idx⟩ else ⟨.longBinGet, .nat (idx % 4294967296)⟩), s)

/-- the emission part of `emit_and_process`: which instruction is written for the chosen opcode
(`none`: nothing is written) -/
def emitOne (sim : State) (op : Op) (s : σ) : Except Panic (Option Instr × σ) :=
  match op with
  | .int | .long | .long1 | .long4 | .binInt | .binInt1 | .binInt2 => emitInt E c s
  | .float | .binFloat => emitFloat E X c op s
  | .string | .unicode | .shortBinUnicode | .binUnicode | .binUnicode8 => emitStr E c op s
  | .binString | .shortBinString | .shortBinBytes | .binBytes | .binBytes8 | .byteArray8 => emitBytes E c op s
  | .glob | .inst => emitGlobal E X op s
  | .put => .ok (some ⟨.put, .nat sim.memo.length⟩, s)
  | .binPut => .ok (some ⟨.binPut, .nat (sim.memo.length % 256)⟩, s)
  | .longBinPut => .ok (some ⟨.longBinPut, .nat (sim.memo.length % 4294967296)⟩, s)
  | .get | .longBinGet | .binGet => emitGet E c sim op s
  | .ext1 => let (b, s) := E.genU8 s; .ok (some ⟨.ext1, .nat (min (b + 1) 255)⟩, s)
  | .ext2 => let (b, s) := E.genU16 s; .ok (some ⟨.ext2, .nat (min (b + 1) 65535)⟩, s)
  | .ext4 => let (b, s) := E.genU32 s; .ok (some ⟨.ext4, .int ((b % 2147483647 + 1 : Nat) : Int)⟩, s)
  | .persID => let (v, s) := E.genU32 s; .ok (some ⟨.persID, .bytes (pidPrefix ++ Enc.showNat v)⟩, s)
  | .frame => .error (.unreachable "emission.rs:Frame should not be emitted during generation")
  | _ => .ok (some ⟨op, .none⟩, s)

/-- generator scratch state: the simulated VM and the instructions written so far (newest first;
one entry per emission — type confusion replaces the entry, it never adds one) -/
structure GenSt where
  sim : State
  out : List Instr := []

/-- `emit_and_process` -/
def emitAndProcess (g : GenSt) (op : Op) (s : σ) : Except Panic (GenSt × σ) :=
  match emitOne E X c g.sim op s with
  | .error e => .error e
  | .ok (oi, s) =>
    let sim' := match oi with
      | some i => process c.version g.sim i.op i.arg
      | none => g.sim
    let first := oi.map (fun i => Gen.asU8 i.op)
    let post := if c.mutators.isEmpty then .ok (none, s)
                else postProcess E c.mutators first none s c.rateBits
    match post with
    | .error e => .error e
    | .ok (repl, s) =>
      let out' := match repl, oi with
        | some r, some _ => r :: g.out
        | some r, none => r :: g.out
        | none, some i => i :: g.out
        | none, none => g.out
      .ok ({ sim := sim', out := out' }, s)

/-- the generation loop of `generate_internal` -/
def bodyLoop : Nat → GenSt → σ → Except Panic (GenSt × σ)
  | 0, g, s => .ok (g, s)
  | n + 1, g, s =>
    let valid := validOps (Gen.table c.version) c g.sim
    if valid.isEmpty then .ok (g, s) else
      let (i, s) := E.chooseIndex s valid.length
      match idx? "validation.rs:opcodes[idx]" valid i with
      | .error e => .error e
      | .ok chosen =>
        match emitAndProcess E X c g chosen s with
        | .error e => .error e
        | .ok (g', s') => bodyLoop n g' s'

structure Result where
  bytes : List UInt8
  instrs : List Instr        -- what was written after the header, STOP included
  target : Nat
  framed : Bool
  sim : State                -- simulated VM at the end
  bodyLen : Nat

/-- `generate_internal` on a freshly reset generator (it resets itself first) -/
def generate (s : σ) : Except Panic (Result × σ) :=
  let v := c.version
  let (useFrame, s) := if v ≥ 4 then E.genBool s else (false, s)
  let protoBytes : List UInt8 := if v ≥ 2 then Enc.encode (protoInstr v) else []
  let range := c.maxOps - c.minOps
  let (target, s) := if range > 0 then
      (let (k, s) := E.chooseIndex s range; (c.minOps + k, s)) else (c.minOps, s)
  match bodyLoop E X c target { sim := initState v } s with
  | .error e => .error e
  | .ok (g, s) =>
    let (simF, ops) := cleanup v g.sim
    let instrs := g.out.reverse ++ plain ops ++ [stopInstr]
    let body := instrs.flatMap Enc.encode
    let frameBytes : List UInt8 := if useFrame then Enc.encode ⟨.frame, .nat body.length⟩ else []
    .ok ({ bytes := protoBytes ++ frameBytes ++ body, instrs := instrs, target := target,
           framed := useFrame, sim := simF, bodyLen := g.out.length }, s)

/-! ### configuration builders (`src/generator/mod.rs`) -/

def f64IsNaN (b : UInt64) : Bool := (b.toNat / 2 ^ 52) % 2048 == 2047 && b.toNat % 2 ^ 52 != 0

/-- `rate.clamp(0.0, 1.0)` on bit patterns: NaN stays NaN, `-0.0` stays `-0.0` -/
def clampRate (b : UInt64) : UInt64 :=
  if f64IsNaN b then b
  else if b.toNat ≥ 2 ^ 63 then (if b.toNat = 2 ^ 63 then b else 0)          -- negative → 0.0
  else if b.toNat > 0x3FF0000000000000 then 0x3FF0000000000000                  -- > 1.0 → 1.0
  else b

/-- the mutator objects `MutatorKind::create(unsafe)` builds, for a bit mask over
[bitflip, boundary, offbyone, stringlen, character, memoindex, typeconfusion] -/
def mutsOfMask (mask : Nat) (unsafeMode : Bool) : List Mut :=
  let all : List Mut := [.bitflip, .boundary, .offbyone, .stringlen, .character,
                         .memoindex unsafeMode, .typeconfusion unsafeMode]
  (all.zipIdx.filter (fun (_, i) => (mask >>> i) % 2 == 1)).map (·.1)

end G
end PFV
