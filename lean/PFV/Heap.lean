/-
L8 — the reference-counted cells behind the simulated stack (`src/stack.rs`: `Rc<RefCell<StackObject>>`).
Abstract heap: cells are numbered by age (a cell's number is larger than the number of every cell
that existed when it was created), `kids c` are the cells `c` holds a strong reference to,
`arena` are the cells created by `Stack::push` (the stack keeps a weak handle to each).
Three things happen to the heap (DESIGN §1, "checked by reading every borrow_mut site"; the
translator re-checks the site list on every run):
  * `alloc`   a new cell whose children are existing cells (push, clone-on-GET/PUT/MEMOIZE, wrappers),
  * `mutate`  the children of an *arena* cell are replaced (APPEND(S), SETITEM(S), ADDITEMS, BUILD),
  * `release` `Stack::reset` / `Drop`: every arena cell still alive is emptied.
Which Rust statements are which is not proved here; allocator behaviour is observed by stream S8.
-/
namespace PFV
namespace Heap

structure H where
  kids : List (List Nat)      -- kids[c]: strong edges of cell c; index = age
  arena : List Nat
  deriving Repr

def kidsOf (h : H) (c : Nat) : List Nat := h.kids.getD c []

def alloc (h : H) (ks : List Nat) (inArena : Bool) : H :=
  { kids := h.kids ++ [ks], arena := if inArena then h.kids.length :: h.arena else h.arena }

def mutate (h : H) (c : Nat) (ks : List Nat) : H := { h with kids := h.kids.set c ks }

def release (h : H) : H :=
  { h with kids := h.kids.zipIdx.map (fun (ks, c) => if h.arena.contains c then [] else ks) }

/-- every edge points to an existing cell -/
def Scoped (h : H) : Prop := ∀ c d, d ∈ kidsOf h c → d < h.kids.length

/-- an edge that does not point to a strictly older cell starts at an arena cell -/
def ArenaInv (h : H) : Prop := ∀ c d, d ∈ kidsOf h c → d < c ∨ c ∈ h.arena

/-- all edges point to strictly older cells -/
def Decr (h : H) : Prop := ∀ c d, d ∈ kidsOf h c → d < c

def empty : H := { kids := [], arena := [] }

/-! ### the simulated stack over the heap

The shapes of heap traffic the generator performs (checked syntactically by the translator: I1 — nothing
writes into `Stack::inner` except `Stack::push` and DUP; I2 — every `borrow_mut()` receiver is a cell
taken from the stack; I3 — `push` registers unconditionally):
  * `push ks`     `Stack::push`: a new *arena* cell referencing existing cells, placed on the stack
  * `dup`         DUP: the top cell once more (an alias, no new cell)
  * `pop`         a cell leaves the stack (it may stay referenced from other cells or the memo)
  * `mutate i ks` in-place update of the cell at stack position `i` (APPEND(S), SETITEM(S), ADDITEMS, BUILD):
                  it may be made to reference any existing cells — itself included
  * `aux ks`      a cell created outside `push` that never reaches the stack: memo entries
                  (`StackObjectRef::new(clone)`), the `Global` placeholders and argument tuples of INST/OBJ
-/
structure M where
  h : H := empty
  stack : List Nat := []
  deriving Repr

inductive Step
  | push (ks : List Nat)
  | dup
  | pop
  | mutate (i : Nat) (ks : List Nat)
  | aux (ks : List Nat)
  deriving Repr

/-- children must exist; anything else leaves the machine unchanged -/
def okKids (m : M) (ks : List Nat) : Bool := ks.all (· < m.h.kids.length)

def step (m : M) : Step → M
  | .push ks => if okKids m ks then { h := alloc m.h ks true, stack := m.h.kids.length :: m.stack } else m
  | .dup => match m.stack with
    | [] => m
    | c :: _ => { m with stack := c :: m.stack }
  | .pop => { m with stack := m.stack.drop 1 }
  | .mutate i ks => match m.stack[i]? with
    | some c => if okKids m ks then { m with h := mutate m.h c ks } else m
    | none => m
  | .aux ks => if okKids m ks then { m with h := alloc m.h ks false } else m

def run (steps : List Step) : M := steps.foldl step {}

end Heap
end PFV
