/-
L8 — the reference-counted cells behind the simulated stack (`src/stack.rs`: `Rc<RefCell<StackObject>>`).
Abstract heap: cells are numbered by age (a cell's number is larger than the number of every cell
that existed when it was created), `kids c` are the cells `c` holds a strong reference to,
`arena` are the cells created by `Stack::push` (the stack keeps a weak handle to each).
Three things happen to the heap (DESIGN §1, "checked by reading every borrow_mut site"; the
translator re-checks the site list on every run):
  * `alloc`   a new cell whose children are existing cells (push, clone-on-GET/PUT/MEMOIZE, wrappers),
  * `mutate`  the children of an *arena* cell are replaced (APPEND(S), SETITEM(S), ADDITEMS, BUILD),
  * `release` `Stack::reset` / `Drop`: every arena cell still alive is emptied.
Which Rust statements are which is not proved here; allocator behaviour is observed by stream S8.
-/
namespace PFV
namespace Heap

structure H where
  kids : List (List Nat)      -- kids[c]: strong edges of cell c; index = age
  arena : List Nat
  deriving Repr

def kidsOf (h : H) (c : Nat) : List Nat := h.kids.getD c []

def alloc (h : H) (ks : List Nat) (inArena : Bool) : H :=
  { kids := h.kids ++ [ks], arena := if inArena then h.kids.length :: h.arena else h.arena }

def mutate (h : H) (c : Nat) (ks : List Nat) : H := { h with kids := h.kids.set c ks }

def release (h : H) : H :=
  { h with kids := h.kids.zipIdx.map (fun (ks, c) => if h.arena.contains c then [] else ks) }

/-- every edge points to an existing cell -/
def Scoped (h : H) : Prop := ∀ c d, d ∈ kidsOf h c → d < h.kids.length

/-- an edge that does not point to a strictly older cell starts at an arena cell -/
def ArenaInv (h : H) : Prop := ∀ c d, d ∈ kidsOf h c → d < c ∨ c ∈ h.arena

/-- all edges point to strictly older cells -/
def Decr (h : H) : Prop := ∀ c d, d ∈ kidsOf h c → d < c

def empty : H := { kids := [], arena := [] }

end Heap
end PFV
