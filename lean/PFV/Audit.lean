import PFV.Proofs.Tables
#print axioms PFV.Tables.asU8_eq_code
#print axioms PFV.Tables.code_injective
#print axioms PFV.Tables.ofCode_code
#print axioms PFV.Tables.table_le_intro
#print axioms PFV.Tables.table_complete
#print axioms PFV.Tables.table_empty_of_ge6
#print axioms PFV.Tables.intlike_nonempty
#print axioms PFV.Tables.ascii_printable
#print axioms PFV.Tables.ascii_nonempty
