/-
L2 (specification side) — the reference pickle machine: CPython `pickletools.dis` stack
emulation (flat stack: a MARK is an ordinary element for fixed-arity pops), plus the memo
checks of C02 and the operand-kind checks of C03.  Written from pickletools and the property
texts (DESIGN Appendix A), NOT from `src/`.
Three families of findings: *stack* (an `Except` error: emulation cannot continue),
*memo* and *typed* (recorded as violations; emulation continues).
No imports outside the project.
-/
import PFV.Instr
namespace PFV
namespace Ref

inductive RKind
  | mark | any | intOrBool | int | float | bool | pnone | bytes | str | bytesOrStr | bytearray
  | list | tuple | dict | set | frozenset | callable | object
  deriving DecidableEq, Repr, Inhabited

def RKind.code : RKind → String
  | .mark => "MARK" | .any => "any" | .intOrBool => "int_or_bool" | .int => "int"
  | .float => "float" | .bool => "bool" | .pnone => "none" | .bytes => "bytes" | .str => "str"
  | .bytesOrStr => "bytes_or_str" | .bytearray => "bytearray" | .list => "list"
  | .tuple => "tuple" | .dict => "dict" | .set => "set" | .frozenset => "frozenset"
  | .callable => "callable" | .object => "object"

abbrev RMemo := List (Nat × RKind)

def RMemo.find? (m : RMemo) (i : Nat) : Option RKind :=
  match m with
  | [] => none
  | (j, k) :: t => if j = i then some k else RMemo.find? t i

def RMemo.insert (m : RMemo) (i : Nat) (k : RKind) : RMemo :=
  match m with
  | [] => [(i, k)]
  | (j, k') :: t => if j = i then (j, k) :: t else (j, k') :: RMemo.insert t i k

structure RState where
  stack : List RKind := []     -- top first
  memo : RMemo := []
  deriving Repr, Inhabited, DecidableEq

inductive StackErr
  | underflow (need have_ : Nat)
  | noMark
  | stopNotOne (left : Nat)     -- objects left below the one STOP popped
  | stopOnMark
  deriving Repr, DecidableEq, Inhabited

inductive Viol
  | memoUndefined (i : Nat)     -- GET of an index no PUT defined
  | memoRedefined (i : Nat)     -- PUT of an index already defined
  | memoNoObject                -- PUT with nothing / a MARK on top
  | typed (op : Op) (what : String)
  deriving Repr, DecidableEq, Inhabited

def Viol.isMemo : Viol → Bool
  | .typed _ _ => false
  | _ => true

def isK (x k : RKind) : Bool := k == x || k == .any
def isStr (k : RKind) : Bool := k == .str || k == .bytesOrStr || k == .any
/-- kinds that are plain data and can therefore not be called / instantiated -/
def data : RKind → Bool
  | .intOrBool | .int | .float | .bool | .pnone | .bytes | .str | .bytesOrStr | .bytearray
  | .list | .tuple | .dict | .set | .frozenset => true
  | _ => false
def calleeOk (k : RKind) : Bool := !data k && k != .mark

def rsplitMark : List RKind → Option (List RKind × List RKind)
  | [] => none
  | k :: t =>
    if k = .mark then some ([], t)
    else match rsplitMark t with
      | some (a, b) => some (k :: a, b)
      | none => none

abbrev R := Except StackErr (RState × List Viol)

def need (n : Nat) (st : List RKind) : Except StackErr Unit :=
  if st.length < n then .error (.underflow n st.length) else .ok ()

def chk (b : Bool) (op : Op) (what : String) : List Viol := if b then [] else [.typed op what]

/-- one instruction of the reference machine -/
def step (r : RState) (i : Instr) : R :=
  let st := r.stack
  let push (k : RKind) : R := .ok ({ r with stack := k :: st }, [])
  let toMark (f : List RKind → List RKind → RState × List Viol) : R :=
    match rsplitMark st with
    | some (a, b) => .ok (f a b)
    | none => .error .noMark
  match i.op with
  | .int => push .intOrBool
  | .binInt | .binInt1 | .binInt2 | .long | .long1 | .long4 => push .int
  | .string | .binString | .shortBinString => push .bytesOrStr
  | .binBytes | .shortBinBytes | .binBytes8 => push .bytes
  | .byteArray8 => push .bytearray
  | .unicode | .binUnicode | .shortBinUnicode | .binUnicode8 => push .str
  | .float | .binFloat => push .float
  | .pnone => push .pnone
  | .newTrue | .newFalse => push .bool
  | .emptyList => push .list
  | .emptyTuple => push .tuple
  | .emptyDict => push .dict
  | .emptySet => push .set
  | .mark => push .mark
  | .nextBuffer | .persID | .ext1 | .ext2 | .ext4 => push .any
  | .glob => push .callable
  | .pop => match st with
    | [] => .error (.underflow 1 0)
    | _ :: t => .ok ({ r with stack := t }, [])
  | .dup => match st with
    | [] => .error (.underflow 1 0)
    | k :: t => .ok ({ r with stack := k :: k :: t }, chk (k != .mark) .dup "DUP of a MARK")
  | .popMark => toMark fun _ b => ({ r with stack := b }, [])
  | .list => toMark fun _ b => ({ r with stack := .list :: b }, [])
  | .tuple => toMark fun _ b => ({ r with stack := .tuple :: b }, [])
  | .frozenSet => toMark fun _ b => ({ r with stack := .frozenset :: b }, [])
  | .dict => toMark fun a b =>
      ({ r with stack := .dict :: b }, chk (a.length % 2 == 0) .dict "odd number of key/value operands")
  | .tuple1 => match st with
    | _ :: t => .ok ({ r with stack := .tuple :: t }, [])
    | _ => .error (.underflow 1 st.length)
  | .tuple2 => match st with
    | _ :: _ :: t => .ok ({ r with stack := .tuple :: t }, [])
    | _ => .error (.underflow 2 st.length)
  | .tuple3 => match st with
    | _ :: _ :: _ :: t => .ok ({ r with stack := .tuple :: t }, [])
    | _ => .error (.underflow 3 st.length)
  | .append => match st with
    | _ :: tgt :: t => .ok ({ r with stack := tgt :: t }, chk (isK .list tgt) .append "target is not a list")
    | _ => .error (.underflow 2 st.length)
  | .setItem => match st with
    | _ :: _ :: tgt :: t =>
      .ok ({ r with stack := tgt :: t }, chk (isK .dict tgt) .setItem "target is not a dict")
    | _ => .error (.underflow 3 st.length)
  | .appends => match rsplitMark st with
    | none => .error .noMark
    | some (_, b) => match b with
      | [] => .error (.underflow 1 0)
      | tgt :: t => .ok ({ r with stack := tgt :: t }, chk (isK .list tgt) .appends "target is not a list")
  | .setItems => match rsplitMark st with
    | none => .error .noMark
    | some (a, b) => match b with
      | [] => .error (.underflow 1 0)
      | tgt :: t => .ok ({ r with stack := tgt :: t },
          chk (isK .dict tgt) .setItems "target is not a dict" ++
          chk (a.length % 2 == 0) .setItems "odd number of key/value operands")
  | .addItems => match rsplitMark st with
    | none => .error .noMark
    | some (_, b) => match b with
      | [] => .error (.underflow 1 0)
      | tgt :: t => .ok ({ r with stack := tgt :: t }, chk (isK .set tgt) .addItems "target is not a set")
  | .stackGlobal => match st with
    | n :: m :: t => .ok ({ r with stack := .callable :: t },
        chk (isStr n && isStr m) .stackGlobal "operands are not two strings")
    | _ => .error (.underflow 2 st.length)
  | .reduce | .newObj => match st with
    | args :: callee :: t => .ok ({ r with stack := .object :: t },
        chk (isK .tuple args) i.op "argument is not a tuple" ++
        chk (calleeOk callee) i.op "callee is plain data or a MARK")
    | _ => .error (.underflow 2 st.length)
  | .newObjEx => match st with
    | kw :: args :: callee :: t => .ok ({ r with stack := .object :: t },
        chk (isK .dict kw) .newObjEx "kwargs is not a dict" ++
        chk (isK .tuple args) .newObjEx "args is not a tuple" ++
        chk (calleeOk callee) .newObjEx "callee is plain data or a MARK")
    | _ => .error (.underflow 3 st.length)
  | .build => match st with
    | state :: o :: t => .ok ({ r with stack := o :: t },
        chk (isK .tuple state || isK .dict state) .build "state is neither tuple nor dict" ++
        chk (isK .object o) .build "target is not an object")
    | _ => .error (.underflow 2 st.length)
  | .inst => toMark fun _ b => ({ r with stack := .object :: b }, [])
  | .obj => toMark fun a b =>
      ({ r with stack := .object :: b },
        chk (match a.getLast? with | some k => calleeOk k | none => false) .obj
          "no callee directly above the MARK")
  | .binPersID | .readOnlyBuffer => match st with
    | _ :: t => .ok ({ r with stack := .any :: t }, [])
    | _ => .error (.underflow 1 0)
  | .get | .binGet | .longBinGet =>
    let idx := match i.arg with | .nat n => n | _ => 0
    match RMemo.find? r.memo idx with
    | some k => push k
    | none => .ok ({ r with stack := .any :: st }, [.memoUndefined idx])
  | .put | .binPut | .longBinPut | .memoize =>
    let idx := match i.op with
      | .memoize => r.memo.length
      | _ => match i.arg with | .nat n => n | _ => 0
    match st with
    | [] => .ok (r, [.memoNoObject])
    | k :: _ =>
      if k = .mark then .ok (r, [.memoNoObject])
      else match RMemo.find? r.memo idx with
        | some _ => .ok ({ r with memo := RMemo.insert r.memo idx k }, [.memoRedefined idx])
        | none => .ok ({ r with memo := RMemo.insert r.memo idx k }, [])
  | .proto | .frame => .ok (r, [])
  | .stop => match st with
    | [] => .error (.underflow 1 0)
    | k :: t =>
      if k = .mark then .error .stopOnMark
      else if t.isEmpty then .ok ({ r with stack := [] }, [])
      else .error (.stopNotOne t.length)

/-- run a whole instruction list -/
def run (r : RState) : List Instr → R
  | [] => .ok (r, [])
  | i :: is =>
    match step r i with
    | .error e => .error e
    | .ok (r1, v1) =>
      match run r1 is with
      | .error e => .error e
      | .ok (r2, v2) => .ok (r2, v1 ++ v2)

end Ref
end PFV
