/-
L4 — the entropy interface of the generator (`EntropySource`, `src/generator/source.rs`) as pure
state transformers, the contract (`Lawful`) every theorem assumes of an entropy source, and the
exact port of the fuzzer-bytes source (`arbitrary::Unstructured`, crate arbitrary 1.4.2).
No imports outside the project.
-/
import PFV.Generated
namespace PFV

/-- the draws of `EntropySource`; integers are `Nat`/`Int` with their ranges stated in `Lawful`,
floats are IEEE-754 bit patterns; `genUnit` is `gen_unit_f64`: a value k/2^53 given as k -/
structure Entropy (σ : Type) where
  chooseIndex : σ → Nat → Nat × σ
  genBool : σ → Bool × σ
  genU8 : σ → Nat × σ
  genU16 : σ → Nat × σ
  genU32 : σ → Nat × σ
  genI32 : σ → Int × σ
  genI64 : σ → Int × σ
  genF64 : σ → UInt64 × σ
  genUnit : σ → Nat × σ
  genRange : σ → Nat → Nat → Nat × σ
  genBytes : σ → Nat → List UInt8 × σ

/-- `gen_ascii_char`: an index into `ASCII_CHARS` -/
def Entropy.genAsciiChar {σ} (E : Entropy σ) (s : σ) : UInt8 × σ :=
  let (i, s') := E.chooseIndex s Gen.asciiChars.length
  (Gen.asciiChars.getD i 0, s')

/-- the contract of C18, assumed of the PRNG source and proved of `ArbE` -/
structure Lawful {σ} (E : Entropy σ) : Prop where
  chooseIndex_lt : ∀ s n, 0 < n → (E.chooseIndex s n).1 < n
  chooseIndex_zero : ∀ s, (E.chooseIndex s 0).1 = 0
  genU8_lt : ∀ s, (E.genU8 s).1 < 256
  genU16_lt : ∀ s, (E.genU16 s).1 < 65536
  genU32_lt : ∀ s, (E.genU32 s).1 < 4294967296
  genI32_range : ∀ s, -2147483648 ≤ (E.genI32 s).1 ∧ (E.genI32 s).1 < 2147483648
  genI64_range : ∀ s, -9223372036854775808 ≤ (E.genI64 s).1 ∧ (E.genI64 s).1 < 9223372036854775808
  genUnit_lt : ∀ s, (E.genUnit s).1 < 9007199254740992
  genRange_in : ∀ s a b, a < b → b ≤ 2 ^ 64 → a ≤ (E.genRange s a b).1 ∧ (E.genRange s a b).1 < b
  genRange_degenerate : ∀ s a b, b ≤ a → (E.genRange s a b).1 = a
  genBytes_len : ∀ s n, (E.genBytes s n).1.length = n

/-! ### `arbitrary::Unstructured` over the remaining input bytes -/
namespace Arb

abbrev St := List UInt8

/-- the loop of `int_in_range_impl` for a `size`-byte unsigned type: consume big-endian bytes
while fewer than `size` were consumed and `delta >> (8*consumed) > 0`.
Returns (accumulated integer, rest). `fuel` = `size - consumed`. -/
def consume (delta : Nat) (size : Nat) : Nat → Nat → Nat → St → Nat × St
  | 0, _, acc, bs => (acc, bs)
  | fuel + 1, consumed, acc, bs =>
    if delta >>> (8 * consumed) > 0 then
      match bs with
      | [] => (acc, [])
      | b :: rest =>
        let acc' := if size = 1 then b.toNat else (acc * 256 + b.toNat) % (2 ^ (8 * size))
        consume delta size fuel (consumed + 1) acc' rest
    else (acc, bs)

/-- `Unstructured::int_in_range(start..=end)` for an unsigned `size`-byte type, `start ≤ end`.
(With `start > end` the crate panics; callers are shown to respect `start ≤ end`.) -/
def intInRange (size : Nat) (start end_ : Nat) (bs : St) : Nat × St :=
  if start = end_ then (start, bs)
  else
    let delta := end_ - start
    let (arb, rest) := consume delta size size 0 0 bs
    let offset := if delta = 2 ^ (8 * size) - 1 then arb else arb % (delta + 1)
    ((start + offset) % (2 ^ (8 * size)), rest)

/-- `fill_buffer` + `from_le_bytes`: an `n`-byte little-endian unsigned integer, zero padded -/
def takeLE : Nat → St → Nat × St
  | 0, bs => (0, bs)
  | n + 1, [] => (0, (takeLE n []).2)
  | n + 1, b :: rest =>
    let (v, r) := takeLE n rest
    (b.toNat + 256 * v, r)

def toSigned (bits : Nat) (v : Nat) : Int :=
  if v ≥ 2 ^ (bits - 1) then (v : Int) - (2 ^ bits : Nat) else (v : Int)

/-- `GenerationSource::Arbitrary` as an `Entropy` -/
def E : Entropy St where
  chooseIndex := fun bs n => if n = 0 then (0, bs) else intInRange 8 0 (n - 1) bs
  genBool := fun bs => let (v, r) := takeLE 1 bs; (v % 2 == 1, r)
  genU8 := takeLE 1
  genU16 := takeLE 2
  genU32 := takeLE 4
  genI32 := fun bs => let (v, r) := takeLE 4 bs; (toSigned 32 v, r)
  genI64 := fun bs => let (v, r) := takeLE 8 bs; (toSigned 64 v, r)
  genF64 := fun bs => let (v, r) := takeLE 8 bs; (UInt64.ofNat v, r)
  genUnit := fun bs => let (v, r) := takeLE 8 bs; (v / 2048, r)
  genRange := fun bs a b => if a ≥ b then (a, bs) else intInRange 8 a (b - 1) bs
  genBytes := fun bs n => if bs.length < n then (List.replicate n 0, bs) else (bs.take n, bs.drop n)

end Arb
end PFV
