/-
C12 (guards half): for every protocol and every opcode of its table there is a short path of
guarded steps from the empty state after which the opcode's guard holds — no opcode is dead
because its precondition can never be met.  Witness paths are data; the check is `decide`.
-/
import PFV.Sim
import PFV.AbsGen
import PFV.Generated
namespace PFV
namespace Reach

/-- configuration with every opt-in enabled (C12 counts EXT*/buffer opcodes only when enabled) -/
def cfgAll (p : Nat) : Cfg := { version := p, allowExt := true, allowBuf := true }

def step? (c : Cfg) (s : State) (i : Instr) : Option State :=
  if canEmit c s i.op && argOK s i.op i.arg then some (process c.version s i.op i.arg) else none

def runPath (c : Cfg) : State → List Instr → Option State
  | s, [] => some s
  | s, i :: is => match step? c s i with
    | some s' => runPath c s' is
    | none => none

def I (o : Op) : Instr := ⟨o, .none⟩
def glob : Instr := ⟨.glob, .pair [0x6f, 0x73] [0x73]⟩

/-- a list / tuple / dict on the stack, by the means the protocol offers -/
def mkList (p : Nat) : List Instr := if p ≥ 1 then [I .emptyList] else [I .mark, I .list]
def mkTuple (p : Nat) : List Instr := if p ≥ 1 then [I .emptyTuple] else [I .mark, I .tuple]
def mkDict (p : Nat) : List Instr := if p ≥ 1 then [I .emptyDict] else [I .mark, I .pnone, I .pnone, I .dict]

/-- witness path after which `op` can be emitted in protocol `p` -/
def witness (p : Nat) (op : Op) : List Instr :=
  match op with
  | .pop | .dup | .tuple1 | .binPersID | .put | .binPut | .longBinPut | .memoize | .readOnlyBuffer => [I .pnone]
  | .tuple2 => [I .pnone, I .pnone]
  | .tuple3 => [I .pnone, I .pnone, I .pnone]
  | .append => mkList p ++ [I .pnone]
  | .appends => mkList p ++ [I .mark, I .pnone]
  | .setItem => mkDict p ++ [I .pnone, I .pnone]
  | .setItems => mkDict p ++ [I .mark, I .pnone, I .pnone]
  | .addItems => [I .emptySet, I .mark, I .pnone]
  | .tuple | .list | .frozenSet | .popMark => [I .mark]
  | .dict => [I .mark, I .pnone, I .pnone]
  | .inst => [I .mark, I .pnone]
  | .obj => [I .mark, glob]
  | .reduce | .newObj => [glob] ++ mkTuple p
  | .newObjEx => [glob] ++ mkTuple p ++ mkDict p
  | .build => [glob] ++ mkTuple p ++ [I .reduce] ++ mkTuple p
  | .get | .binGet | .longBinGet => [I .pnone, ⟨.put, .nat 0⟩]
  | .stackGlobal => [⟨.unicode, .bytes []⟩, ⟨.unicode, .bytes []⟩]
  | _ => []

/-- PROTO, FRAME and STOP are never chosen by the body loop: they are written by the header /
the end of `generate_internal` -/
def special (op : Op) : Bool := op == .proto || op == .frame || op == .stop

def reachOk (p : Nat) (op : Op) : Bool :=
  special op ||
  (match runPath (cfgAll p) (initState p) (witness p op) with
   | some s => canEmit (cfgAll p) s op && (witness p op).all (fun i => (Gen.table p).contains i.op)
   | none => false)

end Reach
end PFV
