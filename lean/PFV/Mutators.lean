/-
L5 — the seven mutators (`src/mutators/*.rs`) and the first-`Some`-wins loops of
`src/generator/mutation.rs`, as pure functions over an entropy source.
i32/i64 values are `Int`s inside their range; floats are bit patterns; strings are `List Char`
(Rust `String` = Unicode scalar values; `String::len` is the UTF-8 byte length).
Every Rust indexing/slicing site is an explicit `Panic` result here; C09 proves none is reachable.
-/
import PFV.Entropy
import PFV.Instr
import PFV.Enc
namespace PFV

/-- the ways the Rust could panic at the modelled sites -/
inductive Panic
  | index (site : String)          -- `v[i]` with `i ≥ v.len()`
  | slice (site : String)          -- `v[..n]` with `n > v.len()`
  | unreachable (site : String)
  | frameUnderflow                 -- the `Err` of the FRAME size computation
  deriving Repr, DecidableEq, Inhabited

def idx? {α : Type} (site : String) (l : List α) (i : Nat) : Except Panic α :=
  match l[i]? with
  | some x => .ok x
  | none => .error (.index site)

namespace Mutators

def toU (bits : Nat) (v : Int) : Nat := (v % ((2 ^ bits : Nat) : Int)).toNat
def wrap (bits : Nat) (v : Int) : Int := Arb.toSigned bits (toU bits v)
/-- `value ^ (1 << pos)` on a `bits`-wide two's complement integer -/
def flipBit (bits : Nat) (v : Int) (pos : Nat) : Int := Arb.toSigned bits ((toU bits v) ^^^ (2 ^ pos))

def usizeMax : Nat := 18446744073709551615
def satAdd1 (n : Nat) : Nat := if n ≥ usizeMax then usizeMax else n + 1
def satSub1 (n : Nat) : Nat := n - 1

/-- `x >= rate` for `x = k / 2^53` and `rate` an IEEE-754 double given by its bits
(NaN compares false; ±0 equal) -/
def unitGe (k : Nat) (rateBits : UInt64) : Bool :=
  let b := rateBits.toNat
  let sign := b / 2 ^ 63
  let e := (b / 2 ^ 52) % 2048
  let frac := b % 2 ^ 52
  if e = 2047 then (if frac ≠ 0 then false else sign == 1)
  else if sign = 1 then true
  else
    let m := if e = 0 then frac else frac + 2 ^ 52
    let ee := if e = 0 then 1 else e
    decide (k * 2 ^ 1022 ≥ m * 2 ^ ee)

variable {σ : Type} (E : Entropy σ)

/-- the rate gate: `true` = skip (`gen_unit_f64() >= rate`) -/
def gate (s : σ) (rate : UInt64) : Bool × σ :=
  let (k, s') := E.genUnit s
  (unitGe k rate, s')

def utf8Len (cs : List Char) : Nat := (cs.map Char.utf8Size).foldl (· + ·) 0

/-- `for _ in 0..n { result.push((gen_u8() % 26 + b'a') as char) }` -/
def extendLower : Nat → σ → List UInt8 → List UInt8 × σ
  | 0, s, acc => (acc, s)
  | n + 1, s, acc =>
    let (b, s') := E.genU8 s
    extendLower n s' (acc ++ [UInt8.ofNat (b % 26 + 97)])

def extendBytes : Nat → σ → List UInt8 → List UInt8 × σ
  | 0, s, acc => (acc, s)
  | n + 1, s, acc =>
    let (b, s') := E.genU8 s
    extendBytes n s' (acc ++ [UInt8.ofNat b])

def mutateInt (bits : Nat) (bounds : List Int) (m : Mut) (v : Int) (s : σ) (rate : UInt64) :
    Except Panic (Option Int × σ) :=
  match m with
  | .bitflip =>
    let (skip, s) := gate E s rate
    if skip then .ok (none, s) else
      let (pos, s) := E.genRange s 0 bits
      .ok (some (flipBit bits v pos), s)
  | .boundary =>
    let (skip, s) := gate E s rate
    if skip then .ok (none, s) else
      let (i, s) := E.genRange s 0 bounds.length
      match idx? "boundary.rs:boundaries[..]" bounds i with
      | .ok x => .ok (some x, s)
      | .error e => .error e
  | .offbyone =>
    let (skip, s) := gate E s rate
    if skip then .ok (none, s) else
      let (b, s) := E.genBool s
      .ok (some (if b then wrap bits (v + 1) else wrap bits (v - 1)), s)
  | _ => .ok (none, s)

def mutateFloat (m : Mut) (_v : UInt64) (s : σ) (rate : UInt64) : Except Panic (Option UInt64 × σ) :=
  match m with
  | .boundary =>
    let (skip, s) := gate E s rate
    if skip then .ok (none, s) else
      let (i, s) := E.genRange s 0 Gen.boundFloat.length
      match idx? "boundary.rs:boundaries[..] (float)" Gen.boundFloat i with
      | .ok x => .ok (some x, s)
      | .error e => .error e
  | _ => .ok (none, s)

def mutateString (m : Mut) (v : List Char) (s : σ) (rate : UInt64) :
    Except Panic (Option (List Char) × σ) :=
  match m with
  | .stringlen =>
    let (skip, s) := gate E s rate
    if skip then .ok (none, s) else
      let (r, s) := E.genRange s 0 3
      if r = 0 then
        if v.isEmpty then .ok (some v, s) else
          let (n, s) := E.genRange s 0 (utf8Len v)
          .ok (some (v.take n), s)
      else if r = 1 then
        let (n, s) := E.genRange s 1 10
        let (ext, s) := extendLower E n s []
        .ok (some (v ++ ext.map (fun b => Char.ofNat b.toNat)), s)
      else .ok (some (v ++ v), s)
  | .character =>
    let (skip, s) := gate E s rate
    if skip || v.isEmpty then .ok (none, s) else
      let (i, s) := E.genRange s 0 v.length
      let (b, s) := E.genU8 s
      if i < v.length then .ok (some (v.set i (Char.ofNat (b % 94 + 33))), s)
      else .error (.index "character.rs:chars[idx]")
  | _ => .ok (none, s)

def mutateBytes (m : Mut) (v : List UInt8) (s : σ) (rate : UInt64) :
    Except Panic (Option (List UInt8) × σ) :=
  match m with
  | .stringlen =>
    let (skip, s) := gate E s rate
    if skip then .ok (none, s) else
      let (r, s) := E.genRange s 0 3
      if r = 0 then
        if v.isEmpty then .ok (some v, s) else
          let (n, s) := E.genRange s 0 v.length
          if n ≤ v.length then .ok (some (v.take n), s) else .error (.slice "stringlen.rs:value[..new_len]")
      else if r = 1 then
        let (n, s) := E.genRange s 1 10
        let (ext, s) := extendBytes E n s []
        .ok (some (v ++ ext), s)
      else .ok (some (v ++ v), s)
  | .character =>
    let (skip, s) := gate E s rate
    if skip || v.isEmpty then .ok (none, s) else
      let (i, s) := E.genRange s 0 v.length
      let (b, s) := E.genU8 s
      if i < v.length then .ok (some (v.set i (UInt8.ofNat b)), s)
      else .error (.index "character.rs:result[idx]")
  | _ => .ok (none, s)

def mutateMemo (m : Mut) (v : Nat) (s : σ) (rate : UInt64) : Except Panic (Option Nat × σ) :=
  match m with
  | .offbyone =>
    let (skip, s) := gate E s rate
    if skip then .ok (none, s) else
      let (b, s) := E.genBool s
      .ok (some (if b then satAdd1 v else satSub1 v), s)
  | .memoindex unsafeMode =>
    let (skip, s) := gate E s rate
    if skip then .ok (none, s) else
      if unsafeMode then
        let (i, s) := E.genRange s 0 1000
        .ok (some i, s)
      else
        let (r, s) := E.genRange s 0 3
        .ok (some (if r = 0 then satAdd1 v else if r = 1 then satSub1 v else v), s)
  | _ => .ok (none, s)

/-- `for mutator in &self.mutators { if let Some(x) = mutator.mutate_*(..) { result = x; break } }` -/
def firstSome {α : Type} (f : Mut → α → σ → UInt64 → Except Panic (Option α × σ)) :
    List Mut → α → σ → UInt64 → Except Panic (α × σ × Bool)
  | [], v, s, _ => .ok (v, s, false)
  | m :: ms, v, s, rate =>
    match f m v s rate with
    | .error e => .error e
    | .ok (some x, s') => .ok (x, s', true)
    | .ok (none, s') => firstSome f ms v s' rate

/-! ### type confusion (`typeconfusion.rs`) -/

def confused : List UInt8 := [0x63, 0x6f, 0x6e, 0x66, 0x75, 0x73, 0x65, 0x64]

/-- `generate_opcode_for_type`, as the instruction whose encoding it writes -/
def opcodeForType (t : Gen.StackType) (s : σ) : Instr × σ :=
  match t with
  | .tInt => let (v, s) := E.genI32 s; (⟨.binInt, .int v⟩, s)
  | .tFloat => let (v, s) := E.genF64 s; (⟨.binFloat, .float v⟩, s)
  | .tString => (⟨.shortBinUnicode, .bytes confused⟩, s)
  | .tBytes => (⟨.shortBinBytes, .bytes confused⟩, s)
  | .tList => (⟨.emptyList, .none⟩, s)
  | .tDict => (⟨.emptyDict, .none⟩, s)
  | .tTuple => (⟨.emptyTuple, .none⟩, s)
  | .tNone => (⟨.pnone, .none⟩, s)
  | .tBool => let (b, s) := E.genBool s; (⟨if b then .newTrue else .newFalse, .none⟩, s)

/-- `TypeConfusionMutator::post_process`: `first` = first byte of the emission
(`snapshot.output_delta[0]`, `none` if nothing was emitted); returns the replacement
instruction if it rewrote the emission -/
def typeConfusion (unsafeMode : Bool) (first : Option UInt8) (s : σ) (rate : UInt64) :
    Except Panic (Option Instr × σ) :=
  if !unsafeMode then .ok (none, s) else
    let (skip, s) := gate E s rate
    if skip then .ok (none, s) else
      match first with
      | none => .ok (none, s)
      | some b =>
        match Gen.opcodeToType b with
        | none => .ok (none, s)
        | some orig =>
          let different := Gen.allTypes.filter (· != orig)
          let (i, s) := E.chooseIndex s different.length
          match idx? "typeconfusion.rs:different_types[..]" different i with
          | .error e => .error e
          | .ok wrong =>
            let (ins, s) := opcodeForType E wrong s
            .ok (some ins, s)

/-- the loop `for mutator in &self.mutators { mutator.post_process(..) }`: every mutator sees the
same snapshot (the original emission) and rewrites the same region; the last rewrite wins -/
def postProcess : List Mut → Option UInt8 → Option Instr → σ → UInt64 → Except Panic (Option Instr × σ)
  | [], _, cur, s, _ => .ok (cur, s)
  | m :: ms, first, cur, s, rate =>
    match m with
    | .typeconfusion u =>
      (match typeConfusion E u first s rate with
       | .error e => .error e
       | .ok (some r, s') => postProcess ms first (some r) s' rate
       | .ok (none, s') => postProcess ms first cur s' rate)
    | _ => postProcess ms first cur s rate

end Mutators
end PFV
