/-
L4b — the seeded entropy source, ported exactly: `ChaCha8Rng::seed_from_u64(seed)` (rand_chacha 0.9.0 over
rand_core 0.9.3's `BlockRng`) and the draws `GenerationSource::Rand` makes through rand 0.9.2
(`StandardUniform` for bool/u8/u16/u32/i32/i64/f64, `random_range` for `usize`, `try_fill_bytes`).

  * `seedKey`     rand_core `SeedableRng::seed_from_u64`: eight PCG32 outputs, little-endian, are the key
  * `block`       the ChaCha block function with 8 rounds (4 double rounds), 64-bit block counter in
                  words 12–13, stream id 0 in words 14–15 (`init_chacha(key, &[0; 8])`)
  * `refill`      `refill_wide`: four consecutive blocks per refill, the counter advances by 4
  * `nextU32/64`  `BlockRng::next_u32 / next_u64` including the split read at index 63
  * `sampleRange` rand's `UniformInt::<u32|u64>::sample_single_inclusive` (widening multiply, one extra
                  draw when the low half lies in the biased zone), chosen by `high > u32::MAX` as
                  `UniformUsize::sample_single` does on a 64-bit target

No imports outside the project.
-/
import PFV.Entropy
namespace PFV
namespace Rand

def rotl (x : UInt32) (n : UInt32) : UInt32 := (x <<< n) ||| (x >>> (32 - n))

/-- quarter round on the words at positions `a b c d` -/
def qr (x : Array UInt32) (a b c d : Nat) : Array UInt32 :=
  let va := x.getD a 0; let vb := x.getD b 0; let vc := x.getD c 0; let vd := x.getD d 0
  let va := va + vb; let vd := rotl (vd ^^^ va) 16
  let vc := vc + vd; let vb := rotl (vb ^^^ vc) 12
  let va := va + vb; let vd := rotl (vd ^^^ va) 8
  let vc := vc + vd; let vb := rotl (vb ^^^ vc) 7
  (((x.setIfInBounds a va).setIfInBounds b vb).setIfInBounds c vc).setIfInBounds d vd

def doubleRound (x : Array UInt32) : Array UInt32 :=
  let x := qr x 0 4 8 12
  let x := qr x 1 5 9 13
  let x := qr x 2 6 10 14
  let x := qr x 3 7 11 15
  let x := qr x 0 5 10 15
  let x := qr x 1 6 11 12
  let x := qr x 2 7 8 13
  qr x 3 4 9 14

/-- one 16-word ChaCha8 block for block counter `pos` -/
def block (key : Array UInt32) (pos : UInt64) : Array UInt32 :=
  let consts : Array UInt32 := #[0x61707865, 0x3320646e, 0x79622d32, 0x6b206574]
  let ctr : Array UInt32 := #[pos.toUInt32, (pos >>> 32).toUInt32, 0, 0]
  let init : Array UInt32 := consts ++ key ++ ctr
  let x := doubleRound (doubleRound (doubleRound (doubleRound init)))
  (Array.range 16).map (fun i => x.getD i 0 + init.getD i 0)

/-- `BlockRng<ChaCha8Core>`: key, next block counter, the 64-word buffer, the read index -/
structure St where
  key : Array UInt32
  pos : UInt64
  buf : Array UInt32
  idx : Nat

def refill (s : St) : St :=
  { s with buf := block s.key s.pos ++ block s.key (s.pos + 1) ++ block s.key (s.pos + 2) ++ block s.key (s.pos + 3),
           pos := s.pos + 4, idx := 0 }

/-- PCG32 step of `seed_from_u64`: new state and output word -/
def pcg32 (state : UInt64) : UInt64 × UInt32 :=
  let st := state * 6364136223846793005 + 11634580027462260723
  let xorshifted : UInt32 := (((st >>> 18) ^^^ st) >>> 27).toUInt32
  let rot : UInt32 := (st >>> 59).toUInt32
  (st, (xorshifted >>> rot) ||| (xorshifted <<< ((32 - rot) % 32)))

def seedKey : Nat → UInt64 → Array UInt32 → Array UInt32
  | 0, _, acc => acc
  | n + 1, st, acc => let (st', w) := pcg32 st; seedKey n st' (acc.push w)

/-- `ChaCha8Rng::seed_from_u64(seed)`: empty buffer (index 64), block counter 0 -/
def seed (v : Nat) : St :=
  { key := seedKey 8 (UInt64.ofNat v) #[], pos := 0, buf := Array.replicate 64 0, idx := 64 }

def nextU32 (s : St) : Nat × St :=
  let s := if s.idx ≥ 64 then refill s else s
  ((s.buf.getD s.idx 0).toNat, { s with idx := s.idx + 1 })

def nextU64 (s : St) : Nat × St :=
  if s.idx < 63 then
    ((s.buf.getD s.idx 0).toNat + 4294967296 * (s.buf.getD (s.idx + 1) 0).toNat, { s with idx := s.idx + 2 })
  else if s.idx ≥ 64 then
    let s := refill s
    ((s.buf.getD 0 0).toNat + 4294967296 * (s.buf.getD 1 0).toNat, { s with idx := 2 })
  else
    let x := (s.buf.getD 63 0).toNat
    let s := refill s
    (x + 4294967296 * (s.buf.getD 0 0).toNat, { s with idx := 1 })

/-- `UniformInt::<uN>::sample_single_inclusive(low, high-1)` for `low < high`, `w` = 2^N:
`range = high - low`; `(hi, lo) = x.wmul(range)`; if `lo > range.wrapping_neg()` one more draw decides
whether to add one -/
def sampleWith (draw : St → Nat × St) (w : Nat) (low high : Nat) (s : St) : Nat × St :=
  let range := high - low
  let (x, s) := draw s
  let p := x * range
  let hi := p / w
  let lo := p % w
  if lo > (w - range) % w then
    let (x2, s) := draw s
    let newHi := (x2 * range) / w
    (low + hi + (if lo + newHi ≥ w then 1 else 0), s)
  else (low + hi, s)

/-- `random_range(low..high)` for `usize` on a 64-bit target, `low < high` -/
def sampleRange (low high : Nat) (s : St) : Nat × St :=
  if high > 4294967295 then sampleWith nextU64 18446744073709551616 low high s
  else sampleWith nextU32 4294967296 low high s

/-- IEEE-754 bits of `k / 2^53` for `k < 2^53` (exact: `(value >> 11) as f64 * 2^-53`) -/
def unitBits (k : Nat) : UInt64 :=
  if k = 0 then 0
  else
    let e := Nat.log2 k
    let mant := (k <<< (52 - e)) - 4503599627370496
    UInt64.ofNat ((970 + e) * 4503599627370496 + mant)

def leBytes (w : Nat) (n : Nat) : List UInt8 := (List.range n).map (fun i => UInt8.ofNat ((w >>> (8 * i)) % 256))

/-- `try_fill_bytes`: whole words are consumed, the last one partially used -/
def fillBytes : Nat → Nat → St → List UInt8 → List UInt8 × St
  | 0, _, s, acc => (acc, s)
  | _ + 1, 0, s, acc => (acc, s)
  | fuel + 1, n + 1, s, acc =>
    let (w, s) := nextU32 s
    let k := min 4 (n + 1)
    fillBytes fuel (n + 1 - k) s (acc ++ leBytes w k)

/-- `GenerationSource::Rand` as an `Entropy` -/
def E : Entropy St where
  chooseIndex := fun s n => if n = 0 then (0, s) else sampleRange 0 n s
  genBool := fun s => let (x, s) := nextU32 s; (decide (x ≥ 2147483648), s)
  genU8 := fun s => let (x, s) := nextU32 s; (x % 256, s)
  genU16 := fun s => let (x, s) := nextU32 s; (x % 65536, s)
  genU32 := nextU32
  genI32 := fun s => let (x, s) := nextU32 s; (Arb.toSigned 32 x, s)
  genI64 := fun s => let (x, s) := nextU64 s; (Arb.toSigned 64 x, s)
  genF64 := fun s => let (x, s) := nextU64 s; (unitBits (x / 2048), s)
  genUnit := fun s => let (x, s) := nextU64 s; (x / 2048, s)
  genRange := fun s a b => if a ≥ b then (a, s) else sampleRange a b s
  genBytes := fun s n => fillBytes n n s []

end Rand
end PFV
