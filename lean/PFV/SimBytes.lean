/-
L1 — what `process_stack_ops` reads out of the `arg_bytes` it is handed (`stack_ops.rs`):
only INT's value and the memo index of the GET/PUT families matter for slot kinds; for the
other opcodes only presence (and, for the fixed-width ones, sufficient length) matters.
Used by the probe stream S1, which calls `process_stack_ops` with raw argument bytes.
-/
import PFV.Sim
import PFV.Lex
namespace PFV

/-- Rust `str::trim().parse::<i64>()`: optional sign, ASCII digits, no underscores; `None` on
overflow or junk. -/
def rustParseI64 (s : List UInt8) : Option Int :=
  let t := Lex.strip s
  let (neg, ds) := match t with
    | b :: bs => if b = 0x2d then (true, bs) else if b = 0x2b then (false, bs) else (false, b :: bs)
    | [] => (false, [])
  if ds.isEmpty || !ds.all Lex.isDigit then none
  else
    let n : Nat := ds.foldl (fun (acc : Nat) (b : UInt8) => acc * 10 + (b.toNat - 0x30)) 0
    let v : Int := if neg then -(n : Int) else (n : Int)
    if i64Fits v then some v else none

/-- Rust `str::trim().parse::<usize>()` (64-bit) -/
def rustParseUsize (s : List UInt8) : Option Nat :=
  let t := Lex.strip s
  let ds := match t with
    | b :: bs => if b = 0x2b then bs else b :: bs
    | [] => []
  if ds.isEmpty || !ds.all Lex.isDigit then none
  else
    let n : Nat := ds.foldl (fun (acc : Nat) (b : UInt8) => acc * 10 + (b.toNat - 0x30)) 0
    if n < 18446744073709551616 then some n else none

/-- `Arg` as `process` understands it, from the raw bytes `process_stack_ops` receives.
`none` ⇒ the Rust takes its "no argument" branch (also used when a fixed-width argument is
too short or an index does not parse: those branches do nothing as well). -/
def argOfBytes (op : Op) (a : Option (List UInt8)) : Arg :=
  match a with
  | none => .none
  | some bs =>
    match op with
    | .int => match rustParseI64 bs with
      | some v => .int v
      | none => .int 0
    | .get | .put => match rustParseUsize bs with
      | some n => .nat n
      | none => .none
    | .binGet | .binPut => match bs with
      | b :: _ => .nat b.toNat
      | [] => .none            -- the Rust would panic on `arg_bytes[0]`; never emitted
    | .longBinGet | .longBinPut => match Lex.takeN 4 bs with
      | some (v, _) => .nat (Lex.leNat v)
      | none => .none
    | .binInt => if bs.length < 4 then .none else .bytes bs
    | .binInt1 => if bs.length < 1 then .none else .bytes bs
    | .binInt2 => if bs.length < 2 then .none else .bytes bs
    | .binFloat => if bs.length < 8 then .none else .bytes bs
    | .long1 => match bs with
      | n :: r => if r.length + 1 > n.toNat then .bytes bs else .none
      | [] => .none
    | .long4 => match Lex.takeN 4 bs with
      | some (v, r) => if r.length ≥ Lex.leNat v then .bytes bs else .none
      | none => .none
    | .glob | .inst => if (bs.filter (· == 0x0a)).length ≥ 1 then .bytes bs else .none
    | _ => .bytes bs

end PFV
