/-
The property theorems.  One namespace per property (C01 …), statements only here — helper lemmas
live in `Proofs/` so that a statement cannot be weakened quietly.  Every theorem below is about
the hand-written model (`Sim`, `AbsGen`, …) and the independent specification (`Lex`, `Ref`,
`Spec`); the tie to /repo's source is the translator (tables) and the correspondence streams.
-/
import PFV.Spec
import PFV.Proofs.Tables
import PFV.Proofs.ProcessFacts
import PFV.Proofs.Cleanup
import PFV.Proofs.BodyFacts
namespace PFV
open Ref (RKind RState RMemo)

/-! ## shared structure of runs -/

theorem header_steps (c : Cfg) (frame : Option Nat) {s s' : State} {rest : List Instr}
    (h : Steps c s rest s') : Steps c s (header c.version frame ++ rest) s' := by
  unfold header
  by_cases hv : c.version ≥ 2 <;> cases frame <;>
    simp only [hv, if_true, if_false, List.nil_append, List.append_nil, List.cons_append] <;>
    first
      | exact h
      | exact Steps.hdr (Or.inl rfl) h
      | exact Steps.hdr (Or.inr rfl) h
      | exact Steps.hdr (Or.inl rfl) (Steps.hdr (Or.inr rfl) h)

/-- everything before STOP is one derivation of guarded steps from the initial state, and it
ends with exactly one non-MARK object on the simulated stack -/
theorem Run.pre {c : Cfg} {table : List Op} {is : List Instr} (h : Run c table is) :
    ∃ pre s', is = pre ++ [stopInstr] ∧ Steps c (initState c.version) pre s' ∧
      ∃ k, s'.stack = [k] ∧ k ≠ .mark := by
  obtain ⟨frame, body, sb, _, hb, rfl⟩ := h.run
  obtain ⟨c1, c2, _, _⟩ := cleanup_spec c sb
  refine ⟨header c.version frame ++ body ++ plain (cleanup c.version sb).2, (cleanup c.version sb).1, rfl, ?_, c2⟩
  rw [List.append_assoc]
  exact header_steps c frame (hb.toSteps.append c1)

theorem srel_init (v : Nat) : SRel (initState v) {} := ⟨Rel.nil, MRel.nil⟩

/-! ## C17 — the simulated stack and memo mirror the reference machine -/
namespace C17

/-- one guarded step (all 68 opcodes, every admissible argument) — see `Proofs/RunSim.lean` -/
theorem step_sim (c : Cfg) (hsafe : c.unsafeMut = false) (s : State) (r : RState)
    (hR : SRel s r) (hd : Dense s.memo) (op : Op) (a : Arg)
    (hc : canEmit c s op = true) (ha : argOK s op a = true) :
    ∃ r', Ref.step r ⟨op, a⟩ = .ok (r', []) ∧ SRel (process c.version s op a) r' ∧
      Dense (process c.version s op a).memo :=
  PFV.step_sim c hsafe s r hR hd op a hc ha

/-- **Every prefix.**  For every safe configuration, every run of the generator (any opcode
choices, any admissible arguments, any body length, framed or not) and every prefix `p` of the
emitted instructions before STOP: the reference machine executes `p` without error or violation
and ends in a state related slot by slot (equal depth, equal MARK positions, compatible kinds,
equal memo key set) to the generator's simulated state after `p`. -/
theorem run_sim (c : Cfg) (hsafe : c.unsafeMut = false) (table : List Op) (is : List Instr)
    (hrun : Run c table is) (p : List Instr) (hp : p <+: is.dropLast) :
    ∃ r, Ref.run {} p = .ok (r, []) ∧ SRel (simRun c.version (initState c.version) p) r := by
  obtain ⟨pre, s', rfl, hs, _⟩ := hrun.pre
  simp only [List.dropLast_concat] at hp
  obtain ⟨s1, h1⟩ := hs.prefix hp
  obtain ⟨r, hr, hrel, _⟩ := steps_sim hsafe h1 (srel_init c.version) dense_nil
  exact ⟨r, hr, h1.simRun_eq ▸ hrel⟩

/-- the relation really pins depth and MARK positions -/
theorem rel_depth {s : State} {r : RState} (h : SRel s r) : s.stack.length = r.stack.length :=
  h.stack.length_eq

theorem rel_marks {a : List Kind} {b : List RKind} (h : Rel a b) :
    a.map (· == .mark) = b.map (· == .mark) := by
  induction h with
  | nil => rfl
  | @cons k r ks rs hc _ ih =>
    have : (k == Kind.mark) = (r == RKind.mark) := by
      by_cases hk : k = .mark
      · subst hk; rw [compat_mark_left.mp hc]; rfl
      · have hr : r ≠ .mark := compat_nonmark hk hc
        have h1 : (k == Kind.mark) = false := by simpa using hk
        have h2 : (r == RKind.mark) = false := by simpa using hr
        rw [h1, h2]
    simp only [List.map_cons, this, ih]

theorem rel_memo_keys {m : Memo} {rm : RMemo} (h : MRel m rm) : m.map (·.1) = rm.map (·.1) := by
  induction h with
  | nil => rfl
  | cons _ _ ih => simp [ih]

end C17

/-! ## C01 / C02 / C03 — stack, memo and operand-kind discipline -/

/-- the reference machine accepts the complete output of every safe run with no violation -/
theorem run_accepted (c : Cfg) (hsafe : c.unsafeMut = false) (table : List Op) (is : List Instr)
    (hrun : Run c table is) : ∃ r, Ref.run {} is = .ok (r, []) := by
  obtain ⟨pre, s', rfl, hs, k, hk, hkm⟩ := hrun.pre
  obtain ⟨r, hr, hrel, _⟩ := steps_sim hsafe hs (srel_init c.version) dense_nil
  have hst := hrel.stack
  rw [hk] at hst
  obtain ⟨rk, rt, hrs, hck, ht⟩ := hst.cons_inv
  have hrt : rt = [] := ht.nil_inv
  subst hrt
  have hrk : rk ≠ .mark := compat_nonmark hkm hck
  have hstop : Ref.run r [stopInstr] = .ok ({ r with stack := [] }, []) := by
    simp [Ref.run, Ref.step, stopInstr, hrs, hrk]
  exact ⟨_, run_append_ok hr hstop⟩

namespace C01
/-- **C01.**  Safe configuration ⇒ the reference stack discipline accepts the output: no
underflow, every MARK-consumer finds a MARK, STOP finds exactly one non-MARK object.  For all
protocols, opcode choices, arguments, body lengths, opt-in flags. -/
theorem accepted (c : Cfg) (hsafe : c.unsafeMut = false) (table : List Op) (is : List Instr)
    (hrun : Run c table is) : Spec.stackOk is = true := by
  obtain ⟨r, hr⟩ := run_accepted c hsafe table is hrun
  simp [Spec.stackOk, hr]
end C01

namespace C02
/-- **C02.**  Safe configuration ⇒ no memo violation: every GET names a defined index, no PUT
re-defines one, no PUT sees a MARK or an empty stack. -/
theorem memo_ok (c : Cfg) (hsafe : c.unsafeMut = false) (table : List Op) (is : List Instr)
    (hrun : Run c table is) : Spec.memoOk is = true := by
  obtain ⟨r, hr⟩ := run_accepted c hsafe table is hrun
  simp [Spec.memoOk, hr]

/-- the memo keys of every reachable simulated state are exactly 0 … n-1 -/
theorem keys_dense (c : Cfg) (hsafe : c.unsafeMut = false) (table : List Op) (is : List Instr)
    (hrun : Run c table is) (p : List Instr) (hp : p <+: is.dropLast) :
    Memo.keys (simRun c.version (initState c.version) p).memo =
      List.range (simRun c.version (initState c.version) p).memo.length := by
  obtain ⟨pre, s', rfl, hs, _⟩ := hrun.pre
  simp only [List.dropLast_concat] at hp
  obtain ⟨s1, h1⟩ := hs.prefix hp
  obtain ⟨r, _, _, hd⟩ := steps_sim hsafe h1 (srel_init c.version) dense_nil
  exact h1.simRun_eq ▸ hd
end C02

namespace C03
/-- **C03.**  Safe configuration ⇒ no operand-kind violation (APPEND/APPENDS on a list, SETITEM(S)
on a dict with an even operand count, ADDITEMS on a set, DICT even, STACK_GLOBAL on two strings,
REDUCE/NEWOBJ/NEWOBJ_EX/BUILD/OBJ operands, DUP not on a MARK). -/
theorem typed_ok (c : Cfg) (hsafe : c.unsafeMut = false) (table : List Op) (is : List Instr)
    (hrun : Run c table is) : Spec.typedOk is = true := by
  obtain ⟨r, hr⟩ := run_accepted c hsafe table is hrun
  simp [Spec.typedOk, hr]
end C03

end PFV

namespace PFV
open Ref (RKind RState RMemo)

/-! ## C05 — protocol compliance and header (instruction level; byte level in `C04`/`Gen`) -/
namespace C05

theorem table_le_intro : ∀ p, p < 6 → ∀ o ∈ Gen.table p, Lex.introduced o ≤ p := Tables.table_le_intro

theorem no_proto_below_2 : ∀ p, p < 2 → Op.proto ∉ Gen.table p := by decide

/-- **C05 (opcodes).**  Every instruction of every run for protocol `P` (P ≤ 5) was introduced in
protocol `P` or earlier — header, body (any choice from the translated table), the collapse tail
and STOP. -/
theorem ops_in_proto (c : Cfg) (hv : c.version < 6) (is : List Instr)
    (hrun : Run c (Gen.table c.version) is) : Spec.opsInProto c.version is = true := by
  obtain ⟨frame, body, sb, hf, hb, rfl⟩ := hrun.run
  obtain ⟨_, _, _, c4⟩ := cleanup_spec c sb
  simp only [Spec.opsInProto, List.all_append, Bool.and_eq_true, List.all_eq_true, decide_eq_true_eq]
  refine ⟨⟨⟨?_, ?_⟩, ?_⟩, ?_⟩
  · intro i hi
    unfold header at hi
    simp only [List.mem_append] at hi
    rcases hi with hi | hi
    · by_cases h2 : c.version ≥ 2
      · simp only [h2, if_true, List.mem_singleton] at hi; subst hi; simpa [protoInstr, Lex.introduced] using h2
      · simp [h2] at hi
    · cases frame with
      | none => simp at hi
      | some n =>
        simp only [List.mem_singleton] at hi; subst hi
        simpa [Lex.introduced] using hf rfl
  · intro i hi
    exact table_le_intro _ hv _ (hb.ops_mem i hi)
  · intro i hi
    simp only [plain, List.mem_map] at hi
    obtain ⟨o, ho, rfl⟩ := hi
    rcases c4 o ho with rfl | rfl | ⟨_, rfl⟩ | ⟨h2, rfl | rfl⟩ <;> simp [Lex.introduced] <;> omega
  · intro i hi
    simp only [List.mem_singleton] at hi; subst hi; simp [stopInstr, Lex.introduced]

/-- **C05 (header).**  For P ≥ 2 the run starts with exactly one PROTO whose argument is P;
for P < 2 it contains no PROTO. -/
theorem header_ok (c : Cfg) (is : List Instr)
    (hrun : Run c (Gen.table c.version) is) : Spec.headerOk c.version is = true := by
  obtain ⟨frame, body, sb, hf, hb, rfl⟩ := hrun.run
  obtain ⟨_, _, _, c4⟩ := cleanup_spec c sb
  have htail : ∀ j ∈ plain (cleanup c.version sb).2 ++ [stopInstr], j.op ≠ .proto := by
    intro j hj
    simp only [List.mem_append, plain, List.mem_map, List.mem_singleton] at hj
    rcases hj with ⟨o, ho, rfl⟩ | rfl
    · rcases c4 o ho with rfl | rfl | ⟨_, rfl⟩ | ⟨_, rfl | rfl⟩ <;> simp
    · simp [stopInstr]
  unfold Spec.headerOk
  by_cases h2 : c.version ≥ 2
  · have hbody : ∀ j ∈ body, j.op ≠ .proto := hb.no_proto (by simp [initState, h2])
    simp only [h2, if_true, header, List.cons_append, List.nil_append, List.append_assoc]
    simp only [protoInstr, beq_self_eq_true, Bool.true_and, List.all_append, Bool.and_eq_true,
      List.all_eq_true, bne_iff_ne, ne_eq]
    refine ⟨?_, hbody, fun j hj => htail j (List.mem_append_left _ hj),
      fun j hj => htail j (List.mem_append_right _ hj)⟩
    intro j hj
    cases frame with
    | none => simp at hj
    | some n => simp only [List.mem_singleton] at hj; subst hj; simp
  · have hlt : c.version < 2 := by omega
    have hnf : frame = none := by
      cases frame with
      | none => rfl
      | some n => have := hf rfl; omega
    subst hnf
    have hbody : ∀ j ∈ body, j.op ≠ .proto := by
      intro j hj e
      exact no_proto_below_2 _ hlt (e ▸ hb.ops_mem j hj)
    simp only [h2, if_false, header, List.nil_append, List.append_nil, List.append_assoc,
      List.all_append, Bool.and_eq_true, List.all_eq_true, bne_iff_ne, ne_eq]
    exact ⟨hbody, fun j hj => htail j (List.mem_append_left _ hj),
      fun j hj => htail j (List.mem_append_right _ hj)⟩

end C05

/-! ## C10 — opt-in opcodes (runs without post-emission rewriting; rewriting in `C10.replacement`) -/
namespace C10

theorem optin (c : Cfg) (table : List Op) (is : List Instr) (hrun : Run c table is) :
    Spec.optinOk c.allowExt c.allowBuf is = true := by
  obtain ⟨frame, body, sb, hf, hb, rfl⟩ := hrun.run
  obtain ⟨_, _, _, c4⟩ := cleanup_spec c sb
  have key : ∀ j ∈ header c.version frame ++ body ++ plain (cleanup c.version sb).2 ++ [stopInstr],
      (Spec.isExt j.op = true → c.allowExt = true) ∧ (Spec.isBuffer j.op = true → c.allowBuf = true) := by
    intro j hj
    simp only [List.mem_append, List.mem_singleton] at hj
    rcases hj with ((hj | hj) | hj) | rfl
    · have : j.op = .proto ∨ j.op = .frame := by
        unfold header at hj
        simp only [List.mem_append] at hj
        rcases hj with hj | hj
        · by_cases h2 : c.version ≥ 2
          · simp only [h2, if_true, List.mem_singleton] at hj; subst hj; exact Or.inl rfl
          · simp [h2] at hj
        · cases frame with
          | none => simp at hj
          | some n => simp only [List.mem_singleton] at hj; subst hj; exact Or.inr rfl
      rcases this with h | h <;> simp [h, Spec.isExt, Spec.isBuffer]
    · obtain ⟨s0, hc⟩ := hb.ops_guard j hj
      constructor
      · intro he
        simp only [Spec.isExt, Bool.or_eq_true, beq_iff_eq] at he
        rcases he with (he | he) | he <;> (rw [he] at hc; simpa [canEmit] using hc)
      · intro he
        simp only [Spec.isBuffer, Bool.or_eq_true, beq_iff_eq] at he
        rcases he with he | he
        · rw [he] at hc; simpa [canEmit] using hc
        · rw [he] at hc; simp only [canEmit, Bool.and_eq_true] at hc; exact hc.1
    · simp only [plain, List.mem_map] at hj
      obtain ⟨o, ho, rfl⟩ := hj
      rcases c4 o ho with rfl | rfl | ⟨_, rfl⟩ | ⟨_, rfl | rfl⟩ <;> simp [Spec.isExt, Spec.isBuffer]
    · simp [stopInstr, Spec.isExt, Spec.isBuffer]
  simp only [Spec.optinOk, Bool.and_eq_true, Bool.or_eq_true, List.all_eq_true, Bool.not_eq_true']
  constructor
  · by_cases he : c.allowExt = true
    · exact Or.inl he
    · right
      intro j hj
      cases h : Spec.isExt j.op with
      | false => rfl
      | true => exact absurd ((key j hj).1 h) he
  · by_cases he : c.allowBuf = true
    · exact Or.inl he
    · right
      intro j hj
      cases h : Spec.isBuffer j.op with
      | false => rfl
      | true => exact absurd ((key j hj).2 h) he

end C10

/-! ## C11 — opcode-count knobs (instruction level; the draw of T is in `Gen`) -/
namespace C11

/-- a run whose body has `T` instructions has between `T+1` and `3T+4` instructions: at most two
header instructions, a collapse tail of at most `2T+1`, and STOP -/
theorem counts (c : Cfg) (table : List Op) (is : List Instr) (hrun : Run c table is) :
    ∃ body tail : List Instr, ∃ hdr : List Instr,
      is = hdr ++ body ++ tail ++ [stopInstr] ∧ hdr.length ≤ 2 ∧ tail.length ≤ 2 * body.length + 1 ∧
      body.length + 1 ≤ is.length ∧ is.length ≤ 3 * body.length + 4 := by
  obtain ⟨frame, body, sb, hf, hb, rfl⟩ := hrun.run
  obtain ⟨_, _, c3, _⟩ := cleanup_spec c sb
  have hd := hb.depth
  simp only [initState, List.length_nil, Nat.zero_add] at hd
  have hh : (header c.version frame).length ≤ 2 := by
    unfold header
    by_cases h2 : c.version ≥ 2 <;> cases frame <;> simp [h2]
  have ht : (plain (cleanup c.version sb).2).length ≤ 2 * body.length + 1 := by
    simp only [plain, List.length_map]; omega
  refine ⟨body, plain (cleanup c.version sb).2, header c.version frame, rfl, hh, ht, ?_, ?_⟩
  · simp only [List.length_append, List.length_singleton]; omega
  · simp only [List.length_append, List.length_singleton]; omega

end C11

/-! ## non-vacuity: concrete runs that meet the hypotheses -/

/-- a protocol-2 run: PROTO 2, MARK, BININT1 7, TUPLE, STOP -/
example : Run { version := 2 } (Gen.table 2)
    [protoInstr 2, ⟨.mark, .none⟩, ⟨.binInt1, .int 7⟩, ⟨.tuple, .none⟩, stopInstr] :=
  ⟨none, [⟨.mark, .none⟩, ⟨.binInt1, .int 7⟩, ⟨.tuple, .none⟩], _, by simp,
    Body.step (by decide) (by decide) (by decide)
      (Body.step (by decide) (by decide) (by decide)
        (Body.step (by decide) (by decide) (by decide) Body.nil)), by decide⟩

/-- a protocol-0 run whose collapse phase has work to do: INT 5, INT 6, then POP, STOP -/
example : Run { version := 0 } (Gen.table 0)
    [⟨.int, .int 5⟩, ⟨.int, .int 6⟩, ⟨.pop, .none⟩, stopInstr] :=
  ⟨none, [⟨.int, .int 5⟩, ⟨.int, .int 6⟩], _, by simp,
    Body.step (by decide) (by decide) (by decide)
      (Body.step (by decide) (by decide) (by decide) Body.nil), by decide⟩

end PFV
