/-
The property theorems.  One namespace per property (C01 …), statements only here — helper lemmas
live in `Proofs/` so that a statement cannot be weakened quietly.  Every theorem below is about
the hand-written model (`Sim`, `AbsGen`, …) and the independent specification (`Lex`, `Ref`,
`Spec`); the tie to /repo's source is the translator (tables) and the correspondence streams.
-/
import PFV.Spec
import PFV.Proofs.Tables
import PFV.Proofs.Guards
import PFV.Proofs.ProcessFacts
import PFV.Proofs.Cleanup
import PFV.Proofs.BodyFacts
import PFV.Proofs.ArbLawful
import PFV.Proofs.MutFacts
import PFV.Proofs.GenTotal
import PFV.Proofs.GenRun
import PFV.Proofs.LexEnc
import PFV.Proofs.GenFrame
import PFV.Proofs.GenWF
import PFV.Proofs.GenCount
import PFV.Proofs.GenAscii
import PFV.Proofs.RandLawful
import PFV.Api
import PFV.Reach
import PFV.Front
import PFV.Proofs.HeapFacts
import PFV.Proofs.ObjFacts
import PFV.Proofs.ObjSim
namespace PFV
open Ref (RKind RState RMemo)

/-! ## shared structure of runs -/

theorem header_steps (c : Cfg) (frame : Option Nat) {s s' : State} {rest : List Instr}
    (h : Steps c s rest s') : Steps c s (header c.version frame ++ rest) s' := by
  unfold header
  by_cases hv : c.version ≥ 2 <;> cases frame <;>
    simp only [hv, if_true, if_false, List.nil_append, List.append_nil, List.cons_append] <;>
    first
      | exact h
      | exact Steps.hdr (Or.inl rfl) h
      | exact Steps.hdr (Or.inr rfl) h
      | exact Steps.hdr (Or.inl rfl) (Steps.hdr (Or.inr rfl) h)

/-- everything before STOP is one derivation of guarded steps from the initial state, and it
ends with exactly one non-MARK object on the simulated stack -/
theorem Run.pre {c : Cfg} {table : List Op} {is : List Instr} (h : Run c table is) :
    ∃ pre s', is = pre ++ [stopInstr] ∧ Steps c (initState c.version) pre s' ∧
      ∃ k, s'.stack = [k] ∧ k ≠ .mark := by
  obtain ⟨frame, body, sb, _, hb, rfl⟩ := h.run
  obtain ⟨c1, c2, _, _⟩ := cleanup_spec c sb
  refine ⟨header c.version frame ++ body ++ plain (cleanup c.version sb).2, (cleanup c.version sb).1, rfl, ?_, c2⟩
  rw [List.append_assoc]
  exact header_steps c frame (hb.toSteps.append c1)

theorem srel_init (v : Nat) : SRel (initState v) {} := ⟨Rel.nil, MRel.nil⟩

/-! ## C17 — the simulated stack and memo mirror the reference machine -/
namespace C17

/-- one guarded step (all 68 opcodes, every admissible argument) — see `Proofs/RunSim.lean` -/
theorem step_sim (c : Cfg) (hsafe : c.unsafeMut = false) (s : State) (r : RState)
    (hR : SRel s r) (hd : Dense s.memo) (op : Op) (a : Arg)
    (hc : canEmit c s op = true) (ha : argOK s op a = true) :
    ∃ r', Ref.step r ⟨op, a⟩ = .ok (r', []) ∧ SRel (process c.version s op a) r' ∧
      Dense (process c.version s op a).memo :=
  PFV.step_sim c hsafe s r hR hd op a hc ha

/-- **Every prefix.**  For every safe configuration, every run of the generator (any opcode
choices, any admissible arguments, any body length, framed or not) and every prefix `p` of the
emitted instructions before STOP: the reference machine executes `p` without error or violation
and ends in a state related slot by slot (equal depth, equal MARK positions, compatible kinds,
equal memo key set) to the generator's simulated state after `p`. -/
theorem run_sim (c : Cfg) (hsafe : c.unsafeMut = false) (table : List Op) (is : List Instr)
    (hrun : Run c table is) (p : List Instr) (hp : p <+: is.dropLast) :
    ∃ r, Ref.run {} p = .ok (r, []) ∧ SRel (simRun c.version (initState c.version) p) r := by
  obtain ⟨pre, s', rfl, hs, _⟩ := hrun.pre
  simp only [List.dropLast_concat] at hp
  obtain ⟨s1, h1⟩ := hs.prefix hp
  obtain ⟨r, hr, hrel, _⟩ := steps_sim hsafe h1 (srel_init c.version) dense_nil
  exact ⟨r, hr, h1.simRun_eq ▸ hrel⟩

/-- **C17 at the level of objects.**  The same statement about the cells behind the stack and the memo
(`Obj.lean`: what `process_stack_ops` really builds — aliases, copies, in-place mutation): for every prefix of
a run, the kinds of the cells on the object-level stack, slot by slot, and the kinds of the cells under the
memo keys are related to the reference machine's state — via `C14.obj_refines_sim`, the projection of the
object model being the simulated VM. -/
theorem obj_run_sim (c : Cfg) (hsafe : c.unsafeMut = false) (table : List Op) (is : List Instr)
    (hrun : Run c table is) (p : List Instr) (hp : p <+: is.dropLast) :
    ∃ r, Ref.run {} p = .ok (r, []) ∧
      SRel (Obj.proj (Obj.run c.version p) (decide (c.version ≥ 2))) r := by
  obtain ⟨r, hr, hrel⟩ := run_sim c hsafe table is hrun p hp
  refine ⟨r, hr, ?_⟩
  have := (Obj.proj_run c.version p (decide (c.version ≥ 2))).2
  rw [this]
  exact hrel

/-- the relation really pins depth and MARK positions -/
theorem rel_depth {s : State} {r : RState} (h : SRel s r) : s.stack.length = r.stack.length :=
  h.stack.length_eq

theorem rel_marks {a : List Kind} {b : List RKind} (h : Rel a b) :
    a.map (· == .mark) = b.map (· == .mark) := by
  induction h with
  | nil => rfl
  | @cons k r ks rs hc _ ih =>
    have : (k == Kind.mark) = (r == RKind.mark) := by
      by_cases hk : k = .mark
      · subst hk; rw [compat_mark_left.mp hc]; rfl
      · have hr : r ≠ .mark := compat_nonmark hk hc
        have h1 : (k == Kind.mark) = false := by simpa using hk
        have h2 : (r == RKind.mark) = false := by simpa using hr
        rw [h1, h2]
    simp only [List.map_cons, this, ih]

theorem rel_memo_keys {m : Memo} {rm : RMemo} (h : MRel m rm) : m.map (·.1) = rm.map (·.1) := by
  induction h with
  | nil => rfl
  | cons _ _ ih => simp [ih]

end C17

/-! ## C01 / C02 / C03 — stack, memo and operand-kind discipline -/

/-- the reference machine accepts the complete output of every safe run with no violation -/
theorem run_accepted (c : Cfg) (hsafe : c.unsafeMut = false) (table : List Op) (is : List Instr)
    (hrun : Run c table is) : ∃ r, Ref.run {} is = .ok (r, []) := by
  obtain ⟨pre, s', rfl, hs, k, hk, hkm⟩ := hrun.pre
  obtain ⟨r, hr, hrel, _⟩ := steps_sim hsafe hs (srel_init c.version) dense_nil
  have hst := hrel.stack
  rw [hk] at hst
  obtain ⟨rk, rt, hrs, hck, ht⟩ := hst.cons_inv
  have hrt : rt = [] := ht.nil_inv
  subst hrt
  have hrk : rk ≠ .mark := compat_nonmark hkm hck
  have hstop : Ref.run r [stopInstr] = .ok ({ r with stack := [] }, []) := by
    simp [Ref.run, Ref.step, stopInstr, hrs, hrk]
  exact ⟨_, run_append_ok hr hstop⟩

namespace C01
/-- **C01.**  Safe configuration ⇒ the reference stack discipline accepts the output: no
underflow, every MARK-consumer finds a MARK, STOP finds exactly one non-MARK object.  For all
protocols, opcode choices, arguments, body lengths, opt-in flags. -/
theorem accepted (c : Cfg) (hsafe : c.unsafeMut = false) (table : List Op) (is : List Instr)
    (hrun : Run c table is) : Spec.stackOk is = true := by
  obtain ⟨r, hr⟩ := run_accepted c hsafe table is hrun
  simp [Spec.stackOk, hr]
end C01

namespace C02
/-- **C02.**  Safe configuration ⇒ no memo violation: every GET names a defined index, no PUT
re-defines one, no PUT sees a MARK or an empty stack. -/
theorem memo_ok (c : Cfg) (hsafe : c.unsafeMut = false) (table : List Op) (is : List Instr)
    (hrun : Run c table is) : Spec.memoOk is = true := by
  obtain ⟨r, hr⟩ := run_accepted c hsafe table is hrun
  simp [Spec.memoOk, hr]

/-- the memo keys of every reachable simulated state are exactly 0 … n-1 -/
theorem keys_dense (c : Cfg) (hsafe : c.unsafeMut = false) (table : List Op) (is : List Instr)
    (hrun : Run c table is) (p : List Instr) (hp : p <+: is.dropLast) :
    Memo.keys (simRun c.version (initState c.version) p).memo =
      List.range (simRun c.version (initState c.version) p).memo.length := by
  obtain ⟨pre, s', rfl, hs, _⟩ := hrun.pre
  simp only [List.dropLast_concat] at hp
  obtain ⟨s1, h1⟩ := hs.prefix hp
  obtain ⟨r, _, _, hd⟩ := steps_sim hsafe h1 (srel_init c.version) dense_nil
  exact h1.simRun_eq ▸ hd
end C02

namespace C03
/-- **C03.**  Safe configuration ⇒ no operand-kind violation (APPEND/APPENDS on a list, SETITEM(S)
on a dict with an even operand count, ADDITEMS on a set, DICT even, STACK_GLOBAL on two strings,
REDUCE/NEWOBJ/NEWOBJ_EX/BUILD/OBJ operands, DUP not on a MARK). -/
theorem typed_ok (c : Cfg) (hsafe : c.unsafeMut = false) (table : List Op) (is : List Instr)
    (hrun : Run c table is) : Spec.typedOk is = true := by
  obtain ⟨r, hr⟩ := run_accepted c hsafe table is hrun
  simp [Spec.typedOk, hr]
end C03

end PFV

namespace PFV
open Ref (RKind RState RMemo)

/-! ## C05 — protocol compliance and header (instruction level; byte level in `C04`/`Gen`) -/
namespace C05

theorem table_le_intro : ∀ p, p < 6 → ∀ o ∈ Gen.table p, Lex.introduced o ≤ p := Tables.table_le_intro

theorem no_proto_below_2 : ∀ p, p < 2 → Op.proto ∉ Gen.table p := by decide

/-- **C05 (opcodes).**  Every instruction of every run for protocol `P` (P ≤ 5) was introduced in
protocol `P` or earlier — header, body (any choice from the translated table), the collapse tail
and STOP. -/
theorem ops_in_proto (c : Cfg) (hv : c.version < 6) (is : List Instr)
    (hrun : Run c (Gen.table c.version) is) : Spec.opsInProto c.version is = true := by
  obtain ⟨frame, body, sb, hf, hb, rfl⟩ := hrun.run
  obtain ⟨_, _, _, c4⟩ := cleanup_spec c sb
  simp only [Spec.opsInProto, List.all_append, Bool.and_eq_true, List.all_eq_true, decide_eq_true_eq]
  refine ⟨⟨⟨?_, ?_⟩, ?_⟩, ?_⟩
  · intro i hi
    unfold header at hi
    simp only [List.mem_append] at hi
    rcases hi with hi | hi
    · by_cases h2 : c.version ≥ 2
      · simp only [h2, if_true, List.mem_singleton] at hi; subst hi; simpa [protoInstr, Lex.introduced] using h2
      · simp [h2] at hi
    · cases frame with
      | none => simp at hi
      | some n =>
        simp only [List.mem_singleton] at hi; subst hi
        simpa [Lex.introduced] using hf rfl
  · intro i hi
    exact table_le_intro _ hv _ (hb.ops_mem i hi)
  · intro i hi
    simp only [plain, List.mem_map] at hi
    obtain ⟨o, ho, rfl⟩ := hi
    rcases c4 o ho with rfl | rfl | ⟨_, rfl⟩ | ⟨h2, rfl | rfl⟩ <;> simp [Lex.introduced] <;> omega
  · intro i hi
    simp only [List.mem_singleton] at hi; subst hi; simp [stopInstr, Lex.introduced]

/-- **C05 (header).**  For P ≥ 2 the run starts with exactly one PROTO whose argument is P;
for P < 2 it contains no PROTO. -/
theorem header_ok (c : Cfg) (is : List Instr)
    (hrun : Run c (Gen.table c.version) is) : Spec.headerOk c.version is = true := by
  obtain ⟨frame, body, sb, hf, hb, rfl⟩ := hrun.run
  obtain ⟨_, _, _, c4⟩ := cleanup_spec c sb
  have htail : ∀ j ∈ plain (cleanup c.version sb).2 ++ [stopInstr], j.op ≠ .proto := by
    intro j hj
    simp only [List.mem_append, plain, List.mem_map, List.mem_singleton] at hj
    rcases hj with ⟨o, ho, rfl⟩ | rfl
    · rcases c4 o ho with rfl | rfl | ⟨_, rfl⟩ | ⟨_, rfl | rfl⟩ <;> simp
    · simp [stopInstr]
  unfold Spec.headerOk
  by_cases h2 : c.version ≥ 2
  · have hbody : ∀ j ∈ body, j.op ≠ .proto := hb.no_proto (by simp [initState, h2])
    simp only [h2, if_true, header, List.cons_append, List.nil_append, List.append_assoc]
    simp only [protoInstr, beq_self_eq_true, Bool.true_and, List.all_append, Bool.and_eq_true,
      List.all_eq_true, bne_iff_ne, ne_eq]
    refine ⟨?_, hbody, fun j hj => htail j (List.mem_append_left _ hj),
      fun j hj => htail j (List.mem_append_right _ hj)⟩
    intro j hj
    cases frame with
    | none => simp at hj
    | some n => simp only [List.mem_singleton] at hj; subst hj; simp
  · have hlt : c.version < 2 := by omega
    have hnf : frame = none := by
      cases frame with
      | none => rfl
      | some n => have := hf rfl; omega
    subst hnf
    have hbody : ∀ j ∈ body, j.op ≠ .proto := by
      intro j hj e
      exact no_proto_below_2 _ hlt (e ▸ hb.ops_mem j hj)
    simp only [h2, if_false, header, List.nil_append, List.append_nil, List.append_assoc,
      List.all_append, Bool.and_eq_true, List.all_eq_true, bne_iff_ne, ne_eq]
    exact ⟨hbody, fun j hj => htail j (List.mem_append_left _ hj),
      fun j hj => htail j (List.mem_append_right _ hj)⟩

end C05

/-! ## C10 — opt-in opcodes (runs without post-emission rewriting; rewriting in `C10.replacement`) -/
namespace C10

theorem optin (c : Cfg) (table : List Op) (is : List Instr) (hrun : Run c table is) :
    Spec.optinOk c.allowExt c.allowBuf is = true := by
  obtain ⟨frame, body, sb, hf, hb, rfl⟩ := hrun.run
  obtain ⟨_, _, _, c4⟩ := cleanup_spec c sb
  have key : ∀ j ∈ header c.version frame ++ body ++ plain (cleanup c.version sb).2 ++ [stopInstr],
      (Spec.isExt j.op = true → c.allowExt = true) ∧ (Spec.isBuffer j.op = true → c.allowBuf = true) := by
    intro j hj
    simp only [List.mem_append, List.mem_singleton] at hj
    rcases hj with ((hj | hj) | hj) | rfl
    · have : j.op = .proto ∨ j.op = .frame := by
        unfold header at hj
        simp only [List.mem_append] at hj
        rcases hj with hj | hj
        · by_cases h2 : c.version ≥ 2
          · simp only [h2, if_true, List.mem_singleton] at hj; subst hj; exact Or.inl rfl
          · simp [h2] at hj
        · cases frame with
          | none => simp at hj
          | some n => simp only [List.mem_singleton] at hj; subst hj; exact Or.inr rfl
      rcases this with h | h <;> simp [h, Spec.isExt, Spec.isBuffer]
    · obtain ⟨s0, hc⟩ := hb.ops_guard j hj
      constructor
      · intro he
        simp only [Spec.isExt, Bool.or_eq_true, beq_iff_eq] at he
        rcases he with (he | he) | he <;> (rw [he] at hc; simpa [canEmit] using hc)
      · intro he
        simp only [Spec.isBuffer, Bool.or_eq_true, beq_iff_eq] at he
        rcases he with he | he
        · rw [he] at hc; simpa [canEmit] using hc
        · rw [he] at hc; simp only [canEmit, Bool.and_eq_true] at hc; exact hc.1
    · simp only [plain, List.mem_map] at hj
      obtain ⟨o, ho, rfl⟩ := hj
      rcases c4 o ho with rfl | rfl | ⟨_, rfl⟩ | ⟨_, rfl | rfl⟩ <;> simp [Spec.isExt, Spec.isBuffer]
    · simp [stopInstr, Spec.isExt, Spec.isBuffer]
  simp only [Spec.optinOk, Bool.and_eq_true, Bool.or_eq_true, List.all_eq_true, Bool.not_eq_true']
  constructor
  · by_cases he : c.allowExt = true
    · exact Or.inl he
    · right
      intro j hj
      cases h : Spec.isExt j.op with
      | false => rfl
      | true => exact absurd ((key j hj).1 h) he
  · by_cases he : c.allowBuf = true
    · exact Or.inl he
    · right
      intro j hj
      cases h : Spec.isBuffer j.op with
      | false => rfl
      | true => exact absurd ((key j hj).2 h) he

end C10

/-! ## C11 — opcode-count knobs (instruction level; the draw of T is in `Gen`) -/
namespace C11

/-- a run whose body has `T` instructions has between `T+1` and `3T+4` instructions: at most two
header instructions, a collapse tail of at most `2T+1`, and STOP -/
theorem counts (c : Cfg) (table : List Op) (is : List Instr) (hrun : Run c table is) :
    ∃ body tail : List Instr, ∃ hdr : List Instr,
      is = hdr ++ body ++ tail ++ [stopInstr] ∧ hdr.length ≤ 2 ∧ tail.length ≤ 2 * body.length + 1 ∧
      body.length + 1 ≤ is.length ∧ is.length ≤ 3 * body.length + 4 := by
  obtain ⟨frame, body, sb, hf, hb, rfl⟩ := hrun.run
  obtain ⟨_, _, c3, _⟩ := cleanup_spec c sb
  have hd := hb.depth
  simp only [initState, List.length_nil, Nat.zero_add] at hd
  have hh : (header c.version frame).length ≤ 2 := by
    unfold header
    by_cases h2 : c.version ≥ 2 <;> cases frame <;> simp [h2]
  have ht : (plain (cleanup c.version sb).2).length ≤ 2 * body.length + 1 := by
    simp only [plain, List.length_map]; omega
  refine ⟨body, plain (cleanup c.version sb).2, header c.version frame, rfl, hh, ht, ?_, ?_⟩
  · simp only [List.length_append, List.length_singleton]; omega
  · simp only [List.length_append, List.length_singleton]; omega

end C11

/-! ## non-vacuity: concrete runs that meet the hypotheses -/

/-- a protocol-2 run: PROTO 2, MARK, BININT1 7, TUPLE, STOP -/
example : Run { version := 2 } (Gen.table 2)
    [protoInstr 2, ⟨.mark, .none⟩, ⟨.binInt1, .int 7⟩, ⟨.tuple, .none⟩, stopInstr] :=
  ⟨none, [⟨.mark, .none⟩, ⟨.binInt1, .int 7⟩, ⟨.tuple, .none⟩], _, by simp,
    Body.step (by decide) (by decide) (by decide)
      (Body.step (by decide) (by decide) (by decide)
        (Body.step (by decide) (by decide) (by decide) Body.nil)), by decide⟩

/-- a protocol-0 run whose collapse phase has work to do: INT 5, INT 6, then POP, STOP -/
example : Run { version := 0 } (Gen.table 0)
    [⟨.int, .int 5⟩, ⟨.int, .int 6⟩, ⟨.pop, .none⟩, stopInstr] :=
  ⟨none, [⟨.int, .int 5⟩, ⟨.int, .int 6⟩], _, by simp,
    Body.step (by decide) (by decide) (by decide)
      (Body.step (by decide) (by decide) (by decide) Body.nil), by decide⟩

end PFV

namespace PFV
open Mutators

/-! ## C18 — entropy adapters -/
namespace C18

/-- **C18 (fuzzer bytes).**  The exact port of `arbitrary::Unstructured` satisfies the whole
entropy contract for every state of the remaining bytes, the empty one included: an index among
`n` is below `n` (0 for `n = 0`), a draw from `[a,b)` lies in it (`a` when `a ≥ b`), byte strings
have the requested length, integers are inside their type's range. -/
theorem arb_lawful : Lawful Arb.E := Arb.lawful

/-- every drawn character is a member of `ASCII_CHARS`, for every lawful source -/
theorem ascii_char_in_table {σ} (E : Entropy σ) (hE : Lawful E) (s : σ) :
    (E.genAsciiChar s).1 ∈ Gen.asciiChars := by
  have hpos : 0 < Gen.asciiChars.length := by decide
  have hlt := hE.chooseIndex_lt s Gen.asciiChars.length hpos
  simp only [Entropy.genAsciiChar]
  have : Gen.asciiChars.getD (E.chooseIndex s Gen.asciiChars.length).1 0 =
      Gen.asciiChars[(E.chooseIndex s Gen.asciiChars.length).1] := by
    simp [List.getD, List.getElem?_eq_getElem hlt]
  rw [this]
  exact List.getElem_mem hlt

/-- … and `ASCII_CHARS` (translated from `source.rs`) is printable ASCII -/
theorem ascii_printable : ∀ b ∈ Gen.asciiChars, 32 ≤ b ∧ b ≤ 126 := Tables.ascii_printable

/-- on exhausted input every draw returns its fixed fallback and the state stays exhausted -/
theorem exhausted_fallbacks :
    Arb.E.genBool [] = (false, []) ∧ Arb.E.genU8 [] = (0, []) ∧ Arb.E.genU16 [] = (0, []) ∧
    Arb.E.genU32 [] = (0, []) ∧ Arb.E.genI32 [] = (0, []) ∧ Arb.E.genI64 [] = (0, []) ∧
    Arb.E.genF64 [] = (0, []) ∧ Arb.E.genUnit [] = (0, []) ∧
    (∀ n, Arb.E.chooseIndex [] n = (0, [])) ∧
    (∀ a b, a < 2 ^ 64 → Arb.E.genRange [] a b = (a, [])) ∧
    (∀ n, Arb.E.genBytes [] n = (List.replicate n 0, [])) := by
  refine ⟨rfl, rfl, rfl, rfl, rfl, rfl, rfl, rfl, ?_, ?_, ?_⟩
  · intro n
    by_cases h : n = 0
    · simp [Arb.E, h]
    · simp only [Arb.E, h, if_false, Arb.intInRange]
      by_cases h0 : 0 = n - 1
      · simp [h0]
      · simp only [h0, if_false]
        have : Arb.consume (n - 1) 8 8 0 0 [] = (0, []) := by
          simp only [Arb.consume]; split <;> rfl
        simp [this]
  · intro a b ha
    by_cases h : a ≥ b
    · simp [Arb.E, h]
    · simp only [Arb.E, h, if_false, Arb.intInRange]
      by_cases h0 : a = b - 1
      · simp [h0]
      · simp only [h0, if_false]
        have : Arb.consume (b - 1 - a) 8 8 0 0 [] = (0, []) := by
          simp only [Arb.consume]; split <;> rfl
        have hlt : a < 2 ^ (8 * 8) := ha
        simp only [this]
        split <;> simp [Nat.mod_eq_of_lt hlt]
  · intro n
    cases n <;> simp [Arb.E]

end C18
end PFV

namespace PFV
open Mutators

/-! ## C15 — the mutation rate at its extremes -/
namespace C15
variable {σ : Type} (E : Entropy σ)

def rate0 : UInt64 := 0
def rate1 : UInt64 := 0x3FF0000000000000

/-- **C15, rate 0.0.**  For *every* entropy source (no contract needed: any PRNG state, any
fuzzer bytes, exhausted or not), every mutator list and every value: no value is mutated … -/
theorem rate0_values (ms : List Mut) (s : σ) :
    (∀ v : Int, ∃ s', firstSome (mutateInt E 32 Gen.boundInt) ms v s rate0 = .ok (v, s', false)) ∧
    (∀ v : UInt64, ∃ s', firstSome (mutateFloat E) ms v s rate0 = .ok (v, s', false)) ∧
    (∀ v : List Char, ∃ s', firstSome (mutateString E) ms v s rate0 = .ok (v, s', false)) ∧
    (∀ v : List UInt8, ∃ s', firstSome (mutateBytes E) ms v s rate0 = .ok (v, s', false)) ∧
    (∀ v : Nat, ∃ s', firstSome (mutateMemo E) ms v s rate0 = .ok (v, s', false)) :=
  ⟨fun v => firstSome_none _ _ (fun m v s => mutateInt_rate0 E 32 Gen.boundInt m v s) ms v s,
   fun v => firstSome_none _ _ (fun m v s => mutateFloat_rate0 E m v s) ms v s,
   fun v => firstSome_none _ _ (fun m v s => mutateString_rate0 E m v s) ms v s,
   fun v => firstSome_none _ _ (fun m v s => mutateBytes_rate0 E m v s) ms v s,
   fun v => firstSome_none _ _ (fun m v s => mutateMemo_rate0 E m v s) ms v s⟩

/-- … and no emitted bytes are rewritten. -/
theorem rate0_no_rewrite (ms : List Mut) (first : Option UInt8) (s : σ) :
    ∃ s', postProcess E ms first none s rate0 = .ok (none, s') :=
  postProcess_rate0 E ms first none s

/-- **C15, rate 1.0.**  For every lawful entropy source: the first registered mutator that is
applicable to the value kind mutates the value; mutators before it are skipped, mutators after
it are not consulted. -/
theorem rate1_int (hE : Lawful E) (pre post : List Mut) (m : Mut) (v : Int) (s : σ)
    (hpre : ∀ p ∈ pre, appliesInt p = false) (hm : appliesInt m = true) :
    ∃ s0 x s', mutateInt E 32 Gen.boundInt m v s0 rate1 = .ok (some x, s') ∧
      firstSome (mutateInt E 32 Gen.boundInt) (pre ++ m :: post) v s rate1 = .ok (x, s', true) :=
  firstSome_first _ _ v m post
    (fun s => mutateInt_rate1 E hE 32 Gen.boundInt m v s hm (by decide) (by decide)) pre s
    (fun p hp s => ⟨s, mutateInt_na E 32 Gen.boundInt p v s rate1 (hpre p hp)⟩)

theorem rate1_float (hE : Lawful E) (pre post : List Mut) (m : Mut) (v : UInt64) (s : σ)
    (hpre : ∀ p ∈ pre, appliesFloat p = false) (hm : appliesFloat m = true) :
    ∃ s0 x s', mutateFloat E m v s0 rate1 = .ok (some x, s') ∧
      firstSome (mutateFloat E) (pre ++ m :: post) v s rate1 = .ok (x, s', true) :=
  firstSome_first _ _ v m post (fun s => mutateFloat_rate1 E hE m v s hm) pre s
    (fun p hp s => ⟨s, mutateFloat_na E p v s rate1 (hpre p hp)⟩)

theorem rate1_memo (hE : Lawful E) (pre post : List Mut) (m : Mut) (v : Nat) (s : σ)
    (hpre : ∀ p ∈ pre, appliesMemo p = false) (hm : appliesMemo m = true) :
    ∃ s0 x s', mutateMemo E m v s0 rate1 = .ok (some x, s') ∧
      firstSome (mutateMemo E) (pre ++ m :: post) v s rate1 = .ok (x, s', true) :=
  firstSome_first _ _ v m post (fun s => mutateMemo_rate1 E hE m v s hm) pre s
    (fun p hp s => ⟨s, mutateMemo_na E p v s rate1 (hpre p hp)⟩)

theorem rate1_string (hE : Lawful E) (pre post : List Mut) (m : Mut) (v : List Char) (s : σ)
    (hv : v.length ≤ 2 ^ 64) (hu : utf8Len v ≤ 2 ^ 64)
    (hpre : ∀ p ∈ pre, appliesSeq p v.isEmpty = false) (hm : appliesSeq m v.isEmpty = true) :
    ∃ s0 x s', mutateString E m v s0 rate1 = .ok (some x, s') ∧
      firstSome (mutateString E) (pre ++ m :: post) v s rate1 = .ok (x, s', true) :=
  firstSome_first _ _ v m post (fun s => mutateString_rate1 E hE m v s hm hv hu) pre s
    (fun p hp s => mutateString_na E p v s rate1 (hpre p hp))

theorem rate1_bytes (hE : Lawful E) (pre post : List Mut) (m : Mut) (v : List UInt8) (s : σ)
    (hv : v.length ≤ 2 ^ 64)
    (hpre : ∀ p ∈ pre, appliesSeq p v.isEmpty = false) (hm : appliesSeq m v.isEmpty = true) :
    ∃ s0 x s', mutateBytes E m v s0 rate1 = .ok (some x, s') ∧
      firstSome (mutateBytes E) (pre ++ m :: post) v s rate1 = .ok (x, s', true) :=
  firstSome_first _ _ v m post (fun s => mutateBytes_rate1 E hE m v s hm hv) pre s
    (fun p hp s => mutateBytes_na E p v s rate1 (hpre p hp))

/-- non-vacuity: the hypotheses are met by the fuzzer-bytes source (even exhausted) with the
list [Character, BitFlip] on an integer: BitFlip fires -/
example : ∃ s0 x s', mutateInt Arb.E 32 Gen.boundInt .bitflip 0 s0 rate1 = .ok (some x, s') ∧
    firstSome (mutateInt Arb.E 32 Gen.boundInt) ([.character] ++ .bitflip :: []) 0 [] rate1 = .ok (x, s', true) :=
  rate1_int Arb.E Arb.lawful [.character] [] .bitflip 0 [] (by decide) rfl

end C15

/-! ## C16 — each mutator's documented transformation (statements; proofs in `Proofs/MutFacts.lean`) -/
namespace C16
variable {σ : Type} (E : Entropy σ)

theorem bitflip32 (hE : Lawful E) (v : Int) (s : σ) (rate : UInt64) (x : Int) (s' : σ)
    (h : mutateInt E 32 Gen.boundInt .bitflip v s rate = .ok (some x, s')) :
    ∃ pos, pos < 32 ∧ toU 32 x = toU 32 v ^^^ 2 ^ pos :=
  bitflip_contract E hE 32 (by decide) (by decide) _ v s rate x s' h

theorem bitflip64 (hE : Lawful E) (v : Int) (s : σ) (rate : UInt64) (x : Int) (s' : σ)
    (h : mutateInt E 64 Gen.boundLong .bitflip v s rate = .ok (some x, s')) :
    ∃ pos, pos < 64 ∧ toU 64 x = toU 64 v ^^^ 2 ^ pos :=
  bitflip_contract E hE 64 (by decide) (by decide) _ v s rate x s' h

theorem boundary_int (v : Int) (s : σ) (rate : UInt64) (x : Int) (s' : σ)
    (h : mutateInt E 32 Gen.boundInt .boundary v s rate = .ok (some x, s')) : x ∈ Gen.boundInt :=
  boundary_contract E 32 _ v s rate x s' h

theorem boundary_long (v : Int) (s : σ) (rate : UInt64) (x : Int) (s' : σ)
    (h : mutateInt E 64 Gen.boundLong .boundary v s rate = .ok (some x, s')) : x ∈ Gen.boundLong :=
  boundary_contract E 64 _ v s rate x s' h

theorem boundary_float (v : UInt64) (s : σ) (rate : UInt64) (x : UInt64) (s' : σ)
    (h : mutateFloat E .boundary v s rate = .ok (some x, s')) : x ∈ Gen.boundFloat :=
  boundary_float_contract E v s rate x s' h

theorem offbyone_int (bits : Nat) (b : List Int) (v : Int) (s : σ) (rate : UInt64) (x : Int) (s' : σ)
    (h : mutateInt E bits b .offbyone v s rate = .ok (some x, s')) :
    x = wrap bits (v + 1) ∨ x = wrap bits (v - 1) := offbyone_contract E bits b v s rate x s' h

theorem offbyone_memo (v : Nat) (s : σ) (rate : UInt64) (x : Nat) (s' : σ)
    (h : mutateMemo E .offbyone v s rate = .ok (some x, s')) : x = satAdd1 v ∨ x = satSub1 v :=
  offbyone_memo_contract E v s rate x s' h

theorem memoindex (hE : Lawful E) (u : Bool) (v : Nat) (s : σ) (rate : UInt64) (x : Nat) (s' : σ)
    (h : mutateMemo E (.memoindex u) v s rate = .ok (some x, s')) :
    (u = false → x = v ∨ x = satAdd1 v ∨ x = satSub1 v) ∧ (u = true → x < 1000) :=
  memoindex_contract E hE u v s rate x s' h

theorem stringlen (hE : Lawful E) (v : List Char) (s : σ) (rate : UInt64) (x : List Char) (s' : σ)
    (h : mutateString E .stringlen v s rate = .ok (some x, s')) :
    (∃ n, x = v.take n) ∨
    (∃ e, x = v ++ e ∧ 1 ≤ e.length ∧ e.length ≤ 9 ∧ ∀ ch ∈ e, 97 ≤ ch.toNat ∧ ch.toNat ≤ 122) ∨
    x = v ++ v := stringlen_contract E hE v s rate x s' h

theorem character (v : List Char) (s : σ) (rate : UInt64) (x : List Char) (s' : σ)
    (h : mutateString E .character v s rate = .ok (some x, s')) :
    ∃ i ch, x = v.set i ch ∧ 33 ≤ ch.toNat ∧ ch.toNat ≤ 126 := character_contract E v s rate x s' h

theorem character_bytes (v : List UInt8) (s : σ) (rate : UInt64) (x : List UInt8) (s' : σ)
    (h : mutateBytes E .character v s rate = .ok (some x, s')) : ∃ i b, x = v.set i b :=
  character_bytes_contract E v s rate x s' h

theorem typeconfusion_safe_is_identity (first : Option UInt8) (s : σ) (rate : UInt64) :
    typeConfusion E false first s rate = .ok (none, s) := typeconfusion_safe E first s rate

theorem typeconfusion (hE : Lawful E) (u : Bool) (first : Option UInt8) (s : σ) (rate : UInt64)
    (r : Instr) (s' : σ) (h : typeConfusion E u first s rate = .ok (some r, s')) :
    u = true ∧ tcInstrOk r = true ∧
    ∃ b t0 t1, first = some b ∧ Gen.opcodeToType b = some t0 ∧
      Gen.opcodeToType (Gen.asU8 r.op) = some t1 ∧ t1 ≠ t0 :=
  typeconfusion_contract E hE u first s rate r s' h

end C16
end PFV

namespace PFV

/-! ## C09 — totality -/
namespace C09

/-- **C09 on the exact model.**  For every lawful entropy source `E` (any PRNG, any fuzzer bytes,
exhausted input included — `C18.arb_lawful`), every protocol 0–5, every opcode range up to 2^63
(inverted and zero included), every mutator list, every rate bit pattern (NaN included) and all
flags, with a non-empty module table: generation returns `Ok` with a non-empty byte string.
None of the modelled panic sites (`opcodes[idx]`, `int_like[idx]`, `keys[..]`, `modules[idx]`,
`boundaries[..]`, `different_types[..]`, `chars[idx]`, `result[idx]`, `value[..new_len]`,
`unreachable!`) is reachable, and the loops are structural recursions / fuelled by the stack
length (`Proofs/Cleanup.lean` shows the fuel suffices). -/
theorem total {σ} (E : Entropy σ) (X : G.Ext) (c : Cfg) (hE : Lawful E) (hmods : X.mods ≠ [])
    (hv : c.version < 6) (hmin : c.minOps ≤ 2 ^ 63) (hmax : c.maxOps ≤ 2 ^ 63) (s : σ) :
    ∃ r s', G.generate E X c s = .ok (r, s') ∧ r.bytes ≠ [] :=
  G.generate_total E X c hE hmods hv hmin hmax s

/-- in particular for fuzzer bytes, whatever they are -/
theorem total_arbitrary (X : G.Ext) (c : Cfg) (hmods : X.mods ≠ []) (hv : c.version < 6)
    (hmin : c.minOps ≤ 2 ^ 63) (hmax : c.maxOps ≤ 2 ^ 63) (input : List UInt8) :
    ∃ r s', G.generate Arb.E X c input = .ok (r, s') ∧ r.bytes ≠ [] :=
  total Arb.E X c Arb.lawful hmods hv hmin hmax input

end C09

/-! ## end to end: the exact generator under every lawful entropy source -/
namespace EndToEnd

/-- **Refinement** (`Proofs/GenRun.lean`): in a safe configuration everything the exact generator
returns is the encoding of a run of the abstract generator; the drawn target respects the knobs. -/
theorem refinement {σ} (E : Entropy σ) (X : G.Ext) (c : Cfg) (hs : SafeCfg c)
    (hmin : c.minOps < 4294967296) (hmax : c.maxOps ≤ 4294967296) (hE : Lawful E) (s s' : σ)
    (r : G.Result) (h : G.generate E X c s = .ok (r, s')) :
    ∃ frame : Option Nat,
      Run c (Gen.table c.version) (header c.version frame ++ r.instrs) ∧
      r.bytes = (header c.version frame ++ r.instrs).flatMap Enc.encode ∧
      (frame.isSome = r.framed) ∧ (∀ n, frame = some n → n = (r.instrs.flatMap Enc.encode).length) ∧
      c.minOps ≤ r.target ∧ (r.target < c.maxOps ∨ (c.maxOps ≤ c.minOps ∧ r.target = c.minOps)) ∧
      r.bodyLen ≤ r.target :=
  G.generate_run E X c hs hmin hmax hE s s' r h

/-- **C01 + C02 + C03 + C05 + C10 for every lawful entropy source.**  Safe configuration, protocol
0–5, opcode budget below 2^32: the instruction list the generator writes (header included) is
accepted by the reference machine with no stack, memo or operand-kind violation, uses only
opcodes of the protocol, has the right header and respects the opt-in flags. -/
theorem safe_output_ok {σ} (E : Entropy σ) (X : G.Ext) (c : Cfg) (hs : SafeCfg c) (hv : c.version < 6)
    (hmin : c.minOps < 4294967296) (hmax : c.maxOps ≤ 4294967296) (hE : Lawful E) (s s' : σ)
    (r : G.Result) (h : G.generate E X c s = .ok (r, s')) :
    ∃ frame : Option Nat,
      let is := header c.version frame ++ r.instrs
      r.bytes = is.flatMap Enc.encode ∧
      Spec.stackOk is = true ∧ Spec.memoOk is = true ∧ Spec.typedOk is = true ∧
      Spec.opsInProto c.version is = true ∧ Spec.headerOk c.version is = true ∧
      Spec.optinOk c.allowExt c.allowBuf is = true := by
  obtain ⟨frame, hrun, hbytes, _⟩ := refinement E X c hs hmin hmax hE s s' r h
  exact ⟨frame, hbytes, C01.accepted c hs.1 _ _ hrun, C02.memo_ok c hs.1 _ _ hrun,
    C03.typed_ok c hs.1 _ _ hrun, C05.ops_in_proto c hv _ hrun, C05.header_ok c _ hrun,
    C10.optin c _ _ hrun⟩

end EndToEnd

namespace C11
/-- **C11 (target).**  For every lawful entropy source the drawn number of body opcodes `T`
satisfies `min ≤ T`, and `T < max` or (`max ≤ min` and `T = min`); the body writes at most `T`
instructions (exactly one per iteration unless an emission writes nothing — the payload-length
guards, shown never to trip on real runs by S2/S3). -/
theorem target_bounds {σ} (E : Entropy σ) (X : G.Ext) (c : Cfg) (hs : SafeCfg c)
    (hmin : c.minOps < 4294967296) (hmax : c.maxOps ≤ 4294967296) (hE : Lawful E) (s s' : σ)
    (r : G.Result) (h : G.generate E X c s = .ok (r, s')) :
    c.minOps ≤ r.target ∧ (r.target < c.maxOps ∨ (c.maxOps ≤ c.minOps ∧ r.target = c.minOps)) ∧
    r.bodyLen ≤ r.target := by
  obtain ⟨_, _, _, _, _, h1, h2, h3⟩ := EndToEnd.refinement E X c hs hmin hmax hE s s' r h
  exact ⟨h1, h2, h3⟩
end C11

end PFV

namespace PFV

/-! ## C04 — well-formed opcode stream: the reference lexer inverts the generator's encoders -/
namespace C04

/-- one instruction: the reference reader reads back exactly what the encoder wrote -/
theorem lexOne_encode (i : Instr) (h : WF i = true) (rest : List UInt8) :
    Lex.lexOne (Enc.encode i ++ rest) = .ok (i, rest) := PFV.lexOne_encode i h rest

/-- **C04 (encoding/lexing).**  Every list of well-formed instructions (argument of the shape and
inside the domain `WF` prescribes per opcode: decimal text, `L` suffix, quoted STRING body valid
for `escape_decode`, raw-unicode-escape text, length prefixes of 1/4/8 bytes little-endian,
big-endian BINFLOAT, module/name pairs, …) that ends in its only STOP is decoded completely and
exactly by the reference lexer: every opcode byte known, every argument fully present, one STOP,
nothing after it. -/
theorem lex_encode (pre : List Instr) (hwf : ∀ i ∈ pre, WF i = true) (hns : ∀ i ∈ pre, i.op ≠ .stop) :
    Lex.lex ((pre ++ [stopI]).flatMap Enc.encode) = .ok (pre ++ [stopI]) :=
  PFV.lex_encode pre hwf hns

/-- decimal round trip used by INT / LONG / GET / PUT -/
theorem decimal_roundtrip (v : Int) : Lex.pyInt (Enc.showInt v) = some v := pyInt_showInt v

end C04

/-! ## C07 — nothing but configuration and entropy reaches a decision -/
namespace C07

/-- the one place where the Rust iterates an unordered structure (`memo.keys()` of a `HashMap`) is
followed by a sort: whatever order the hash map yields its keys in, the list the generator
indexes into is the same -/
theorem keys_order_irrelevant (ks1 ks2 : List Nat) (h : ks1.Perm ks2) :
    ks1.mergeSort (fun a b => decide (a ≤ b)) = ks2.mergeSort (fun a b => decide (a ≤ b)) := by
  have tr : ∀ (a b c : Nat), decide (a ≤ b) = true → decide (b ≤ c) = true → decide (a ≤ c) = true := by
    intro a b c h1 h2; simp at *; omega
  have tot : ∀ (a b : Nat), (decide (a ≤ b) || decide (b ≤ a)) = true := by
    intro a b; simp; omega
  apply List.Perm.eq_of_pairwise (le := fun a b => decide (a ≤ b) = true)
  · intro a b _ _ h1 h2; simp at h1 h2; omega
  · exact List.pairwise_mergeSort tr tot ks1
  · exact List.pairwise_mergeSort tr tot ks2
  · exact (List.mergeSort_perm ks1 _).trans (h.trans (List.mergeSort_perm ks2 _).symm)

/-- what the pointer-hashed `Dict` / `Set` cells (and every other cell) *contain* never reaches a decision: two
object-level states (`Obj.lean`) with the same slot kinds and memo kinds — whatever their cells hold, in whatever
order a hash map would enumerate it, however they alias — have the same guards for every opcode and the same slot
and memo kinds after every opcode.  So no address, hash seed or iteration order of a simulated container can
influence which opcode is emitted next (from `C14.obj_step_refines_sim`). -/
theorem object_contents_irrelevant (ver : Nat) (s1 s2 : Obj.OS) (h1 : Obj.WF s1) (h2 : Obj.WF s2) (pe : Bool)
    (h : Obj.proj s1 pe = Obj.proj s2 pe) (c : Cfg) (op : Op) (arg : Arg) :
    canEmit c (Obj.proj s1 pe) op = canEmit c (Obj.proj s2 pe) op ∧
    Obj.proj (Obj.process ver s1 op arg) pe = Obj.proj (Obj.process ver s2 op arg) pe := by
  refine ⟨by rw [h], ?_⟩
  rw [(Obj.proj_process ver s1 h1 op arg pe).2, (Obj.proj_process ver s2 h2 op arg pe).2, h]

/-- by construction the model's generation is a function of configuration and entropy state only
(no clock, address, thread or OS input exists in it); stated for the record -/
theorem generate_deterministic {σ} (E : Entropy σ) (X : G.Ext) (c : Cfg) (s : σ) :
    ∀ r1 r2, G.generate E X c s = r1 → G.generate E X c s = r2 → r1 = r2 := by
  intro r1 r2 h1 h2; rw [← h1, ← h2]

end C07

/-! ## C08 — a generator can be reused -/
namespace C08
open Api
variable {σ : Type} (E : Entropy σ) (X : G.Ext)

theorem reset_cfg (o : Obj) : (reset o).cfg = o.cfg := rfl

theorem generateOn_cfg (o o' : Obj) (s s' : σ) (b : List UInt8)
    (h : generateOn E X o s = .ok (b, o', s')) : o'.cfg = o.cfg := by
  simp only [generateOn] at h
  split at h
  · simp at h
  · simp only [Except.ok.injEq, Prod.mk.injEq] at h
    rw [← h.2.1]; rfl

theorem runHistory_cfg : ∀ (h : List (Call σ)) (o : Obj), (runHistory E X o h).cfg = o.cfg
  | [], o => rfl
  | .reset :: rest, o => by simp [runHistory, runHistory_cfg rest, reset_cfg]
  | .gen s :: rest, o => by
    simp only [runHistory]
    split
    · rename_i b o' s' hg
      rw [runHistory_cfg rest o', generateOn_cfg E X o o' s s' b hg]
    · exact runHistory_cfg rest o

/-- a call's result depends on the object only through its configuration -/
theorem result_congr (o1 o2 : Obj) (h : o1.cfg = o2.cfg) (s : σ) : result E X o1 s = result E X o2 s := by
  simp [result, generateOn, reset, h]

/-- **C08.**  For every history of `generate` / `generate_from_arbitrary` / `reset` calls (any
length, any inputs, erroring calls included) on one generator and every final call: the result
is the one a fresh generator with the same configuration returns for that call alone. -/
theorem history_independent (c : Cfg) (h : List (Call σ)) (s : σ) :
    result E X (runHistory E X (fresh c) h) s = result E X (fresh c) s :=
  result_congr E X _ _ (runHistory_cfg E X h (fresh c)) s

/-- the pre-repair behaviour (no reset at the start of `generate_internal`) is *not* history
independent: whatever an earlier call left in the output buffer is returned again in front -/
theorem legacy_not_history_independent (c : Cfg) (leftover : List Instr) (hne : leftover ≠ [])
    (s : σ) (b : List UInt8)
    (h : Legacy.result E X (fresh c) s = .ok b) :
    Legacy.result E X { cfg := c, scratch := { sim := initState c.version, out := leftover } } s ≠ .ok b := by
  simp only [Legacy.result, fresh] at h ⊢
  split at h
  · simp at h
  · rename_i r s' hg
    simp only [List.reverse_nil, List.flatMap_nil, List.nil_append, Except.ok.injEq] at h
    intro e
    simp only [Except.ok.injEq] at e
    rw [← h] at e
    have hl := congrArg List.length e
    simp only [List.length_append] at hl
    have hpos : 0 < (leftover.reverse.flatMap Enc.encode).length := by
      cases hr : leftover.reverse with
      | nil => simp at hr; exact absurd hr hne
      | cons x t => simp [Enc.encode]
    omega

end C08
end PFV

namespace PFV
/-! ## C12 — every opcode of the vocabulary is reachable (guards half) -/
namespace C12
open Reach

/-- **C12 (no dead guard).**  For every protocol `P ≤ 5` and every opcode of the (translated) table
for `P`, other than PROTO/FRAME/STOP which the header and the end of generation write: there is
a path of guarded steps over opcodes of the same table, from the empty state, after which the
opcode's guard holds (with the opt-in flags on). -/
theorem all_reachable : ∀ p, p < 6 → ∀ op ∈ Gen.table p, reachOk p op = true := by
  decide

/-- the witness paths are runs of guarded steps: unfolding of the checker -/
theorem runPath_steps (c : Cfg) : ∀ (is : List Instr) (s s' : State), runPath c s is = some s' →
    ∀ i ∈ is, ∃ s0, canEmit c s0 i.op = true
  | [], _, _, _ => by simp
  | i :: is, s, s', h => by
    simp only [runPath, step?] at h
    split at h
    · rename_i s1 hs
      split at hs
      · rename_i hc
        simp only [Option.some.injEq] at hs
        intro j hj
        rcases List.mem_cons.mp hj with rfl | hj
        · exact ⟨s, by simp only [Bool.and_eq_true] at hc; exact hc.1⟩
        · exact runPath_steps c is s1 s' h j hj
      · simp at hs
    · simp at h

/-- PROTO is written by the header exactly when the protocol is ≥ 2; FRAME may be written for
protocol ≥ 4 (both values of the frame coin give runs); STOP ends every run -/
theorem header_and_stop (c : Cfg) (table : List Op) (is : List Instr) (h : Run c table is) :
    is.getLast? = some stopInstr := by
  obtain ⟨frame, body, sb, _, _, rfl⟩ := h.run
  simp

end C12
end PFV

namespace PFV
open Mutators

/-- every instruction the exact generator writes after the header satisfies `P`, provided the
opcodes the guards can select, the int-like opcodes, the type-confusion replacements and the
collapse/STOP opcodes do — for EVERY configuration, unsafe mutations included -/
theorem instrs_ops {σ} (E : Entropy σ) (X : G.Ext) (c : Cfg) (P : Op → Prop)
    (hvalid : ∀ sim, sim.protoEmitted = decide (c.version ≥ 2) → ∀ o ∈ validOps (Gen.table c.version) c sim, P o)
    (hint : ∀ o, G.isIntLike o = true → P o) (htc : ∀ o, G.tcOp o = true → P o)
    (htail : P .tuple ∧ P .pnone ∧ P .pop ∧ P .tuple2 ∧ P .tuple3 ∧ P .stop)
    (s s' : σ) (r : G.Result) (h : G.generate E X c s = .ok (r, s')) : ∀ i ∈ r.instrs, P i.op := by
  simp only [G.generate] at h
  split at h
  · simp at h
  · rename_i g s3 hb
    simp only [Except.ok.injEq, Prod.mk.injEq] at h
    obtain ⟨hr, _⟩ := h
    subst hr
    have hbody := G.bodyLoop_ops E X c P hint htc _ { sim := initState c.version } g _ s3
      (fun sim hs => hvalid sim (by simpa [initState] using hs)) (by simp) hb
    obtain ⟨_, _, _, c4⟩ := cleanup_spec c g.sim
    intro i hi
    simp only [List.mem_append, List.mem_reverse, List.mem_singleton, plain, List.mem_map] at hi
    rcases hi with (hi | ⟨o, ho, rfl⟩) | rfl
    · exact hbody i hi
    · rcases c4 o ho with rfl | rfl | ⟨_, rfl⟩ | ⟨_, rfl | rfl⟩
      · exact htail.1
      · exact htail.2.1
      · exact htail.2.2.1
      · exact htail.2.2.2.1
      · exact htail.2.2.2.2.1
    · exact htail.2.2.2.2.2

/-! ## C06 — FRAME -/
namespace C06

/-- **C06.**  For every configuration (unsafe mutations and type confusion included), every
entropy source and every result of the exact generator: the bytes are
`[PROTO v]` (v ≥ 2) `++ [FRAME, 8-byte little-endian length]` (only if the frame coin was drawn,
which needs v ≥ 4) `++ body`, the length is exactly the number of body bytes (everything after the
FRAME argument, STOP included), and no FRAME (nor PROTO) instruction occurs inside the body. -/
theorem frame_layout {σ} (E : Entropy σ) (X : G.Ext) (c : Cfg) (s s' : σ) (r : G.Result)
    (h : G.generate E X c s = .ok (r, s')) :
    r.bytes = (if c.version ≥ 2 then [Gen.asU8 .proto] ++ Enc.le 1 c.version else []) ++
              (if r.framed then [Gen.asU8 .frame] ++ Enc.le 8 (r.instrs.flatMap Enc.encode).length else []) ++
              r.instrs.flatMap Enc.encode ∧
    (r.framed = true → c.version ≥ 4) ∧
    (∀ i ∈ r.instrs, i.op ≠ .frame ∧ i.op ≠ .proto) := by
  refine ⟨?_, ?_, ?_⟩
  · simp only [G.generate] at h
    split at h
    · simp at h
    · simp only [Except.ok.injEq, Prod.mk.injEq] at h
      obtain ⟨hr, _⟩ := h
      subst hr
      simp only [Enc.encode, protoInstr, Enc.encodeArg]
      split <;> simp
  · simp only [G.generate] at h
    split at h
    · simp at h
    · simp only [Except.ok.injEq, Prod.mk.injEq] at h
      obtain ⟨hr, _⟩ := h
      subst hr
      simp only
      intro hf
      by_cases hv : c.version ≥ 4
      · exact hv
      · simp [hv] at hf
  · apply instrs_ops E X c (fun o => o ≠ .frame ∧ o ≠ .proto) _ _ _ _ s s' r h
    · intro sim hpe o ho
      have hc := (List.mem_filter.mp ho).2
      have hm := (List.mem_filter.mp ho).1
      constructor
      · intro e; subst e; simp [canEmit] at hc
      · intro e; subst e
        by_cases hv : c.version ≥ 2
        · simp [canEmit, hpe, hv] at hc
        · exact C05.no_proto_below_2 c.version (by omega) hm
    · intro o ho; cases o <;> simp [G.isIntLike] at ho <;> simp
    · intro o ho; cases o <;> simp [G.tcOp] at ho <;> simp
    · simp

end C06

namespace C10
/-- **C10 for every configuration** (unsafe mutations and type confusion included): an EXT*
instruction is written only if EXT opcodes were enabled, a buffer instruction only if buffer
opcodes were enabled. -/
theorem optin_any_config {σ} (E : Entropy σ) (X : G.Ext) (c : Cfg) (s s' : σ) (r : G.Result)
    (h : G.generate E X c s = .ok (r, s')) :
    ∀ i ∈ r.instrs, (Spec.isExt i.op = true → c.allowExt = true) ∧ (Spec.isBuffer i.op = true → c.allowBuf = true) := by
  apply instrs_ops E X c (fun o => (Spec.isExt o = true → c.allowExt = true) ∧ (Spec.isBuffer o = true → c.allowBuf = true))
    _ _ _ _ s s' r h
  · intro sim _ o ho
    have hc := (List.mem_filter.mp ho).2
    constructor
    · intro he
      simp only [Spec.isExt, Bool.or_eq_true, beq_iff_eq] at he
      rcases he with (he | he) | he <;> (rw [he] at hc; simpa [canEmit] using hc)
    · intro he
      simp only [Spec.isBuffer, Bool.or_eq_true, beq_iff_eq] at he
      rcases he with he | he
      · rw [he] at hc; simpa [canEmit] using hc
      · rw [he] at hc; simp only [canEmit, Bool.and_eq_true] at hc; exact hc.1
  · intro o ho; cases o <;> simp [G.isIntLike] at ho <;> simp [Spec.isExt, Spec.isBuffer]
  · intro o ho; cases o <;> simp [G.tcOp] at ho <;> simp [Spec.isExt, Spec.isBuffer]
  · simp [Spec.isExt, Spec.isBuffer]
end C10

/-! ## C04 — end to end: the bytes of the exact generator -/
namespace C04

/-- **C04, end to end, for every configuration.**  For every protocol ≤ 5, every configuration
(opcode range, EXT/buffer switches, every mutator set and rate, unsafe mutations and type confusion
included), every lawful entropy source and every result of the exact generator `G.generate`
(the function S3 compares byte for byte with `generate_internal`): the returned bytes decode
completely under the reference lexer — every opcode byte known, every argument complete and in its
prescribed encoding, exactly one STOP and nothing after it — and every argument is inside its
domain (`Spec.wellFormed`).  Hypotheses, both checked on the real data on every run (S3):
`FloatOK` (what Rust's `{}` prints for an `f64` is a newline-free literal Python's `float()`
accepts) and `ModsOK` (the embedded module list holds newline-free ASCII names without escapes).
The length bound says the body is shorter than 2^64 bytes (the width of the FRAME argument). -/
theorem generated_bytes_well_formed {σ} (E : Entropy σ) (X : G.Ext) (c : Cfg)
    (hE : Lawful E) (hF : FloatOK X.fmt) (hM : ModsOK X.mods) (hv : c.version ≤ 5)
    (s s' : σ) (r : G.Result) (h : G.generate E X c s = .ok (r, s'))
    (hlen : (r.instrs.flatMap Enc.encode).length < 18446744073709551616) :
    Spec.wellFormed r.bytes = true :=
  G.generate_wf E X c hE hF hM hv s s' r h hlen

/-- the same for the `arbitrary`-driven source of the fuzzing entry points (its lawfulness is
`C18.arb_lawful`) -/
theorem generated_bytes_well_formed_arb (X : G.Ext) (c : Cfg) (hF : FloatOK X.fmt) (hM : ModsOK X.mods)
    (hv : c.version ≤ 5) (input rest : List UInt8) (r : G.Result)
    (h : G.generate Arb.E X c input = .ok (r, rest))
    (hlen : (r.instrs.flatMap Enc.encode).length < 18446744073709551616) :
    Spec.wellFormed r.bytes = true :=
  G.generate_wf Arb.E X c Arb.lawful hF hM hv input rest r h hlen

/-- the `ModsOK` hypothesis follows from the check the driver runs on the loaded module list -/
theorem mods_hypothesis_checkable (mods : List (List UInt8 × List UInt8)) (h : Spec.modsOk mods = true) :
    ModsOK mods := modsOK_of_check mods h

end C04

/-! ## C11 — exact counts for every configuration -/
namespace C11

/-- **C11, for every configuration** (protocol ≤ 5; any mutators, rate, unsafe mutations and type
confusion; every lawful entropy source).  The drawn number of body opcodes `T` satisfies
`min ≤ T`, and `T < max` or (`max ≤ min` and `T = min`); **each of the `T` iterations writes exactly
one instruction** (`r.bodyLen = T`: the candidate list is never empty, the `len ≥ 256` guards of the
SHORT_* emitters are dead because payloads stay ≤ 71 bytes through every mutator, and a GET always
finds key 0); what follows the body is a collapse tail of at most `2T+1` opcodes and STOP. -/
theorem exact_counts {σ} (E : Entropy σ) (X : G.Ext) (c : Cfg) (hE : Lawful E) (hv : c.version ≤ 5)
    (s s' : σ) (r : G.Result) (h : G.generate E X c s = .ok (r, s')) :
    c.minOps ≤ r.target ∧ (r.target < c.maxOps ∨ (c.maxOps ≤ c.minOps ∧ r.target = c.minOps)) ∧
    r.bodyLen = r.target ∧
    ∃ body tail : List Instr, r.instrs = body ++ tail ++ [stopInstr] ∧ body.length = r.target ∧
      tail.length ≤ 2 * r.target + 1 := by
  obtain ⟨h1, h2, h3⟩ := G.generate_counts E X c hE hv s s' r h
  exact ⟨h1, h2, G.generate_bodyLen E X c hE hv s s' r h, h3⟩

/-- **C11 on the bytes.**  What the reference lexer decodes from the returned bytes is at most two
header instructions (PROTO, FRAME) followed by exactly the instructions above; hence the decoded
output has at least `min+1` and at most `3·max(min,max)+4` opcodes. -/
theorem decoded_counts {σ} (E : Entropy σ) (X : G.Ext) (c : Cfg) (hE : Lawful E)
    (hF : FloatOK X.fmt) (hM : ModsOK X.mods) (hv : c.version ≤ 5)
    (s s' : σ) (r : G.Result) (h : G.generate E X c s = .ok (r, s'))
    (hlen : (r.instrs.flatMap Enc.encode).length < 18446744073709551616) :
    ∃ is, Lex.lex r.bytes = .ok is ∧ c.minOps + 1 ≤ is.length ∧ is.length ≤ 3 * (max c.minOps c.maxOps) + 4 := by
  obtain ⟨hdr, hh, hl, _, _⟩ := G.generate_lex E X c hE hF hM hv s s' r h hlen
  obtain ⟨h1, h2, body, tail, hi, hb, ht⟩ := G.generate_counts E X c hE hv s s' r h
  refine ⟨hdr ++ r.instrs, hl, ?_, ?_⟩
  · rw [hi]; simp only [List.length_append, List.length_singleton]; omega
  · rw [hi]; simp only [List.length_append, List.length_singleton]
    have : r.target ≤ max c.minOps c.maxOps := by
      rcases h2 with h2 | ⟨_, h2⟩
      · exact Nat.le_trans (Nat.le_of_lt h2) (Nat.le_max_right _ _)
      · rw [h2]; exact Nat.le_max_left _ _
    omega

end C11

/-! ## C05 — the 7-bit claim for protocol 0, on the bytes -/
namespace C05

/-- **C05 (7-bit).**  For protocol 0, every configuration that holds no unsafe type-confusion
mutator (any other mutators, any rate, any opcode range), every lawful entropy source and every
result of the exact generator: every byte of the output is below 0x80.  Hypotheses checked on the
real data by S3: `FloatAscii` (Rust prints an `f64` with 7-bit characters) and `ModsOK`. -/
theorem protocol0_seven_bit {σ} (E : Entropy σ) (X : G.Ext) (c : Cfg) (hE : Lawful E)
    (hF : FloatAscii X.fmt) (hM : ModsOK X.mods) (hv : c.version = 0)
    (hnt : ∀ m ∈ c.mutators, m ≠ .typeconfusion true)
    (s s' : σ) (r : G.Result) (h : G.generate E X c s = .ok (r, s')) :
    Spec.asciiOk c.version r.bytes = true := by
  have := G.generate_ascii E X c hE hF hM hv hnt s s' r h
  simp only [Spec.asciiOk, hv, bne_self_eq_false, Bool.false_or, List.all_eq_true, decide_eq_true_eq]
  exact this

/-- for other protocols the predicate holds trivially (it speaks about protocol 0 only) -/
theorem asciiOk_other (p : Nat) (hp : p ≠ 0) (out : List UInt8) : Spec.asciiOk p out = true := by
  simp [Spec.asciiOk, hp]

end C05

/-! ## the oracle's verdict, proved: from the returned bytes to every structural property -/
namespace EndToEnd

/-- **Capstone (C01 + C02 + C03 + C04 + C05 + C10 on the bytes).**  Safe configuration, protocol
0–5, opcode budget below 2^32, every lawful entropy source, `FloatOK`/`ModsOK` (checked on the
real data), body shorter than 2^64 bytes: the *byte string* the exact generator returns is decoded
completely by the reference lexer (C04), every argument is inside its domain (C04), and the decoded
instruction list is accepted by the reference machine with no stack (C01), memo (C02) or
operand-kind (C03) violation, uses only opcodes of the protocol with the right header (C05) and
respects the opt-in flags (C10).  These are exactly the predicates the executable oracle evaluates
on the implementation's outputs; S3 ties `G.generate` to `generate_internal` byte for byte. -/
theorem bytes_ok {σ} (E : Entropy σ) (X : G.Ext) (c : Cfg) (hs : SafeCfg c) (hv : c.version ≤ 5)
    (hmin : c.minOps < 4294967296) (hmax : c.maxOps ≤ 4294967296) (hE : Lawful E)
    (hF : FloatOK X.fmt) (hM : ModsOK X.mods) (s s' : σ)
    (r : G.Result) (h : G.generate E X c s = .ok (r, s'))
    (hlen : (r.instrs.flatMap Enc.encode).length < 18446744073709551616) :
    ∃ is, Lex.lex r.bytes = .ok is ∧ Spec.wellFormed r.bytes = true ∧
      Spec.stackOk is = true ∧ Spec.memoOk is = true ∧ Spec.typedOk is = true ∧
      Spec.opsInProto c.version is = true ∧ Spec.headerOk c.version is = true ∧
      Spec.optinOk c.allowExt c.allowBuf is = true := by
  obtain ⟨frame, hrun, _, hfr, hfn, _⟩ := refinement E X c hs hmin hmax hE s s' r h
  obtain ⟨hdr, _, hl, _, hh⟩ := G.generate_lex E X c hE hF hM hv s s' r h hlen
  have hframe : frame = (if r.framed then some (r.instrs.flatMap Enc.encode).length else none) := by
    cases frame with
    | none =>
      have : r.framed = false := by simpa using hfr.symm
      simp [this]
    | some n =>
      have : r.framed = true := by simpa using hfr.symm
      simp [this, hfn n rfl]
  rw [← hframe] at hh
  subst hh
  exact ⟨_, hl, G.generate_wf E X c hE hF hM hv s s' r h hlen,
    C01.accepted c hs.1 _ _ hrun, C02.memo_ok c hs.1 _ _ hrun, C03.typed_ok c hs.1 _ _ hrun,
    C05.ops_in_proto c (by omega) _ hrun, C05.header_ok c _ hrun, C10.optin c _ _ hrun⟩

end EndToEnd

/-! ## the seeded source: ChaCha8 + rand's samplers, ported exactly -/
namespace C18

/-- **C18 (seeded PRNG).**  The exact port of `ChaCha8Rng::seed_from_u64` and of the draws
`GenerationSource::Rand` makes through rand 0.9 (`random::<T>()`, `random_range` with its
widening-multiply sampler and bias correction, `try_fill_bytes`) satisfies the whole entropy
contract in *every* generator state — whatever words the block function yields: an index among `n`
is below `n` (0 for `n = 0`), a draw from `[a,b)` lies in it (`a` when `a ≥ b`), byte strings have
the requested length, integers are inside their type's range, the rate draw is below 1. -/
theorem rand_lawful : Lawful Rand.E := Rand.lawful

end C18

namespace C09
/-- … and for every seed of the seeded mode (the CLI's `--seed`, `Generator::with_seed`) -/
theorem total_seeded (X : G.Ext) (c : Cfg) (hmods : X.mods ≠ []) (hv : c.version < 6)
    (hmin : c.minOps ≤ 2 ^ 63) (hmax : c.maxOps ≤ 2 ^ 63) (seed : Nat) :
    ∃ r s', G.generate Rand.E X c (Rand.seed seed) = .ok (r, s') ∧ r.bytes ≠ [] :=
  total Rand.E X c Rand.lawful hmods hv hmin hmax (Rand.seed seed)
end C09

namespace C04
/-- the bytes a seeded generation returns are well-formed, for every seed and configuration -/
theorem generated_bytes_well_formed_seeded (X : G.Ext) (c : Cfg) (hF : FloatOK X.fmt) (hM : ModsOK X.mods)
    (hv : c.version ≤ 5) (seed : Nat) (s' : Rand.St) (r : G.Result)
    (h : G.generate Rand.E X c (Rand.seed seed) = .ok (r, s'))
    (hlen : (r.instrs.flatMap Enc.encode).length < 18446744073709551616) :
    Spec.wellFormed r.bytes = true :=
  G.generate_wf Rand.E X c Rand.lawful hF hM hv _ s' r h hlen
end C04

namespace EndToEnd
/-- the capstone for seeded generation: every seed, safe configuration -/
theorem bytes_ok_seeded (X : G.Ext) (c : Cfg) (hs : SafeCfg c) (hv : c.version ≤ 5)
    (hmin : c.minOps < 4294967296) (hmax : c.maxOps ≤ 4294967296)
    (hF : FloatOK X.fmt) (hM : ModsOK X.mods) (seed : Nat) (s' : Rand.St)
    (r : G.Result) (h : G.generate Rand.E X c (Rand.seed seed) = .ok (r, s'))
    (hlen : (r.instrs.flatMap Enc.encode).length < 18446744073709551616) :
    ∃ is, Lex.lex r.bytes = .ok is ∧ Spec.wellFormed r.bytes = true ∧
      Spec.stackOk is = true ∧ Spec.memoOk is = true ∧ Spec.typedOk is = true ∧
      Spec.opsInProto c.version is = true ∧ Spec.headerOk c.version is = true ∧
      Spec.optinOk c.allowExt c.allowBuf is = true :=
  bytes_ok Rand.E X c hs hv hmin hmax Rand.lawful hF hM _ s' r h hlen
end EndToEnd

/-! ## per-property byte-level corollaries (each rests only on what its own property needs) -/

/-- the decoded bytes of a safe-configuration generation and the run they encode -/
theorem EndToEnd.decoded_run {σ} (E : Entropy σ) (X : G.Ext) (c : Cfg) (hs : SafeCfg c) (hv : c.version ≤ 5)
    (hmin : c.minOps < 4294967296) (hmax : c.maxOps ≤ 4294967296) (hE : Lawful E)
    (hF : FloatOK X.fmt) (hM : ModsOK X.mods) (s s' : σ)
    (r : G.Result) (h : G.generate E X c s = .ok (r, s'))
    (hlen : (r.instrs.flatMap Enc.encode).length < 18446744073709551616) :
    ∃ is, Lex.lex r.bytes = .ok is ∧ Run c (Gen.table c.version) is := by
  obtain ⟨frame, hrun, _, hfr, hfn, _⟩ := EndToEnd.refinement E X c hs hmin hmax hE s s' r h
  obtain ⟨hdr, _, hl, _, hh⟩ := G.generate_lex E X c hE hF hM hv s s' r h hlen
  have hframe : frame = (if r.framed then some (r.instrs.flatMap Enc.encode).length else none) := by
    cases frame with
    | none =>
      have : r.framed = false := by simpa using hfr.symm
      simp [this]
    | some n =>
      have : r.framed = true := by simpa using hfr.symm
      simp [this, hfn n rfl]
  rw [← hframe] at hh
  subst hh
  exact ⟨_, hl, hrun⟩

/-- **C01 on the bytes**: what the reference lexer decodes from a safe-configuration output is accepted
by the reference stack machine -/
theorem C01.bytes_stack_ok {σ} (E : Entropy σ) (X : G.Ext) (c : Cfg) (hs : SafeCfg c) (hv : c.version ≤ 5)
    (hmin : c.minOps < 4294967296) (hmax : c.maxOps ≤ 4294967296) (hE : Lawful E)
    (hF : FloatOK X.fmt) (hM : ModsOK X.mods) (s s' : σ)
    (r : G.Result) (h : G.generate E X c s = .ok (r, s'))
    (hlen : (r.instrs.flatMap Enc.encode).length < 18446744073709551616) :
    ∃ is, Lex.lex r.bytes = .ok is ∧ Spec.stackOk is = true := by
  obtain ⟨is, hl, hrun⟩ := EndToEnd.decoded_run E X c hs hv hmin hmax hE hF hM s s' r h hlen
  exact ⟨is, hl, C01.accepted c hs.1 _ _ hrun⟩

/-- **C02 on the bytes** -/
theorem C02.bytes_memo_ok {σ} (E : Entropy σ) (X : G.Ext) (c : Cfg) (hs : SafeCfg c) (hv : c.version ≤ 5)
    (hmin : c.minOps < 4294967296) (hmax : c.maxOps ≤ 4294967296) (hE : Lawful E)
    (hF : FloatOK X.fmt) (hM : ModsOK X.mods) (s s' : σ)
    (r : G.Result) (h : G.generate E X c s = .ok (r, s'))
    (hlen : (r.instrs.flatMap Enc.encode).length < 18446744073709551616) :
    ∃ is, Lex.lex r.bytes = .ok is ∧ Spec.memoOk is = true := by
  obtain ⟨is, hl, hrun⟩ := EndToEnd.decoded_run E X c hs hv hmin hmax hE hF hM s s' r h hlen
  exact ⟨is, hl, C02.memo_ok c hs.1 _ _ hrun⟩

/-- **C03 on the bytes** -/
theorem C03.bytes_typed_ok {σ} (E : Entropy σ) (X : G.Ext) (c : Cfg) (hs : SafeCfg c) (hv : c.version ≤ 5)
    (hmin : c.minOps < 4294967296) (hmax : c.maxOps ≤ 4294967296) (hE : Lawful E)
    (hF : FloatOK X.fmt) (hM : ModsOK X.mods) (s s' : σ)
    (r : G.Result) (h : G.generate E X c s = .ok (r, s'))
    (hlen : (r.instrs.flatMap Enc.encode).length < 18446744073709551616) :
    ∃ is, Lex.lex r.bytes = .ok is ∧ Spec.typedOk is = true := by
  obtain ⟨is, hl, hrun⟩ := EndToEnd.decoded_run E X c hs hv hmin hmax hE hF hM s s' r h hlen
  exact ⟨is, hl, C03.typed_ok c hs.1 _ _ hrun⟩

/-- **C05 on the bytes**: only opcodes of the protocol, the right header -/
theorem C05.bytes_ops_header_ok {σ} (E : Entropy σ) (X : G.Ext) (c : Cfg) (hs : SafeCfg c) (hv : c.version ≤ 5)
    (hmin : c.minOps < 4294967296) (hmax : c.maxOps ≤ 4294967296) (hE : Lawful E)
    (hF : FloatOK X.fmt) (hM : ModsOK X.mods) (s s' : σ)
    (r : G.Result) (h : G.generate E X c s = .ok (r, s'))
    (hlen : (r.instrs.flatMap Enc.encode).length < 18446744073709551616) :
    ∃ is, Lex.lex r.bytes = .ok is ∧ Spec.opsInProto c.version is = true ∧ Spec.headerOk c.version is = true := by
  obtain ⟨is, hl, hrun⟩ := EndToEnd.decoded_run E X c hs hv hmin hmax hE hF hM s s' r h hlen
  exact ⟨is, hl, C05.ops_in_proto c (by omega) _ hrun, C05.header_ok c _ hrun⟩

/-- **C10 on the bytes** -/
theorem C10.bytes_optin_ok {σ} (E : Entropy σ) (X : G.Ext) (c : Cfg) (hs : SafeCfg c) (hv : c.version ≤ 5)
    (hmin : c.minOps < 4294967296) (hmax : c.maxOps ≤ 4294967296) (hE : Lawful E)
    (hF : FloatOK X.fmt) (hM : ModsOK X.mods) (s s' : σ)
    (r : G.Result) (h : G.generate E X c s = .ok (r, s'))
    (hlen : (r.instrs.flatMap Enc.encode).length < 18446744073709551616) :
    ∃ is, Lex.lex r.bytes = .ok is ∧ Spec.optinOk c.allowExt c.allowBuf is = true := by
  obtain ⟨is, hl, hrun⟩ := EndToEnd.decoded_run E X c hs hv hmin hmax hE hF hM s s' r h hlen
  exact ⟨is, hl, C10.optin c _ _ hrun⟩


end PFV

namespace PFV
/-! ## C13 — the front ends denote the library configuration their options name -/
namespace C13
open Front

/-- **C13 (CLI).**  For every combination of parsed options and every seed, the generator main.rs
builds (single-file mode and each batch sample) is the one the documented options denote. -/
theorem cli_forwards (a : CliArgs) (seed : Nat) :
    (cliCfg a seed).cfg.version = (specCfg a seed).cfg.version ∧
    (cliCfg a seed).cfg.minOps = (specCfg a seed).cfg.minOps ∧
    (cliCfg a seed).cfg.maxOps = (specCfg a seed).cfg.maxOps ∧
    (cliCfg a seed).cfg.mutators = (specCfg a seed).cfg.mutators ∧
    (cliCfg a seed).cfg.rateBits = (specCfg a seed).cfg.rateBits ∧
    (cliCfg a seed).cfg.unsafeMut = (specCfg a seed).cfg.unsafeMut ∧
    (cliCfg a seed).cfg.allowExt = (specCfg a seed).cfg.allowExt ∧
    (cliCfg a seed).cfg.allowBuf = (specCfg a seed).cfg.allowBuf ∧
    (cliCfg a seed).seed = (specCfg a seed).seed := by
  refine ⟨?_, rfl, rfl, rfl, rfl, rfl, rfl, rfl, rfl⟩
  simp only [cliCfg, specCfg, version]
  cases a.protocol <;> rfl

/-- no protocol but a seed ⇒ protocol = seed mod 6 -/
theorem protocol_from_seed (a : CliArgs) (seed : Nat) (h : a.protocol = none) :
    (cliCfg a seed).cfg.version = seed % 6 := by
  simp [cliCfg, version, h]

/-- `all` expands to the six safe kinds, plus memoindex exactly in unsafe mode, each created with
the unsafe flag -/
theorem all_expands (u : Bool) :
    ((expand { mutators := [.all], unsafeM := u }).filterMap (create u)) =
      [.bitflip, .boundary, .offbyone, .stringlen, .character, .typeconfusion u] ++
        (if u then [.memoindex u] else []) := by
  cases u <;> rfl

/-- `all_mutators` in the model is the translated one -/
theorem all_mutators_translated :
    Gen.allMutatorsSafe = ["Bitflip", "Boundary", "Offbyone", "Stringlen", "Character", "Typeconfusion"] ∧
    Gen.allMutatorsUnsafeExtra = ["Memoindex"] := by decide

/-- batch mode writes exactly the names 0.pkl … (n-1).pkl -/
theorem batch_names (n : Nat) : (batchFiles n).length = n ∧
    ∀ i, i < n → (batchFiles n)[i]? = some (toString i ++ ".pkl") := by
  constructor
  · simp [batchFiles]
  · intro i hi
    simp [batchFiles, hi]

/-- **C13 (Python).**  `set_opcode_range` changes the two knobs and nothing else — the seed given
to the constructor stays in force, for any sequence of calls -/
theorem py_setter_preserves (g : LibCfg) (mn mx : Nat) :
    (pySetRange g mn mx).seed = g.seed ∧ (pySetRange g mn mx).cfg.version = g.cfg.version ∧
    (pySetRange g mn mx).cfg.mutators = g.cfg.mutators ∧ (pySetRange g mn mx).cfg.rateBits = g.cfg.rateBits ∧
    (pySetRange g mn mx).cfg.unsafeMut = g.cfg.unsafeMut ∧ (pySetRange g mn mx).cfg.allowExt = g.cfg.allowExt ∧
    (pySetRange g mn mx).cfg.allowBuf = g.cfg.allowBuf ∧
    (pySetRange g mn mx).cfg.minOps = mn ∧ (pySetRange g mn mx).cfg.maxOps = mx :=
  ⟨rfl, rfl, rfl, rfl, rfl, rfl, rfl, rfl, rfl⟩

/-- `mutate` returns the library's bytes, cut to `max_size` -/
theorem mutate_trunc (b : List UInt8) (k : Nat) : pyMutate b k = b.take k := by
  unfold pyMutate
  split
  · rename_i h; rw [List.take_of_length_le h]
  · rfl

/-- the pre-repair CLI did NOT forward `--unsafe-mutations` given alone … -/
theorem legacy_cli_counterexample :
    (Legacy.cliCfg { protocol := some 4, unsafeM := true } 5).cfg.unsafeMut ≠
      (specCfg { protocol := some 4, unsafeM := true } 5).cfg.unsafeMut := by decide

/-- … and the pre-repair `set_opcode_range` dropped the seed -/
theorem legacy_py_counterexample :
    (Legacy.pySetRange (pyNew 3 (some 7)) 60 300).seed ≠ (pyNew 3 (some 7)).seed := by decide

end C13
end PFV

namespace PFV
/-! ## C14 — no leak (logic proved on the abstract heap; allocator behaviour observed by S8) -/
namespace C14
open Heap

/-- the invariant holds of the empty heap and is preserved by allocation of a cell that references
existing cells … -/
theorem inv_alloc (h : H) (ks : List Nat) (b : Bool) (hi : ArenaInv h) (hs : Scoped h)
    (hk : ∀ d ∈ ks, d < h.kids.length) : ArenaInv (alloc h ks b) ∧ Scoped (alloc h ks b) :=
  alloc_inv h ks b hi hs hk

/-- … and by in-place mutation of an arena cell, whatever it is made to reference (itself, or a
tuple containing it: this is where `Rc` cycles come from) -/
theorem inv_mutate (h : H) (c : Nat) (ks : List Nat) (hi : ArenaInv h) (hs : Scoped h)
    (hc : c ∈ h.arena) (hk : ∀ d ∈ ks, d < h.kids.length) :
    ArenaInv (mutate h c ks) ∧ Scoped (mutate h c ks) := mutate_inv h c ks hi hs hc hk

/-- **C14 (logic).**  After `Stack::reset` / `Drop` has emptied the arena cells, every strong edge
points to a strictly older cell, hence no set of cells can keep itself alive: reference counting
reclaims every cell once the roots (stack, memo, output) are gone. -/
theorem all_reclaimed (h : H) (hi : ArenaInv h) (S : List Nat) (hne : S ≠ [])
    (hall : ∀ c ∈ S, ∃ c' ∈ S, c ∈ kidsOf (release h) c') : False :=
  no_self_sustaining_set (release h) (release_decr h hi) S hne hall

/-- without the release step the invariant alone does not prevent leaks: a list appended to
itself is a self-sustaining set (the pre-repair behaviour, commit 33dde57) -/
theorem legacy_cycle_leaks :
    let h := mutate (alloc empty [] true) 0 [0]
    ArenaInv h ∧ ∃ S : List Nat, S ≠ [] ∧ ∀ c ∈ S, ∃ c' ∈ S, c ∈ kidsOf h c' := by
  refine ⟨?_, [0], by simp, ?_⟩
  · intro c d hd
    right
    simp only [kidsOf, mutate, alloc, empty, List.nil_append, List.length_nil] at hd ⊢
    cases c with
    | zero => simp
    | succ n => simp [List.getD] at hd
  · intro c hc
    simp at hc; subst hc
    exact ⟨0, by simp, by simp [kidsOf, mutate, alloc, empty, List.getD]⟩

/-- **C14 (stack machine).**  Every program over the five shapes of heap traffic the generator
performs — `Stack::push` of a new cell referencing existing ones, DUP, pop, in-place update of a cell
that is on the stack (to reference anything, itself included), and auxiliary cells that never reach
the stack (memo entries, `Global` placeholders, argument tuples) — keeps: every edge that does not
point to an older cell starts at an arena cell, and every cell on the stack is an arena cell.  That
the Rust performs only these shapes is the translator's syntactic check I1–I3. -/
theorem machine_inv (steps : List Step) : MInv (run steps) := run_inv steps

/-- … hence, whatever the generator did, after `reset` / `Drop` no set of cells keeps itself alive -/
theorem machine_reclaimed (steps : List Step) (S : List Nat) (hne : S ≠ [])
    (hall : ∀ c ∈ S, ∃ c' ∈ S, c ∈ kidsOf (release (run steps).h) c') : False :=
  all_reclaimed (run steps).h (run_inv steps).1 S hne hall

/-- non-vacuity: the program `push [] ; dup ; mutate 0 [0]` (a list appended to itself) really builds a
cycle, and it is still reclaimed after release -/
example : kidsOf (run [.push [], .dup, .mutate 0 [0]]).h 0 = [0] := by decide

/-- the translated list of in-place mutation sites: every receiver is a stack cell -/
theorem mutation_sites_on_stack_cells :
    ∀ s ∈ Gen.mutationSites, s.2 = "peek" ∨ s.2 = "pop" := by decide

/-! #### C14 on the opcode-level object model (`Obj.lean`: which cell every arm of `process_stack_ops`
allocates, aliases, mutates in place or drops — compared with the implementation's live object graph, cell by
cell and reference count by reference count, after every opcode of real runs: stream S10) -/

/-- every run of the object-level model — any opcodes, guarded or not, any arguments — is a program of the
stack machine above (the object model performs only the five shapes of heap traffic) -/
theorem obj_run_is_machine_program (ver : Nat) (is : List Instr) :
    ∃ steps, Obj.toM (Obj.run ver is) = Heap.run steps := Obj.toM_run ver is

/-- **C14 (opcode level).**  Whatever opcodes the generator processed, with whatever arguments (unsafe
mutations included), once `State::reset` / `Drop` has cleared the memo and the stack and emptied the cells
`Stack::push` created, no set of cells keeps itself alive: reference counting frees every cell. -/
theorem obj_all_reclaimed (ver : Nat) (is : List Instr) (S : List Nat) (hne : S ≠ [])
    (hall : ∀ c ∈ S, ∃ c' ∈ S, c ∈ Obj.kidsOf (Obj.release (Obj.run ver is)) c') : False :=
  Obj.run_reclaimed ver is S hne hall

/-- every cell on the simulated stack was created by `Stack::push` (so `reset` / `Drop` know it) -/
theorem obj_stack_cells_registered (ver : Nat) (is : List Instr) :
    ∀ c ∈ (Obj.run ver is).stack, ∃ x, (Obj.run ver is).cells[c]? = some x ∧ x.arena = true :=
  Obj.run_stack_arena ver is

/-- **the object model refines the simulated VM**: projected to slot kinds (the kind of every cell on the
stack, the kind of the cell under every memo key) a run of the object model *is* the run of `Sim.process` —
the simulated VM all other properties speak about — for every opcode sequence and all arguments; and the
object state stays well-formed (every id on the stack, in the memo and inside a cell names an existing cell).
So `obj_all_reclaimed` is a statement about the same runs as C01–C03/C17, not about a separate toy machine. -/
theorem obj_refines_sim (ver : Nat) (is : List Instr) (pe : Bool) :
    Obj.WF (Obj.run ver is) ∧
    Obj.proj (Obj.run ver is) pe = is.foldl (fun st i => process ver st i.op i.arg) { protoEmitted := pe } :=
  Obj.proj_run ver is pe

/-- one opcode, from any well-formed object state -/
theorem obj_step_refines_sim (ver : Nat) (s : Obj.OS) (hw : Obj.WF s) (op : Op) (arg : Arg) (pe : Bool) :
    Obj.WF (Obj.process ver s op arg) ∧ Obj.proj (Obj.process ver s op arg) pe = process ver (Obj.proj s pe) op arg :=
  Obj.proj_process ver s hw op arg pe

/-- the observation the whole design rests on (DESIGN §1), as a theorem about the object model: no opcode ever changes
the variant of an existing cell — in-place mutation (APPEND(S), SETITEM(S), ADDITEMS, BUILD) changes what a cell holds,
never what it is — and no cell is ever removed.  That is why a simulated state of slot *kinds* loses nothing. -/
theorem obj_kind_stable (ver : Nat) (s : Obj.OS) (hw : Obj.WF s) (op : Op) (arg : Arg) (c : Nat) (hc : c < s.cells.length) :
    Obj.kindOf (Obj.process ver s op arg) c = Obj.kindOf s c ∧ s.cells.length ≤ (Obj.process ver s op arg).cells.length :=
  Obj.kind_stable ver s hw op arg c hc

/-- non-vacuity: `EMPTY_LIST DUP APPEND` really makes the list its own child in the object model (the leak of
the pre-repair tree), `EMPTY_LIST DUP TUPLE1 APPEND POP` an unreachable two-cell ring; both are emptied by release -/
example : Obj.kidsOf (Obj.run 2 [⟨.emptyList, .none⟩, ⟨.dup, .none⟩, ⟨.append, .none⟩]) 0 = [0] := by decide
example : let s := Obj.run 2 [⟨.emptyList, .none⟩, ⟨.dup, .none⟩, ⟨.tuple1, .none⟩, ⟨.append, .none⟩, ⟨.pop, .none⟩]
    s.stack = [] ∧ Obj.kidsOf s 0 = [1] ∧ Obj.kidsOf s 1 = [0] ∧ Obj.kidsOf (Obj.release s) 0 = [] := by decide

end C14
end PFV
