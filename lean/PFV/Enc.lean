/-
L3 (model side) — the byte encodings the generator writes (`src/generator/emission.rs`):
`encode : Instr → List UInt8` for the instructions the emitter constructs.
No imports outside the project.
-/
import PFV.Instr
import PFV.Generated
namespace PFV
namespace Enc

/-- decimal digits of a natural number, most significant first (`format!("{}", n)`) -/
def digitsAux : Nat → Nat → List UInt8 → List UInt8
  | 0, _, acc => acc
  | fuel + 1, n, acc =>
    let acc' := UInt8.ofNat (48 + n % 10) :: acc
    if n / 10 = 0 then acc' else digitsAux fuel (n / 10) acc'

def showNat (n : Nat) : List UInt8 := digitsAux (n + 1) n []

def showInt (v : Int) : List UInt8 :=
  if v < 0 then 0x2d :: showNat v.natAbs else showNat v.toNat

/-- little-endian bytes of `v mod 2^(8w)` -/
def le (w : Nat) (v : Nat) : List UInt8 := (List.range w).map (fun i => UInt8.ofNat ((v >>> (8 * i)) % 256))
def be (w : Nat) (v : Nat) : List UInt8 := (le w v).reverse

/-- two's complement of an integer in `bits` bits, as a natural number -/
def toU (bits : Nat) (v : Int) : Nat := (v % ((2 ^ bits : Nat) : Int)).toNat

/-- `s.replace('\\', "\\\\").replace('\'', "\\'").replace('\n', "\\n").replace('\r', "\\r").replace('\t', "\\t")` -/
def escapeString : List UInt8 → List UInt8
  | [] => []
  | b :: bs =>
    (if b = 0x5c then [0x5c, 0x5c]
     else if b = 0x27 then [0x5c, 0x27]
     else if b = 0x0a then [0x5c, 0x6e]
     else if b = 0x0d then [0x5c, 0x72]
     else if b = 0x09 then [0x5c, 0x74]
     else [b]) ++ escapeString bs

/-- `s.replace('\\', "\\\\")` -/
def escapeBackslash : List UInt8 → List UInt8
  | [] => []
  | b :: bs => (if b = 0x5c then [0x5c, 0x5c] else [b]) ++ escapeBackslash bs

def nl : UInt8 := 0x0a

/-- the argument bytes of an instruction as the emitter writes them -/
def encodeArg (op : Op) (a : Arg) : List UInt8 :=
  match op, a with
  | .int, .int v => showInt v ++ [nl]
  | .long, .int v => showInt v ++ [0x4c, nl]
  | .binInt, .int v => le 4 (toU 32 v)
  | .binInt1, .int v => le 1 (toU 8 v)
  | .binInt2, .int v => le 2 (toU 16 v)
  | .long1, .bytes p => UInt8.ofNat p.length :: p
  | .long4, .bytes p => le 4 p.length ++ p
  | .float, .bytes t => t ++ [nl]
  | .binFloat, .float bits => be 8 bits.toNat
  | .string, .bytes l => l ++ [nl]
  | .unicode, .bytes l => l ++ [nl]
  | .persID, .bytes l => l ++ [nl]
  | .glob, .pair m n | .inst, .pair m n => m ++ [nl] ++ n ++ [nl]
  | .shortBinUnicode, .bytes p | .shortBinString, .bytes p | .shortBinBytes, .bytes p =>
      UInt8.ofNat p.length :: p
  | .binUnicode, .bytes p | .binString, .bytes p | .binBytes, .bytes p => le 4 p.length ++ p
  | .binUnicode8, .bytes p | .binBytes8, .bytes p | .byteArray8, .bytes p => le 8 p.length ++ p
  | .get, .nat i | .put, .nat i => showNat i ++ [nl]
  | .binGet, .nat i | .binPut, .nat i => le 1 i
  | .longBinGet, .nat i | .longBinPut, .nat i => le 4 i
  | .ext1, .nat n => le 1 n
  | .ext2, .nat n => le 2 n
  | .ext4, .int v => le 4 (toU 32 v)
  | .proto, .nat n => le 1 n
  | .frame, .nat n => le 8 n
  | _, _ => []

def encode (i : Instr) : List UInt8 := Gen.asU8 i.op :: encodeArg i.op i.arg

end Enc
end PFV
