#!/usr/bin/env python3
"""/verif/check.py <PROPERTY-ID> [--tier quick|thorough] | --replay FILE | setup

One entry point for every registered check (DESIGN §5):
  1. translate /repo's tables into lean/PFV/Generated.lean, `lake build` the model, the theorems
     and the native driver, audit axioms / forbidden constructs;
  2. build the Rust harness against /repo's working tree (feature verif-hooks);
  3. run the correspondence streams the property depends on and the oracle (the executable
     specification evaluated on the implementation's real outputs);
  4. verdict: failing input  -> VIOLATION property=<id> replay=<file>
              obligation / correspondence broken, no failing input -> VIOLATION ... no-failing-input-found
              listed open finding -> KNOWN-FINDING line, exit 0
  5. evidence/<id>.json from measured numbers.
"""
import sys, os, json, subprocess, time, hashlib, re, fcntl, resource, shutil, argparse, random

VERIF = os.path.dirname(os.path.abspath(__file__))
REPO = os.environ.get("VERIF_REPO", "/repo")
LEAN = os.path.join(VERIF, "lean")
HARNESS_DIR = os.path.join(VERIF, "harness")
BUILD = os.path.join(VERIF, "build")
HARNESS = os.path.join(BUILD, "harness-target", "release", "pfv-harness")
DRIVER = os.path.join(LEAN, ".lake", "build", "bin", "pfv-driver")
REPLAYS = os.path.join(VERIF, "replays")
EVIDENCE = os.path.join(VERIF, "evidence")
CORPUS = os.path.join(VERIF, "corpus")
KNOWN = os.path.join(VERIF, "KNOWN_FINDINGS.txt")
ALLOWED_AXIOMS = {"propext", "Classical.choice", "Quot.sound"}
FORBIDDEN = r"\b(sorry|admit|native_decide|bv_decide|implemented_by)\b|^\s*(@\[[^\]]*\]\s*)?(private\s+|protected\s+)?unsafe\s|^\s*axiom\s|maxHeartbeats 0"

ENV = dict(os.environ, CARGO_NET_OFFLINE="true", GOPROXY="off", PIP_NO_INDEX="1")

sys.path.insert(0, os.path.join(VERIF, "tools"))


def log(*a):
    print("[check]", *a, file=sys.stderr, flush=True)


def sh(cmd, cwd=None, timeout=3600, inp=None, big_stack=False):
    def pre():
        if big_stack:
            try:
                resource.setrlimit(resource.RLIMIT_STACK, (resource.RLIM_INFINITY, resource.RLIM_INFINITY))
            except (ValueError, OSError):
                pass
    p = subprocess.run(cmd, cwd=cwd, env=ENV, input=inp, stdout=subprocess.PIPE, stderr=subprocess.PIPE,
                       timeout=timeout, preexec_fn=pre, text=True)
    return p.returncode, p.stdout, p.stderr


class Lock:
    def __enter__(self):
        os.makedirs(BUILD, exist_ok=True)
        self.f = open(os.path.join(BUILD, ".lock"), "w")
        fcntl.flock(self.f, fcntl.LOCK_EX)
        return self

    def __exit__(self, *a):
        fcntl.flock(self.f, fcntl.LOCK_UN)
        self.f.close()


# --------------------------------------------------------------------------- builds
def theorem_at(path, line):
    """name of the declaration enclosing `line` of a Lean file"""
    try:
        src = open(path).read().split("\n")
    except OSError:
        return None
    ns = []
    name = None
    for i, l in enumerate(src[:line]):
        m = re.match(r"\s*namespace\s+(\S+)", l)
        if m:
            ns.append(m.group(1))
        m = re.match(r"\s*end\s+(\S+)", l)
        if m and ns and ns[-1] == m.group(1):
            ns.pop()
        m = re.match(r"\s*(?:private\s+|protected\s+)?(?:theorem|lemma|def|example|instance|abbrev)\s+(\S+)", l)
        if m:
            name = ".".join(ns + [m.group(1)])
    return name


def build_lean():
    """returns dict(ok, broken=[{file,line,decl,msg}], axioms={thm:[..]}, forbidden=[..], wall)"""
    t0 = time.time()
    res = dict(ok=True, broken=[], axioms={}, forbidden=[], translate="ok")
    rc, out, err = sh([sys.executable, os.path.join(VERIF, "tools", "translate.py"), "--repo", REPO], timeout=120)
    if rc != 0:
        res["ok"] = False
        res["translate"] = (err or out).strip()
        res["broken"].append(dict(file="tools/translate.py", line=0, decl="translator", msg=res["translate"]))
        # keep going with the previous Generated.lean so that the oracle can still search
    sh([sys.executable, os.path.join(VERIF, "tools", "mkaudit.py")], timeout=60)
    rc, out, err = sh(["lake", "build", "PFV", "pfv-driver"], cwd=LEAN, timeout=3000)
    txt = out + err
    if rc != 0:
        res["ok"] = False
        for m in re.finditer(r"error: (PFV/[^:]+):(\d+):(\d+): (.*)", txt):
            f, ln, _, msg = m.group(1), int(m.group(2)), m.group(3), m.group(4)
            res["broken"].append(dict(file=f, line=ln, decl=theorem_at(os.path.join(LEAN, f), ln), msg=msg[:300]))
        if not res["broken"]:
            res["broken"].append(dict(file="?", line=0, decl=None, msg=txt[-600:]))
    # forbidden constructs (outside comments)
    for root, _, files in os.walk(os.path.join(LEAN, "PFV")):
        for fn in files:
            if not fn.endswith(".lean"):
                continue
            p = os.path.join(root, fn)
            src = open(p).read()
            src = re.sub(r"/-.*?-/", lambda m: "\n" * m.group(0).count("\n"), src, flags=re.S)
            for i, l in enumerate(src.split("\n")):
                l2 = re.sub(r"--.*", "", l)
                l2 = re.sub(r'"(?:[^"\\]|\\.)*"', '""', l2)
                if re.search(FORBIDDEN, l2):
                    res["forbidden"].append("%s:%d: %s" % (os.path.relpath(p, LEAN), i + 1, l.strip()[:120]))
    if res["forbidden"]:
        res["ok"] = False
    # axioms audit
    audit = os.path.join(LEAN, "PFV", "Audit.lean")
    if os.path.exists(audit) and rc == 0:
        rc2, out2, err2 = sh(["lake", "env", "lean", "PFV/Audit.lean"], cwd=LEAN, timeout=1200)
        txt2 = out2 + err2
        for m in re.finditer(r"'([^']+)' depends on axioms: \[([^\]]*)\]", txt2):
            res["axioms"][m.group(1)] = [a.strip() for a in m.group(2).split(",") if a.strip()]
        for m in re.finditer(r"'([^']+)' does not depend on any axioms", txt2):
            res["axioms"][m.group(1)] = []
        if rc2 != 0:
            res["ok"] = False
            res["broken"].append(dict(file="PFV/Audit.lean", line=0, decl="audit", msg=txt2[-400:]))
        for t, ax in res["axioms"].items():
            bad = [a for a in ax if a not in ALLOWED_AXIOMS]
            if bad:
                res["ok"] = False
                res["broken"].append(dict(file="PFV/Audit.lean", line=0, decl=t, msg="extra axioms %s" % bad))
    res["wall"] = time.time() - t0
    return res


def build_harness():
    t0 = time.time()
    lock = os.path.join(HARNESS_DIR, "Cargo.lock")
    if not os.path.exists(lock):
        shutil.copy(os.path.join(REPO, "Cargo.lock"), lock)
    rc, out, err = sh(["cargo", "build", "--release", "--offline"], cwd=HARNESS_DIR, timeout=3000)
    return dict(ok=rc == 0, msg=(err or out)[-1500:] if rc != 0 else "", wall=time.time() - t0)


def setup():
    with Lock():
        l = build_lean()
        h = build_harness()
    print(json.dumps(dict(lean_ok=l["ok"], lean_broken=l["broken"][:5], harness_ok=h["ok"], harness_msg=h["msg"][-300:],
                          wall=l["wall"] + h["wall"]), indent=1))
    return 0 if (l["ok"] and h["ok"]) else 1


# --------------------------------------------------------------------------- streams
def harness_lines(args, timeout=3000):
    rc, out, err = sh([HARNESS] + args, timeout=timeout)
    if rc != 0:
        raise RuntimeError("harness %s failed: %s" % (args[:2], err[-300:]))
    return out


def drive(req_text, timeout=3000):
    rc, out, err = sh([DRIVER], inp=req_text, timeout=timeout, big_stack=True)
    if rc != 0:
        raise RuntimeError("driver failed rc=%s: %s" % (rc, err[-300:]))
    return out.split("\n")


def toks(line):
    d = {}
    for t in line.split(" "):
        if "=" in t:
            k, v = t.split("=", 1)
            d[k] = v
    return d


def run_oracle(cases, seed, profile, unsafe_sel, extra=None):
    """returns list of (request_line, verdict_dict)"""
    args = ["oracle", "--cases", str(cases), "--seed", str(seed), "--profile", profile, "--unsafe", unsafe_sel]
    req = harness_lines(args + (extra or []))
    reqs = [l for l in req.split("\n") if l.startswith("oracle ")]
    outs = [l for l in drive(req) if l.startswith("oracle ")]
    if len(outs) != len(reqs):
        raise RuntimeError("driver answered %d of %d oracle requests" % (len(outs), len(reqs)))
    return list(zip(reqs, [toks(o) for o in outs]))


def run_trace(cases, seed, profile, unsafe_sel):
    req = harness_lines(["trace", "--cases", str(cases), "--seed", str(seed), "--profile", profile, "--unsafe", unsafe_sel])
    reqs = [l for l in req.split("\n") if l.startswith("trace ")]
    outs = [l for l in drive(req) if l.startswith("trace ")]
    if len(outs) != len(reqs):
        raise RuntimeError("driver answered %d of %d trace requests" % (len(outs), len(reqs)))
    return list(zip(reqs, outs))


def run_probe(depth, deep=0):
    req = harness_lines(["probe", "--depth", str(depth), "--deep", str(deep)], timeout=6000)
    n = req.count("\n")
    outs = [l for l in drive(req, timeout=6000) if l.startswith("probe ")]
    mism = [l for l in outs if not l.startswith("probe ok")]
    return n, mism


def case_of(req_line):
    """the key=value part of a request line without the result"""
    return " ".join(t for t in req_line.split(" ")[1:] if not t.startswith("result=") and not t.startswith("steps=")
                    and not t.startswith("final=") and not t.startswith("target=") and not t.startswith("bodyend=")
                    and not t.startswith("mutated=") and not t.startswith("rewritten="))


def rerun_case(case_line):
    req = harness_lines(["case"] + case_line.split(" "))
    out = [l for l in drive(req) if l.startswith("oracle ")]
    return req.strip(), toks(out[0]) if out else {}


def minimise(case_line, key, budget=24):
    """shrink a failing case while `key` still FAILs"""
    def fails(cl):
        try:
            _, v = rerun_case(cl)
        except Exception:
            return False
        return v.get(key, "").startswith("FAIL")
    cur = toks(case_line)

    def line(d):
        return " ".join("%s=%s" % kv for kv in d.items())
    tries = 0
    changed = True
    while changed and tries < budget:
        changed = False
        cands = []
        mn, mx = int(cur["min"]), int(cur["max"])
        hi = max(mn, mx)
        if hi > 1:
            for nh in (hi // 2, hi - 1 if hi < 40 else hi * 3 // 4):
                d = dict(cur); d["min"] = str(min(mn, nh)); d["max"] = str(nh); cands.append(d)
        if cur["mask"] != "0":
            d = dict(cur); d["mask"] = "0"; cands.append(d)
        if cur["mode"].startswith("arb:") and len(cur["mode"]) > 6:
            h = cur["mode"][4:]
            d = dict(cur); d["mode"] = "arb:" + (h[: (len(h) // 4) * 2] or "-"); cands.append(d)
        for d in cands:
            tries += 1
            if fails(line(d)):
                cur = d
                changed = True
                break
    return line(cur)


def write_replay(prop, kind, payload):
    os.makedirs(REPLAYS, exist_ok=True)
    body = dict(property=prop, kind=kind, **payload)
    dig = hashlib.sha256(json.dumps(body, sort_keys=True).encode()).hexdigest()[:12]
    path = os.path.join(REPLAYS, "%s-%s.json" % (prop, dig))
    body["how_to_rerun"] = "%s %s --replay %s" % (sys.executable, os.path.join(VERIF, "check.py"), path)
    with open(path, "w") as f:
        json.dump(body, f, indent=1)
    return path


def known_findings():
    open_f, fixed = [], []
    if os.path.exists(KNOWN):
        for l in open(KNOWN):
            l = l.strip()
            m = re.match(r"finding:\s+property=(\S+)\s+key=(\S+)\s+(.*)", l)
            if m:
                open_f.append(dict(property=m.group(1), key=m.group(2), desc=m.group(3)))
            m = re.match(r"fixed:\s+property=(\S+)\s+(\S+)\s+(.*)", l)
            if m:
                fixed.append(dict(property=m.group(1), commit=m.group(2), desc=m.group(3)))
    return open_f, fixed


# --------------------------------------------------------------------------- property table
# which driver verdict key decides the property on an output, which entropy/unsafe selection
# the property quantifies over, which correspondence streams its theorems rest on, and which
# S1 mismatch categories concern it (None = all).
PROPS = {
    "C01": dict(key="C01", unsafe="0", streams=("S1", "S2"), s1=None, ns=["C01", "C17", "Tables"],
                title="stack discipline"),
    "C02": dict(key="C02", unsafe="0", streams=("S1", "S2"), s1=None, ns=["C02", "C17", "Tables"],
                title="memo discipline", profiles_extra=("memo",)),
    "C03": dict(key="C03", unsafe="0", streams=("S1", "S2"), s1=None, ns=["C03", "C17", "Tables"],
                title="typed operands"),
    "C04": dict(key="C04", unsafe="mix", streams=("S2",), s1=r"^$", ns=["C04", "Tables"],
                title="well-formed opcode stream"),
    "C05": dict(key="C05", unsafe="0", streams=("S1", "S2"), s1=r"cleanup|valid_opcodes", ns=["C05", "Tables"],
                title="protocol compliance and header"),
    "C06": dict(key="C06", unsafe="mix", streams=("S2",), s1=r"^$", ns=["C06"],
                title="FRAME"),
    "C10": dict(key="C10", unsafe="mix", streams=("S1", "S2"), s1=r"can_emit:(Ext|NextBuffer|ReadOnlyBuffer)|valid_opcodes",
                ns=["C10", "Tables"], title="opt-in opcodes"),
    "C11": dict(key="C11", unsafe="mix", streams=("S1", "S2"), s1=r"cleanup", ns=["C11"],
                title="opcode-count knobs"),
    "C17": dict(key=None, unsafe="0", streams=("S1", "S2"), s1=None, ns=["C17", "Tables"],
                title="simulation mirrors the reference machine"),
}

TIERS = {
    "quick": dict(oracle=dict(default=1500, small=1500, mid=60, memo=6), trace=dict(default=400, small=600, memo=3),
                  probe_depth=2, probe_deep=0),
    "thorough": dict(oracle=dict(default=30000, small=30000, mid=1500, memo=120), trace=dict(default=8000, small=8000, memo=40),
                     probe_depth=3, probe_deep=5),
}


def nontrivial_rule(prop):
    return {
        "C02": "distinct outputs (sha256) that contain at least one PUT-family opcode",
        "C06": "distinct outputs (sha256) for protocol >= 4",
        "C10": "distinct outputs (sha256)",
    }.get(prop, "distinct outputs (sha256) with at least 3 decoded opcodes")


def is_nontrivial(prop, v):
    if v.get("gen") != "ok":
        return False
    if prop == "C02":
        return int(v.get("memo", "0")) > 0
    return int(v.get("n", "0")) >= 3


def check_property(prop, tier, seed):
    t0 = time.time()
    P = PROPS[prop]
    T = TIERS[tier]
    violations = []        # (replay_path, suffix)
    known_lines = []
    notes = []
    cov = dict(evaluations=0, distinct_nontrivial=0, samples=[], traces_validated_against_impl=0,
               disagreements_checked=0, impl_vs_oracle_failures=0, model_vs_impl_disagreements=0)
    with Lock():
        lean = build_lean()
        har = build_harness()
    open_f, fixed = known_findings()
    open_keys = {f["key"]: f for f in open_f if f["property"] == prop}

    # ---- obligations
    shared = ("PFV.Run.pre", "PFV.run_accepted", "PFV.header_steps", "PFV.srel_init")
    thms = {t: ax for t, ax in lean["axioms"].items()
            if any(t.startswith("PFV.%s." % n) for n in P["ns"]) or t in shared}
    broken = [b for b in lean["broken"]]
    cov["obligations"] = len(thms) + len(broken)
    cov["discharged"] = len(thms) if lean["ok"] else max(0, len(thms) - len(broken))
    cov["checker_cmd"] = "cd /verif/lean && lake build PFV pfv-driver && lake env lean PFV/Audit.lean"
    cov["theorems"] = sorted(thms)
    cov["axioms_used"] = sorted({a for ax in thms.values() for a in ax})

    if not har["ok"]:
        p = write_replay(prop, "correspondence", dict(stream="harness-build", what="the harness no longer builds against /repo's working tree",
                                                      detail=har["msg"][-800:]))
        violations.append((p, " no-failing-input-found"))
        return finish(prop, tier, seed, t0, cov, violations, known_lines, notes)

    failing = []          # (case_line, detail)
    hist = {}
    seen = set()
    # ---- corpus of past minimised failures first
    cpath = os.path.join(CORPUS, "%s.cases" % prop)
    if os.path.exists(cpath) and P["key"]:
        for cl in open(cpath):
            cl = cl.strip()
            if not cl or cl.startswith("#"):
                continue
            _, v = rerun_case(cl)
            cov["evaluations"] += 1
            if v.get(P["key"], "").startswith("FAIL"):
                failing.append((cl, v[P["key"]]))
    # ---- oracle on implementation outputs
    if P["key"]:
        for prof, n in T["oracle"].items():
            if prof == "memo" and prop not in ("C01", "C02", "C04", "C09", "C11"):
                n = max(1, n // 3)
            for (req, v) in run_oracle(n, seed * 1000003 + sum(map(ord, prof)), prof, P["unsafe"]):
                cov["evaluations"] += 1
                r = toks(req)
                hk = "P%s/%s/%s" % (r.get("P"), "rand" if r.get("mode", "").startswith("rand") else "arb", prof)
                hist[hk] = hist.get(hk, 0) + 1
                if v.get("gen") != "ok":
                    hist["gen-failed"] = hist.get("gen-failed", 0) + 1
                    continue
                d = hashlib.sha256(r.get("result", "").encode()).hexdigest()
                if d not in seen and is_nontrivial(prop, v):
                    seen.add(d)
                if len(cov["samples"]) < 3 and is_nontrivial(prop, v):
                    cov["samples"].append(dict(case=case_of(req), decoded_opcodes=int(v.get("n", 0)), verdict=v.get(P["key"])))
                if v.get(P["key"], "").startswith("FAIL"):
                    failing.append((case_of(req), v[P["key"]]))
        cov["distinct_nontrivial"] = len(seen)
        cov["input_distribution"] = hist
    cov["impl_vs_oracle_failures"] = len(failing)

    # ---- correspondence streams
    corr_broken = []
    if "S1" in P["streams"]:
        n, mism = run_probe(T["probe_depth"], T["probe_deep"])
        cov["s1_states"] = n
        rel = [m for m in mism if P["s1"] is None or re.search(P["s1"], m.split("::", 1)[-1])]
        cov["disagreements_checked"] += n
        if rel:
            corr_broken.append(dict(stream="S1", count=len(rel), first=rel[0][:1500]))
    if "S2" in P["streams"]:
        ok = 0
        bad = []
        for prof, n in T["trace"].items():
            for (req, out) in run_trace(n, seed * 7919 + 13, prof, "0" if P["unsafe"] == "0" else "mix"):
                if " ok " in out:
                    ok += 1
                elif " FAIL " in out:
                    bad.append((case_of(req), out))
        cov["traces_validated_against_impl"] = ok
        if bad:
            corr_broken.append(dict(stream="S2", count=len(bad), first=bad[0][1][:1500], case=bad[0][0]))
    cov["model_vs_impl_disagreements"] = sum(c["count"] for c in corr_broken)

    # ---- verdict
    if failing:
        # group by detail class, report the first of each class (minimised)
        classes = {}
        for cl, det in failing:
            k = re.sub(r"instr#\d+", "instr#N", det)
            k = re.sub(r"count=\d+|total=\d+|\(-?\d+\)|_\d+", "", k)
            classes.setdefault(k, (cl, det))
        for k, (cl, det) in list(classes.items())[:4]:
            mcl = minimise(cl, P["key"]) if tier == "quick" or True else cl
            _, v = rerun_case(mcl)
            p = write_replay(prop, "failing-input", dict(case=mcl, observed=v.get(P["key"], det), required="%s=ok" % P["key"],
                                                         original_case=cl))
            tag = "input-class:" + k
            if any(ok_ in tag for ok_ in open_keys):
                known_lines.append("KNOWN-FINDING: property=%s %s (replay %s)" % (prop, det, p))
            else:
                violations.append((p, ""))
    elif (not lean["ok"]) or corr_broken:
        # no failing input from the regular budget: search harder near the disagreement before giving up
        extra_fail = []
        if P["key"]:
            for prof in ("default", "small", "memo"):
                n = T["oracle"].get(prof, 100) * (3 if tier == "quick" else 1)
                for (req, v) in run_oracle(n, seed * 31 + 977, prof, P["unsafe"]):
                    cov["evaluations"] += 1
                    if v.get(P["key"], "").startswith("FAIL"):
                        extra_fail.append((case_of(req), v[P["key"]]))
                        break
                if extra_fail:
                    break
        if extra_fail:
            cl, det = extra_fail[0]
            mcl = minimise(cl, P["key"])
            p = write_replay(prop, "failing-input", dict(case=mcl, observed=det, required="%s=ok" % P["key"]))
            violations.append((p, ""))
        else:
            what = []
            if not lean["ok"]:
                what.append(dict(kind="proof-obligation", broken=lean["broken"][:6], forbidden=lean["forbidden"][:6]))
            for c in corr_broken:
                what.append(dict(kind="correspondence", **c))
            p = write_replay(prop, "obligation", dict(no_longer_checks=what,
                             note="no input on which the property fails was found by the search; the property is no longer shown to hold"))
            violations.append((p, " no-failing-input-found"))
    return finish(prop, tier, seed, t0, cov, violations, known_lines, notes)


TRUSTED = [
    "Lean 4.33.0 kernel; axioms propext, Classical.choice, Quot.sound only (audited with #print axioms on every run)",
    "hand-written model lean/PFV/{Sim,SimBytes}.lean as a description of src/generator/{validation,utils,stack_ops}.rs — trusted as far as streams S1 (complete to the stated depth) and S2 (every step of real runs) reach",
    "specification lean/PFV/{Lex,Ref,Spec}.lean as a reading of CPython pickletools and of the property text (cross-checked by tools/specval.py)",
    "tools/translate.py (regex extraction of tables from /repo; refuses on unknown shapes)",
    "rustc/cargo, the harness /verif/harness, check.py",
]


def finish(prop, tier, seed, t0, cov, violations, known_lines, notes):
    os.makedirs(EVIDENCE, exist_ok=True)
    cov.setdefault("rule", "cases drawn from one SplitMix64 state (VERIF_SEED): protocols round-robin, both entropy modes, "
                           "mutator masks, rates, (min,max) shapes; non-trivial = " + nontrivial_rule(prop))
    cov["trusted_base"] = TRUSTED
    if not cov.get("samples"):
        cov["samples"] = [dict(note="no generation sample for this property; see theorems")]
    ev = dict(property_id=prop, tier=tier, seed=seed, level="proof", coverage=cov,
              assumptions=TRUSTED, wall_s=round(time.time() - t0, 2), violations=len(violations))
    if notes:
        ev["notes"] = notes
    with open(os.path.join(EVIDENCE, "%s.json" % prop), "w") as f:
        json.dump(ev, f, indent=1)
    for l in known_lines:
        print(l)
    for p, suffix in violations:
        print("VIOLATION property=%s replay=%s%s" % (prop, p, suffix))
    return 1 if violations else 0


def replay(path):
    body = json.load(open(path))
    prop = body["property"]
    with Lock():
        lean = build_lean()
        har = build_harness()
    if body["kind"] == "failing-input":
        key = PROPS[prop]["key"]
        req, v = rerun_case(body["case"])
        print("case:", body["case"])
        print("verdict:", v.get(key), "(required ok)")
        if v.get(key, "").startswith("FAIL") or v.get("gen") != "ok":
            print("VIOLATION property=%s replay=%s" % (prop, path))
            return 1
        return 0
    print(json.dumps(body, indent=1))
    print("lean build ok:", lean["ok"], "harness build ok:", har["ok"])
    return 0 if lean["ok"] and har["ok"] else 1


def main():
    ap = argparse.ArgumentParser()
    ap.add_argument("prop", nargs="?")
    ap.add_argument("--tier", default=os.environ.get("VERIF_TIER", "quick"))
    ap.add_argument("--replay")
    a = ap.parse_args()
    seed = int(os.environ.get("VERIF_SEED", "1") or 1)
    if a.replay:
        sys.exit(replay(a.replay))
    if a.prop == "setup":
        sys.exit(setup())
    if a.prop not in PROPS:
        print("unknown property", a.prop, file=sys.stderr)
        sys.exit(2)
    sys.exit(check_property(a.prop, a.tier if a.tier in TIERS else "quick", seed))


if __name__ == "__main__":
    main()
