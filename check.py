#!/usr/bin/env python3
"""/verif/check.py <PROPERTY-ID> [--tier quick|thorough] | --replay FILE | setup

One entry point for every registered check (DESIGN §5):
  1. translate /repo's tables into lean/PFV/Generated.lean, `lake build` the model, the theorems
     and the native driver, audit axioms / forbidden constructs;
  2. build the Rust harness against /repo's working tree (feature verif-hooks);
  3. run the correspondence streams the property depends on and the oracle (the executable
     specification evaluated on the implementation's real outputs);
  4. verdict: failing input  -> VIOLATION property=<id> replay=<file>
              obligation / correspondence broken, no failing input -> VIOLATION ... no-failing-input-found
              listed open finding -> KNOWN-FINDING line, exit 0
  5. evidence/<id>.json from measured numbers.
"""
import sys, os, json, subprocess, time, hashlib, re, fcntl, resource, shutil, argparse, random

VERIF = os.path.dirname(os.path.abspath(__file__))
REPO = os.environ.get("VERIF_REPO", "/repo")
LEAN = os.path.join(VERIF, "lean")
HARNESS_DIR = os.path.join(VERIF, "harness")
BUILD = os.path.join(VERIF, "build")
HARNESS = os.path.join(BUILD, "harness-target", "release", "pfv-harness")
HARNESS_REL = os.path.join(BUILD, "harness-target", "relsem", "pfv-harness")      # built without debug assertions / overflow checks
DRIVER = os.path.join(LEAN, ".lake", "build", "bin", "pfv-driver")
REPLAYS = os.path.join(VERIF, "replays")
EVIDENCE = os.path.join(VERIF, "evidence")
CORPUS = os.path.join(VERIF, "corpus")
KNOWN = os.path.join(VERIF, "KNOWN_FINDINGS.txt")
ALLOWED_AXIOMS = {"propext", "Classical.choice", "Quot.sound"}
FORBIDDEN = r"\b(sorry|admit|native_decide|bv_decide|implemented_by)\b|^\s*(@\[[^\]]*\]\s*)?(private\s+|protected\s+)?unsafe\s|^\s*axiom\s|maxHeartbeats 0"

ENV = dict(os.environ, CARGO_NET_OFFLINE="true", GOPROXY="off", PIP_NO_INDEX="1")

sys.path.insert(0, os.path.join(VERIF, "tools"))


def log(*a):
    print("[check]", *a, file=sys.stderr, flush=True)


def sh(cmd, cwd=None, timeout=3600, inp=None, big_stack=False, env=None):
    def pre():
        if big_stack:
            try:
                resource.setrlimit(resource.RLIMIT_STACK, (resource.RLIM_INFINITY, resource.RLIM_INFINITY))
            except (ValueError, OSError):
                pass
    p = subprocess.run(cmd, cwd=cwd, env=env or ENV, input=inp, stdout=subprocess.PIPE, stderr=subprocess.PIPE,
                       timeout=timeout, preexec_fn=pre, text=True)
    return p.returncode, p.stdout, p.stderr


class Lock:
    def __enter__(self):
        os.makedirs(BUILD, exist_ok=True)
        self.f = open(os.path.join(BUILD, ".lock"), "w")
        fcntl.flock(self.f, fcntl.LOCK_EX)
        return self

    def __exit__(self, *a):
        fcntl.flock(self.f, fcntl.LOCK_UN)
        self.f.close()


# --------------------------------------------------------------------------- builds
def theorem_at(path, line):
    """name of the declaration enclosing `line` of a Lean file"""
    try:
        src = open(path).read().split("\n")
    except OSError:
        return None
    ns = []
    name = None
    for i, l in enumerate(src[:line]):
        m = re.match(r"\s*namespace\s+(\S+)", l)
        if m:
            ns.append(m.group(1))
        m = re.match(r"\s*end\s+(\S+)", l)
        if m and ns and ns[-1] == m.group(1):
            ns.pop()
        m = re.match(r"\s*(?:private\s+|protected\s+)?(?:theorem|lemma|def|example|instance|abbrev)\s+(\S+)", l)
        if m:
            name = ".".join(ns + [m.group(1)])
    return name


TOP_DECL = re.compile(r"^(?:/--|/-!|@\[|theorem\b|lemma\b|def\b|abbrev\b|instance\b|structure\b|inductive\b|namespace\b|end\b|section\b|"
                      r"open\b|variable\b|example\b|private\b|protected\b|set_option\b|#|mutual\b|attribute\b|noncomputable\b|-- )")


def sorry_out(path, line):
    """replace the proof of the theorem enclosing `line` (1-based) of a Lean file by `sorry`, keeping its statement;
    returns the theorem's first line number or None if the enclosing declaration is not a theorem / was not found"""
    src = open(path).read().split("\n")
    i = min(line, len(src)) - 1
    while i >= 0 and not TOP_DECL.match(src[i]):
        i -= 1
    # skip attributes / doc comment lines upward is not needed: we want the line with `theorem`
    while i >= 0 and not re.match(r"^(?:private\s+|protected\s+)?(?:theorem|lemma)\b", src[i]):
        if re.match(r"^(?:def|abbrev|instance|structure|inductive|example|namespace|end|section)\b", src[i]):
            return None
        i -= 1
    if i < 0:
        return None
    j = i + 1
    while j < len(src) and not TOP_DECL.match(src[j]):
        j += 1
    text = "\n".join(src[i:j])
    depth = 0
    cut = None
    k = 0
    while k < len(text):
        ch = text[k]
        if ch in "([{⟨":
            depth += 1
        elif ch in ")]}⟩":
            depth -= 1
        elif depth == 0 and text.startswith(":=", k):
            cut = k
            break
        elif depth == 0 and ch == "\n" and re.match(r"\n\s*\|", text[k:k + 40]):
            cut = k
            break
        k += 1
    if cut is None:
        return None
    tail_blank = len(text) - len(text.rstrip("\n"))
    new = text[:cut].rstrip() + " := sorry" + "\n" * max(tail_blank, 1)
    src[i:j] = new.split("\n")[:-1] if new.endswith("\n") else new.split("\n")
    open(path, "w").write("\n".join(src))
    return i + 1


def attribute_lean_failure(res):
    """second pass after a failed build: in a scratch copy of the Lean project, replace the proof of every theorem
    the compiler rejected by `sorry` (statement kept), rebuild, and let `#print axioms` tell which property theorems
    depend on a rejected proof (`sorryAx`).  Only those properties have lost a proof obligation."""
    scratch = os.path.join(BUILD, "lean-patched")
    shutil.rmtree(scratch, ignore_errors=True)
    shutil.copytree(LEAN, scratch, symlinks=True)
    patched = []
    errs = [(b["file"], b["line"]) for b in res["broken"] if b.get("file", "").startswith("PFV/") and b.get("line")]
    for rnd in range(6):
        if not errs:
            break
        done_here = set()
        for f, ln in sorted(errs, key=lambda x: (x[0], -x[1])):      # bottom-up inside a file: line numbers stay valid
            decl = theorem_at(os.path.join(scratch, f), ln)
            if (f, decl) in done_here:
                continue
            start = sorry_out(os.path.join(scratch, f), ln)
            if start is None:
                return False
            done_here.add((f, decl))
            patched.append("%s:%s" % (f, decl))
        rc, out, err = sh(["lake", "build", "PFV", "pfv-driver"], cwd=scratch, timeout=3000)
        txt = out + err
        errs = []
        if rc != 0:
            for m in re.finditer(r"error: (PFV/[^:]+):(\d+):(\d+): (.*)", txt):
                errs.append((m.group(1), int(m.group(2))))
            if not errs:
                return False
    if errs:
        return False
    rc2, out2, err2 = sh(["lake", "env", "lean", "PFV/Audit.lean"], cwd=scratch, timeout=1200)
    txt2 = out2 + err2
    if rc2 != 0:
        return False
    ax = {}
    for m in re.finditer(r"'([^']+)' depends on axioms: \[([^\]]*)\]", txt2):
        ax[m.group(1)] = [a.strip() for a in m.group(2).split(",") if a.strip()]
    for m in re.finditer(r"'([^']+)' does not depend on any axioms", txt2):
        ax[m.group(1)] = []
    res["axioms"] = ax
    res["attributed"] = True
    res["rejected_proofs"] = patched
    res["depends_on_rejected"] = sorted(t for t, a in ax.items() if "sorryAx" in a)
    return True


def lean_for(lean, ns):
    """the build result as it concerns the property whose theorem namespaces are `ns`: after a failed build whose
    rejected proofs could be isolated (`attribute_lean_failure`), a property has lost an obligation only if one of
    its own theorems depends on a rejected proof"""
    soft = [x for x in lean.get("soft_refused", []) if set(x["props"]) & set(ns)]
    if soft:
        # a constant section this property rests on was not re-translated from the source: an obligation is open
        lean = dict(lean, ok=False, broken=list(lean["broken"]) + [dict(file="tools/translate.py", line=0, decl="section " + x["section"],
                    msg="not recognised in the source (values of the last recognised extraction used): " + x["msg"]) for x in soft])
        if not lean.get("attributed"):
            return lean
    if lean["ok"] or not lean.get("attributed") or lean["forbidden"] or lean["translate"] != "ok":
        return lean
    own = [n for n in ns if n != "Tables"]
    mine = [t for t in lean["depends_on_rejected"] if any(t.startswith("PFV.%s." % n) for n in own)]
    if not mine and not soft:
        return dict(lean, ok=True, broken=[], note="proofs rejected elsewhere (%s) do not reach this property's theorems" % ", ".join(lean["rejected_proofs"][:4]))
    return dict(lean, broken=[b for b in lean["broken"] if b.get("file") != "PFV/Audit.lean"] +
                [dict(file="PFV/Properties.lean", line=0, decl=t, msg="depends on a rejected proof: " + ", ".join(lean["rejected_proofs"][:4])) for t in mine])


def build_lean():
    """returns dict(ok, broken=[{file,line,decl,msg}], axioms={thm:[..]}, forbidden=[..], wall)"""
    t0 = time.time()
    res = dict(ok=True, broken=[], axioms={}, forbidden=[], translate="ok")
    tr_cmd = [sys.executable, os.path.join(VERIF, "tools", "translate.py"), "--repo", REPO,
              "--out", os.path.join(LEAN, "PFV", "Generated.lean")]
    rc, out, err = sh(tr_cmd, timeout=120)
    if rc != 0 and re.search(r"as_u8|PICKLE_OPCODES|table", err or ""):
        # opcodes.rs has a shape the translator does not recognise (a refactoring): take as_u8 and the per-protocol
        # tables from the compiled code instead (`pfv-harness tables` evaluates them through the hooks)
        try:
            if build_harness()["ok"]:
                tf = os.path.join(BUILD, "tables.txt")
                open(tf, "w").write(_harness_one(["tables"]))
                rc, out, err = sh(tr_cmd + ["--tables", tf], timeout=120)
                res["tables_from"] = "compiled code"
        except Exception as e:
            res["tables_fallback_error"] = str(e)[:200]
    # refusals of the translator's syntactic C14 section concern C14 only (reported there, not here)
    res["heap_refused"] = [l.split("C14-REFUSED:", 1)[1].strip() for l in (err or "").split("\n") if "C14-REFUSED:" in l]
    # sections of constants the translator did not recognise and filled from its cache: they concern the listed
    # properties only (which then rest on the correspondence streams alone)
    res["soft_refused"] = []
    for l in (err or "").split("\n"):
        m = re.search(r"SOFT-REFUSED: (\w+): props=([\w,]+): (.*)", l)
        if m:
            res["soft_refused"].append(dict(section=m.group(1), props=m.group(2).split(","), msg=m.group(3)[:300]))
    if rc != 0:
        res["ok"] = False
        res["translate"] = (err or out).strip()
        res["broken"].append(dict(file="tools/translate.py", line=0, decl="translator", msg=res["translate"]))
        # keep going with the previous Generated.lean so that the oracle can still search
    sh([sys.executable, os.path.join(VERIF, "tools", "mkaudit.py")], timeout=60)
    rc, out, err = sh(["lake", "build", "PFV", "pfv-driver"], cwd=LEAN, timeout=3000)
    txt = out + err
    if rc != 0:
        res["ok"] = False
        for m in re.finditer(r"error: (PFV/[^:]+):(\d+):(\d+): (.*)", txt):
            f, ln, _, msg = m.group(1), int(m.group(2)), m.group(3), m.group(4)
            res["broken"].append(dict(file=f, line=ln, decl=theorem_at(os.path.join(LEAN, f), ln), msg=msg[:300]))
        if not res["broken"]:
            res["broken"].append(dict(file="?", line=0, decl=None, msg=txt[-600:]))
        elif res["translate"] == "ok":
            try:
                attribute_lean_failure(res)
            except Exception as e:
                res["attribution_error"] = str(e)[:300]
            finally:
                # the scratch copy (the only place a `sorry` is ever written) does not outlive the analysis
                shutil.rmtree(os.path.join(BUILD, "lean-patched"), ignore_errors=True)
        # the driver does not depend on proof files: make sure it is current even if a proof failed
        sh(["lake", "build", "pfv-driver"], cwd=LEAN, timeout=3000)
    # forbidden constructs (outside comments)
    for root, _, files in os.walk(os.path.join(LEAN, "PFV")):
        for fn in files:
            if not fn.endswith(".lean"):
                continue
            p = os.path.join(root, fn)
            src = open(p).read()
            src = re.sub(r"/-.*?-/", lambda m: "\n" * m.group(0).count("\n"), src, flags=re.S)
            for i, l in enumerate(src.split("\n")):
                l2 = re.sub(r"--.*", "", l)
                l2 = re.sub(r'"(?:[^"\\]|\\.)*"', '""', l2)
                if re.search(FORBIDDEN, l2):
                    res["forbidden"].append("%s:%d: %s" % (os.path.relpath(p, LEAN), i + 1, l.strip()[:120]))
    if res["forbidden"]:
        res["ok"] = False
    # axioms audit
    audit = os.path.join(LEAN, "PFV", "Audit.lean")
    if os.path.exists(audit) and rc == 0:
        rc2, out2, err2 = sh(["lake", "env", "lean", "PFV/Audit.lean"], cwd=LEAN, timeout=1200)
        txt2 = out2 + err2
        for m in re.finditer(r"'([^']+)' depends on axioms: \[([^\]]*)\]", txt2):
            res["axioms"][m.group(1)] = [a.strip() for a in m.group(2).split(",") if a.strip()]
        for m in re.finditer(r"'([^']+)' does not depend on any axioms", txt2):
            res["axioms"][m.group(1)] = []
        if rc2 != 0:
            res["ok"] = False
            res["broken"].append(dict(file="PFV/Audit.lean", line=0, decl="audit", msg=txt2[-400:]))
        # independent re-check of the compiled property theorems by the toolchain's `leanchecker` (replays the
        # declarations of the module through the kernel); the thorough tier re-checks all imported modules as well
        rc3, out3, err3 = sh(["lake", "env", "leanchecker"] + (["--fresh"] if CURRENT_TIER[0] == "thorough" else []) + ["PFV.Properties"],
                             cwd=LEAN, timeout=3000)
        res["leanchecker"] = "ok" if rc3 == 0 else (out3 + err3)[-300:]
        if rc3 != 0:
            res["ok"] = False
            res["broken"].append(dict(file="PFV/Properties.lean", line=0, decl="leanchecker", msg=res["leanchecker"]))
        for t, ax in res["axioms"].items():
            bad = [a for a in ax if a not in ALLOWED_AXIOMS]
            if bad:
                res["ok"] = False
                res["broken"].append(dict(file="PFV/Audit.lean", line=0, decl=t, msg="extra axioms %s" % bad))
    res["wall"] = time.time() - t0
    return res


def build_harness():
    """builds /verif/harness against REPO's working tree into BUILD/harness-target (wherever this copy of /verif
    lives); with VERIF_REPO pointing elsewhere the crate is built from a copy whose path dependency is rewritten"""
    t0 = time.time()
    src = HARNESS_DIR
    if os.path.realpath(REPO) != "/repo":
        src = os.path.join(BUILD, "harness-src")
        shutil.rmtree(src, ignore_errors=True)
        shutil.copytree(HARNESS_DIR, src, ignore=shutil.ignore_patterns("target", "Cargo.lock"))
        ct = os.path.join(src, "Cargo.toml")
        txt = open(ct).read().replace('path = "/repo"', 'path = "%s"' % os.path.realpath(REPO))
        open(ct, "w").write(txt)
    lock = os.path.join(src, "Cargo.lock")
    if not os.path.exists(lock):
        shutil.copy(os.path.join(REPO, "Cargo.lock"), lock)
    env = dict(ENV, CARGO_TARGET_DIR=os.path.join(BUILD, "harness-target"))
    rc, out, err = sh(["cargo", "build", "--release", "--offline"], cwd=src, timeout=3000, env=env)
    if rc == 0:
        # second build with the semantics of an ordinary release build (see harness/Cargo.toml, profile relsem)
        rc, out, err = sh(["cargo", "build", "--profile", "relsem", "--offline"], cwd=src, timeout=3000, env=env)
    return dict(ok=rc == 0, msg=(err or out)[-1500:] if rc != 0 else "", wall=time.time() - t0)


def setup():
    with Lock():
        l = build_lean()
        h = build_harness()
        # pre-build the CLI binary and the Python extension used by S7
        sh([sys.executable, os.path.join(VERIF, "tools", "front.py"), "cli,python", "1", "1"], timeout=3000)
    print(json.dumps(dict(lean_ok=l["ok"], lean_broken=l["broken"][:5], harness_ok=h["ok"], harness_msg=h["msg"][-300:],
                          wall=l["wall"] + h["wall"]), indent=1))
    return 0 if (l["ok"] and h["ok"]) else 1


# --------------------------------------------------------------------------- streams
CURRENT_TIER = ["quick"]
NPROC = max(2, min(16, os.cpu_count() or 4))
STREAM_TIMEOUT = [900]      # seconds for one harness / driver invocation (raised for the thorough tier)


USE_REL = [False]          # set by the streams that want the release-semantics build for their next harness calls


def _harness_one(args, timeout=None):
    rc, out, err = sh([HARNESS_REL if USE_REL[0] else HARNESS] + args, timeout=timeout or STREAM_TIMEOUT[0])
    if rc != 0:
        raise RuntimeError("harness %s failed: %s" % (args[:2], err[-300:]))
    return out


def harness_lines(args, timeout=None):
    """one harness invocation; in the thorough tier a sampling job (`--cases N --seed S`, N large) is split into
    NPROC jobs with N/NPROC cases each and seeds S, S+104729, ... run as parallel processes (the harness is
    single-threaded); their outputs are concatenated in order"""
    if CURRENT_TIER[0] == "thorough" and "--cases" in args and "--seed" in args and args[0] in ("oracle", "trace", "gen", "mut", "src", "hist", "heap"):
        ci, si = args.index("--cases"), args.index("--seed")
        try:
            n, sd = int(args[ci + 1]), int(args[si + 1])
        except ValueError:
            return _harness_one(args, timeout)
        if n >= 4 * NPROC and "--exhaustive" not in args:
            from concurrent.futures import ThreadPoolExecutor
            def sub(j):
                a = list(args)
                a[ci + 1] = str(n // NPROC + (1 if j < n % NPROC else 0))
                a[si + 1] = str(sd + 104729 * j)
                return _harness_one(a, timeout)
            with ThreadPoolExecutor(max_workers=NPROC) as ex:
                return "".join(ex.map(sub, range(NPROC)))
    return _harness_one(args, timeout)


def _drive_one(req_text, timeout):
    rc, out, err = sh([DRIVER, os.path.join(REPO, "data", "stdlib_complete.txt")], inp=req_text, timeout=timeout, big_stack=True)
    if rc != 0:
        raise RuntimeError("driver failed rc=%s: %s" % (rc, err[-300:]))
    return out


def drive(req_text, timeout=None):
    """the native Lean driver answers one request per line and keeps no state between lines, so a large request file
    is split into contiguous chunks answered by several driver processes; the answers are concatenated in order"""
    timeout = timeout or STREAM_TIMEOUT[0]
    lines = req_text.split("\n")
    if len(lines) < 4000 and len(req_text) < 1_500_000:
        return _drive_one(req_text, timeout).split("\n")
    n = min(NPROC, max(2, len(lines) // 1500, len(req_text) // 1_000_000), max(1, len(lines) - 1))
    size = (len(lines) + n - 1) // n
    chunks = ["\n".join(lines[i:i + size]) + "\n" for i in range(0, len(lines), size)]
    from concurrent.futures import ThreadPoolExecutor
    with ThreadPoolExecutor(max_workers=n) as ex:
        outs = list(ex.map(lambda c: _drive_one(c, timeout), chunks))
    res = []
    for o in outs:
        res.extend(l for l in o.split("\n") if l != "")
    return res


def toks(line):
    d = {}
    for t in line.split(" "):
        if "=" in t:
            k, v = t.split("=", 1)
            d[k] = v
    return d


def run_oracle(cases, seed, profile, unsafe_sel, extra=None):
    """returns list of (request_line, verdict_dict)"""
    args = ["oracle", "--cases", str(cases), "--seed", str(seed), "--profile", profile, "--unsafe", unsafe_sel]
    req = harness_lines(args + (extra or []))
    reqs = [l for l in req.split("\n") if l.startswith("oracle ")]
    outs = [l for l in drive(req) if l.startswith("oracle ")]
    if len(outs) != len(reqs):
        raise RuntimeError("driver answered %d of %d oracle requests" % (len(outs), len(reqs)))
    return list(zip(reqs, [toks(o) for o in outs]))


def run_trace(cases, seed, profile, unsafe_sel):
    req = harness_lines(["trace", "--cases", str(cases), "--seed", str(seed), "--profile", profile, "--unsafe", unsafe_sel])
    reqs = [l for l in req.split("\n") if l.startswith("trace ")]
    outs = [l for l in drive(req) if l.startswith("trace ")]
    if len(outs) != len(reqs):
        raise RuntimeError("driver answered %d of %d trace requests" % (len(outs), len(reqs)))
    return list(zip(reqs, outs))


def run_lines(cmd, args, prefix, timeout=None):
    """harness subcommand -> driver; returns list of (request_line, driver_line)"""
    req = harness_lines([cmd] + args, timeout=timeout)
    reqs = [l for l in req.split("\n") if l.startswith(prefix + " ")]
    outs = [l for l in drive(req, timeout=timeout) if l.startswith(prefix + " ")]
    if len(outs) != len(reqs):
        raise RuntimeError("driver answered %d of %d %s requests" % (len(outs), len(reqs), prefix))
    return list(zip(reqs, outs))


def run_hist(cases, seed, maxlen):
    req = harness_lines(["hist", "--cases", str(cases), "--seed", str(seed), "--maxlen", str(maxlen)])
    return [l for l in req.split("\n") if l.startswith("hist ")]


def run_probe(depth, deep=0):
    """S1; the result is a function of the two freshly built binaries (harness linked against REPO's working tree,
    driver built from the regenerated model) and of (depth, deep), so it is memoised under their content hash:
    several properties rest on S1 and would otherwise repeat the identical enumeration"""
    h = hashlib.sha256()
    for b in (HARNESS, DRIVER):
        with open(b, "rb") as f:
            h.update(f.read())
    key = "%s-%d-%d-lite" % (h.hexdigest()[:24], depth, deep)
    cdir = os.path.join(BUILD, "s1cache")
    cfile = os.path.join(cdir, key + ".json")
    if os.path.exists(cfile):
        try:
            d = json.load(open(cfile))
            return d["n"], d["mism"]
        except Exception:
            pass
    if deep > 0 or depth >= 3:
        # the large enumeration is produced by several harness processes, each a residue class of the state list
        from concurrent.futures import ThreadPoolExecutor
        with ThreadPoolExecutor(max_workers=NPROC) as ex:
            parts = list(ex.map(lambda i: harness_lines(["probe", "--depth", str(depth), "--deep", str(deep), "--lite", "--shard", "%d/%d" % (i, NPROC)]), range(NPROC)))
        req = "".join(parts)
    else:
        req = harness_lines(["probe", "--depth", str(depth), "--deep", str(deep)])
    n = req.count("\n")
    outs = [l for l in drive(req) if l.startswith("probe ")]
    mism = [l for l in outs if not l.startswith("probe ok")]
    if len(outs) != n:
        mism.append("probe MISMATCH unsafe=0 ext=0 buf=0 pe=0 stack=- memo=0 :: driver answered %d of %d probe requests" % (len(outs), n))
    try:
        os.makedirs(cdir, exist_ok=True)
        for old_f in os.listdir(cdir):          # keep the cache small: one tree state at a time per (depth, deep)
            if old_f.endswith("-%d-%d-lite.json" % (depth, deep)) or old_f.endswith("-%d-%d.json" % (depth, deep)):
                os.remove(os.path.join(cdir, old_f))
        json.dump(dict(n=n, mism=mism[:20000]), open(cfile, "w"))
    except OSError:
        pass
    return n, mism


def case_of(req_line):
    """the key=value part of a request line without the result"""
    return " ".join(t for t in req_line.split(" ")[1:] if not t.startswith("result=") and not t.startswith("steps=")
                    and not t.startswith("final=") and not t.startswith("target=") and not t.startswith("bodyend=")
                    and not t.startswith("mutated=") and not t.startswith("rewritten=") and not t.startswith("nv=") and not t.startswith("nm=")
                    and not t.startswith("graph=") and not t.startswith("graphfinal=") and not t.startswith("valid=") and not t.startswith("alive_after_reset="))


REL_CASES = set()          # failing cases observed on the release-semantics build (see harness/Cargo.toml, profile relsem)
RERUN_REL = [False]        # re-run / minimise on that build


def rerun_case(case_line):
    USE_REL[0] = RERUN_REL[0]
    try:
        req = harness_lines(["case"] + case_line.split(" "))
    finally:
        USE_REL[0] = False
    out = [l for l in drive(req) if l.startswith("oracle ")]
    return req.strip(), toks(out[0]) if out else {}


def minimise(case_line, key, budget=24):
    """shrink a failing case while `key` still FAILs"""
    def fails(cl):
        try:
            _, v = rerun_case(cl)
        except Exception:
            return False
        return v.get(key, "").startswith("FAIL")
    cur = toks(case_line)

    def line(d):
        return " ".join("%s=%s" % kv for kv in d.items())
    tries = 0
    changed = True
    while changed and tries < budget:
        changed = False
        cands = []
        mn, mx = int(cur["min"]), int(cur["max"])
        hi = max(mn, mx)
        if hi > 1:
            for nh in (hi // 2, hi - 1 if hi < 40 else hi * 3 // 4):
                d = dict(cur); d["min"] = str(min(mn, nh)); d["max"] = str(nh); cands.append(d)
        if cur["mask"] != "0":
            d = dict(cur); d["mask"] = "0"; cands.append(d)
        if cur["mode"].startswith("arb:") and len(cur["mode"]) > 6:
            h = cur["mode"][4:]
            d = dict(cur); d["mode"] = "arb:" + (h[: (len(h) // 4) * 2] or "-"); cands.append(d)
        for d in cands:
            tries += 1
            if fails(line(d)):
                cur = d
                changed = True
                break
    return line(cur)


def write_replay(prop, kind, payload):
    os.makedirs(REPLAYS, exist_ok=True)
    body = dict(property=prop, kind=kind, **payload)
    dig = hashlib.sha256(json.dumps(body, sort_keys=True).encode()).hexdigest()[:12]
    path = os.path.join(REPLAYS, "%s-%s.json" % (prop, dig))
    body["how_to_rerun"] = "%s %s --replay %s" % (sys.executable, os.path.join(VERIF, "check.py"), path)
    with open(path, "w") as f:
        json.dump(body, f, indent=1)
    return path


def known_findings():
    open_f, fixed = [], []
    if os.path.exists(KNOWN):
        for l in open(KNOWN):
            l = l.strip()
            m = re.match(r"finding:\s+property=(\S+)\s+key=(\S+)\s+(.*)", l)
            if m:
                open_f.append(dict(property=m.group(1), key=m.group(2), desc=m.group(3)))
            m = re.match(r"fixed:\s+property=(\S+)\s+(\S+)\s+(.*)", l)
            if m:
                fixed.append(dict(property=m.group(1), commit=m.group(2), desc=m.group(3)))
    return open_f, fixed


# --------------------------------------------------------------------------- property table
# key     : driver verdict key that decides the property on one output (oracle), if any
# unsafe  : which unsafe_mutations selection the property quantifies over
# streams : correspondence / oracle streams the property's theorems rest on
# s1      : regex selecting the S1 mismatch categories that concern the property (None = all)
# ns      : theorem namespaces counted as this property's obligations
PROPS = {
    "C01": dict(key="C01", unsafe="0", streams=("S1", "S2", "S3", "S11"), s1=None, ns=["C01", "C17", "Tables"], big=True),
    "C02": dict(key="C02", unsafe="0", streams=("S1", "S2", "S3", "S11"), s1=None, ns=["C02", "C17", "Tables"], big=True),
    "C03": dict(key="C03", unsafe="0", streams=("S1", "S2", "S3", "S11"), s1=None, ns=["C03", "C17", "Tables"]),
    "C04": dict(key="C04", unsafe="mix", streams=("S2", "S3"), s1=r"^$", ns=["C04", "Tables"], big=True),
    "C05": dict(key="C05", unsafe="0", streams=("S1", "S2", "S3"), s1=r"cleanup|valid_opcodes", ns=["C05", "Tables"], big=True),
    "C06": dict(key="C06", unsafe="mix", streams=("S2", "S3"), s1=r"^$", ns=["C06"], big=True),
    "C08": dict(key=None, unsafe="mix", streams=("S6", "S3"), s1=r"^$", ns=["C08"]),
    "C09": dict(key="gen", unsafe="mix", streams=("S3", "S4", "S5", "S11"), s1=r"^$", ns=["C09", "C18", "Tables"], big=True),
    "C10": dict(key="C10", unsafe="mix", streams=("S1", "S2", "S7f"), s1=r"can_emit:(Ext|NextBuffer|ReadOnlyBuffer)|valid_opcodes",
                ns=["C10", "Tables"]),
    "C11": dict(key="C11", unsafe="mix", streams=("S1", "S2", "S3"), s1=r"cleanup", ns=["C11"], big=True),
    "C15": dict(key=None, unsafe="mix", streams=("S4", "S3", "S2r0"), s1=r"^$", ns=["C15"]),
    "C16": dict(key=None, unsafe="mix", streams=("S4",), s1=r"^$", ns=["C16", "Tables"]),
    "C17": dict(key=None, unsafe="0", streams=("S1", "S2", "S11"), s1=None, ns=["C17", "Tables"]),
    "C18": dict(key=None, unsafe="mix", streams=("S5",), s1=r"^$", ns=["C18", "Tables"]),
}

TIERS = {
    "quick": dict(oracle=dict(default=1500, small=1500, mid=60, memo=6, big=6), trace=dict(default=400, small=600, memo=3),
                  probe_depth=3, probe_deep=0, gen=dict(default=1200, small=800), gen_exhaustive=1, mut=4000, src=1500,
                  src_exhaustive2=False, hist=6000, hist_len=4),
    "thorough": dict(oracle=dict(default=120000, small=120000, mid=6000, memo=240, big=64, large=8),
                     trace=dict(default=16000, small=24000, memo=64),
                     probe_depth=3, probe_deep=4, gen=dict(default=80000, small=48000, mid=1200), gen_exhaustive=2, mut=480000,
                     src=160000, src_exhaustive2=True, hist=80000, hist_len=8),
}


def nontrivial_rule(prop):
    return {
        "C02": "distinct outputs (sha256) that contain at least one PUT-family opcode",
        "C08": "distinct call histories of length >= 2",
        "C15": "distinct mutator calls at rate 0.0 or 1.0",
        "C16": "distinct mutator calls in which the mutator fired",
        "C18": "distinct (method, arguments, entropy state) draws",
    }.get(prop, "distinct outputs (sha256) with at least 3 decoded opcodes")


def is_nontrivial(prop, v):
    if v.get("gen") != "ok":
        return False
    if prop == "C02":
        return int(v.get("memo", "0")) > 0
    return int(v.get("n", "0")) >= 3


class Ctx:
    def __init__(self, prop, tier, seed):
        self.prop, self.tier, self.seed = prop, tier, seed
        self.P, self.T = PROPS[prop], TIERS[tier]
        self.failing = []        # (stream, request/case line, detail) — concrete inputs on which the property fails
        self.corr = []           # dict(stream, count, first, ...) — model/implementation disagreements
        self.cov = dict(evaluations=0, distinct_nontrivial=0, samples=[], traces_validated_against_impl=0,
                        disagreements_checked=0, impl_vs_oracle_failures=0, model_vs_impl_disagreements=0)
        self.hist = {}
        self.seen = set()
        self.jobs = {}           # failing oracle case -> the harness job (process) it was observed in
        self.os_outputs = {}     # failing unseeded case -> the bytes it returned (not reproducible otherwise)

    def bump(self, k, n=1):
        self.hist[k] = self.hist.get(k, 0) + n

    def sample(self, x):
        if len(self.cov["samples"]) < 3:
            self.cov["samples"].append(x)


def stream_oracle(cx, profiles=None, mult=1, stop_on_first=False):
    P, T = cx.P, cx.T
    key = P["key"]
    if not key:
        return
    profs = dict(T["oracle"]) if profiles is None else {k: T["oracle"].get(k, 50) for k in profiles}
    if not P.get("big"):
        profs.pop("big", None); profs.pop("large", None)
    for pi, (prof, n) in enumerate(profs.items()):
        if prof == "memo" and cx.prop not in ("C01", "C02", "C04", "C09", "C11"):
            n = max(1, n // 3)
        # every other job runs the protocols in descending order inside its process
        jseed = cx.seed * 1000003 + sum(map(ord, prof)) + (17 if mult > 1 else 0)
        jextra = ["--order", "desc"] if pi % 2 == 0 else []
        jobcmd = "%s oracle --cases %d --seed %d --profile %s --unsafe %s %s | %s %s" % (
            HARNESS, n * mult, jseed, prof, P["unsafe"], " ".join(jextra), DRIVER, os.path.join(REPO, "data", "stdlib_complete.txt"))
        # every other job runs on the build without debug assertions and overflow checks (what `--release` users get)
        USE_REL[0] = (pi % 2 == 1)
        if USE_REL[0]:
            jobcmd = jobcmd.replace(HARNESS, HARNESS_REL, 1)
        try:
            pairs = run_oracle(n * mult, jseed, prof, P["unsafe"], extra=jextra)
        finally:
            USE_REL[0] = False
        for (req, v) in pairs:
            cx.cov["evaluations"] += 1
            r = toks(req)
            cx.bump("P%s/%s/%s" % (r.get("P"), "rand" if r.get("mode", "").startswith("rand") else ("os-entropy" if r.get("mode") == "os" else "arb"), prof))
            if r.get("warm", "0") != "0":
                cx.bump("reused-generator")
            if v.get("gen") != "ok":
                cx.bump("gen-failed")
                if key == "gen":
                    cx.failing.append(("oracle", case_of(req), "generation_did_not_return_a_pickle:" + v.get("gen", "?")))
                continue
            if key == "gen":
                if int(v.get("len", "0")) == 0:
                    cx.failing.append(("oracle", case_of(req), "empty_output"))
            d = hashlib.sha256(r.get("result", "").encode()).hexdigest()
            if is_nontrivial(cx.prop, v):
                cx.seen.add(d)
                cx.sample(dict(case=case_of(req), decoded_opcodes=int(v.get("n", 0)), verdict=v.get(key, "ok")))
            if key != "gen" and v.get(key, "").startswith("FAIL"):
                cx.failing.append(("oracle", case_of(req), v[key]))
                cx.jobs[case_of(req)] = jobcmd
                if pi % 2 == 1:
                    REL_CASES.add(case_of(req))
                if r.get("mode") == "os":
                    cx.os_outputs[case_of(req)] = r.get("result", "")[:200000]
                if stop_on_first:
                    return
    cx.cov["distinct_nontrivial"] = len(cx.seen)
    if profiles is None and mult == 1 and key != "gen":
        history_oracle(cx)
        cx.cov["distinct_nontrivial"] = len(cx.seen)


def history_oracle(cx):
    """the byte-level properties are also asked of generators with a *history*: the last result of call sequences
    (generate / generate_from_arbitrary / reset, re-configuration of protocol, range, seed and the opt-in flags through
    the public fields in between) is judged by the oracle under the configuration in force at that call — a stale
    cache of anything configuration-dependent shows up here as a violation of the property it concerns, not only as
    a C08 difference"""
    key = cx.P["key"]
    n = 400 if cx.tier == "quick" else 16000
    try:
        req = harness_lines(["hist", "--cases", str(n), "--seed", str(cx.seed * 41 + 9), "--maxlen", "4", "--oracle"])
    except Exception as e:
        cx.corr.append(dict(stream="oracle-history", count=1, first="history family could not run: %s" % str(e)[:300]))
        return
    reqs = [l for l in req.split("\n") if l.startswith("oracle ")]
    if cx.P["unsafe"] == "0":
        reqs = [l for l in reqs if " unsafe=0 " in l and " mu=0 " in l]
    outs = [l for l in drive("\n".join(reqs) + "\n") if l.startswith("oracle ")]
    if len(outs) != len(reqs):
        cx.corr.append(dict(stream="oracle-history", count=1, first="driver answered %d of %d history requests" % (len(outs), len(reqs))))
        return
    for req, o in zip(reqs, outs):
        v = toks(o)
        r = toks(req)
        cx.cov["evaluations"] += 1
        cx.bump("history/" + ("reconfigured" if re.search(r"hist=\S*[cs]\d", req) else "plain"))
        if v.get("gen") != "ok":
            continue
        if is_nontrivial(cx.prop, v):
            cx.seen.add(hashlib.sha256(r.get("result", "").encode()).hexdigest())
        if v.get(key, "").startswith("FAIL"):
            cl = case_of(req)
            cx.failing.append(("oracle-history", cl, v[key] + "_(last_call_of_the_history_hist=...;_rerun:_pfv-harness_hist_--case_<tokens>_calls=<hist>)"))
            cx.jobs[cl] = "%s hist --oracle --case %s calls=%s | %s %s" % (HARNESS, " ".join(t for t in cl.split(" ") if not t.startswith("hist=")), r.get("hist", ""), DRIVER, os.path.join(REPO, "data", "stdlib_complete.txt"))


def directed_values(cx):
    """directed argument values: for every protocol, fuzzer bytes (computed by the model's `steer`) that make the
    generator emit FLOAT / BINFLOAT with special doubles (signed zeros, infinities, NaNs, subnormal, extremes, values
    printed with an exponent) and every int-like opcode with special i32 values; the outputs are judged by the
    oracle like any other.  Random sampling practically never draws these exact values."""
    import struct
    f_specials = [0x0, 0x8000000000000000, 0x7ff0000000000000, 0xfff0000000000000, 0x7ff8000000000000, 0xfff8000000000001,
                  0x1, 0x800fffffffffffff, 0x7fefffffffffffff, 0x0010000000000000, 0x3ff0000000000000, 0xbff8000000000000,
                  0x4341c37937e08000, 0x3eb0c6f7a0b5ed8d, 0x43e0000000000000, 0xc3e0000000000000, 0x7e37e43c8800759c, 0x01a56e1fc2f8f359]
    i_specials = [0, 1, 0xffffffff, 0x7fffffff, 0x80000000, 255, 256, 65535, 65536, 0x80, 0xff00]
    reqs, meta = [], []
    for p in range(6):
        cfg = "P=%d unsafe=0 ext=0 buf=0 mask=0 rate=0000000000000000" % p
        for b in f_specials:
            le = struct.pack("<Q", b).hex()
            for op in (["Float"] + (["BinFloat"] if p >= 1 else [])):
                reqs.append("steer %s plan=%s:%s" % (cfg, op, le)); meta.append(cfg)
        for v in i_specials:
            le = struct.pack("<I", v).hex()
            for choice in range(7 if p >= 2 else (5 if p == 1 else 2)):
                reqs.append("steer %s plan=Int:%02x%s" % (cfg, choice, le)); meta.append(cfg)
    # extension codes at the edges of their widths (EXT opcodes enabled)
    for p in range(2, 6):
        cfg = "P=%d unsafe=0 ext=1 buf=0 mask=0 rate=0000000000000000" % p
        for op, vals, w in (("Ext1", [0, 1, 0x7f, 0xfe, 0xff], 1), ("Ext2", [0, 1, 0xff, 0x100, 0x7fff, 0xfffe, 0xffff], 2),
                            ("Ext4", [0, 1, 0xffff, 0x7ffffffe, 0x7fffffff, 0x80000000, 0xfffffffe, 0xffffffff], 4)):
            for v in vals:
                reqs.append("steer %s plan=%s:%s" % (cfg, op, v.to_bytes(w, "little").hex())); meta.append(cfg)
    outs = [l for l in drive("\n".join(reqs) + "\n") if l.startswith("steer ")]
    if len(outs) != len(reqs):
        cx.corr.append(dict(stream="directed", count=1, first="steer answered %d of %d" % (len(outs), len(reqs))))
        return
    lines = []
    for k, (cfg, o) in enumerate(zip(meta, outs)):
        if o.startswith("steer ok"):
            lines.append("id=%d %s min=1 max=1 warm=0 mode=arb:%s" % (k, cfg, toks(o).get("bytes", "-")))
    rl, vs = [], []
    for binary in (HARNESS, HARNESS_REL):
        rc, req, err = sh([binary, "oracle", "--stdin"], inp="\n".join(lines) + "\n", timeout=STREAM_TIMEOUT[0])
        if rc != 0:
            cx.corr.append(dict(stream="directed", count=1, first="harness oracle --stdin failed: " + err[-200:]))
            return
        rl += [l for l in req.split("\n") if l.startswith("oracle ")]
        vs += [toks(l) for l in drive(req) if l.startswith("oracle ")]
    key = cx.P["key"]
    cx.cov["directed_value_cases"] = len(rl)
    half = len(rl) // 2
    for idx, (r, v) in enumerate(zip(rl, vs)):
        if idx >= half and ((v.get("gen") != "ok" and key == "gen") or (key != "gen" and v.get(key, "").startswith("FAIL"))):
            REL_CASES.add(case_of(r))
        cx.cov["evaluations"] += 1
        cx.bump("directed-values")
        if v.get("gen") != "ok":
            if key == "gen":
                cx.failing.append(("oracle", case_of(r), "generation_did_not_return_a_pickle:" + v.get("gen", "?")))
        elif key != "gen" and v.get(key, "").startswith("FAIL"):
            cx.failing.append(("oracle", case_of(r), v[key]))


def cli_file_family(cx):
    """what the command-line tool leaves on disk is an output too: single-file mode onto a fresh path and onto an
    existing longer file, batch mode into a fresh and into a re-used directory; the bytes of every file are judged by
    this property's oracle (for C06: the FRAME length must span exactly the rest of the *file*; for C04: nothing may
    follow STOP)"""
    import tempfile
    key = cx.P["key"]
    rc, out, err = sh(["cargo", "build", "--release", "--offline", "--bin", "pickle-fuzzer"], cwd=REPO, timeout=3000,
                      env=dict(ENV, CARGO_TARGET_DIR=os.path.join(BUILD, "cli-target")))
    cli = os.path.join(BUILD, "cli-target", "release", "pickle-fuzzer")
    if rc != 0 or not os.path.exists(cli):
        cx.corr.append(dict(stream="cli-files", count=1, first="the CLI binary could not be built: " + (err or "")[-300:]))
        return
    reqs = []
    with tempfile.TemporaryDirectory(dir=BUILD) as td:
        n = 0
        for p_ in (0, 2, 4, 5):
            for seed in range(1, 4 if cx.tier == "quick" else 40):
                for pre in (False, True):
                    f = os.path.join(td, "f%d.pkl" % n); n += 1
                    if pre:
                        open(f, "wb").write(b"\x80\x04" + b"N0" * 60000 + b"N.")
                    rc, out, err = sh([cli, "--protocol", str(p_), "--seed", str(seed), f], timeout=120)
                    if rc == 0 and os.path.exists(f):
                        reqs.append("oracle id=%d P=%d unsafe=0 mu=0 ext=0 buf=0 min=60 max=300 mask=0 rate=3fb999999999999a warm=0 mode=rand:%d cli=%s result=ok:%s"
                                    % (n, p_, seed, "onto-existing-file" if pre else "fresh-file", open(f, "rb").read().hex()))
            d = os.path.join(td, "d%d" % p_)
            for rnd in (0, 1):
                # second round: fewer opcodes into the same directory, so every file gets shorter
                rc, out, err = sh([cli, "--protocol", str(p_), "--seed", "9", "--dir", d, "--samples", "4"] +
                                  (["--min-opcodes", "5", "--max-opcodes", "9"] if rnd else ["--min-opcodes", "200", "--max-opcodes", "300"]), timeout=120)
                if rc == 0:
                    for i in range(4):
                        fp = os.path.join(d, "%d.pkl" % i)
                        if os.path.exists(fp):
                            n += 1
                            reqs.append("oracle id=%d P=%d unsafe=0 mu=0 ext=0 buf=0 min=%d max=%d mask=0 rate=3fb999999999999a warm=0 mode=rand:9 cli=%s result=ok:%s"
                                        % (n, p_, 5 if rnd else 200, 9 if rnd else 300, "re-used-directory" if rnd else "fresh-directory", open(fp, "rb").read().hex()))
    if len(reqs) < 20:
        cx.corr.append(dict(stream="cli-files", count=1, first="only %d files were written by the CLI" % len(reqs)))
        return
    outs = [toks(l) for l in drive("\n".join(reqs) + "\n") if l.startswith("oracle ")]
    cx.cov["cli_files_judged"] = len(outs)
    for r, v in zip(reqs, outs):
        cx.cov["evaluations"] += 1
        cx.bump("cli-file/" + toks(r).get("cli", "?"))
        if v.get(key, "").startswith("FAIL"):
            cx.failing.append(("cli-files", case_of(r)[:400], v[key] + "_in_the_file_the_CLI_wrote(%s)" % toks(r).get("cli")))


def memo_boundary(cx):
    """states at the width boundary of the memo opcodes, reached directly instead of by thousands of random opcodes:
    fuzzer bytes (computed by the model's `steer`) under which the generator fills the memo with 254..257 entries
    through `NONE PUT` pairs (and MEMOIZE / LONG_BINPUT where the protocol has them), followed by free bytes for a
    dozen further choices — whatever the generator picks next at the boundary (BINPUT, BINGET, a cached candidate
    list, a stale guard) is judged by the oracle.  Random sampling needs 3000+ opcodes per pickle to get there."""
    rng = random.Random(cx.seed * 7 + 256)
    reqs, meta = [], []
    nvar = 24 if cx.tier == "quick" else 400
    for p in range(6):
        cfg = "P=%d unsafe=0 ext=0 buf=0 mask=0 rate=0000000000000000" % p
        puts = ["Put"] + (["LongBinPut"] if p >= 1 else []) + (["Memoize"] if p >= 4 else [])
        for size in (254, 255, 256, 257):
            for put in puts:
                plan = ["None", "Put"] * (size - 1) + ["None", put]
                reqs.append("steer %s frame=0 plan=%s" % (cfg, ",".join(plan))); meta.append((cfg, len(plan), size, put))
    outs = [l for l in drive("\n".join(reqs) + "\n") if l.startswith("steer ")]
    if len(outs) != len(reqs):
        cx.corr.append(dict(stream="memo-boundary", count=1, first="steer answered %d of %d" % (len(outs), len(reqs))))
        return
    lines = []
    for (cfg, n, size, put), o in zip(meta, outs):
        if not o.startswith("steer ok"):
            continue
        b = toks(o).get("bytes", "")
        for v in range(nvar):
            k = 1 + v % 12
            tail = bytes(rng.randrange(256) for _ in range(4 * k + 8)).hex()
            lines.append("id=%d %s min=%d max=%d warm=0 mode=arb:%s%s" % (len(lines), cfg, n + k, n + k, b, tail))
    if len(lines) < 100:
        cx.corr.append(dict(stream="memo-boundary", count=1, first="only %d memo-boundary inputs could be built" % len(lines)))
        return
    rc, req, err = sh([HARNESS, "oracle", "--stdin"], inp="\n".join(lines) + "\n", timeout=STREAM_TIMEOUT[0])
    if rc != 0:
        cx.corr.append(dict(stream="memo-boundary", count=1, first="harness oracle --stdin failed: " + err[-200:]))
        return
    rl = [l for l in req.split("\n") if l.startswith("oracle ")]
    vs = [toks(l) for l in drive(req) if l.startswith("oracle ")]
    key = cx.P["key"]
    cx.cov["memo_boundary_cases"] = len(rl)
    for r, v in zip(rl, vs):
        cx.cov["evaluations"] += 1
        cx.bump("memo-boundary")
        if v.get("gen") != "ok":
            if key == "gen":
                cx.failing.append(("oracle", case_of(r), "generation_did_not_return_a_pickle:" + v.get("gen", "?")))
        elif key != "gen" and v.get(key, "").startswith("FAIL"):
            cx.failing.append(("oracle", case_of(r), v[key]))
        elif is_nontrivial(cx.prop, v):
            cx.seen.add(hashlib.sha256(toks(r).get("result", "").encode()).hexdigest())


def deep_nesting(cx):
    """objects nested tens of thousands of levels deep, then the generator is reset, reused and dropped (`heap --stdin`:
    generate; generate, reset, generate again; drop).  Anything recursive over the nesting depth — a drop order, a
    clone, a hash, a debug print — overflows the native stack there; each case runs in a process of its own so that a
    crash is attributed to it.  Plans: NONE followed by N x TUPLE1 (protocol >= 2), and N x MARK, NONE, N x TUPLE
    (protocols 0 and 1); the choice bytes are read off a short plan steered through the model."""
    n_t1 = 150000 if cx.tier == "quick" else 600000
    n_mk = 12000 if cx.tier == "quick" else 40000
    cases = []
    for p in range(6):
        cfg = "P=%d unsafe=0 ext=0 buf=0 mask=0 rate=0000000000000000" % p
        if p >= 2:
            o = [l for l in drive("steer %s frame=0 plan=None,Tuple1,Tuple1\n" % cfg) if l.startswith("steer ok")]
            if not o:
                continue
            b = bytes.fromhex(toks(o[0])["bytes"])
            data = b + bytes([b[-1]]) * (n_t1 - 2)
            cases.append(("tuple1-chain", "id=0 %s min=%d max=%d warm=0 mode=arb:%s" % (cfg, n_t1 + 1, n_t1 + 1, data.hex())))
        if p <= 1 or p == 4:
            o = [l for l in drive("steer %s frame=0 plan=Mark,Mark,None,Tuple,Tuple\n" % cfg) if l.startswith("steer ok")]
            if not o:
                continue
            b = bytes.fromhex(toks(o[0])["bytes"])
            pre, (m0, m1, nn, t1, t2) = b[:-5], b[-5:]
            if t1 != t2:
                continue
            data = pre + bytes([m0]) + bytes([m1]) * (n_mk - 1) + bytes([nn]) + bytes([t1]) * n_mk
            cases.append(("mark-tuple-chain", "id=0 %s min=%d max=%d warm=0 mode=arb:%s" % (cfg, 2 * n_mk + 1, 2 * n_mk + 1, data.hex())))
    cx.cov["deep_nesting_cases"] = len(cases)
    for name, line in cases:
        try:
            rc, out, err = sh([HARNESS, "heap", "--stdin"], inp=line + "\n", timeout=min(STREAM_TIMEOUT[0], 240 if cx.tier == "quick" else 1800), big_stack=False)
        except subprocess.TimeoutExpired:
            cx.cov["evaluations"] += 1
            cx.failing.append(("deep-nesting", line[:200] + "...(family %s, see check.py deep_nesting)" % name,
                               "the_process_did_not_finish_in_time_(a_few_seconds_on_the_unchanged_tree)_while_generating,_reusing_or_dropping_a_%s" % name))
            continue
        cx.cov["evaluations"] += 1
        cx.bump("deep-nesting/" + name)
        got = [l for l in out.split("\n") if l.startswith("heap id")]
        short = line[:200] + "...(%d input bytes; family %s, see check.py deep_nesting)" % ((len(line) - line.index("arb:")) // 2, name)
        if rc != 0 or not got:
            cx.failing.append(("deep-nesting", short, "the_process_died_(exit_status_%s)_while_generating,_reusing_or_dropping_a_%s:_native_stack_overflow?" % (rc, name)))
            continue
        r = toks(got[0])
        if r.get("gen") != "ok":
            cx.failing.append(("deep-nesting", short, "deep_nesting_generation_failed:" + r.get("gen", "?")))
        elif int(r.get("delta", "0")) != 0:
            cx.failing.append(("deep-nesting", short, "%s_bytes_still_live_after_the_generator_was_dropped(%s)" % (r.get("delta"), name)))


def stream_s1(cx):
    n, mism = run_probe(cx.T["probe_depth"], cx.T["probe_deep"])
    cx.cov["s1_states"] = n
    cx.cov["disagreements_checked"] += n
    rel = [m for m in mism if cx.P["s1"] is None or re.search(cx.P["s1"], m.split("::", 1)[-1])]
    if rel:
        cx.corr.append(dict(stream="S1", count=len(rel), first=rel[0][:1500]))
        cx.s1_mismatches = rel


def stream_s2(cx, rate0_only=False):
    ok = 0
    bad = []
    profs = dict(cx.T["trace"])
    if cx.prop == "C15":
        profs["c15"] = 336 if cx.tier == "quick" else 6000
    if cx.prop == "C11":
        # framed outputs well beyond 64 KiB on the framing protocols: anything the body loop does "every N bytes" shows only
        # there.  Directed: fuzzer bytes whose first byte makes the FRAME coin come up true, 7 000 opcodes, protocols 4 and 5
        profs["framed-big"] = 2 if cx.tier == "quick" else 12
        if cx.tier != "quick":
            profs["big"] = 32
    def framed_big(n):
        rng = random.Random(cx.seed * 13 + 4)
        lines = []
        for i in range(n):
            data = bytes([1]) + bytes(rng.randrange(256) for _ in range(70000))
            lines.append("id=%d P=%d unsafe=0 mu=0 ext=0 buf=0 min=7000 max=7000 mask=0 rate=0000000000000000 warm=0 mode=arb:%s" % (900000 + i, 4 + i % 2, data.hex()))
        rc, req, err = sh([HARNESS, "trace", "--stdin"], inp="\n".join(lines) + "\n", timeout=STREAM_TIMEOUT[0])
        reqs = [l for l in req.split("\n") if l.startswith("trace ")]
        if rc != 0 or len(reqs) != n:
            raise RuntimeError("framed-big traces: harness rc=%s answered %d of %d" % (rc, len(reqs), n))
        outs = [l for l in drive(req) if l.startswith("trace ")]
        if len(outs) != len(reqs):
            raise RuntimeError("driver answered %d of %d framed-big traces" % (len(outs), len(reqs)))
        return list(zip(reqs, outs))
    for prof, n in profs.items():
        for (req, out) in (framed_big(n) if prof == "framed-big" else run_trace(n, cx.seed * 7919 + 13, prof, "0" if cx.P["unsafe"] == "0" else "mix")):
            r = toks(req)
            if " FAIL " in out:
                if not hasattr(cx, "s2_requests"):
                    cx.s2_requests = {}
                cx.s2_requests[case_of(req)] = req
            cx.cov["disagreements_checked"] += 1
            # C15 at generation level: rate 0.0 => no value mutated, nothing rewritten
            if cx.prop == "C15" and r.get("rate") == "0000000000000000":
                cx.cov["evaluations"] += 1
                if int(r.get("mutated", "0")) > 0 or int(r.get("rewritten", "0")) > 0:
                    cx.failing.append(("S2", case_of(req), "rate_0.0_but_mutated=%s_rewritten=%s" % (r.get("mutated"), r.get("rewritten"))))
            # ... and rate 1.0 => every value for which a registered mutator is applicable is mutated: per kind, the number
            # of mutations the run recorded equals the number of value-carrying emissions the registered kinds apply to
            # (applicability as in C16: bitflip/boundary/offbyone on integers, boundary on floats, stringlen on strings and
            # byte strings, character on non-empty ones, offbyone/memoindex on memo indices); independent of the model
            if cx.prop == "C15" and r.get("rate") == "3ff0000000000000" and r.get("nv") and r.get("result", "").startswith("ok:"):
                names = r["muts"].split(",") if r.get("muts") not in (None, "-") else \
                    [nm_ for i_, nm_ in enumerate(["bitflip", "boundary", "offbyone", "stringlen", "character", "memoindex", "typeconfusion"])
                     if (int(r.get("mask", "0")) >> i_) & 1] if r.get("muts") is None else []
                nv = [int(x) for x in r["nv"].split("/")]
                nmu = [int(x) for x in r["nm"].split("/")]
                has = lambda *ks: any(k in names for k in ks)
                exp = [nv[0] if has("bitflip", "boundary", "offbyone") else 0,
                       nv[1] if has("boundary") else 0,
                       (nv[2] + nv[3]) if has("stringlen") else (nv[2] if has("character") else 0),
                       (nv[4] + nv[5]) if has("stringlen") else (nv[4] if has("character") else 0),
                       nv[6] if has("offbyone", "memoindex") else 0]
                cx.cov["evaluations"] += 1
                cx.bump("rate1-generation/" + ("rand" if r.get("mode", "").startswith("rand") else "arb"))
                if exp != nmu:
                    kinds = ["int", "float", "string", "bytes", "memo"]
                    d = ",".join("%s:mutated_%d_of_%d" % (kinds[i], nmu[i], exp[i]) for i in range(5) if nmu[i] != exp[i])
                    cx.failing.append(("S2", case_of(req), "rate_1.0_but_" + d))
            if rate0_only:
                continue
            if " ok " in out:
                ok += 1
                if cx.prop == "C17":
                    cx.cov["evaluations"] += 1
                    o = toks(out)
                    if int(o.get("steps", "0")) >= 3:
                        cx.seen.add(hashlib.sha256(r.get("result", "").encode()).hexdigest())
                        cx.cov["distinct_nontrivial"] = len(cx.seen)
                        cx.sample(dict(case=case_of(req)[:200], steps_replayed=int(o.get("steps", "0")), body=o.get("body"), tail=o.get("tail"),
                                       every_step="model state = implementation state (digest) and, where the stack is short enough to be sent, implementation state ~ reference state directly"))
            elif " FAIL " in out:
                det = out.split(" FAIL ", 1)[1]
                if cx.prop == "C17" and det.startswith("C17-direct"):
                    cx.failing.append(("S2", case_of(req), det[:400]))
                elif cx.prop == "C11" and re.match(r"(body_emitted|tail_\d+_>|target_\d+_outside|step_\d+:_emitted_bytes_\w+_are_more_than_one_instruction)", det):
                    cx.failing.append(("S2", case_of(req), det[:400]))
                else:
                    bad.append((case_of(req), out))
    cx.cov["traces_validated_against_impl"] += ok
    if bad:
        cx.corr.append(dict(stream="S2", count=len(bad), first=bad[0][1][:1500], case=bad[0][0]))
        try:
            stale_list_search(cx, bad)
        except Exception as e:
            cx.corr.append(dict(stream="S2", count=1, first="search from the stale candidate list could not run: %s" % str(e)[:300]))
        # a disagreeing run is the first place to look for a concrete failing input
        key = cx.P["key"]
        if key and key != "gen":
            for cl, _ in bad[:12]:
                try:
                    _, v = rerun_case(cl)
                except Exception:
                    continue
                cx.cov["evaluations"] += 1
                if v.get(key, "").startswith("FAIL"):
                    cx.failing.append(("oracle", cl, v[key]))
                    break


def stale_list_search(cx, bad):
    """the body loop drew from a candidate list that differs from what the guards say (a cache of the list, or of part
    of it, that was not invalidated): make the real generator pick an opcode that is on the loop's list but not on the
    guards' — same fuzzer bytes up to that choice, then the byte that selects that opcode — and judge the output.
    Needs a fuzzer-bytes run (the seeded source cannot be steered); more traces are drawn if none of the disagreeing
    runs is one."""
    key = cx.P["key"]
    if not key or key == "gen":
        return
    def candidates(pairs):
        out = []
        for cl, o in pairs:
            m = re.search(r"step_(\d+):_the_candidate_list.*?loop=([0-9a-f]+|e)_guards=([0-9a-f]*)", o)
            if not m:
                continue
            out.append((cl, int(m.group(1)), m.group(2), m.group(3)))
        return out
    reqs_by_case = getattr(cx, "s2_requests", {})
    cands = [c for c in candidates(bad) if " mode=arb:" in c[0]]
    if len(cands) < 1 and not [c for c in candidates(bad) if " mode=arb:" not in c[0]]:
        extra = run_trace(4000 if cx.tier == "quick" else 20000, cx.seed * 31 + 77, "default", "0" if cx.P["unsafe"] == "0" else "mix")
        more = [(case_of(req), out) for req, out in extra if " FAIL " in out]
        for req, out in extra:
            reqs_by_case[case_of(req)] = req
        cands += [c for c in candidates(more) if " mode=arb:" in c[0]]
    lines = []
    for cl, k, loop, guards in cands[:60]:
        req = reqs_by_case.get(cl)
        if not req:
            continue
        r = toks(req)
        vl = r.get("valid", "-").split(",")
        if k >= len(vl) or "@" not in vl[k]:
            continue
        left = vl[k].split("@")[1]
        if left == "-":
            continue
        data = bytes.fromhex(r["mode"][4:]) if r["mode"][4:] not in ("-", "") else b""
        used = len(data) - int(left)
        lo = [loop[i:i + 2] for i in range(0, len(loop), 2)] if loop != "e" else []
        go = set(guards[i:i + 2] for i in range(0, len(guards), 2))
        for j, opx in enumerate(lo):
            if opx not in go and len(lo) <= 256:
                nd = data[:used] + bytes([j])
                t = [x for x in cl.split(" ") if not x.startswith("mode=") and not x.startswith("valid=")]
                lines.append(" ".join(t) + " mode=arb:" + nd.hex())
    # runs of the seeded source: replay the traced opcode sequence up to that choice through `steer` (which computes
    # fuzzer bytes for an opcode plan), then force the position of the extra opcode in the loop's list
    INTLIKE = {"49", "4a", "4b", "4d", "4c", "8a", "8b"}
    name_of = {v: k for k, v in op_bytes().items()}
    tables = {}
    for l in harness_lines(["tables"]).split("\n"):
        t = l.split(" ")
        if t[0] == "table":
            tables[int(t[1])] = [t[2][i:i + 2] for i in range(0, len(t[2]), 2)]
    cps = []
    for cl, k, loop, guards in [c for c in candidates(bad) if " mode=arb:" not in c[0]][:12] + cands[:4]:
        req = reqs_by_case.get(cl)
        if not req:
            continue
        r = toks(req)
        p_ = int(r.get("P", "2"))
        st = r.get("steps", "-").split(";")
        if k > len(st):
            continue
        il = [x for x in tables.get(p_, []) if x in INTLIKE]
        plan = []
        for stp in st[:k]:
            f = stp.split("/")
            opx, argx = f[0], f[1]
            if opx in INTLIKE:
                val = 0
                if opx == "49":
                    try:
                        val = int(bytes.fromhex(argx).decode().strip()) if argx not in ("-", "e") else 0
                    except Exception:
                        val = 0
                plan.append("Int:%02x%s" % (il.index(opx) if opx in il else 0, (val & 0xffffffff).to_bytes(4, "little").hex()))
            else:
                plan.append(name_of.get(opx, "?"))
        lo = [loop[i:i + 2] for i in range(0, len(loop), 2)] if loop != "e" else []
        go = set(guards[i:i + 2] for i in range(0, len(guards), 2))
        cfg = "P=%d unsafe=%s ext=%s buf=%s mask=0 rate=0000000000000000" % (p_, r.get("unsafe", "0"), r.get("ext", "0"), r.get("buf", "0"))
        for j, opx in enumerate(lo):
            if opx not in go and opx in name_of and "?" not in plan and len(lo) <= 256:
                cps.append((cfg, plan + ["%s@%d" % (name_of[opx], j)]))
    if cps:
        try:
            lines += [l for l in steer_plans(cps[:80], extra=0) if l]
        except Exception as e:
            cx.corr.append(dict(stream="S2", count=1, first="steer for the stale-list plans could not run: %s" % str(e)[:200]))
    cx.cov["targeted_inputs_tried"] = cx.cov.get("targeted_inputs_tried", 0) + len(lines)
    if not lines:
        return
    rc, req, err = sh([HARNESS, "oracle", "--stdin"], inp="\n".join(lines) + "\n", timeout=STREAM_TIMEOUT[0])
    rl = [l for l in req.split("\n") if l.startswith("oracle ")]
    vs = [toks(l) for l in drive(req) if l.startswith("oracle ")]
    for r_, v in zip(rl, vs):
        cx.cov["evaluations"] += 1
        if v.get(key, "").startswith("FAIL"):
            cx.failing.append(("oracle", case_of(r_), v[key]))
            return


def stream_s3(cx):
    ok = 0
    bad = []
    jobs = [(["--cases", str(n), "--seed", str(cx.seed * 131 + 7), "--profile", prof, "--unsafe", "mix"]) for prof, n in cx.T["gen"].items()]
    jobs.append(["--exhaustive", str(cx.T["gen_exhaustive"])])
    for args in jobs:
        for (req, out) in run_lines("gen", args, "gen", timeout=None):
            cx.cov["disagreements_checked"] += 1
            r = toks(req)
            if cx.prop == "C09":
                cx.cov["evaluations"] += 1
                if not r.get("result", "").startswith("ok:") or r.get("result") == "ok:":
                    cx.failing.append(("S3", case_of(req), "generation_did_not_return_a_pickle:" + r.get("result", "?")[:120]))
                else:
                    cx.seen.add(hashlib.sha256(r["result"].encode()).hexdigest())
            if " ok " in out or out.endswith(" ok"):
                ok += 1
                if r.get("mode", "").startswith("rand:"):
                    cx.cov["gen_exact_agreements_seeded_mode"] = cx.cov.get("gen_exact_agreements_seeded_mode", 0) + 1
                o = toks(out)
                if cx.prop in ("C04", "C05"):
                    # hypotheses and conclusion of C04.generated_bytes_well_formed / C05.protocol0_seven_bit on the real data
                    cx.cov["floatok_checked"] = cx.cov.get("floatok_checked", 0) + int(o.get("floats", "0"))
                    if o.get("floatok") == "0":
                        cx.failing.append(("S3", case_of(req), "FloatOK/FloatAscii_hypothesis_fails:a_float_the_generator_printed_is_not_a_newline_free_7-bit_python_float_literal"))
                    if o.get("wf") == "0":
                        cx.failing.append(("S3", case_of(req), "model_output_not_well_formed(theorem_C04.generated_bytes_well_formed_contradicted?)"))
                if cx.prop == "C11" and o.get("tbounds") == "0":
                    cx.failing.append(("S3", case_of(req), "target_%s_outside_bounds" % o.get("target")))
                if cx.prop in ("C09", "C11", "C08") and len(cx.cov["samples"]) < 3:
                    cx.sample(dict(case=case_of(req)[:200], model_equals_impl=True, target=o.get("target"), decoded=o.get("n")))
            elif " FAIL " in out:
                bad.append((case_of(req), out))
    cx.cov["gen_exact_agreements"] = ok
    if cx.prop in ("C04", "C05"):
        h = [l for l in drive("hyps\n") if l.startswith("hyps ")]
        ht = toks(h[0]) if h else {}
        cx.cov["modsok_checked"] = int(ht.get("mods", "0"))
        if ht.get("modsok") != "1" or int(ht.get("mods", "0")) == 0:
            cx.corr.append(dict(stream="S3", count=1, first="ModsOK hypothesis of C04.generated_bytes_well_formed / C05.protocol0_seven_bit fails on /repo/data/stdlib_complete.txt: " + (h[0] if h else "no answer"), case="hyps"))
    cx.cov["traces_validated_against_impl"] += ok
    if cx.prop == "C09":
        cx.cov["distinct_nontrivial"] = max(cx.cov["distinct_nontrivial"], len(cx.seen))
    if bad:
        cx.corr.append(dict(stream="S3", count=len(bad), first=bad[0][1][:1500], case=bad[0][0][:600]))


def stream_s4(cx):
    tag = {"C15": "C15:", "C16": "C16:"}.get(cx.prop)
    ok = 0
    bad = []
    fired = set()
    for (req, out) in run_lines("mut", ["--cases", str(cx.T["mut"]), "--seed", str(cx.seed * 17 + 3)], "mut", timeout=None):
        cx.cov["evaluations"] += 1
        r = toks(req)
        cx.bump("%s/%s/%s" % (r.get("kind"), r.get("method"), "rand" if r.get("ent", "").startswith("rand") else "arb"))
        extreme = r.get("rate") in ("0000000000000000", "3ff0000000000000")
        did_fire = not (r.get("result") == "none" or r.get("result", "").startswith("same"))
        if (cx.prop == "C15" and extreme) or (cx.prop == "C16" and did_fire) or cx.prop == "C09":
            fired.add(hashlib.sha256(case_of(req).encode()).hexdigest())
            if did_fire or cx.prop != "C16":
                cx.sample(dict(call=case_of(req)[:300], result=r.get("result", "")[:80]))
        if out.startswith("mut ok"):
            ok += 1
            continue
        det = out.split(" FAIL ", 1)[-1]
        last = det.split(" ")[-1]
        if "result=hang" in req:
            if cx.prop in ("C16", "C09") and confirmed_hang(cx, "mut", case_of(req)):
                cx.failing.append(("S4", case_of(req), "mutator_did_not_return_within_10s"))
        elif "result=panic" in req or last.startswith("panic"):
            if cx.prop in ("C16", "C09"):
                cx.failing.append(("S4", case_of(req), "mutator_panicked"))
        elif tag and last.startswith(tag):
            cx.failing.append(("S4", case_of(req), last[:300]))
        elif last.startswith("C15:") or last.startswith("C16:"):
            pass        # another property's finding
        else:
            bad.append((case_of(req), out))
    cx.cov["traces_validated_against_impl"] += ok
    if cx.prop in ("C15", "C16"):
        cx.cov["distinct_nontrivial"] = len(fired)
    if bad:
        cx.corr.append(dict(stream="S4", count=len(bad), first=bad[0][1][:1200]))


def confirmed_hang(cx, cmd, case):
    """the harness watchdog gives a direct call 10 s; on a heavily loaded machine a worker thread can miss that without
    hanging.  A hang that is real is deterministic: the call is made once more, alone, with a minute to finish."""
    try:
        out = _harness_one([cmd, "--replay"] + case.split(" "), timeout=75)
    except subprocess.TimeoutExpired:
        return True
    except Exception:
        return True
    if "result=hang" in out:
        return True
    cx.cov["watchdog_timeouts_not_reproduced"] = cx.cov.get("watchdog_timeouts_not_reproduced", 0) + 1
    return False


def stream_s5(cx):
    ok = 0
    bad = []
    seen = set()
    args = ["--cases", str(cx.T["src"]), "--seed", str(cx.seed * 19 + 5)] + (["--exhaustive2"] if cx.T["src_exhaustive2"] else [])
    for (req, out) in run_lines("src", args, "src", timeout=None):
        cx.cov["evaluations"] += 1
        r = toks(req)
        cx.bump("%s/%s" % (r.get("method"), "rand" if r.get("ent", "").startswith("rand") else "arb"))
        seen.add(case_of(req))
        if len(cx.cov["samples"]) < 3 and r.get("method") in ("choose_index", "gen_range") and r.get("ent", "").startswith("arb:") and len(r["ent"]) > 8:
            cx.sample(dict(draw=case_of(req)[:200], result=r.get("result")))
        if out.startswith("src ok"):
            ok += 1
            continue
        det = out.split(" ")[-1]
        if "result=panic" in req or ("result=hang" in req and confirmed_hang(cx, "src", case_of(req))):
            if cx.prop in ("C18", "C09"):
                cx.failing.append(("S5", case_of(req), "entropy_adapter_panicked_or_hung"))
        elif "result=hang" in req:
            pass
        elif det.startswith("contract:"):
            if cx.prop == "C18":
                cx.failing.append(("S5", case_of(req), det[:300]))
        else:
            bad.append((case_of(req), out))
    cx.cov["traces_validated_against_impl"] += ok
    if cx.prop == "C18":
        cx.cov["distinct_nontrivial"] = len(seen)
        cx.cov["exhaustive"] = False
    if bad:
        cx.corr.append(dict(stream="S5", count=len(bad), first=bad[0][1][:1200]))


def stream_s6(cx):
    seen = set()
    for l in run_hist(cx.T["hist"], cx.seed * 23 + 1, cx.T["hist_len"]):
        cx.cov["evaluations"] += 1
        r = toks(l)
        calls = r.get("calls", "")
        if calls.count(",") >= 1:
            seen.add(hashlib.sha256((case_of(l) + calls).encode()).hexdigest())
            cx.sample(dict(history=calls[:160], config=case_of(l)[:160], verdict=r.get("verdict")))
        cx.bump("history-length-%d" % (calls.count(",") + 1))
        if r.get("verdict") != "ok":
            cx.failing.append(("S6", case_of(l) + " calls=" + calls, "result_depends_on_earlier_calls:" + " ".join(l.split(" verdict=FAIL")[-1].split()[:2])))
    cx.cov["distinct_nontrivial"] = len(seen)


# ---- targeted search: turn an S1 disagreement (a simulated state + an opcode) into fuzzer bytes that
# drive the REAL generator into that state and make it pick that opcode, then judge the result
OPBYTE = {}


def op_bytes():
    if not OPBYTE:
        for l in harness_lines(["tables"]).split("\n"):
            t = l.split(" ")
            if t[0] == "opcode":
                OPBYTE[t[1]] = t[2]
    return OPBYTE


def recipe(kind, p):
    """plan items that push one slot of `kind` in protocol p without touching the slots below"""
    R = {
        "i": ["Int:01"], "f": ["Float"], "n": ["None"], "s": ["Unicode"], "M": ["Mark"], "c": ["Global"],
        "b": ["NewTrue"] if p >= 2 else ["Int:00"],
        "y": ["BinString"] if p >= 1 else None,
        "a": ["ByteArray8"] if p >= 5 else None,
        "l": ["EmptyList"] if p >= 1 else ["Mark", "List"],
        "t": ["EmptyTuple"] if p >= 1 else ["Mark", "Tuple"],
        "d": ["EmptyDict"] if p >= 1 else ["Mark", "Dict"],
        "e": ["EmptySet"] if p >= 4 else None,
        "z": ["Mark", "FrozenSet"] if p >= 4 else None,
        "o": (["Global"] + (["EmptyTuple"] if p >= 1 else ["Mark", "Tuple"]) + ["Reduce"]),
    }
    return R.get(kind)


INTRO = {"Obj": 1, "AddItems": 4, "NewObjEx": 4, "NewObj": 2, "StackGlobal": 4, "Appends": 1, "SetItems": 1,
         "FrozenSet": 4, "Memoize": 4, "Tuple1": 2, "Tuple2": 2, "Tuple3": 2, "PopMark": 1, "BinPersID": 1,
         "ReadOnlyBuffer": 5, "NextBuffer": 5, "EmptySet": 4, "BinPut": 1, "LongBinPut": 1, "BinGet": 1, "LongBinGet": 1,
         "Ext1": 2, "Ext2": 2, "Ext4": 2}


# a simulated stack (bottom first) in which the opcode's guard holds — used when a disagreement about
# the opcode's *effect* was observed in a state where the generator would not emit it
CANON = {"NewObjEx": "ctd", "NewObj": "ct", "Reduce": "ct", "Build": "ot", "StackGlobal": "ss", "Append": "li",
         "SetItem": "dsi", "Appends": "lMi", "SetItems": "dMsi", "AddItems": "eMi", "Obj": "Mci", "Inst": "Mi",
         "Dict": "Msi", "List": "Mii", "Tuple": "Mii", "FrozenSet": "Mii", "PopMark": "iMi", "Pop": "ii", "Dup": "ii",
         "Tuple1": "ii", "Tuple2": "iii", "Tuple3": "iiii", "BinPersID": "ii", "Put": "i", "BinPut": "i",
         "LongBinPut": "i", "Memoize": "i", "ReadOnlyBuffer": "iy"}


def targeted_search(cx, mismatches, budget=320):
    """returns number of candidate inputs tried; appends to cx.failing when the property fails on one.
    Candidates = (simulated state, opcode) pairs from S1 disagreements, turned into opcode plans; all candidates
    are tried without a drain first, then with 1, 2, 3 trailing POPs (breadth before depth)."""
    tried = 0
    key = cx.P["key"]
    seen = set()
    ob = op_bytes()
    cands = []          # (cfg, plan)
    for m in mismatches:
        head, _, body = m.partition(" :: ")
        h = toks(head)
        if h.get("memo", "0") != "0" or h.get("stack") is None:
            continue
        stack0 = "" if h["stack"] == "-" else h["stack"]
        cats = [c.strip() for c in body.split(" | ")]
        for cat in cats:
            f = cat.split(":")
            if f[0] == "can_emit" and len(f) >= 4 and f[2] == "model=0" and f[3] == "impl=1":
                op, kind = f[1], "guard"
            elif f[0] == "apply" and len(f) >= 3:
                op, kind = f[2], "effect"
            else:
                continue
            if (stack0, op, kind) in seen:
                continue
            seen.add((stack0, op, kind))
            if kind == "effect" and op in CANON and ("canon", op) not in seen:
                seen.add(("canon", op))
                stacks = [CANON[op], stack0]
            else:
                stacks = [stack0]
            for stack in stacks:
                for p in range(max(INTRO.get(op, 0), 0), 6):
                    plan = []
                    ok = True
                    for k in stack:
                        r = recipe(k, p)
                        if r is None:
                            ok = False
                            break
                        plan += r
                    if not ok:
                        continue
                    last = op
                    if kind == "guard":
                        # index of the opcode in the IMPLEMENTATION's valid list for this protocol
                        vm = [c for c in cats if c.startswith("valid_opcodes:P=%d:" % p)]
                        if not vm or op not in ob:
                            continue
                        impl_hex = vm[0].split("impl=")[-1]
                        lst = [impl_hex[i:i + 2] for i in range(0, len(impl_hex), 2)]
                        if p >= 2 and h.get("pe", "0") == "0":
                            # the probed state had PROTO still to come; inside a generation for protocol >= 2 it has been
                            # written already and is no longer among the candidates
                            lst = [x for x in lst if x != "80"]
                        if ob[op] not in lst:
                            continue
                        last = "%s@%d" % (op, lst.index(ob[op]))
                    plan.append(last)
                    cfg = "P=%d unsafe=%s ext=%s buf=%s mask=0 rate=0000000000000000" % (p, h.get("unsafe", "0"), h.get("ext", "0"), h.get("buf", "0"))
                    # a canonical state (one in which the opcode's guard is known to hold) goes before the probed ones
                    cands.append((cfg, plan, (op, kind), 0 if (kind == "effect" and stack == CANON.get(op) and stack != stack0) else 1))
                    break
    # a depth drift is often re-absorbed by the collapse phase's TUPLE; draining the stack with fixed-arity
    # POPs (which treat a MARK as an ordinary element) exposes it
    # shortest plans first, and no more candidates than the budget can take through all four drain rounds
    # ... spread over the (opcode, guard/effect) pairs the disagreements concern: per pair the shortest plans, pairs in turn
    groups = {}
    for cfg, plan, gk, prio in sorted(cands, key=lambda cp: (cp[3], len(cp[1]))):
        groups.setdefault(gk, []).append((cfg, plan))
    picked = []
    depth_i = 0
    while len(picked) < max(1, budget // 4) and any(depth_i < len(v) for v in groups.values()):
        for gk in sorted(groups):
            if depth_i < len(groups[gk]) and len(picked) < max(1, budget // 4):
                picked.append(groups[gk][depth_i])
        depth_i += 1
    cands = picked
    for drain in ([], ["Pop"], ["Pop", "Pop"], ["Pop", "Pop", "Pop"]):
        # one driver call turns all plans of this round into fuzzer bytes
        reqs = ["steer %s plan=%s" % (cfg, ",".join(plan + drain)) for cfg, plan in cands]
        if not reqs:
            break
        try:
            outs = [l for l in drive("\n".join(reqs) + "\n") if l.startswith("steer ")]
        except Exception:
            outs = []
        if len(outs) != len(reqs):
            continue
        for (cfg, plan), o in zip(cands, outs):
            if tried >= budget:
                return tried
            if not o.startswith("steer ok"):
                continue
            full = plan + drain
            b = toks(o).get("bytes", "-")
            case = "id=0 %s min=%d max=%d warm=0 mode=arb:%s" % (cfg, len(full), len(full), b)
            tried += 1
            cx.cov["evaluations"] += 1
            try:
                if key and key != "gen":
                    _, v = rerun_case(case)
                    if v.get(key, "").startswith("FAIL"):
                        cx.failing.append(("oracle", case, v[key]))
                        return tried
                if cx.prop == "C17":
                    _, tout = rerun_any("S2", case)
                    if "C17-direct" in tout:
                        cx.failing.append(("S2", case, tout.split(" FAIL ", 1)[-1][:400]))
                        return tried
            except Exception:
                pass
    return tried


def stream_s7_flags(cx):
    """C10 also says the CLI forwards --allow-ext / --allow-buffer: single-file and batch mode under the
    opt-in flags must equal the library (S7, flag-carrying option sets only)"""
    n = 18 if cx.tier == "quick" else 200
    with Lock():
        rc, out, err = sh([sys.executable, os.path.join(VERIF, "tools", "front.py"), "cli,batch", str(n), str(cx.seed + 5)],
                          timeout=STREAM_TIMEOUT[0] * 2)
    lines = [l for l in out.split("\n") if l.startswith("front ")]
    if rc != 0 or not lines:
        cx.corr.append(dict(stream="S7", count=1, first="front.py did not run: " + (err or out)[-300:]))
        return
    bad = [l for l in lines if " FAIL " in l and (('"ext":true' in l) != ('"buf":true' in l) or "build" in l)]
    cx.cov["disagreements_checked"] += len(lines)
    cx.cov["traces_validated_against_impl"] += sum(1 for l in lines if " ok " in l)
    if bad:
        cx.corr.append(dict(stream="S7", count=len(bad), first=bad[0][:800]))


def steer_plans(cfgs_plans, extra=0):
    """(cfg, [opcode names]) -> case lines whose fuzzer bytes make the generator emit exactly that plan (None where the
    guards do not admit the plan)"""
    reqs = ["steer %s frame=0 plan=%s" % (cfg, ",".join(pl)) for cfg, pl in cfgs_plans]
    outs = [l for l in drive("\n".join(reqs) + "\n") if l.startswith("steer ")]
    if len(outs) != len(reqs):
        raise RuntimeError("steer answered %d of %d" % (len(outs), len(reqs)))
    lines = []
    for k, ((cfg, pl), o) in enumerate(zip(cfgs_plans, outs)):
        if o.startswith("steer ok"):
            lines.append("id=%d %s min=%d max=%d warm=0 mode=arb:%s" % (k, cfg, len(pl) + extra, len(pl) + extra, toks(o).get("bytes", "-")))
        else:
            lines.append(None)
    return lines


def plan_family(cx):
    """aliasing-heavy opcode plans (the cycle-closing plans of C14: every in-place mutation with the object itself,
    a tuple around it or a memo copy of it as operand) through the public API, judged by this property's oracle —
    a panic (e.g. a RefCell borrowed twice), a hang or a wrong byte on such a sequence practically never shows up
    in random generations"""
    key = cx.P["key"]
    cps = []
    for p in range(6):
        cfg = "P=%d unsafe=0 ext=0 buf=0 mask=0 rate=0000000000000000" % p
        for pl in cycle_plans(p):
            if len(pl) < 60:
                cps.append((cfg, pl))
                # the same with a neutral operand in between and with the key/value roles swapped
                if "SetItem" in pl and "Int:01" in pl:
                    i = pl.index("Int:01")
                    cps.append((cfg, pl[:i] + ["None"] + pl[i + 1:]))
                    if i >= 1:
                        q = list(pl); q[i - 1], q[i] = q[i], q[i - 1]
                        cps.append((cfg, q))
    lines = [l for l in steer_plans(cps) if l]
    cx.cov["plan_family_cases"] = len(lines)
    if len(lines) < 100:
        cx.corr.append(dict(stream="plans", count=1, first="only %d aliasing plans were admitted by the model's guards" % len(lines)))
        return
    rc, req, err = sh([HARNESS, "oracle", "--stdin"], inp="\n".join(lines) + "\n", timeout=STREAM_TIMEOUT[0])
    if rc != 0:
        cx.corr.append(dict(stream="plans", count=1, first="harness oracle --stdin failed: " + err[-200:]))
        return
    rl = [l for l in req.split("\n") if l.startswith("oracle ")]
    vs = [toks(l) for l in drive(req) if l.startswith("oracle ")]
    for r, v in zip(rl, vs):
        cx.cov["evaluations"] += 1
        cx.bump("aliasing-plan")
        if v.get("gen") != "ok":
            if key == "gen":
                cx.failing.append(("oracle", case_of(r), "generation_did_not_return_a_pickle:" + v.get("gen", "?")))
        elif key and key != "gen" and v.get(key, "").startswith("FAIL"):
            cx.failing.append(("oracle", case_of(r), v[key]))


def run_seq(depth):
    """S11: every sequence of guarded opcodes up to `depth` (+1 for the children of each node) from the empty state,
    executed on a live generator one process_stack_ops at a time; memoised like S1 under the hash of the two binaries"""
    h = hashlib.sha256()
    for b in (HARNESS, DRIVER):
        with open(b, "rb") as f:
            h.update(f.read())
    cdir = os.path.join(BUILD, "s1cache")
    cfile = os.path.join(cdir, "seq-%s-%d.json" % (h.hexdigest()[:24], depth))
    if os.path.exists(cfile):
        try:
            d = json.load(open(cfile))
            return d["n"], d["children"], d["mism"]
        except Exception:
            pass
    from concurrent.futures import ThreadPoolExecutor
    with ThreadPoolExecutor(max_workers=NPROC) as ex:
        parts = list(ex.map(lambda i: _harness_one(["seq", "--depth", str(depth), "--shard", "%d/%d" % (i, NPROC)]), range(NPROC)))
    req = "".join(parts)
    n = req.count("\n")
    outs = [l for l in drive(req) if l.startswith("seq ")]
    mism = [l for l in outs if not l.startswith("seq ok")]
    children = sum(int(toks(l).get("children", "0")) for l in outs if l.startswith("seq ok"))
    if len(outs) != n:
        mism.append("seq MISMATCH P=? prefix=- :: driver answered %d of %d seq requests" % (len(outs), n))
    if not mism:
        os.makedirs(cdir, exist_ok=True)
        json.dump(dict(n=n, children=children, mism=mism), open(cfile, "w"))
    return n, children, mism


def stream_s11(cx):
    """S11 *seq*: exhaustive opcode sequences through live objects (aliases, memo copies, in-place mutation of shared
    containers — nothing S1's freshly built states contain) vs the object-level model: valid-opcode list at every
    node, live object graph after every step; a panic of process_stack_ops shows as a differing child.  Every
    disagreeing sequence is turned into fuzzer bytes (steer) and given to the real generator through the public API."""
    depth = 3 if cx.tier == "quick" else 4
    n, children, mism = run_seq(depth)
    cx.cov["s11_nodes"] = n
    cx.cov["s11_sequences"] = children
    cx.cov["disagreements_checked"] += children
    if not mism:
        return
    cx.corr.append(dict(stream="S11", count=len(mism), first=mism[0][:1500]))
    # disagreeing sequences -> inputs
    name_of = {v: k for k, v in op_bytes().items()}
    cps = []
    for m in mism[:40]:
        h = toks(m.partition(" :: ")[0])
        pre = [] if h.get("prefix", "-") == "-" else [name_of.get(t.split(":")[0], "?") for t in h["prefix"].split(",")]
        kids = re.findall(r"(?:^|\|_)([A-Za-z0-9]+):_live_object_graph", m.partition(" :: ")[2]) or [None]
        for kid in kids[:3]:
            pl = pre + ([kid] if kid else [])
            if pl and "?" not in pl:
                cps.append(("P=%s unsafe=0 ext=1 buf=1 mask=0 rate=0000000000000000" % h.get("P", "2"), pl))
    try:
        lines = [l for l in steer_plans(cps) if l]
    except Exception as e:
        cx.corr.append(dict(stream="S11", count=1, first="steer for the disagreeing sequences could not run: %s" % str(e)[:200]))
        return
    cx.cov["targeted_inputs_tried"] = cx.cov.get("targeted_inputs_tried", 0) + len(lines)
    if not lines:
        return
    key = cx.P["key"] if cx.P else None
    if cx.prop == "C14":
        rc, out, err = sh([HARNESS, "heap", "--stdin"], inp="\n".join(lines) + "\n", timeout=STREAM_TIMEOUT[0])
        for l in out.split("\n"):
            if l.startswith("heap id"):
                r = toks(l)
                if int(r.get("delta", "0")) != 0:
                    cx.failing.append(("S8", case_of(l), "%s_bytes_still_live_after_the_generator_was_dropped(sequence_from_S11)" % r.get("delta")))
        return
    rc, req, err = sh([HARNESS, "oracle", "--stdin"], inp="\n".join(lines) + "\n", timeout=STREAM_TIMEOUT[0])
    rl = [l for l in req.split("\n") if l.startswith("oracle ")]
    vs = [toks(l) for l in drive(req) if l.startswith("oracle ")]
    for r, v in zip(rl, vs):
        cx.cov["evaluations"] += 1
        if v.get("gen") != "ok":
            if key == "gen":
                cx.failing.append(("oracle", case_of(r), "generation_did_not_return_a_pickle:" + v.get("gen", "?")))
        elif key and key != "gen" and v.get(key, "").startswith("FAIL"):
            cx.failing.append(("oracle", case_of(r), v[key]))


STREAMS = {"S7f": stream_s7_flags, "S1": stream_s1, "S2": stream_s2, "S3": stream_s3, "S4": stream_s4, "S5": stream_s5, "S6": stream_s6,
           "S2r0": lambda cx: stream_s2(cx, rate0_only=True), "S11": stream_s11}


def rerun_any(stream, line):
    """re-run a recorded failing request of any stream; returns (request_line, still_fails, detail)"""
    if stream == "oracle":
        req, v = rerun_case(line)
        return req, v
    if stream == "S2":
        req = harness_lines(["case", "--trace"] + line.split(" "))
        out = [l for l in drive(req) if l.startswith("trace ")]
        return req.strip(), out[0] if out else ""
    if stream == "S3":
        req = harness_lines(["case"] + line.split(" "))
        return req.strip(), req.strip()
    if stream == "S4":
        req = harness_lines(["mut", "--replay"] + line.split(" "))
        out = [l for l in drive(req) if l.startswith("mut ")]
        return req.strip(), out[0] if out else ""
    if stream == "S5":
        req = harness_lines(["src", "--replay"] + line.split(" "))
        out = [l for l in drive(req) if l.startswith("src ")]
        return req.strip(), out[0] if out else ""
    if stream == "S6":
        req = harness_lines(["hist", "--case"] + line.split(" "))
        return req.strip(), req.strip()
    if stream == "S8":
        req = harness_lines(["heap", "--case"] + line.split(" "))
        bad = "delta=0 " not in req + " "
        return req.strip(), ("heap FAIL " + req.strip()) if bad else req.strip()
    return "", ""


def check_property(prop, tier, seed):
    t0 = time.time()
    cx = Ctx(prop, tier, seed)
    P, T, cov = cx.P, cx.T, cx.cov
    violations = []        # (replay_path, suffix)
    known_lines = []
    notes = []
    with Lock():
        lean = lean_for(build_lean(), P["ns"])
        har = build_harness()
    open_f, fixed = known_findings()
    open_keys = {f["key"]: f for f in open_f if f["property"] == prop}

    # ---- obligations
    shared = ("PFV.Run.pre", "PFV.run_accepted", "PFV.header_steps", "PFV.srel_init")
    thms = {t: ax for t, ax in lean["axioms"].items()
            if any(t.startswith("PFV.%s." % n) for n in P["ns"]) or t in shared}
    rejected = [t for t, ax in thms.items() if "sorryAx" in ax]
    cov["obligations"] = len(thms) + (len(lean["broken"]) if not lean.get("attributed") else 0)
    cov["discharged"] = len(thms) - len(rejected)
    cov["checker_cmd"] = "cd /verif/lean && lake build PFV pfv-driver && lake env lean PFV/Audit.lean && lake env leanchecker PFV.Properties"
    cov["theorems"] = sorted(thms)
    cov["axioms_used"] = sorted({a for ax in thms.values() for a in ax})
    if lean.get("note"):
        notes.append(lean["note"])

    if not har["ok"]:
        p = write_replay(prop, "correspondence", dict(stream="harness-build", what="the harness no longer builds against /repo's working tree",
                                                      detail=har["msg"][-800:]))
        violations.append((p, " no-failing-input-found"))
        return finish(prop, tier, seed, t0, cov, violations, known_lines, notes)

    # ---- corpus of past minimised failures first
    cpath = os.path.join(CORPUS, "%s.cases" % prop)
    if os.path.exists(cpath):
        for cl in open(cpath):
            cl = cl.strip()
            if not cl or cl.startswith("#"):
                continue
            stream, line = cl.split(" ", 1)
            cov["evaluations"] += 1
            try:
                if stream == "oracle" and P["key"] and P["key"] != "gen":
                    _, v = rerun_case(line)
                    if v.get(P["key"], "").startswith("FAIL"):
                        cx.failing.append(("oracle", line, v[P["key"]]))
                elif stream == "S6":
                    req, _ = rerun_any("S6", line)
                    if "verdict=FAIL" in req:
                        cx.failing.append(("S6", line, "result_depends_on_earlier_calls"))
                elif stream in ("S4", "S5"):
                    req, out = rerun_any(stream, line)
                    if " FAIL " in out and (prop + ":") in out or "result=panic" in req:
                        cx.failing.append((stream, line, out.split(" ")[-1][:200]))
            except Exception as e:
                notes.append("corpus entry could not be re-run: %s (%s)" % (cl[:80], e))

    # ---- oracle on implementation outputs, then the correspondence streams
    try:
        stream_oracle(cx)
    except Exception as e:
        cx.corr.append(dict(stream="oracle", count=1, first="the oracle stream could not run: %s" % str(e)[:600]))
    if prop == "C09":
        try:
            deep_nesting(cx)
        except Exception as e:
            cx.corr.append(dict(stream="deep-nesting", count=1, first="deep-nesting family could not run: %s" % str(e)[:400]))
    if prop in ("C04", "C09", "C01"):
        try:
            directed_values(cx)
        except Exception as e:
            cx.corr.append(dict(stream="directed", count=1, first="directed-value family could not run: %s" % str(e)[:400]))
    if prop in ("C09", "C01", "C03", "C04"):
        try:
            plan_family(cx)
        except Exception as e:
            cx.corr.append(dict(stream="plans", count=1, first="aliasing-plan family could not run: %s" % str(e)[:400]))
    if prop in ("C06", "C04"):
        try:
            cli_file_family(cx)
        except Exception as e:
            cx.corr.append(dict(stream="cli-files", count=1, first="CLI file family could not run: %s" % str(e)[:400]))
    if prop in ("C02", "C17", "C01", "C05", "C11", "C09"):
        try:
            memo_boundary(cx)
        except Exception as e:
            cx.corr.append(dict(stream="memo-boundary", count=1, first="memo-boundary family could not run: %s" % str(e)[:400]))
    for st in P["streams"]:
        try:
            STREAMS[st](cx)
        except Exception as e:
            # a crashing harness / driver is a broken tie, never a silent pass and never a crash of the check
            cx.corr.append(dict(stream=st, count=1, first="stream %s could not run: %s" % (st, str(e)[:600])))
    cov["input_distribution"] = cx.hist
    cov["impl_vs_oracle_failures"] = len(cx.failing)
    cov["model_vs_impl_disagreements"] = sum(c["count"] for c in cx.corr)
    if prop in ("C04", "C17"):
        # who checks the specification: Lex/Ref against CPython pickletools on real outputs, corruptions, edge cases.
        # A disagreement is a defect of the specification (a false-alarm risk), not a violation of the property: noted.
        try:
            rc_s, out_s, err_s = sh([sys.executable, os.path.join(VERIF, "tools", "specval.py"), "120" if tier == "quick" else "1500", str(seed)],
                                    timeout=STREAM_TIMEOUT[0])
            summ = [l for l in out_s.split("\n") if l.startswith("specval summary")]
            cov["spec_validation_vs_cpython_pickletools"] = summ[0][len("specval summary "):] if summ else ("did not run: " + (err_s or out_s)[-200:])
            if rc_s != 0 and summ:
                notes.append("specification disagrees with CPython pickletools on some input (see tools/specval.py): " +
                             "; ".join(l for l in out_s.split("\n") if "DISAGREE" in l)[:600])
        except Exception as e:
            cov["spec_validation_vs_cpython_pickletools"] = "did not run: %s" % str(e)[:200]

    # ---- verdict
    if cx.failing:
        classes = {}
        for stream, cl, det in cx.failing:
            k = re.sub(r"instr#\d+", "instr#N", det)
            k = re.sub(r"step_\d+", "step_N", k)
            k = re.sub(r"count=\d+|total=\d+|\(-?\d+\)|_\d+|=\d+", "", k)[:120]
            classes.setdefault(stream + ":" + k, (stream, cl, det))
        for k, (stream, cl, det) in list(classes.items())[:4]:
            mcl = cl
            if stream == "oracle" and " mode=os" in cl:
                # unseeded generation (OS entropy): cannot be re-run; the violating bytes themselves are the evidence
                p = write_replay(prop, "failing-input", dict(stream=stream, case=cl, observed=det, required="the property holds for every seed the OS may supply",
                                 output_that_violated_it=cx.os_outputs.get(cl, "?"),
                                 note="judge the recorded bytes: echo 'oracle <case> result=<output>' | pfv-driver"))
                violations.append((p, ""))
                continue
            RERUN_REL[0] = cl in REL_CASES
            extra_fields = {}
            if stream == "oracle-history":
                p = write_replay(prop, "failing-input", dict(stream="oracle", case=cl, observed=det, required="the property holds for the last call of this history",
                                 history_dependent=True, fails_only_inside_process=cx.jobs.get(cl, "?"),
                                 note="the case line is the configuration in force at the last generating call; hist= is the call sequence on one generator "
                                      "(g generate, a<hex> generate_from_arbitrary, r reset, c<v>:<min>:<max> and s<seed>:<ext>:<buf> re-configuration through the public fields)"))
                if any(ok_ in k for ok_ in open_keys):
                    known_lines.append("KNOWN-FINDING: property=%s %s (replay %s)" % (prop, det[:200], p))
                else:
                    violations.append((p, ""))
                continue
            if stream == "oracle" and P["key"] != "gen":
                mcl = minimise(cl, P["key"])
                _, v = rerun_case(mcl)
                extra_fields = {}
                if v.get(P["key"], "").startswith("FAIL"):
                    det = v[P["key"]]
                else:
                    # the case passes in a fresh process: the failure needs the earlier cases of its process
                    mcl = cl
                    extra_fields = dict(history_dependent=True,
                                        fails_only_inside_process=cx.jobs.get(cl, "the oracle job that produced it"),
                                        note="run alone in a fresh process this case meets the property; inside the job above (same process, earlier "
                                             "generators of other protocols/configurations before it) the output with this id violates it")
            if RERUN_REL[0]:
                extra_fields = dict(extra_fields, harness_build="relsem: built without debug assertions and overflow checks, i.e. what `cargo build --release` gives users "
                                    "(on the assertion build the same input may end in a panic instead, which is C09's business)")
            RERUN_REL[0] = False
            p = write_replay(prop, "failing-input", dict(stream=stream, case=mcl, observed=det,
                                                         required="the property holds on this input", original_case=cl[:2000], **(extra_fields if stream == "oracle" else {})))
            if any(ok_ in k for ok_ in open_keys):
                known_lines.append("KNOWN-FINDING: property=%s %s (replay %s)" % (prop, det[:200], p))
            else:
                violations.append((p, ""))
    elif (not lean["ok"]) or cx.corr:
        # no failing input from the regular budget: search harder near the disagreement before giving up
        n0 = len(cx.failing)
        if getattr(cx, "s1_mismatches", None):
            # shortest states first: they are the easiest to reach
            ms = sorted(cx.s1_mismatches, key=lambda m: len(toks(m.partition(" :: ")[0]).get("stack", "")))
            cov["targeted_inputs_tried"] = targeted_search(cx, ms)
        if len(cx.failing) == n0 and P["key"] and P["key"] != "gen":
            stream_oracle(cx, profiles=("default", "small", "memo"), mult=3 if tier == "quick" else 1, stop_on_first=True)
        if len(cx.failing) > n0:
            stream, cl, det = cx.failing[n0]
            mcl = minimise(cl, P["key"])
            p = write_replay(prop, "failing-input", dict(stream=stream, case=mcl, observed=det, required="the property holds on this input"))
            violations.append((p, ""))
        else:
            what = []
            if not lean["ok"]:
                what.append(dict(kind="proof-obligation", broken=lean["broken"][:6], forbidden=lean["forbidden"][:6]))
            for c in cx.corr:
                what.append(dict(kind="correspondence", **c))
            p = write_replay(prop, "obligation", dict(no_longer_checks=what,
                             note="no input on which the property fails was found by the search; the property is no longer shown to hold"))
            violations.append((p, " no-failing-input-found"))
    return finish(prop, tier, seed, t0, cov, violations, known_lines, notes)


TRUSTED = [
    "Lean 4.33.0 kernel; axioms propext, Classical.choice, Quot.sound only (audited with #print axioms on every run)",
    "hand-written model lean/PFV/{Sim,SimBytes}.lean as a description of src/generator/{validation,utils,stack_ops}.rs — trusted as far as streams S1 (complete to the stated depth) and S2 (every step of real runs) reach",
    "specification lean/PFV/{Lex,Ref,Spec}.lean as a reading of CPython pickletools and of the property text (cross-checked by tools/specval.py)",
    "exact generator model lean/PFV/{Gen,Mutators,Enc}.lean and the two entropy ports lean/PFV/Entropy.lean (arbitrary::Unstructured 1.4.2) and lean/PFV/Rand.lean (ChaCha8Rng::seed_from_u64 of rand_chacha 0.9.0 / rand_core 0.9.3 and rand 0.9.2's samplers) — trusted as far as S3/S4/S5 reach: byte-exact agreement with generate()/generate_from_arbitrary(), every mutator call and every adapter draw, in BOTH entropy modes",
    "hypotheses of the end-to-end theorems that describe data outside the model: FloatOK/FloatAscii (Rust's Display for f64) and ModsOK (data/stdlib_complete.txt), evaluated on the real data on every run",
    "tools/translate.py (regex extraction of tables from /repo; refuses on unknown shapes)",
    "rustc/cargo, the harness /verif/harness, check.py",
]


def finish(prop, tier, seed, t0, cov, violations, known_lines, notes):
    os.makedirs(EVIDENCE, exist_ok=True)
    cov.setdefault("rule", "cases drawn from one SplitMix64 state (VERIF_SEED): protocols round-robin, both entropy modes, "
                           "mutator masks, rates, (min,max) shapes; non-trivial = " + nontrivial_rule(prop))
    cov["trusted_base"] = TRUSTED
    if not cov.get("samples"):
        cov["samples"] = [dict(note="no generation sample for this property; see theorems")]
    ev = dict(property_id=prop, tier=tier, seed=seed, level="proof", coverage=cov,
              assumptions=TRUSTED, wall_s=round(time.time() - t0, 2), violations=len(violations))
    if notes:
        ev["notes"] = notes
    with open(os.path.join(EVIDENCE, "%s.json" % prop), "w") as f:
        json.dump(ev, f, indent=1)
    for l in known_lines:
        print(l)
    for p, suffix in violations:
        print("VIOLATION property=%s replay=%s%s" % (prop, p, suffix))
    return 1 if violations else 0


EXTRA = {}          # properties with their own driver function (registered below)


def obligations(cov, lean, ns):
    shared = ()
    thms = {t: ax for t, ax in lean["axioms"].items() if any(t.startswith("PFV.%s." % n) for n in ns)}
    cov["obligations"] = len(thms) + (len(lean["broken"]) if not lean.get("attributed") else 0)
    cov["discharged"] = len(thms) - len([t for t, ax in thms.items() if "sorryAx" in ax])
    cov["checker_cmd"] = "cd /verif/lean && lake build PFV pfv-driver && lake env lean PFV/Audit.lean && lake env leanchecker PFV.Properties"
    cov["theorems"] = sorted(thms)
    cov["axioms_used"] = sorted({a for ax in thms.values() for a in ax})


def check_c07(prop, tier, seed):
    """determinism: same configuration + entropy => same bytes, across processes (fresh hash seeds, ASLR),
    across 16 concurrent threads, in isolation vs inside a long-lived process; S3 ties fuzzer-bytes mode to a
    model that has no hidden input at all."""
    t0 = time.time()
    cx = Ctx("C09", tier, seed)      # reuse stream plumbing (S3)
    cx.prop = "C07"
    cov = cx.cov
    violations, known_lines, notes = [], [], []
    with Lock():
        lean = build_lean()
        har = build_harness()
    lean = lean_for(lean, ["C07", "C18"])
    obligations(cov, lean, ["C07", "C18"])
    if not har["ok"]:
        p = write_replay(prop, "correspondence", dict(stream="harness-build", detail=har["msg"][-800:]))
        return finish(prop, tier, seed, t0, cov, [(p, " no-failing-input-found")], known_lines, notes)
    n = 600 if tier == "quick" else 12000
    procs = 3 if tier == "quick" else 8
    # (1) separate processes: every process gets new SipHash keys and a new address-space layout
    outs = []
    for k in range(procs):
        args = ["oracle", "--cases", str(n), "--seed", str(seed * 97 + 5), "--profile", "default" if k % 2 == 0 else "default", "--unsafe", "mix"]
        outs.append(harness_lines(args).split("\n"))
    memo_runs = [harness_lines(["oracle", "--cases", "4", "--seed", str(seed + 3), "--profile", "memo", "--unsafe", "mix"]).split("\n") for _ in range(2)]
    for a, b in zip(memo_runs[0], memo_runs[1]):
        outs[0].append(a); outs[1].append(b)
    base = outs[0]
    seen = set()
    for k in range(1, len(outs)):
        for a, b in zip(base, outs[k]):
            if not a.startswith("oracle ") or " mode=os " in a:
                continue        # unseeded generations draw from the operating system: C07 speaks of seeded / fuzzer-bytes runs
            cov["evaluations"] += 1
            seen.add(hashlib.sha256(a.encode()).hexdigest())
            if a != b:
                cx.failing.append(("oracle", case_of(a), "two_processes_returned_different_bytes_for_the_same_configuration_and_entropy"))
                break
    cov["distinct_nontrivial"] = len(seen)
    cov["processes_compared"] = procs
    for a in base[:3]:
        if a.startswith("oracle "):
            cx.sample(dict(case=case_of(a)[:200], identical_in_processes=procs))
    # (2) isolation: a case run alone in a fresh process vs inside the long-lived batch process
    iso = 40 if tier == "quick" else 400
    lines = [l for l in base if l.startswith("oracle ") and " mode=os " not in l]
    rnd = random.Random(seed)
    for l in rnd.sample(lines, min(iso, len(lines))):
        alone = harness_lines(["case"] + case_of(l).split(" ")).strip()
        cov["evaluations"] += 1
        if toks(alone).get("result") != toks(l).get("result"):
            cx.failing.append(("oracle", case_of(l), "result_inside_a_long-lived_process_differs_from_a_fresh_process"))
            break
    # (3) 16 threads generating concurrently
    tl = harness_lines(["threads", "--cases", "300" if tier == "quick" else "3000", "--seed", str(seed + 11), "--threads", "16"])
    cov["evaluations"] += 300 * 16 if tier == "quick" else 3000 * 16
    for l in tl.split("\n"):
        if l.startswith("threads MISMATCH"):
            cx.failing.append(("threads", case_of(l), "concurrent_generation_differs_from_sequential:" + " ".join(l.split(" ")[-2:])))
            break
    cov["threads"] = 16
    # (3b) time dilation: the same generation, once undisturbed and once with the whole process suspended for a few
    # seconds in the middle (SIGSTOP/SIGCONT): the wall clock passes, the CPU time does not.  Anything that consults
    # the clock (a time budget, a time-derived choice) makes the two outputs differ.
    import signal
    def run_case_paused(case_line, pause_after, pause_for):
        pr = subprocess.Popen([HARNESS, "case"] + case_line.split(" "), stdout=subprocess.PIPE, stderr=subprocess.DEVNULL, env=ENV, text=True)
        if pause_for > 0:
            time.sleep(pause_after)
            try:
                os.kill(pr.pid, signal.SIGSTOP)
                time.sleep(pause_for)
            finally:
                try:
                    os.kill(pr.pid, signal.SIGCONT)
                except ProcessLookupError:
                    pass
        out_, _ = pr.communicate(timeout=600)
        return toks(out_.strip().split("\n")[-1] if out_.strip() else "").get("result", "?")
    nops = 14000 if tier == "quick" else 30000
    for cl in ("id=0 P=4 unsafe=0 mu=0 ext=1 buf=0 min=%d max=%d mask=0 rate=0000000000000000 warm=0 mode=rand:%d" % (nops, nops, seed + 7),
               "id=0 P=2 unsafe=0 mu=0 ext=0 buf=0 min=%d max=%d mask=21 rate=3fe0000000000000 warm=0 mode=arb:%s" % (nops, nops, "5a" * 3000)):
        try:
            plain = run_case_paused(cl, 0, 0)
            again = run_case_paused(cl, 0, 0)
            if plain != again:
                cx.failing.append(("oracle", cl, "two_fresh_processes_return_different_bytes_for_the_same_case:%s..:%s.." % (plain[:24], again[:24])))
                break
            paused = run_case_paused(cl, 0.12, 2.6 if tier == "quick" else 6.0)
            cov["evaluations"] += 3
            cx.bump("time-dilation")
            if plain != paused or not plain.startswith("ok:"):
                cx.failing.append(("oracle", cl, "output_differs_when_the_process_is_suspended_mid-generation(wall_clock_dependence):plain=%s..:paused=%s.." % (plain[:24], paused[:24])))
                break
        except Exception as e:
            cx.corr.append(dict(stream="time-dilation", count=1, first=str(e)[:300]))
    # (4) S3: fuzzer-bytes mode equals the model, which has no hidden input
    try:
        stream_s3(cx)
    except Exception as e:
        cx.corr.append(dict(stream="S3", count=1, first=str(e)[:400]))
    cov["input_distribution"] = cx.hist
    cov["not_exhibited_by_the_model"] = ["OS randomness / wall clock / address dependence inside the compiled Rust is observed by the process, isolation and thread comparisons above, not proved absent",
                                          "seeded (ChaCha8) mode is compared process-to-process and, through the exact port, with the model (S3)"]
    cov["impl_vs_oracle_failures"] = len(cx.failing)
    cov["model_vs_impl_disagreements"] = sum(c["count"] for c in cx.corr)
    if cx.failing:
        stream, cl, det = cx.failing[0]
        p = write_replay(prop, "failing-input", dict(stream="oracle", case=cl, observed=det, required="identical bytes for identical configuration and entropy"))
        violations.append((p, ""))
    elif (not lean["ok"]) or cx.corr:
        what = ([dict(kind="proof-obligation", broken=lean["broken"][:6])] if not lean["ok"] else []) + [dict(kind="correspondence", **c) for c in cx.corr]
        p = write_replay(prop, "obligation", dict(no_longer_checks=what, note="no pair of runs with different bytes was found"))
        violations.append((p, " no-failing-input-found"))
    return finish(prop, tier, seed, t0, cov, violations, known_lines, notes)


def check_c12(prop, tier, seed):
    """reachability: (a) theorem C12.all_reachable over the translated tables (no dead guard); S1 ties the
    guards; (b) for each (protocol, opcode) a default-settings seed whose output contains it, and for P>=4 a
    framed and an unframed seed — cached witnesses first, then a search over a fixed seed range."""
    t0 = time.time()
    cx = Ctx("C17", tier, seed)
    cx.prop = "C12"
    cx.P = dict(PROPS["C17"], s1=None)
    cov = cx.cov
    violations, known_lines, notes = [], [], []
    with Lock():
        lean = build_lean()
        har = build_harness()
    lean = lean_for(lean, ["C12", "Tables"])
    obligations(cov, lean, ["C12", "Tables"])
    if not har["ok"]:
        p = write_replay(prop, "correspondence", dict(stream="harness-build", detail=har["msg"][-800:]))
        return finish(prop, tier, seed, t0, cov, [(p, " no-failing-input-found")], known_lines, notes)
    # the search stops as soon as every (protocol, opcode) pair has a witness: on the unchanged tree the cached
    # witnesses answer at once; the range is what the search may use before it gives up (the rarest opcode,
    # NEWOBJ_EX, first occurs around seed 500-1500, so a range of 2 000 would turn any harmless shift of the
    # random stream into an alarm)
    limit = 12000 if tier == "quick" else 50000
    tables = {}
    names = {}
    for l in harness_lines(["tables"]).split("\n"):
        t = l.split(" ")
        if t[0] == "opcode":
            names[t[2]] = t[1]
        if t[0] == "table":
            tables[int(t[1])] = [t[2][i:i + 2] for i in range(0, len(t[2]), 2)]
    optin = {"Ext1", "Ext2", "Ext4", "NextBuffer", "ReadOnlyBuffer"}
    need = {}            # (P, opname, ext) -> None / seed
    for p_, ops in tables.items():
        for b in ops:
            nm = names[b]
            need[(p_, nm, 1 if nm in optin else 0)] = None
        if p_ >= 4:
            need[(p_, "<framed>", 0)] = None
            need[(p_, "<unframed>", 0)] = None
    cpath = os.path.join(CORPUS, "c12_seeds.json")
    cached = json.load(open(cpath)) if os.path.exists(cpath) else {}

    def scan(lines):
        for (req, v) in lines:
            r = toks(req)
            p_ = int(r["P"]); ext = int(r["ext"]); sd = int(r["mode"].split(":")[1])
            cov["evaluations"] += 1
            if v.get("gen") != "ok":
                continue
            present = {x.split(":")[0] for x in v.get("ops", "").split(",") if x}
            present.add("<framed>" if v.get("framed") == "1" else "<unframed>")
            for nm in present:
                k = (p_, nm, ext)
                if k in need and need[k] is None:
                    need[k] = sd
                k2 = (p_, nm, 0)
                if ext == 1 and k2 in need and nm not in optin and need[k2] is None:
                    pass
    # cached witnesses first (grouped by seed)
    todo = {}
    for k in need:
        sd = cached.get("%d/%s/%d" % k)
        if sd is not None:
            todo.setdefault((sd, k[2]), set()).add(k[0])
    for (sd, ext), ps in sorted(todo.items()):
        req = harness_lines(["seeds", "--from", str(sd), "--to", str(sd + 1), "--ext", str(ext), "--protos", ",".join(map(str, sorted(ps)))])
        reqs = [l for l in req.split("\n") if l.startswith("oracle ")]
        outs = [toks(l) for l in drive(req) if l.startswith("oracle ")]
        scan(list(zip(reqs, outs)))
    cov["from_cached_witness_seeds"] = sum(1 for v in need.values() if v is not None)
    # search
    step = 250
    for ext in (0, 1):
        lo = 0
        while lo < limit and any(v is None for k, v in need.items() if k[2] == ext):
            missing_p = sorted({k[0] for k, v in need.items() if v is None and k[2] == ext})
            req = harness_lines(["seeds", "--from", str(lo), "--to", str(lo + step), "--ext", str(ext), "--protos", ",".join(map(str, missing_p))])
            reqs = [l for l in req.split("\n") if l.startswith("oracle ")]
            outs = [toks(l) for l in drive(req) if l.startswith("oracle ")]
            scan(list(zip(reqs, outs)))
            lo += step
    missing = sorted(k for k, v in need.items() if v is None)
    cov["pairs_required"] = len(need)
    cov["pairs_witnessed"] = len(need) - len(missing)
    cov["distinct_nontrivial"] = len(need) - len(missing)
    cov["seed_range_searched"] = [0, limit]
    cov["exhaustive"] = False
    for k, v in list(need.items())[:3]:
        cx.sample(dict(protocol=k[0], opcode=k[1], optins_enabled=bool(k[2]), witness_seed=v))
    cov["witness_seeds"] = {"%d/%s/%d" % k: v for k, v in sorted(need.items()) if v is not None}
    # the guards are tied to the code by S1
    try:
        stream_s1(cx)
    except Exception as e:
        cx.corr.append(dict(stream="S1", count=1, first=str(e)[:400]))
    cov["model_vs_impl_disagreements"] = sum(c["count"] for c in cx.corr)
    cov["impl_vs_oracle_failures"] = len(missing)
    if missing:
        p = write_replay(prop, "failing-input", dict(stream="seeds", case="default settings, seeds 0..%d" % limit,
                         observed="no seed in the range produces: " + ", ".join("protocol %d %s%s" % (k[0], k[1], " (opt-ins on)" if k[2] else "") for k in missing[:12]),
                         required="every opcode of the protocol's vocabulary occurs for some seed", missing=["%d/%s/%d" % k for k in missing]))
        violations.append((p, ""))
    elif (not lean["ok"]) or cx.corr:
        what = ([dict(kind="proof-obligation", broken=lean["broken"][:6])] if not lean["ok"] else []) + [dict(kind="correspondence", **c) for c in cx.corr]
        p = write_replay(prop, "obligation", dict(no_longer_checks=what, note="every opcode was still found for some seed"))
        violations.append((p, " no-failing-input-found"))
    return finish(prop, tier, seed, t0, cov, violations, known_lines, notes)


def check_c13(prop, tier, seed):
    """front ends: theorems C13.* on the option-plumbing model; S7 runs the real binary (single + batch with
    1/2/16 rayon workers), the real wrapper script and the real extension module and compares every file /
    returned byte string with the Rust library called with the configuration the options denote."""
    t0 = time.time()
    cx = Ctx("C09", tier, seed)
    cx.prop = "C13"
    cov = cx.cov
    violations, known_lines, notes = [], [], []
    with Lock():
        lean = build_lean()
        har = build_harness()
    lean = lean_for(lean, ["C13"])
    obligations(cov, lean, ["C13"])
    if not har["ok"]:
        p = write_replay(prop, "correspondence", dict(stream="harness-build", detail=har["msg"][-800:]))
        return finish(prop, tier, seed, t0, cov, [(p, " no-failing-input-found")], known_lines, notes)
    n = 36 if tier == "quick" else 600
    with Lock():      # the front-end builds share cargo target directories
        rc, out, err = sh([sys.executable, os.path.join(VERIF, "tools", "front.py"), "cli,batch,action,python", str(n), str(seed)],
                          timeout=STREAM_TIMEOUT[0] * 2)
    lines = [l for l in out.split("\n") if l.startswith("front ")]
    seen = set()
    for l in lines:
        cov["evaluations"] += 1
        kind = l.split(" ")[1]
        cx.bump(kind)
        seen.add(l.split(" ", 3)[-1][:200])
        if " ok " in l:
            if len(cov["samples"]) < 4 and kind not in [s_.get("front_end") for s_ in cov["samples"]]:
                cov["samples"].append(dict(front_end=kind, comparison=l[:260]))
        else:
            cx.failing.append(("S7", l, l.split(" FAIL ", 1)[-1][:300]))
    if rc != 0 or not lines:
        cx.corr.append(dict(stream="S7", count=1, first="front.py did not run: " + (err or out)[-400:]))
    cov["distinct_nontrivial"] = len(seen)
    cov["traces_validated_against_impl"] = sum(1 for l in lines if " ok " in l)
    cov["input_distribution"] = cx.hist
    cov["not_modelled"] = ["clap parsing, rayon scheduling, PyO3 glue and file-system writes are exercised through the real binary / module, not modelled"]
    cov["impl_vs_oracle_failures"] = len(cx.failing)
    if cx.failing:
        classes = {}
        for _, l, det in cx.failing:
            classes.setdefault(l.split(" ")[1], (l, det))
        for k, (l, det) in list(classes.items())[:4]:
            p = write_replay(prop, "failing-input", dict(stream="S7", case=l[:1500], observed=det,
                             required="the bytes written / returned by the front end equal the library's for the configuration the options denote",
                             rerun="python3 /verif/tools/front.py %s %d %d" % (k, n, seed)))
            violations.append((p, ""))
    elif (not lean["ok"]) or cx.corr:
        what = ([dict(kind="proof-obligation", broken=lean["broken"][:6])] if not lean["ok"] else []) + [dict(kind="correspondence", **c) for c in cx.corr]
        p = write_replay(prop, "obligation", dict(no_longer_checks=what, note="no front-end call with different bytes was found"))
        violations.append((p, " no-failing-input-found"))
    return finish(prop, tier, seed, t0, cov, violations, known_lines, notes)


def cycle_plans(p):
    """opcode plans for protocol p that make a mutable object reachable from itself (directly, through tuples,
    or through a memo fetch), for every in-place mutation the simulated VM performs: APPEND/APPENDS on a list,
    SETITEM/SETITEMS on a dict (as key and as value), ADDITEMS on a set, BUILD on an instance.  Plans the
    guards do not admit are dropped by `steer`.  Each plan is tried as is and with a trailing POP (the cycle is
    then unreachable from the stack when the generator is dropped)."""
    plans = []
    wrappers = [[]] + ([["Tuple1"], ["Tuple1", "Tuple1"], ["Dup", "Tuple2"], ["Dup", "Dup", "Tuple3"]] if p >= 2 else [])
    puts = ["Put"] + (["BinPut", "LongBinPut"] if p >= 1 else []) + (["Memoize"] if p >= 4 else [])
    gets = ["Get"] + (["BinGet", "LongBinGet"] if p >= 1 else [])
    for x in "ldeo":
        base = recipe(x, p)
        if base is None:
            continue
        close1 = {"l": [["Append"]], "o": [["Build"]], "d": [["Dup", "SetItem"], ["Int:01", "SetItem"]], "e": []}[x]
        for w in wrappers:
            for cl in close1:
                if x == "d" and cl[0] == "Dup" and w:
                    continue
                plans.append(base + ["Dup"] + w + cl)
        # through the memo: a fetched object aliases (or copies) the memoized one
        for put in puts:
            for get in gets:
                for cl in close1:
                    plans.append(base + [put, get, "Dup"] + cl)
                    plans.append(base + [put, get] + cl)
                    plans.append(base + [put, "Pop", get, "Dup"] + cl)
                # a memoised *wrapper* of the object (a tuple holding an alias of it), fetched back and stored into it
                if p >= 2:
                    for cl in close1:
                        if cl[0] == "Dup":
                            continue
                        plans.append(base + ["Dup", "Tuple1", put, "Pop", get] + cl)
                    wm = {"l": ["Appends"], "d": None, "e": ["AddItems"], "o": None}[x]
                    if wm:
                        plans.append(base + ["Dup", "Tuple1", put, "Pop", "Mark", get] + wm)
                    if x == "d":
                        plans.append(base + ["Dup", "Tuple1", put, "Pop", "Mark", get, "Int:01", "SetItems"])
                        plans.append(base + ["Dup", "Tuple1", put, "Pop", "Mark", "Int:01", get, "SetItems"])
                closem = {"l": [["Mark", get, "Appends"]], "d": [["Mark", "Int:01", get, "SetItems"], ["Mark", get, "Int:01", "SetItems"]],
                          "e": [["Mark", get, "AddItems"]], "o": []}[x]
                for cl in closem:
                    plans.append(base + [put] + cl)
                break
    out = []
    for pl in plans:
        out.append(pl)
        out.append(pl + ["Pop"])
    # long programs around a cycle: bookkeeping that is swept, compacted or capped once many cells were created
    # (hundreds of pushes before the cycle is closed, after it was popped, or both)
    pads = [["None", "Pop"] * 270] + ([["None", "Pop"] * 4700] if p in (2, 4) else [])
    for pad in pads:
      for x in ("ldo" if len(pad) < 1000 else "l"):
        base = recipe(x, p)
        if base is None:
            continue
        cl = {"l": ["Dup", "Append"], "o": ["Dup", "Build"], "d": ["Dup", "Dup", "SetItem"]}[x]
        core = base + cl
        out.append(pad + core + ["Pop"])
        out.append(core + ["Pop"] + pad)
        out.append(pad + core + ["Pop"] + pad)
        out.append(pad + core)
        out.append(base + pad + cl + ["Pop"] + pad)
    return out


def stream_s10(cx, plans):
    """S10 *obj*: the opcode-level object model (lean/PFV/Obj.lean: which cell every arm of process_stack_ops
    allocates, aliases, mutates in place or drops) against the implementation's live object graph — every cell
    that reference counting keeps alive, its kind, whether Stack::push registered it, its strong count and its
    children, plus stack and memo as cell identities — compared before every opcode and at the end of real runs
    (both entropy modes, all protocols, safe and unsafe), and of the cycle-closing plans of S8."""
    ok = bad_other = 0
    bad = []
    jobs = [("small", 500), ("default", 300), ("mid", 30)] if cx.tier == "quick" else [("small", 20000), ("default", 8000), ("mid", 800), ("memo", 32)]
    def judge(pairs, fam):
        nonlocal ok, bad_other
        for req, out in pairs:
            cx.cov["disagreements_checked"] += 1
            alive = toks(req).get("alive_after_reset", "0")
            if alive not in ("0", ""):
                # object level, independent of the allocator: cells the run created survive State::reset
                cx.failing.append(("S10", case_of(req), "%s_cells_created_by_the_run_are_still_alive_after_reset()" % alive))
            if " ok " in out and out.rstrip().endswith("obj=ok"):
                ok += 1
                cx.bump("obj/" + fam)
                if len(cx.cov["samples"]) < 6 and toks(out).get("steps", "0") not in ("0", "1", "2"):
                    cx.cov["samples"].append(dict(case=case_of(req)[:200], opcodes_replayed_on_the_object_model=int(toks(out).get("steps", "0")),
                                                  final_live_object_graph=toks(req).get("graphfinal", "")[:300]))
            elif " FAIL obj:" in out:
                bad.append((case_of(req), out[:1500]))
            elif "skipped=rewritten" in out or " gen=" in out:
                cx.bump("obj/skipped-" + fam)
            else:
                bad_other += 1
    for prof, n in jobs:
        req = harness_lines(["trace", "--cases", str(n), "--seed", str(cx.seed * 977 + 5), "--profile", prof, "--unsafe", "mix", "--graph"])
        reqs = [l for l in req.split("\n") if l.startswith("trace ")]
        outs = [l for l in drive(req) if l.startswith("trace ")]
        if len(outs) != len(reqs):
            raise RuntimeError("driver answered %d of %d graph traces" % (len(outs), len(reqs)))
        judge(zip(reqs, outs), prof)
    if plans:
        rc, out, err = sh([HARNESS, "trace", "--stdin", "--graph"], inp="\n".join(plans) + "\n", timeout=STREAM_TIMEOUT[0])
        reqs = [l for l in out.split("\n") if l.startswith("trace ")]
        if rc != 0 or len(reqs) != len(plans):
            raise RuntimeError("graph traces of the cycle plans: harness rc=%s answered %d of %d" % (rc, len(reqs), len(plans)))
        outs = [l for l in drive(out) if l.startswith("trace ")]
        if len(outs) != len(reqs):
            raise RuntimeError("driver answered %d of %d graph traces (cycle plans)" % (len(outs), len(reqs)))
        judge(zip(reqs, outs), "cycle-plan")
    cx.cov["object_graph_traces_agreeing"] = ok
    cx.cov["traces_validated_against_impl"] += ok
    if bad_other:
        cx.cov["object_graph_traces_failing_for_other_reasons"] = bad_other
    if bad:
        cx.corr.append(dict(stream="S10", count=len(bad), first=bad[0][1], case=bad[0][0]))
    elif ok < 50:
        cx.corr.append(dict(stream="S10", count=1, first="only %d object-graph traces could be compared" % ok))


def check_c14(prop, tier, seed):
    """no leak: theorems C14.* on the abstract reference-counting heap (arena invariant preserved by allocation
    and in-place mutation; after release all edges point to older cells; no self-sustaining set), the
    translator's syntactic check that every in-place mutation site works on a stack (arena) cell and that
    push/reset/Drop keep the arena, and S8: live heap bytes before constructing a generator and after dropping
    it, measured with a counting global allocator, for every case (incl. reset + second generation, warm-ups)."""
    t0 = time.time()
    cx = Ctx("C09", tier, seed)
    cx.prop = "C14"
    cov = cx.cov
    violations, known_lines, notes = [], [], []
    with Lock():
        lean = build_lean()
        har = build_harness()
    lean = lean_for(lean, ["C14"])
    obligations(cov, lean, ["C14"])
    cov["obligations"] += 1            # the translator's syntactic site check (push/reset/Drop/borrow_mut sites)
    if lean.get("heap_refused"):
        cx.corr.append(dict(stream="translator", count=len(lean["heap_refused"]), first="; ".join(lean["heap_refused"])[:800]))
    else:
        cov["discharged"] += 1
    if not har["ok"]:
        p = write_replay(prop, "correspondence", dict(stream="harness-build", detail=har["msg"][-800:]))
        return finish(prop, tier, seed, t0, cov, [(p, " no-failing-input-found")], known_lines, notes)
    plan = [("default", 2500), ("small", 1500), ("memo", 4)] if tier == "quick" else [("default", 60000), ("small", 30000), ("mid", 2000), ("memo", 60)]
    seen = set()
    total = 0
    try:
        for prof, n in plan:
            out = harness_lines(["heap", "--cases", str(n), "--seed", str(seed * 29 + 3), "--profile", prof])
            for l in out.split("\n"):
                if not l.startswith("heap id"):
                    continue
                r = toks(l)
                cov["evaluations"] += 1
                cx.bump("P%s/%s/%s" % (r.get("P"), "rand" if r.get("mode", "").startswith("rand") else "arb", prof))
                if r.get("twice") == "1":
                    cx.bump("reset+second-generation")
                seen.add(case_of(l)[:300])
                d = int(r.get("delta", "0"))
                total += d
                if len(cov["samples"]) < 3:
                    cov["samples"].append(dict(case=case_of(l)[:220], live_bytes_after_minus_before=d))
                if d != 0:
                    cx.failing.append(("S8", case_of(l), "%d_bytes_still_live_after_the_generator_was_dropped" % d))
    except Exception as e:
        cx.corr.append(dict(stream="S8", count=1, first="heap stream could not run: %s" % str(e)[:400]))
    # cycle-closing plans: fuzzer bytes (built by the model's `steer`) under which the generator makes an
    # object contain itself through each in-place mutation; the leak question is then asked of the real code
    try:
        reqs, cfgs = [], []
        for p in range(6):
            for pl in cycle_plans(p):
                cfg = "P=%d unsafe=0 ext=0 buf=0 mask=0 rate=0000000000000000" % p
                reqs.append("steer %s plan=%s" % (cfg, ",".join(pl)))
                cfgs.append((cfg, pl))
        outs = [l for l in drive("\n".join(reqs) + "\n") if l.startswith("steer ")]
        lines = []
        admitted = 0
        for (cfg, pl), o in zip(cfgs, outs):
            if not o.startswith("steer ok"):
                continue
            admitted += 1
            b = toks(o).get("bytes", "-")
            lines.append("id=%d %s min=%d max=%d warm=0 mode=arb:%s" % (admitted, cfg, len(pl), len(pl), b))
        cov["cycle_plans"] = dict(built=len(reqs), admitted_by_the_guards=admitted)
        if len(outs) != len(reqs) or admitted < 40:
            cx.corr.append(dict(stream="S8", count=1, first="cycle plans: driver answered %d of %d, guards admitted %d" % (len(outs), len(reqs), admitted)))
        rc, out, err = sh([HARNESS, "heap", "--stdin"], inp="\n".join(lines) + "\n", timeout=STREAM_TIMEOUT[0])
        got = [l for l in out.split("\n") if l.startswith("heap id")]
        if rc != 0 or len(got) != len(lines):
            cx.corr.append(dict(stream="S8", count=1, first="cycle plans: harness rc=%s answered %d of %d: %s" % (rc, len(got), len(lines), err[-200:])))
        for l in got:
            r = toks(l)
            cov["evaluations"] += 1
            cx.bump("P%s/cycle-plan" % r.get("P"))
            d = int(r.get("delta", "0"))
            total += d
            if d != 0:
                cx.failing.append(("S8", case_of(l), "%d_bytes_still_live_after_the_generator_was_dropped(cycle_plan)" % d))
            elif r.get("gen", "ok") != "ok":
                # a plan the model's guards admit and the implementation cannot generate: the tie is broken (the panic itself is C09's)
                cx.corr.append(dict(stream="S8", count=1, first="cycle plan not generated by the implementation: %s %s" % (r.get("gen"), case_of(l)[:300])))
    except Exception as e:
        cx.corr.append(dict(stream="S8", count=1, first="cycle-plan stream could not run: %s" % str(e)[:400]))
    try:
        stream_s11(cx)
    except Exception as e:
        cx.corr.append(dict(stream="S11", count=1, first="sequence stream could not run: %s" % str(e)[:400]))
    try:
        stream_s10(cx, [l for l in (locals().get("lines") or []) if len(l) < 4000])
    except Exception as e:
        cx.corr.append(dict(stream="S10", count=1, first="object-graph stream could not run: %s" % str(e)[:400]))
    try:
        deep_nesting(cx)
    except Exception as e:
        cx.corr.append(dict(stream="deep-nesting", count=1, first="deep-nesting family could not run: %s" % str(e)[:400]))
    cov["distinct_nontrivial"] = len(seen)
    cov["sum_of_deltas_bytes"] = total
    cov["input_distribution"] = cx.hist
    cov["not_modelled"] = ["which Rust statements are alloc / mutate / release: modelled per opcode (Obj.lean) and compared with the live object graph after every opcode (S10), plus the translator's syntactic site check; not proved of the Rust",
                           "allocator behaviour (live bytes) is observed (S8), not modelled; the recursive Drop of deep nesting is exercised (deep-nesting family), not modelled"]
    cov["impl_vs_oracle_failures"] = len(cx.failing)
    if cx.failing:
        stream, cl, det = cx.failing[0]
        p = write_replay(prop, "failing-input", dict(stream=stream, case=cl, observed=det + " (and %d more leaking cases)" % (len(cx.failing) - 1),
                         required="live heap bytes before constructing the generator = after dropping it",
                         rerun=("/verif/build/harness-target/release/pfv-harness case --trace --graph " if stream == "S10" else "/verif/build/harness-target/release/pfv-harness heap --case ") + cl))
        violations.append((p, ""))
    elif (not lean["ok"]) or cx.corr:
        what = ([dict(kind="proof-obligation", broken=lean["broken"][:6])] if not lean["ok"] else []) + [dict(kind="correspondence", **c) for c in cx.corr]
        p = write_replay(prop, "obligation", dict(no_longer_checks=what, note="no leaking generation was found"))
        violations.append((p, " no-failing-input-found"))
    return finish(prop, tier, seed, t0, cov, violations, known_lines, notes)


EXTRA["C14"] = check_c14
EXTRA["C13"] = check_c13
EXTRA["C07"] = check_c07
EXTRA["C12"] = check_c12


def replay(path):
    body = json.load(open(path))
    prop = body["property"]
    with Lock():
        lean = build_lean()
        har = build_harness()
    if body["kind"] == "failing-input":
        key = PROPS.get(prop, {}).get("key")
        stream = body.get("stream", "oracle")
        print("stream:", stream)
        print("case:", body["case"][:600])
        direct = (stream in ("S2", "S3", "S4", "S5", "S6", "S8")) or (stream == "oracle" and prop in PROPS and key)
        if not direct:
            # determinism across processes (C07), reachability over a seed range (C12), the front ends (C13): the
            # recorded failure is a relation between several runs — re-run the property's check, which re-establishes it
            print("re-running the check of %s (the failure relates several runs; see `observed` in the replay file)" % prop)
            print("observed then:", str(body.get("observed", ""))[:400])
            fn = EXTRA.get(prop)
            rc = fn(prop, "quick", int(os.environ.get("VERIF_SEED", "1") or 1)) if fn else check_property(prop, "quick", int(os.environ.get("VERIF_SEED", "1") or 1))
            if rc != 0:
                return 1
            print("the check passes now")
            return 0
        if stream == "oracle" and body.get("history_dependent"):
            # the failure needs the process history: re-run the whole job and look at the same case id
            job = body["fails_only_inside_process"]
            print("process:", job)
            rc, out, err = sh(["bash", "-c", job], timeout=STREAM_TIMEOUT[0], big_stack=True)
            cid = toks("x " + body["case"]).get("id")
            mine = [l for l in out.split("\n") if l.startswith("oracle ") and toks(l).get("id") == cid]
            v = toks(mine[0]) if mine else {}
            bad = v.get(key, "").startswith("FAIL")
            print("verdict inside that process:", v.get(key), "(required ok)")
        elif stream == "oracle":
            RERUN_REL[0] = str(body.get("harness_build", "")).startswith("relsem")
            req, v = rerun_case(body["case"])
            bad = v.get("gen") != "ok" if key == "gen" else v.get(key, "").startswith("FAIL")
            print("verdict:", v.get(key), "(required ok)")
        else:
            req, out = rerun_any(stream, body["case"])
            print("now:", out[:600])
            bad = (" FAIL" in out) or ("verdict=FAIL" in out) or ("result=panic" in out) or ("result=err" in out)
        if bad:
            print("VIOLATION property=%s replay=%s" % (prop, path))
            return 1
        print("the recorded input no longer fails")
        return 0
    print(json.dumps(body, indent=1))
    print("lean build ok:", lean["ok"], "harness build ok:", har["ok"])
    return 0 if lean["ok"] and har["ok"] else 1


def main():
    ap = argparse.ArgumentParser()
    ap.add_argument("prop", nargs="?")
    ap.add_argument("--tier", default=os.environ.get("VERIF_TIER", "quick"))
    ap.add_argument("--replay")
    a = ap.parse_args()
    seed = int(os.environ.get("VERIF_SEED", "1") or 1)
    CURRENT_TIER[0] = a.tier if a.tier in ("quick", "thorough") else "quick"
    if a.tier == "thorough":
        STREAM_TIMEOUT[0] = 7200
    if a.replay:
        sys.exit(replay(a.replay))
    if a.prop == "setup":
        sys.exit(setup())
    if a.prop not in PROPS and a.prop not in EXTRA:
        print("unknown property", a.prop, file=sys.stderr)
        sys.exit(2)
    if a.prop in EXTRA:
        sys.exit(EXTRA[a.prop](a.prop, a.tier if a.tier in TIERS else "quick", seed))
    sys.exit(check_property(a.prop, a.tier if a.tier in TIERS else "quick", seed))


if __name__ == "__main__":
    main()
