#!/usr/bin/env python3
"""keepseeds — copy confirmed seeded changes (patch.diff, demo, notes) from the scratch directory the sub-agents
wrote to (/tmp/seeded/<src>) into /verif/seeded/<id>/ and write meta.json: property, what the change needs in
order to manifest, how it was confirmed, and what each detection pass of the checks reported.
Usage: keepseeds.py [scratch-dir]          (default /tmp/seeded)"""
import json, os, shutil, glob, sys
SCRATCH = sys.argv[1] if len(sys.argv) > 1 else "/tmp/seeded"
# seeds written in round 2 under other names: scratch name -> (id, property)
RENAME = {"R2B1": ("C05c", "C05"), "R2B3": ("C15c", "C15"), "R2A2": ("C04c", "C04"), "R2A3": ("C15d", "C15"),
          "R3A1": ("C09c", "C09"), "R3A2": ("C15e", "C15"), "R3A3": ("C11c", "C11"), "R3B1": ("C17c", "C17"), "R3B2": ("C05d", "C05"),
          "R3B3": ("C12c", "C12"), "R3C1": ("C13c", "C13"), "R3C2": ("C13d", "C13"), "R3C3": ("C14c", "C14"),
          "R4A1": ("C07c", "C07"), "R4A2": ("C14d", "C14"), "R4A3": ("C04d", "C04"), "R4B1": ("C04e", "C04"), "R4B2": ("C01c", "C01"),
          "R4B3": ("C15f", "C15"), "R4C1": ("C11d", "C11"), "R4C2": ("C13e", "C13"), "R4C3": ("C07d", "C07"),
          "R5A1": ("C15g", "C15"), "R5A2": ("C18c", "C18"), "R5A3": ("C16c", "C16"), "R5B1": ("C17d", "C17"), "R5B2": ("C01d", "C01"),
          "R5B3": ("C02c", "C02"), "R5C1": ("C05e", "C05"), "R5C2": ("C12d", "C12"), "R5C3": ("C11e", "C11"),
          "R6A1": ("C05f", "C05"), "R6A2": ("C08c", "C08"), "R6A3": ("C11f", "C11"), "R6B1": ("C09d", "C09"), "R6B2": ("C08d", "C08"),
          "R6B3": ("C13f", "C13"), "R6C1": ("C13g", "C13"), "R6C2": ("C14e", "C14"), "R6C3": ("C04f", "C04"),
          "R7A1": ("C13h", "C13"), "R7A2": ("C09e", "C09"), "R7A3": ("C13i", "C13"), "R7B1": ("C01e", "C01"), "R7B2": ("C09f", "C09"),
          "R7B3": ("C13j", "C13"), "R7C1": ("C15h", "C15"), "R7C2": ("C03c", "C03"), "R7C3": ("C07e", "C07"),
          "R8A1": ("C03d", "C03"), "R8A2": ("C13k", "C13"), "R8A3": ("C13l", "C13"), "R8B1": ("C13m", "C13"), "R8B2": ("C13n", "C13"),
          "R8B3": ("C13o", "C13"), "R8C1": ("C15i", "C15"), "R8C2": ("C04g", "C04"), "R8C3": ("C13p", "C13")}
NEEDS = {
 "C01a": "is_callable_above_mark rewritten with position() (bottom-most MARK): needs nested MARKs with a callable right above the lower one and OBJ chosen with a bare MARK on top, then fixed-arity pops; ~1 in 1e5 PRNG pickles",
 "C01b": "STACK_GLOBAL guard relaxed whenever an installed mutator reports is_unsafe(): needs protocol 4/5, safe mode, the typeconfusion mutator registered",
 "C02a": "BINPUT guard `< 256` became `<= 256`: needs a memo of exactly 256 entries (thousands of opcodes) and BINPUT drawn at that moment",
 "C02b": "sorted memo keys cached in State::memo_keys, not cleared by reset(): needs a second generation on the same generator",
 "C03a": "is_set_at_mark uses the bottom-most MARK: needs protocol 4/5, two MARKs with a set below the lower one, ADDITEMS chosen (~0.1% of P4/5 outputs)",
 "C03b": "STACK_GLOBAL guard relaxed when a registered mutator is_unsafe(): needs typeconfusion registered in safe mode on protocol 4/5",
 "C04a": "character mutator may substitute control characters incl. newline: needs the character mutator on a UNICODE opcode and byte 252 drawn (0.1-0.7% of seeds)",
 "C04b": "frame header drained by 8 of 9 bytes for tiny payloads: needs protocol 4/5, frame coin true, at most 2 generated opcodes",
 "C05a": "collapse drops a bare MARK with POP_MARK (protocol 1) in protocol 0: needs protocol 0 and a MARK on top at the end of the body",
 "C05b": "BINPUT stays selectable at 256 memo entries and then writes MEMOIZE (protocol 4): needs protocols 1-3 and ~6000+ opcodes",
 "C06a": "generation loop closes the FRAME at 64 KiB and opens a new one: needs framed protocol 4/5 pickles of ~7400+ opcodes",
 "C06b": "FRAME length passed through mutate_long in unsafe mode: needs unsafe mode, an integer mutator, a framed pickle and the gate firing on one extra draw",
 "C08a": "FRAME offset kept in State::frame_start, never cleared: needs a framed call followed by an unframed call on the same generator",
 "C08b": "safe-mode Memoindex mutator remembers the previous lookup in an AtomicUsize: needs Memoindex registered and a second call on the same generator",
 "C10a": "READONLY_BUFFER guard `allow && is Bytes || is ByteArray`: needs protocol 5, buffer flag off, a bytearray on top",
 "C10b": "batch mode passes allow_ext/allow_buffer swapped: needs the CLI in --dir mode with exactly one of the two flags",
 "C11a": "target draw orders the two knobs instead of collapsing to min: needs an inverted range (min > max)",
 "C11b": "stringlen extension up to 255 bytes: a short-string opcode then writes nothing (len >= 256 guard): needs stringlen mutator, a SHORT_* opcode and an extend draw >= ~225",
 "C15a": "type-confusion gate `roll > rate`: at rate 0.0 a draw of exactly 0.0 rewrites: needs unsafe typeconfusion, rate 0.0, exhausted/all-zero fuzzer bytes",
 "C15b": "mutate_memo_index skips mutators whose is_unsafe() is true on a safe generator: needs Memoindex(unsafe_mode=true) registered on a generator with unsafe_mutations=false at rate 1.0",
 "C16a": "character mutator bumps the replacement by one when it equals the old character: '~' becomes DEL: needs a '~' at the chosen position and '~' drawn again",
 "C16b": "type confusion treats 0x90 (ADDITEMS) as a set-pushing opcode: needs unsafe mode, protocol 4/5, an ADDITEMS emission and the mutator firing",
 "C17a": "simulated memo stops tracking new keys after 128 entries: needs one generation memoizing more than 128 objects (e.g. 2500 opcodes)",
 "C17b": "NEWOBJ and NEWOBJ_EX arms merged (pops two): needs protocol 4/5 and a valid NEWOBJ_EX on [callable, tuple, dict] (0.08% of default runs)",
 "C18a": "gen_range = min + choose_index(max - min) without the min >= max guard: needs a strictly inverted range",
 "C18b": "gen_ascii_char passes printable fuzzer bytes through, admitting DEL 0x7f: needs fuzzer-bytes mode and a 0x7f byte on a character draw",
 "C07a": "process-wide OnceLock cache of the int-like opcode list keyed too coarsely: needs one process using a protocol-1 and a protocol-2..5 generator",
 "C07b": "GET/BINGET slow path lost the key sort: BINGET follows HashMap iteration order: needs a memo over 256 entries (3000+ opcodes)",
 "C09a": "character mutator redraws its replacement until it differs from the original: spins forever once the fuzzer bytes are exhausted: needs fuzzer-bytes mode, the character mutator, input ending at a payload whose first element is '!' / byte 0 (0.5% of random inputs; none of length <= 2)",
 "C09b": "BINPUT guard `<= 256` plus checked u8::try_from(..)?: generate() returns Err when the memo holds exactly 256 entries and BINPUT is drawn: needs protocol >= 1 and ~2500+ opcodes",
 "C12a": "LONG_BINPUT gated on memo.len() >= 256: never reachable with default settings",
 "C12b": "is_callable_above_mark off by one (looks at the MARK itself): OBJ is dead",
 "C13a": "CLI drops the mutator list when --mutation-rate <= 0 (\"a zero rate never fires\") although registered mutators still draw entropy at rate 0: needs --mutators <any> with --mutation-rate 0 and --seed, single-file or batch mode",
 "C13b": "Python generate_from_bytes (and PickleMutator.mutate) truncates the fuzzer input to 4096 bytes: needs set_opcode_range to ~700+ opcodes and more than 4096 input bytes",
 "C14a": "Stack::push registers only List/Dict/Set cells for the cycle-breaking release; BUILD mutates an Instance in place: needs protocol >= 2 and <instance> DUP TUPLE1|2|3 BUILD (1 default pickle in ~20000). Two other agents (round 2, A and B) independently wrote the same change; only this copy is kept",
 "C14b": "GET/BINGET/LONG_BINGET push the memo's own Rc cell (never registered in the stack's arena) instead of a copy: needs a memoized list/dict/set fetched by GET and inserted into itself (0.1-0.7% of default seeds)",
 "R2B1": "integer-opcode list of emit_int cached in a process-wide OnceLock: the first protocol to emit an integer fixes it for every later generator: needs two generators of different protocols in one process, the later one older (V5 then V0 gives LONG1/BININT in a protocol-0 pickle)",
 "R2B3": "fuzzer-bytes gen_unit_f64 draws a u32 and divides by u32::MAX: result in [0,1], the gate refuses to fire at rate 1.0 on FF FF FF FF: needs arbitrary mode, a mutator, rate 1.0 and those four gate bytes",
 "R2A2": "EXT4 code run through mutate_int(..).unsigned_abs().max(1): i32::MIN folds to 2^31 which reads back as -2147483648: needs protocol >= 2, EXT enabled, the boundary mutator firing on an EXT4 and picking i32::MIN",
 "R3A1": "type-confusion gate moved to a new gen_chance(rate) that uses rng.random_bool(rate) in PRNG mode: panics for a NaN rate: needs seeded generate()/--seed, unsafe mutations with Typeconfusion registered, and a NaN rate",
 "R3A2": "Generator::mutate_string / mutate_bytes return early on an empty payload: at rate 1.0 stringlen never extends an empty payload: needs Stringlen registered and a zero-length draw (1 in 32, or exhausted fuzzer bytes)",
 "R3A3": "emit_string/emit_bytes draw lengths 0..=255 instead of 0..=31: a doubled/extended payload makes a chosen SHORT_* opcode emit nothing: needs Stringlen firing on a SHORT_* opcode with a drawn length >= 128 (double) or >= 247 (extend)",
 "R3B1": "process_stack_ops gets a minimum-depth early return listing DICT with 4 (it needs 3): DICT on exactly [MARK,k,v] is emitted but not simulated: ~0.4% of default pickles; fuzzer bytes [6,3,3,8] on protocol 0 range (4,4)",
 "R3B2": "the empty-stack case of cleanup_for_stop emits EMPTY_TUPLE (protocol 1) instead of NONE: needs protocol 0 and a body that ends on an empty stack (range (0,0): always; default range: not in 1000 seeds)",
 "R3B3": "EXT1/EXT2/EXT4 arms merged: a uniform 31-bit code with the shortest encoding: EXT1/EXT2 practically dead: needs the EXT opt-in and a reachability check over many seeds",
 "R3C1": "batch mode re-orders the opcode bounds (min.min(max), max.max(min)): needs --dir with min > max (or a lone --min-opcodes above 300)",
 "R3C2": "PickleMutator.mutate returns its previous output when data equals the last input (cache ignores max_size and the generator configuration): needs two consecutive mutate calls with the same data and a different max_size or a set_opcode_range in between",
 "R3C3": "Stack::push sweeps the cycle-release registry once it holds >= 256 handles, keeping only strong_count() > 1: needs >= 256 pushes plus a reference cycle that was already popped or is closed later",
 "R4A1": "GET key list no longer sorted (an optimisation): BINGET with a memo above 256 entries follows HashMap iteration order: needs protocol >= 1 and a memo beyond 256 entries (~3700 opcodes), two processes or generator instances",
 "R4A2": "new Stack::sweep_cells() (retain strong_count() > 1) called every 4096 body opcodes: forgets popped or later-closed cycles: needs >= 4096 body opcodes plus a reference cycle",
 "R4A3": "FLOAT text of negative zero written as -0.0 without the trailing newline: needs the exact value -0.0 (fuzzer bytes 00 00 00 00 00 00 00 80 after choosing FLOAT); PRNG, boundary mutator and exhausted input never produce it",
 "R4B1": "type-confusion replacement start computed as output.len() - output_delta.len(): wrong when two TypeConfusion mutators fire on the same opcode (unsafe mode, registered twice, high rate): truncates into earlier opcodes, the FRAME placeholder or PROTO",
 "R4B2": "READONLY_BUFFER guard requires a bytes-like operand at position 1 and drops the not-a-MARK check: needs protocol 5, buffer opcodes on and a stack [.., bytes, MARK]",
 "R4B3": "mutate_memo_index returns early (no mutation, no draw) when the memo has fewer than two entries: needs a memo-index mutator and a GET emitted while exactly one PUT happened",
 "R4C1": "with_max_opcodes lowers min_opcodes to max (and with_min_opcodes raises max): the result depends on the order of the two single setters: needs the separate setters with max below the current min, max set last",
 "R4C2": "output files opened without truncate: an existing longer file keeps a stale tail, exit status 0: needs the CLI writing onto an existing longer file (single mode or a re-used --dir)",
 "R4C3": "a 2-second wall-clock budget breaks the body loop early: needs generation slower than 2 s (25k+ opcodes in release) or a process suspended mid-generation",
 "R5A1": "offbyone mutate_int with checked_add/sub instead of wrapping: at i32::MAX+1 / i32::MIN-1 the fired mutator returns None: needs exactly i32::MIN or i32::MAX (fuzzer bytes; the PRNG hits them with probability 2^-32)",
 "R5A2": "PRNG arm of gen_bytes collects whole u32 words without truncating: 4*ceil(len/4) bytes: seeded mode only, len not a multiple of 4 (gen_bytes has no caller in the generator)",
 "R5A3": "unsafe memo-index mutator draws from gen_range(0, max(index+1, 1000)): needs an original index >= 1000 (a memo of more than 1000 entries, ~30000 opcodes) or a direct call",
 "R5B1": "LONG_BINGET: the simulated stack gets the picked memo index while the bytes carry the validated mutated one: needs protocol >= 1, OffByOne or MemoIndex(safe) accepted on a LONG_BINGET, a neighbouring memo entry of another kind and a later typed opcode on that slot (~1% of pickles at rate 1.0); pickletools.dis still passes",
 "R5B2": "BINPERSID pushes Any and the STACK_GLOBAL guard accepts Any, but the STACK_GLOBAL effect still pushes only for two Strings: the simulation loses a slot: needs protocol 4/5 and a BINPERSID result reaching STACK_GLOBAL (3-6% of default protocol-4/5 seeds)",
 "R5B3": "memo mutators also perturb the PUT index (only free indices): MEMOIZE's implicit index collides while the gap is open: needs protocol 4/5, OffByOne or MemoIndex(safe) firing upwards on a PUT and MEMOIZE before another PUT",
 "R5C1": "with buffer opcodes on, BINBYTES8/BYTEARRAY8 payloads >= 16 bytes are replaced by a directly emitted NEXT_BUFFER (bypassing table and guard): protocol 4 gets a protocol-5 opcode: needs protocol 4 and allow_buffer",
 "R5C2": "can_emit(NEWOBJ_EX) demands a dict with a string key (any instead of all): an empty kwargs dict is rejected: NEWOBJ_EX practically unreachable: visible only as a seed search",
 "R5C3": "MAX_STACK_DEPTH = 1000 breaks the body loop: fewer than min_opcodes body opcodes: needs an opcode range of ~2000 or more",
 "R6A1": "the 'this protocol opens with PROTO' decision becomes a flag set only in State::new: Generator::default() (or struct update from it) yields protocol >= 2 pickles without PROTO: needs that construction path",
 "R6A2": "emit_int caches the protocol's integer opcodes per generator and never invalidates: needs a generation, then state.version lowered through the public field, then another generation",
 "R6A3": "the dead with_buffer_size knob is honoured by stopping the body at that many output bytes: needs with_buffer_size(n) with small n",
 "R6B1": "bufsize used as output.reserve(size): with_buffer_size(usize::MAX) panics with capacity overflow (around 1<<40 the process aborts): needs that knob set to an unallocatable value",
 "R6B2": "emit_int caches the integer-opcode list in a Generator field on first use: needs generate, change state.version through the public field, generate again (written independently of R6A2 by another agent)",
 "R6B3": "action wrapper builds one command string from ${args[*]} and runs it unquoted: needs an output path with whitespace or a glob character",
 "R6C1": "batch mode writes through OpenOptions without truncate: needs --dir pointing at a directory that already holds longer same-named files (written independently of R4C2)",
 "R6C2": "Stack::push records release handles for List, Dict and Instance only (Set forgotten): needs protocol >= 4 and a set that contains itself through a memoised tuple: EMPTY_SET DUP TUPLE1 MEMOIZE POP MARK BINGET 0 ADDITEMS",
 "R6C3": "EXT2 code computed as (u32::from(gen_u16()) + 1) as u16: wraps 0xFFFF to 0 (a panic from the existing debug_assert in debug builds): needs EXT enabled and the 16-bit draw 0xFFFF",
 "R7A1": "the CLI sorts and deduplicates --mutators (enum order): the first applicable mutator is no longer the one the library would use: needs two mutators acting on the same value kind in non-enum order, or a duplicate",
 "R7A2": "Stack::reset runs inner.clear() before release_cells(): reusing or resetting a generator after a pickle nested thousands of levels deep drops it recursively: native stack overflow (SIGABRT): needs deep nesting (NONE then TUPLE1 x 50000) and a second call",
 "R7A3": "PickleMutator.reset() builds a new Generator(protocol, seed) instead of calling the native reset(): an opcode range set through mutator.generator.set_opcode_range() silently reverts: needs set range, reset(), mutate()",
 "R7B1": "the MARK-closing loop of cleanup_for_stop skips a lone MARK and relies on a final check that pops the simulated stack without writing a byte: needs the body to end with exactly [MARK] (protocol 0 seed 17 range (1,1): `( N .`)",
 "R7B2": "Stack::release_cells walks the registry newest-first: emptying the outermost container drops a deeply nested chain recursively: needs ~45k-150k nesting levels, then generate/reset/drop",
 "R7B3": "the CLI sorts and dedups the --mutators kinds (written independently of R7A1)",
 "R7C1": "fuzzer-mode gen_unit_f64 = bits / u64::MAX can return exactly 1.0 (independent rediscovery of C15d)",
 "R7C2": "is_set_at_mark rewritten with iterators: skip_while(is_mark) where skip(1) was meant: on [.., set, MARK, MARK, item] ADDITEMS is allowed and targets the lower MARK: needs protocol 4/5 and that shape",
 "R7C3": "BINGET with a memo above 256 entries picks from an unsorted key list (independent rediscovery of C07b/C07c)",
 "R8A1": "with_mutators/with_mutator switch unsafe_mutations on when any mutator's is_unsafe() is true, and TypeConfusionMutator::is_unsafe() is always true: needs a safe list containing typeconfusion registered through the builders with no later with_unsafe_mutations(false), protocol 4/5",
 "R8A2": "CLI version selection folded into select_version computing `seed as u32 % 6`: needs --seed >= 2^32 without --protocol",
 "R8A3": "Python set_opcode_range reorders an inverted range: needs the binding called with min > max",
 "R8B1": "batch mode hands rayon blocks of max(N/workers,1) indices but iterates only N/block blocks: the last N % block files are never written, exit 0: needs N % max(N/workers,1) != 0, e.g. (5,2), (33,16)",
 "R8B2": "PickleMutator.mutate calls set_opcode_range(1,16) and regenerates when the result exceeds max_size, never restoring the range: needs one mutate call with a small max_size, then later calls",
 "R8B3": "action wrapper is_true becomes 'everything except empty or false': 0/no/off switch the options on",
 "R8C1": "the generator skips any mutator whose is_unsafe() is true unless with_unsafe_mutations(true): a Memoindex.create(true) object on a safe generator at rate 1.0 is never consulted (close to C15b, written independently)",
 "R8C2": "type-confusion rewrite splices with the stale pre-rewrite length: with the mutator registered twice (unsafe mode) and both firing on one emission, the tail of the first replacement stays in the stream",
 "R8C3": "batch branch sets min_opcodes = min(min, max): with --max-opcodes below --min-opcodes the --dir files no longer match the library or single-file mode",
 "R2A3": "fuzzer-mode gen_unit_f64 = bits / u64::MAX, exactly 1.0 for bits >= 0xFFFFFFFFFFFFFC00: needs fuzzer-bytes mode, rate 1.0 and eight gate bytes above that threshold",
}
for d in sorted(NEEDS):
    src = "%s/%s" % (SCRATCH, d)
    if not os.path.exists(src + "/patch.diff"): continue
    conf = json.load(open(src + ".confirm.json")) if os.path.exists(src + ".confirm.json") else {}
    if not conf.get("confirmed"): 
        print("not confirmed", d); continue
    sid, prop = RENAME.get(d, (d, d[:3]))
    dst = "/verif/seeded/%s" % sid
    os.makedirs(dst, exist_ok=True)
    for f in ("patch.diff", "patch.orig.diff", "demo.rs", "demo.sh", "notes.md"):
        if os.path.exists(src + "/" + f): shutil.copy(src + "/" + f, dst + "/" + f)
    det = {}
    for k in ("detect", "detect2", "detect3", "detect4", "final", "final2", "final3"):
        fp = "%s.%s.json" % (src, k)
        if os.path.exists(fp):
            try:
                r = json.load(open(fp))
                for p, v in r.items():
                    if isinstance(v, dict): det[p] = dict(verdict=v["verdict"], detail=v["detail"][:200], pass_=k)
            except Exception: pass
    meta = dict(id=sid, property=prop, what_it_needs_to_manifest=NEEDS[d],
                written_by="independent sub-agent given only the property text and a scratch worktree",
                confirmed_in_scratch_worktree=dict(existing_suite_with_patch=conf.get("suite_with_patch"),
                    demo_with_patch=conf.get("demo_with_patch"), demo_without_patch=conf.get("demo_without_patch"),
                    how=conf.get("how", "tools/seedtest.py confirm: git apply; cargo test --workspace --offline; demo with patch; git apply -R; demo without")),
                detection=det)
    json.dump(meta, open(dst + "/meta.json", "w"), indent=1)
print(len(os.listdir("/verif/seeded")))
