#!/usr/bin/env python3
"""tools/guards.py — translate `Generator::can_emit` (src/generator/validation.rs) into Lean.

The decision logic of the generator — which opcode may be emitted in which simulated state — is re-read from
/repo's working tree on every run and written to lean/PFV/GeneratedGuards.lean as `Gen.canEmitSrc`; the theorem
`Tables.canEmit_from_source` (Proofs/Guards.lean) then re-proves that it is the hand-written `canEmit` the other
theorems are about.  A guard that changes in the Rust changes `canEmitSrc`, and the equality stops being provable.

The translator understands boolean expressions over a fixed vocabulary (stack length comparisons, `is_*_at(k)`,
`has_mark`, `is_*_at_mark`, `count_items_to_mark().is_some_and(|n| ..)`, `is_callable_above_mark`, memo size,
"top is not a MARK", the three configuration flags, `proto_emitted`), `!`, `&&`, `||`, parentheses, `if/else`,
blocks with leading `if c { return false; }` guards and `let` locals.  Anything else is refused (never guessed)."""
import re, sys, os

class Refuse(Exception):
    pass

KIND = {"list": ".list", "dict": ".dict", "tuple": ".tuple", "string": ".string", "instance": ".obj", "set": ".set",
        "bytes": ".bytes", "frozenset": ".frozenSet"}

def strip_comments(src):
    src = re.sub(r"//[^\n]*", "", src)
    return re.sub(r"/\*.*?\*/", "", src, flags=re.S)

def lean_op(name):
    special = {"None": "pnone", "Global": "glob", "PersID": "persID", "BinPersID": "binPersID"}
    if name in special:
        return "." + special[name]
    return "." + name[0].lower() + name[1:]

def find_match_block(src):
    m = re.search(r"fn\s+can_emit\s*\([^)]*\)\s*->\s*bool\s*\{", src)
    if not m:
        raise Refuse("fn can_emit not found")
    i = src.index("match opcode", m.end())
    j = src.index("{", i)
    depth = 0
    for k in range(j, len(src)):
        if src[k] == "{":
            depth += 1
        elif src[k] == "}":
            depth -= 1
            if depth == 0:
                return src[j + 1:k]
    raise Refuse("unbalanced match block")

def split_arms(body):
    arms = []
    i = 0
    n = len(body)
    while True:
        while i < n and body[i] in " \t\r\n,":
            i += 1
        if i >= n:
            break
        j = body.index("=>", i)
        pat = body[i:j].strip()
        k = j + 2
        while body[k] in " \t\r\n":
            k += 1
        if body[k] == "{":
            depth = 0
            e = k
            while True:
                if body[e] == "{":
                    depth += 1
                elif body[e] == "}":
                    depth -= 1
                    if depth == 0:
                        break
                e += 1
            expr = body[k:e + 1]
            i = e + 1
        else:
            depth = 0
            e = k
            while e < n:
                ch = body[e]
                if ch in "({[":
                    depth += 1
                elif ch in ")}]":
                    depth -= 1
                elif ch == "," and depth == 0:
                    break
                e += 1
            expr = body[k:e]
            i = e + 1
        arms.append(([p.strip() for p in pat.split("|")], expr))
    return arms

CONSTS = {}

NUMRX = r"(\d+|[A-Z_][A-Z0-9_]*)"

def numval(tok):
    if tok.isdigit():
        return tok
    if tok in CONSTS:
        return CONSTS[tok]
    raise Refuse("unknown constant %s in a guard" % tok)


class P:
    """recursive descent over the whitespace-free text of one arm"""
    def __init__(self, text, env=None, cvar=None):
        self.t = re.sub(r"\s+", "", text)
        self.i = 0
        self.env = dict(env or {})
        self.cvar = cvar

    def peek(self, s):
        return self.t.startswith(s, self.i)

    def eat(self, s):
        if not self.peek(s):
            raise Refuse("expected %r at ...%s" % (s, self.t[self.i:self.i + 50]))
        self.i += len(s)

    def rx(self, pattern):
        m = re.compile(pattern).match(self.t, self.i)
        if m:
            self.i = m.end()
        return m

    def expr(self):
        a = self.and_()
        while self.peek("||"):
            self.eat("||")
            b = self.and_()
            a = "(%s || %s)" % (a, b)
        return a

    def and_(self):
        a = self.not_()
        while self.peek("&&"):
            self.eat("&&")
            b = self.not_()
            a = "(%s && %s)" % (a, b)
        return a

    def not_(self):
        if self.peek("!") and not self.peek("!="):
            self.eat("!")
            return "(!%s)" % self.not_()
        return self.atom()

    def cmp(self, lhs, op, n):
        op = {">=": "≥", "<=": "≤", "==": "=", ">": ">", "<": "<", "!=": "≠"}[op]
        return "decide (%s %s %s)" % (lhs, op, n)

    def block(self):
        self.eat("{")
        guards = []
        while True:
            save = self.i
            if self.peek("if") and not self.peek("iflet"):
                self.eat("if")
                c = self.expr()
                if self.rx(r"\{returnfalse;\}"):
                    guards.append(c)
                    continue
                self.i = save
                break
            m = self.rx(r"let(?:mut)?([a-z_][a-z0-9_]*)=")
            if m:
                nv = self.num()
                if nv is not None and self.peek(";"):
                    self.eat(";")
                    self.env[m.group(1)] = ("num", nv)
                    continue
                v = self.expr()
                self.eat(";")
                self.env[m.group(1)] = v
                continue
            break
        e = self.expr()
        self.eat("}")
        for c in reversed(guards):
            e = "(if %s then false else %s)" % (c, e)
        return e

    def num(self):
        """a numeric term: the stack depth, the memo size, or a local bound to one of them"""
        save = self.i
        if self.rx(r"self\.state\.stack(?:\.inner)?\.len\(\)"):
            return "st.length"
        if self.rx(r"self\.state\.memo\.len\(\)"):
            return "s.memo.length"
        m = self.rx(r"([a-z_][a-z0-9_]*)")
        if m and isinstance(self.env.get(m.group(1)), tuple):
            return self.env[m.group(1)][1]
        self.i = save
        return None

    def atom(self):
        save0 = self.i
        nv = self.num()
        if nv is not None:
            m = self.rx(r"(>=|<=|==|!=|>|<)(\d+)")
            if m:
                return self.cmp(nv, m.group(1), m.group(2))
            self.i = save0
        if self.rx(r"self\.state\.stack(?:\.inner)?\.is_empty\(\)"):
            return "decide (st.length = 0)"
        if self.peek("("):
            self.eat("(")
            e = self.expr()
            self.eat(")")
            return e
        if self.peek("{"):
            return self.block()
        m = self.rx(r"ifletSome\((\w+)\)=self\.peek\(\)\{!matches!\(\*\1\.borrow\(\),StackObject::Mark\)\}else\{false\}")
        if m:
            return "topNonMark st"
        if self.peek("if") and not self.peek("iflet"):
            self.eat("if")
            c = self.expr()
            a = self.block()
            self.eat("else")
            b = self.block()
            return "(if %s then %s else %s)" % (c, a, b)
        if self.rx(r"true"):
            return "true"
        if self.rx(r"false"):
            return "false"
        m = self.rx(r"self\.state\.stack\.len\(\)(>=|<=|==|!=|>|<)" + NUMRX)
        if m:
            return self.cmp("st.length", m.group(1), numval(m.group(2)))
        if self.rx(r"self\.state\.stack\.is_empty\(\)"):
            return "decide (st.length = 0)"
        m = self.rx(r"self\.is_([a-z]+)_at\((\d+)\)")
        if m:
            if m.group(1) == "callable":
                return "isCallableAt st %s" % m.group(2)
            if m.group(1) not in KIND:
                raise Refuse("unknown predicate is_%s_at" % m.group(1))
            return "isAt st %s %s" % (m.group(2), KIND[m.group(1)])
        if self.rx(r"self\.has_mark\(\)"):
            return "hasMark st"
        m = self.rx(r"self\.is_([a-z]+)_at_mark\(\)")
        if m:
            if m.group(1) not in KIND:
                raise Refuse("unknown predicate is_%s_at_mark" % m.group(1))
            return "(belowMark st == some %s)" % KIND[m.group(1)]
        if self.rx(r"self\.is_callable_above_mark\(\)"):
            return "(match aboveMark st with | some k => isCallableKind k | none => false)"
        m = self.rx(r"self\.count_items_to_mark\(\)\.is_some_and\(\|(\w+)\|")
        if m:
            sub = P("", self.env, cvar=m.group(1))
            sub.t, sub.i = self.t, self.i
            e = sub.expr()
            self.i = sub.i
            self.eat(")")
            return "(match countToMark st with | some %s => %s | none => false)" % (m.group(1), e)
        if self.cvar:
            m = self.rx(re.escape(self.cvar) + r"%(\d+)(==|!=)(\d+)")
            if m:
                return self.cmp("%s %% %s" % (self.cvar, m.group(1)), m.group(2), m.group(3))
            m = self.rx(re.escape(self.cvar) + r"(>=|<=|==|!=|>|<)(\d+)")
            if m:
                return self.cmp(self.cvar, m.group(1), m.group(2))
        if self.rx(r"self\.state\.memo\.is_empty\(\)"):
            return "s.memo.isEmpty"
        m = self.rx(r"self\.state\.memo\.len\(\)(>=|<=|==|!=|>|<)" + NUMRX)
        if m:
            return self.cmp("s.memo.length", m.group(1), numval(m.group(2)))
        m = self.rx(r"self\.peek\(\)\.is_some_and\(\|(\w+)\|!matches!\(\*\1\.borrow\(\),StackObject::Mark\)\)")
        if m:
            return "topNonMark st"
        if self.rx(r"self\.unsafe_mutations"):
            return "c.unsafeMut"
        if self.rx(r"self\.allow_ext_opcodes"):
            return "c.allowExt"
        if self.rx(r"self\.allow_buffer_opcodes"):
            return "c.allowBuf"
        if self.rx(r"self\.state\.proto_emitted"):
            return "s.protoEmitted"
        m = self.rx(r"([a-z_][a-z0-9_]*)")
        if m and m.group(1) in self.env:
            return self.env[m.group(1)]
        raise Refuse("unrecognised guard expression at ...%s" % self.t[self.i:self.i + 60])

def translate(repo, known_ops):
    src = strip_comments(open(os.path.join(repo, "src/generator/validation.rs")).read())
    CONSTS.clear()
    for m in re.finditer(r"const\s+([A-Z_][A-Z0-9_]*)\s*:\s*(?:usize|u\d+|i\d+)\s*=\s*([^;]+);", src):
        e = m.group(2)
        for k, v in (("u8::BITS", "8"), ("u16::BITS", "16"), ("u32::BITS", "32"), ("u64::BITS", "64"), ("usize::BITS", "64"),
                     ("u8::MAX", "255"), ("u16::MAX", "65535"), ("u32::MAX", "4294967295")):
            e = e.replace(k, v)
        e = re.sub(r"\bas\s+(?:usize|u\d+|i\d+)\b", "", e).replace("_", "")
        if re.fullmatch(r"[0-9\s()+\-*<>]+", e):
            try:
                CONSTS[m.group(1)] = str(int(eval(e, {"__builtins__": {}}, {})))
            except Exception:
                pass
    arms = split_arms(find_match_block(src))
    seen = {}
    lines = []
    for pats, body in arms:
        p = P(body)
        e = p.expr()
        if p.i != len(p.t):
            raise Refuse("trailing text in the arm of %s: %s" % (pats, p.t[p.i:p.i + 40]))
        for name in pats:
            if name not in known_ops:
                raise Refuse("unknown opcode in can_emit: %r" % name)
            if name in seen:
                raise Refuse("opcode %s has two arms" % name)
            seen[name] = True
        lines.append("  | %s => %s" % (" | ".join(lean_op(n) for n in pats), e))
    missing = [n for n in known_ops if n not in seen]
    if missing:
        raise Refuse("can_emit has no arm for %s" % missing)
    return lines

# ---- the helper predicates the guards are written in (src/generator/utils.rs): recognised by shape
VARIANT_KIND = {"Int": ".int", "Float": ".float", "Bool": ".bool", "None": ".pnone", "Bytes": ".bytes", "String": ".string",
                "ByteArray": ".byteArray", "List": ".list", "Tuple": ".tuple", "Dict": ".dict", "Set": ".set", "FrozenSet": ".frozenSet",
                "Mark": ".mark", "Global": ".glob", "Instance": ".obj", "Callable": ".callable", "Extension": ".extension", "Any": ".any"}
PAT = r"((?:StackObject::\w+(?:\(_\)|\{\.\.\})?\|?)+)"
SHAPES = [
    # fn is_X_at(depth): the slot `depth` below the top has one of the listed variants
    ("at", r"ifletSome\((\w+)\)=self\.peek_at\(depth\)\{matches!\(\*\1\.borrow\(\)," + PAT + r",?\)\}else\{false\}"),
    ("at", r"self\.peek_at\(depth\)\.is_some_and\(\|(\w+)\|matches!\(\*\1\.borrow\(\)," + PAT + r",?\)\)"),
    # fn is_X_at_mark(): the slot directly below the TOPMOST mark (scan from the top)
    ("belowTopMark", r"for\((\w+),(\w+)\)inself\.state\.stack\.inner\.iter\(\)\.enumerate\(\)\.rev\(\)\{ifmatches!\(\*\2\.borrow\(\),StackObject::Mark\)\{"
                     r"if\1>0\{ifletSome\((\w+)\)=self\.state\.stack\.inner\.get\(\1-1\)\{returnmatches!\(\*\3\.borrow\(\)," + PAT + r",?\);\}\}returnfalse;\}\}false"),
    # fn is_callable_above_mark(): the slot directly above the TOPMOST mark
    ("aboveTopMark", r"for\((\w+),(\w+)\)inself\.state\.stack\.inner\.iter\(\)\.enumerate\(\)\.rev\(\)\{ifmatches!\(\*\2\.borrow\(\),StackObject::Mark\)\{"
                     r"let(\w+)=\1\+1;if\3<self\.state\.stack\.inner\.len\(\)\{ifletSome\((\w+)\)=self\.state\.stack\.inner\.get\(\3\)\{returnmatches!\(\*\4\.borrow\(\)," + PAT + r",?\);\}\}returnfalse;\}\}false"),
    # fn count_items_to_mark(): number of slots above the TOPMOST mark
    ("countToTopMark", r"for\((\w+),(\w+)\)inself\.state\.stack\.inner\.iter\(\)\.rev\(\)\.enumerate\(\)\{ifmatches!\(\*\2\.borrow\(\),StackObject::Mark\)\{returnSome\(\1\);\}\}None"),
    # fn has_mark(): some slot is a mark
    ("anyMark", r"self\.state\.stack\.inner\.iter\(\)\.any\(\|(\w+)\|matches!\(\*\1\.borrow\(\),StackObject::Mark\)\)"),
    # fn peek_at(depth): the slot `depth` below the top
    ("peekAt", r"let(\w+)=self\.state\.stack\.len\(\);ifdepth<\1\{self\.state\.stack\.inner\.get\(\1-1-depth\)\}else\{None\}"),
]
HELPERS = ["peek_at", "has_mark", "is_list_at", "is_dict_at", "is_tuple_at", "is_string_at", "is_instance_at", "is_callable_at",
           "is_list_at_mark", "is_dict_at_mark", "is_set_at_mark", "is_callable_above_mark", "count_items_to_mark"]

def fn_body(src, name):
    m = re.search(r"fn\s+%s\s*\([^)]*\)\s*(?:->\s*[^{]+)?\{" % name, src)
    if not m:
        raise Refuse("helper %s not found in utils.rs" % name)
    depth = 0
    for k in range(m.end() - 1, len(src)):
        if src[k] == "{":
            depth += 1
        elif src[k] == "}":
            depth -= 1
            if depth == 0:
                return re.sub(r"\s+", "", src[m.end():k])
    raise Refuse("unbalanced body of %s" % name)

def helpers(repo):
    """[(helper, shape, [kinds])] — each helper predicate of utils.rs must have one of the known shapes"""
    src = strip_comments(open(os.path.join(repo, "src/generator/utils.rs")).read())
    out = []
    for h in HELPERS:
        body = fn_body(src, h)
        for shape, rx in SHAPES:
            m = re.fullmatch(rx, body)
            if m:
                kinds = []
                if "StackObject::" in m.group(m.lastindex or 0) if m.lastindex else False:
                    for v in re.findall(r"StackObject::(\w+)", m.group(m.lastindex)):
                        if v not in VARIANT_KIND:
                            raise Refuse("unknown variant %s in %s" % (v, h))
                        kinds.append(VARIANT_KIND[v])
                out.append((h, shape, kinds))
                break
        else:
            raise Refuse("helper %s has an unrecognised shape: %s" % (h, body[:120]))
    return out

def render(lines, hs=None):
    if hs is not None:
        extra = ("\n/-- the helper predicates of `src/generator/utils.rs` the guards are written in: (name, shape, variants matched),\n"
                 "each recognised by its exact shape (scan from the top for the TOPMOST mark, index arithmetic included) -/\n"
                 "def helpers : List (String × String × List Kind) :=\n  [" +
                 ",\n   ".join('("%s", "%s", [%s])' % (h, sh, ", ".join(ks)) for h, sh, ks in hs) + "]\n")
        return render(lines).replace("\nend Gen\nend PFV\n", extra + "\nend Gen\nend PFV\n")
    return ("/-\nGENERATED by tools/translate.py (tools/guards.py) from /repo's src/generator/validation.rs on every run — do not edit.\n"
            "`Generator::can_emit`, arm by arm, in the vocabulary of `Sim.lean`.\n-/\nimport PFV.Sim\nnamespace PFV\nnamespace Gen\n\n"
            "def canEmitSrc (c : Cfg) (s : State) (op : Op) : Bool :=\n  let st := s.stack\n  match op with\n" + "\n".join(lines) + "\n\nend Gen\nend PFV\n")

if __name__ == "__main__":
    sys.path.insert(0, os.path.dirname(os.path.abspath(__file__)))
    import translate as T
    repo = sys.argv[1] if len(sys.argv) > 1 else "/repo"
    print(render(translate(repo, T.KNOWN_OPS), helpers(repo)))
