#!/usr/bin/env python3
"""writes /verif/MANIFEST.json from the table below (kept as code so the file stays valid)"""
import json, os
V = os.path.dirname(os.path.dirname(os.path.abspath(__file__)))
NOTE = ("Trusted base: Lean 4.33.0 kernel (axioms propext, Classical.choice, Quot.sound; audited by #print axioms every run; "
        "no sorry/admit/native_decide/own axioms); the hand-written Lean model of the Rust (simulated VM, exact generator, mutators, "
        "exact ports of both entropy sources: arbitrary::Unstructured and ChaCha8Rng+rand samplers) as far as the correspondence "
        "streams reach (S1 exhaustive small states, S2 every step of real runs, S3/S4/S5 byte-exact in both entropy modes); the "
        "hypotheses FloatOK/FloatAscii/ModsOK about data outside the model, evaluated on the real data every run; the specification "
        "(Lex/Ref/Spec) as a reading of CPython pickletools (cross-checked by tools/specval.py); tools/translate.py; the harness; rustc.")
CLAIMS = {
 "C01": ("proof", "Theorem C01.accepted over the Lean model: every instruction list the (abstract, all-choices) generator can emit in safe mode is accepted by the reference stack machine, for all protocols/choices/ranges; tied to the code by S1 (exhaustive probe of can_emit/process_stack_ops/cleanup_for_stop on small states), S2 (every step of traced real runs replayed through the model) and the oracle (the same executable Spec evaluated on real outputs, both entropy modes); C01.bytes_stack_ok carries it to the bytes of the exact generator model (for every lawful entropy source, both real sources proved lawful), which S3 compares byte for byte with generate()/generate_from_arbitrary().", "§6 C01, §14", "Lean theorems + S1/S2/S3 correspondence + oracle"),
 "C02": ("proof", "Theorem C02.memo_ok: no memo violation (undefined GET, re-defined PUT, PUT on MARK/empty) in any safe-mode run of the model, memo keys dense; S1 at memo sizes 0,1,2,255,256,257; S2 incl. 3000-4000-opcode traces; C02.bytes_memo_ok on the bytes of the exact generator model (S3, both entropy modes); oracle.", "§6 C02, §14", "Lean theorems + S1/S2/S3 correspondence + oracle"),
 "C03": ("proof", "Theorem C03.typed_ok: no operand-kind violation in any safe-mode run of the model (corollary of the simulation theorem C17); C03.bytes_typed_ok on the bytes of the exact generator model (S3, both entropy modes); S1, S2, oracle with the typed family of the reference machine.", "§6 C03, §14", "Lean theorems + S1/S2/S3 correspondence + oracle"),
 "C04": ("proof", "C04.generated_bytes_well_formed: for every protocol <= 5, every configuration (all mutators, any rate, unsafe mutations and type confusion included), every lawful entropy source, the bytes the exact generator model returns satisfy Spec.wellFormed (complete decode under the pickletools table, arguments in their prescribed encoding and domain, single final STOP); built on the lexer/encoder round trip C04.lex_encode; hypotheses FloatOK/ModsOK checked on the real data on every run; tied by S3 (model = generate_from_arbitrary byte for byte), S2 and the oracle (the same Spec.wellFormed on real outputs of all mutator subsets incl. unsafe, both entropy modes).", "§6 C04, §14", "Lean end-to-end theorem + S3 exact correspondence + oracle on real outputs"),
 "C05": ("proof", "Table theorems (generated tables vs. pickletools' protocol column, re-proved whenever /repo's tables change), C05.ops_in_proto / header_ok for every run, C05.protocol0_seven_bit (every byte of a protocol-0 output of the exact generator is below 0x80, any safe mutators) and EndToEnd.bytes_ok (the decoded bytes use only opcodes of the protocol with the right header); tied by S1/S2/S3; oracle: opcode histogram, header, 7-bit check on real outputs, protocols in ascending and descending order inside one process.", "§6 C05, §14", "Lean theorems over translated tables and the exact generator + S1/S2/S3 + oracle"),
 "C06": ("proof", "C06.* theorems on the header/back-patch model; oracle re-derives the FRAME length from the final bytes for every configuration incl. unsafe.", "§6 C06", "Lean theorem + oracle"),
 "C10": ("proof", "C10.optin: no EXT*/buffer instruction unless enabled, from canEmit, the int-like and type-confusion replacement sets, header and tail; S1 for the guards; oracle over the four flag combinations incl. unsafe.", "§6 C10", "Lean theorem + S1 + oracle"),
 "C11": ("proof", "C11.exact_counts / C11.decoded_counts for every configuration of the exact generator: min <= T (< max, or = min when max <= min), exactly one instruction per iteration (bodyLen = T: candidate list never empty, SHORT_* length guards dead because payloads stay <= 71 bytes through every mutator, GET always finds key 0), tail <= 2T+1, decoded length between min+1 and 3*max(min,max)+4; C11.counts for abstract runs; S2 compares target/body/tail of real runs with the model, S3 ties the exact model byte for byte; oracle checks the decoded length bounds.", "§6 C11, §14", "Lean theorems + S2/S3 correspondence + oracle"),
 "C17": ("proof", "C17.step_sim / run_sim: every guarded step of the simulated VM is accepted by the reference machine and preserves the kind-compatibility relation; S1 (complete to depth) and S2 (every step of real runs) tie model to code.", "§6 C17", "Lean refinement theorem + S1/S2 correspondence"),
}
CLAIMS.update({
 "C08": ("proof", "C08.* theorems on the generator-object model (generate_internal resets its scratch state first, so the result is a function of configuration and this call's input for every history) plus stream S6: call histories (generate / generate_from_arbitrary / reset, mixed inputs, the PickleMutator pattern) on one real generator compared with a fresh one; S3 ties the model of one call to the code byte for byte.", "§6 C08", "Lean theorem on the generator-object model + S6 history correspondence + S3"),
 "C09": ("proof", "C09.total over the exact generator model: for every lawful entropy source and every configuration the model returns Ok with non-empty bytes, i.e. none of the modelled panic sites is reachable and all loops terminate; tied by S3 (byte-exact agreement with generate_from_arbitrary — exhaustive for inputs of length <= 1 quick / <= 2 thorough — and with seeded generate() through the ChaCha8 port), S4/S5 (no panic in mutators/adapters) and the oracle (every generation call returns a pickle). Native stack exhaustion / allocator failure are observed, not modelled (partial).", "§6 C09", "Lean totality theorem + S3 exact correspondence + oracle"),
 "C15": ("proof", "C15.rate0 / C15.rate1 on the mutator model with the IEEE comparison on bit patterns, for every entropy source; S4 calls every real mutator at rate 0.0/1.0 in both entropy modes (incl. empty/exhausted input) and S2 counts applied mutations of whole generations at rate 0.", "§6 C15", "Lean theorems + S4 correspondence (exact in fuzzer-bytes mode)"),
 "C16": ("proof", "C16.* contract theorems per mutator for all values and all lawful entropy sources; S4: the contract predicates evaluated on the real mutators' results (boundaries exhaustively) and exact agreement with the model in fuzzer-bytes mode.", "§6 C16", "Lean theorems + S4 correspondence"),
 "C18": ("proof", "C18.arb_lawful and C18.rand_lawful: the exact ports of BOTH entropy sources — arbitrary::Unstructured, and ChaCha8Rng::seed_from_u64 with rand 0.9's samplers (widening multiply + bias correction, BlockRng word/dword reads, try_fill_bytes) — satisfy the whole entropy contract for every source state (every remaining-bytes string; every generator state, whatever words the block function yields); table theorem for ASCII_CHARS; exhausted-input fallbacks; S5: every adapter draw of both real sources on a grid must equal its port exactly (exhaustive for inputs of length <= 1 quick / <= 2 thorough; fresh ChaCha generators over sampled seeds).", "§6 C18, §14", "Lean theorems on the exact ports of both sources + S5 exact correspondence"),
})
CLAIMS.update({
 "C07": ("proof", "Proved: C07.keys_order_irrelevant (the only iteration over an unordered structure is followed by a sort, so any hash-iteration order gives the same key list) and the model's generation being a function of (configuration, entropy) by construction; S3 shows fuzzer-bytes generation equals that model byte for byte. The runtime residue a model cannot exhibit (OS randomness, clock, addresses, thread identity in the compiled Rust) is observed: identical outputs across freshly spawned processes (new hash seeds / ASLR), a case alone vs inside a long-lived process, and 16 threads generating concurrently vs sequentially. Partial in the sense of DESIGN §6 C07.", "§6 C07", "Lean theorem (order independence) + S3 exact correspondence + multi-process / multi-thread comparison"),
 "C12": ("proof", "C12.all_reachable: for every protocol and every opcode of the translated table a witness path of guarded steps from the empty state after which the opcode's guard holds (decide; re-proved whenever /repo's tables change); S1 ties the guards to the code. The 'for some seed with default settings' half is an existential over a concrete PRNG and is decided on the implementation: cached witness seeds re-run first, then seeds 0..1999 (quick) / 0..49999 (thorough), framed and unframed for P>=4.", "§6 C12", "Lean reachability theorem over translated tables + S1 + witness-seed search on the implementation"),
})
CLAIMS.update({
 "C13": ("proof", "C13.* theorems on the option-plumbing model (cli_forwards: the generator main.rs builds equals the one the documented options denote, for all option combinations and seeds; protocol_from_seed; all_expands; batch_names; py_setter_preserves; mutate_trunc; pre-repair counterexamples kept). S7 ties it to the real artefacts: the built binary in single-file and batch mode (RAYON_NUM_THREADS 1/2/16; exactly 0.pkl..N-1.pkl, exit status), scripts/action-run.sh with the real binary, and the _native extension built with --features python-bindings (constructor -> set_opcode_range -> generate / generate_from_bytes / PickleMutator.mutate, with warm-up calls) — every file / returned byte string compared with the Rust library called with the denoted configuration. clap, rayon and PyO3 themselves are exercised, not modelled.", "§6 C13", "Lean theorems on the plumbing model + S7 end-to-end comparison with the library"),
})
CLAIMS.update({
 "C14": ("proof", "Proved on an abstract reference-counting heap (cells numbered by age): the arena invariant (an edge that does not point to a strictly older cell starts at a cell created by Stack::push) holds initially and is preserved by allocation and by in-place mutation of arena cells; after Stack::reset/Drop has emptied the arena cells every edge points to an older cell, so no set of cells can keep itself alive (C14.all_reclaimed); the pre-repair behaviour has a self-sustaining set (C14.legacy_cycle_leaks). Carried to the opcode level by the object model Obj.lean (which cell every arm of process_stack_ops allocates, aliases, mutates in place or drops; memo and stack as cell identities): every run of it, for any opcodes and arguments, is a program of the abstract machine (C14.obj_run_is_machine_program), hence C14.obj_all_reclaimed and C14.obj_stack_cells_registered; its projection to slot kinds is the simulated VM of the other properties (C14.obj_refines_sim, when listed in the evidence). Tie: stream S10 compares the model's live object graph (kinds, push-registered flags, strong counts, children, stack and memo identities) with the implementation's before every opcode and at the end of real runs and of ~800 cycle-closing plans; the translator's syntactic site check (in-place mutation sites all on stack cells; push registers, reset and Drop release) is kept. The allocator itself is observed, not modelled: stream S8 measures live heap bytes with a counting global allocator before constructing and after dropping a generator for thousands of cases incl. reset + regeneration, cycle plans and deep nesting. Partial in the sense of DESIGN §6 C14.", "§6 C14, §21", "Lean theorems on a refcount heap and on the opcode-level object model + S10 object-graph correspondence + translator site check + S8 allocator accounting"),
})
PENDING = {
 "C07": "check under construction in this session (purity/determinism; model + multi-process comparison)",
 "C08": "check under construction in this session (generator reuse; history model + S6)",
 "C09": "check under construction in this session (totality; exact generator model + S3)",
 "C12": "check under construction in this session (reachability witnesses + seed search)",
 "C13": "check under construction in this session (front ends; plumbing model + S7)",
 "C14": "check under construction in this session (heap model + allocator accounting)",
 "C15": "check under construction in this session (rate gate on IEEE bit patterns + S4/S5)",
 "C16": "check under construction in this session (mutator contracts + S4)",
 "C18": "check under construction in this session (entropy adapters; exact Unstructured port + S5)",
}
import importlib.util
def main():
    checks = []
    for pid, (cat, text, ref, tech) in sorted(CLAIMS.items()):
        checks.append(dict(property_id=pid,
            quick_cmd="python3 check.py %s --tier quick" % pid,
            thorough_cmd="python3 check.py %s --tier thorough" % pid,
            evidence_file="/verif/evidence/%s.json" % pid,
            replay_cmd_template="python3 check.py --replay {path}",
            engine="pfv",
            level_claimed=dict(category=cat, text=text, design_ref="DESIGN.md " + ref),
            level_note=NOTE, technique=tech))
    m = dict(version=1,
        setup_cmd="python3 check.py setup",
        hooks=dict(guard="cargo feature verif-hooks", enable="the harness crate /verif/harness depends on /repo by path with features=[\"verif-hooks\"]; cargo build --release --offline in /verif/harness",
                   baseline_off_cmd="cd /repo && cargo test --workspace --no-fail-fast --offline",
                   source_commits=HOOK_COMMITS, add_only=True),
        engines=[dict(name="pfv", path="/verif/check.py", serves_properties=sorted(CLAIMS),
                      kind_free_text="Lean 4 model + theorems (lake project /verif/lean), table translator, Rust correspondence harness, native Lean driver evaluating the executable specification on real outputs")],
        checks=checks,
        notes="See DESIGN.md. Fixed defects and open findings: KNOWN_FINDINGS.txt.",
        not_applicable=[dict(property_id=k, reason=v) for k, v in sorted(PENDING.items()) if k not in CLAIMS])
    json.dump(m, open(os.path.join(V, "MANIFEST.json"), "w"), indent=1)
HOOK_COMMITS = ["07a43bf", "b01a4be", "07688ba", "c6926b2"]
if __name__ == "__main__":
    main()
