#!/usr/bin/env python3
"""Evaluate seeded changes (realistic property-breaking patches written by independent sub-agents).

  seedtest.py confirm <src-dir> <worktree>     # patch keeps the suite green; demo fails with it, passes without
  seedtest.py detect <seed-dir> [props...]     # apply to /repo, run the quick checks, undo; prints verdicts
  seedtest.py keep <src-dir> <id> <property>   # copy into /verif/seeded/<id>/ with meta.json

Nothing is ever committed to /repo; the patch is applied with `git apply` and undone with
`git checkout -- . && git clean` straight afterwards (also on failure).
"""
import sys, os, subprocess, json, shutil, time, re

VERIF = os.path.dirname(os.path.dirname(os.path.abspath(__file__)))
REPO = os.environ.get("VERIF_REPO", "/repo")
ENV = dict(os.environ, CARGO_NET_OFFLINE="true")


def sh(cmd, cwd=None, timeout=3000, env=None):
    p = subprocess.run(cmd, cwd=cwd, shell=isinstance(cmd, str), stdout=subprocess.PIPE, stderr=subprocess.STDOUT,
                       text=True, timeout=timeout, env=env or ENV)
    return p.returncode, p.stdout


def clean(wt):
    sh("git checkout -q -- . && git clean -fdq -- src tests python scripts", cwd=wt)


def confirm(src, wt):
    name = os.path.basename(src.rstrip("/"))
    env = dict(ENV, CARGO_TARGET_DIR=os.path.join(wt, "target"))
    res = dict(id=name)
    clean(wt)
    patch = os.path.join(src, "patch.diff")
    rc, out = sh(["git", "apply", "--check", patch], cwd=wt)
    res["applies"] = rc == 0
    if rc != 0:
        res["error"] = out[-300:]
        return res
    sh(["git", "apply", patch], cwd=wt)
    rc, out = sh("cargo test --workspace --no-fail-fast --offline 2>&1 | grep -E '^test result|FAILED|^error' ", cwd=wt, env=env)
    passed = sum(int(m) for m in re.findall(r"(\d+) passed", out))
    failed = sum(int(m) for m in re.findall(r"(\d+) failed", out)) + out.count("error")
    res["suite_with_patch"] = dict(passed=passed, failed=failed)
    demo = os.path.join(src, "demo.rs")
    tname = "demo_" + name
    shutil.copy(demo, os.path.join(wt, "tests", tname + ".rs"))
    release = "--release" if "--release" in open(demo).read() or (os.path.exists(os.path.join(src, "notes.md")) and "--release" in open(os.path.join(src, "notes.md")).read()) else ""
    cmd = "cargo test --offline %s --features verif-hooks --test %s 2>&1 | grep -E '^test result|panicked|^error' | head -5" % (release, tname)
    rc, out = sh(cmd, cwd=wt, env=env, timeout=3000)
    res["demo_with_patch"] = "FAILS" if ("FAILED" in out or "panicked" in out or "failed" in out and "0 failed" not in out) else ("passes" if "test result: ok" in out else "?: " + out[-200:])
    sh(["git", "apply", "-R", patch], cwd=wt)
    rc, out = sh(cmd, cwd=wt, env=env, timeout=3000)
    res["demo_without_patch"] = "passes" if ("test result: ok" in out and "FAILED" not in out) else "FAILS: " + out[-200:]
    clean(wt)
    res["confirmed"] = (res["suite_with_patch"]["failed"] == 0 and res["suite_with_patch"]["passed"] >= 61
                        and res["demo_with_patch"] == "FAILS" and res["demo_without_patch"] == "passes")
    return res


def detect(seed_dir, props):
    patch = os.path.join(seed_dir, "patch.diff")
    rc, out = sh(["git", "status", "--porcelain"], cwd=REPO)
    if out.strip():
        return dict(error="/repo is not clean: " + out[:200])
    res = {}
    # evidence files describe runs on the unchanged tree: keep them out of the way while a seed is applied
    ev = os.path.join(VERIF, "evidence")
    bak = os.path.join(VERIF, "build", "evidence.bak")
    shutil.rmtree(bak, ignore_errors=True)
    if os.path.isdir(ev):
        shutil.copytree(ev, bak)
    rc, out = sh(["git", "apply", patch], cwd=REPO)
    if rc != 0:
        return dict(error="patch does not apply to /repo: " + out[-300:])
    try:
        for p in props:
            t0 = time.time()
            rc, out = sh([sys.executable, os.path.join(VERIF, "check.py"), p, "--tier", "quick"], cwd=VERIF, timeout=3000)
            lines = [l for l in out.split("\n") if l.startswith("VIOLATION") or l.startswith("KNOWN-FINDING")]
            kind = "silent"
            if any("no-failing-input-found" in l for l in lines):
                kind = "violation(no-failing-input-found)"
            if any(l.startswith("VIOLATION") and "no-failing-input-found" not in l for l in lines):
                kind = "VIOLATION(failing input)"
            detail = ""
            for l in lines[:1]:
                m = re.search(r"replay=(\S+)", l)
                if m and os.path.exists(m.group(1)):
                    b = json.load(open(m.group(1)))
                    detail = (b.get("observed") or json.dumps(b.get("no_longer_checks", ""))[:300])
            res[p] = dict(rc=rc, verdict=kind, detail=str(detail)[:300], wall=round(time.time() - t0, 1))
    finally:
        sh("git checkout -q -- . && git clean -fdq -- src tests python scripts", cwd=REPO)
        if os.path.isdir(bak):
            shutil.rmtree(ev, ignore_errors=True)
            shutil.copytree(bak, ev)
        # rebuild artefacts against the clean tree are refreshed by the next check run
    return res


def main():
    cmd = sys.argv[1]
    if cmd == "confirm":
        print(json.dumps(confirm(sys.argv[2], sys.argv[3]), indent=1))
    elif cmd == "detect":
        print(json.dumps(detect(sys.argv[2], sys.argv[3:]), indent=1))
    elif cmd == "keep":
        src, sid, prop = sys.argv[2], sys.argv[3], sys.argv[4]
        dst = os.path.join(VERIF, "seeded", sid)
        os.makedirs(dst, exist_ok=True)
        for f in os.listdir(src):
            if os.path.isfile(os.path.join(src, f)):
                shutil.copy(os.path.join(src, f), os.path.join(dst, f))
        meta = dict(id=sid, property=prop)
        mp = os.path.join(dst, "meta.json")
        if os.path.exists(mp):
            meta.update(json.load(open(mp)))
        json.dump(meta, open(mp, "w"), indent=1)


if __name__ == "__main__":
    main()
