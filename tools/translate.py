#!/usr/bin/env python3
"""Translator: re-extracts, from /repo's working tree, the data the model is parameterised by
and writes /verif/lean/PFV/Generated.lean.  It refuses (exit 3, message on stderr) rather than
guesses when a source shape is not the one it knows; the caller maps that to a broken proof
obligation.  Usage: translate.py [--repo /repo] [--out FILE] [--check] """
import re, sys, os, struct, argparse, json

KNOWN_OPS = ["Int","BinInt","BinInt1","BinInt2","Long","Long1","Long4","String","BinString",
 "ShortBinString","BinBytes","ShortBinBytes","BinBytes8","ByteArray8","NextBuffer","ReadOnlyBuffer",
 "None","NewTrue","NewFalse","Unicode","ShortBinUnicode","BinUnicode","BinUnicode8","Float","BinFloat",
 "EmptyList","Append","Appends","List","EmptyTuple","Tuple","Tuple1","Tuple2","Tuple3","EmptyDict","Dict",
 "SetItem","SetItems","EmptySet","AddItems","FrozenSet","Pop","Dup","Mark","PopMark","Get","BinGet",
 "LongBinGet","Put","BinPut","LongBinPut","Memoize","Ext1","Ext2","Ext4","Global","StackGlobal","Reduce",
 "Build","Inst","Obj","NewObj","NewObjEx","Proto","Stop","Frame","PersID","BinPersID"]
KNOWN_KINDS = ["Int","Float","Bool","None","Bytes","String","ByteArray","List","Tuple","Dict","Set",
 "FrozenSet","Mark","Global","Instance","Callable","Extension","Any"]
KNOWN_MUTS = ["Bitflip","Boundary","Offbyone","Stringlen","Character","Memoindex","Typeconfusion"]

TABLES_FILE = [None]
CACHE = [{}]
CACHE_KEYS = {"ascii": ["ascii"], "boundaries": ["b_int", "b_long", "b_float"], "typeconfusion": ["o2t", "all_types", "stack_types"],
              "defaults": ["def_min", "def_max", "def_rate"], "all_mutators": ["all_safe", "all_unsafe_extra"],
              "guards": ["guards_lines"], "helpers": ["helpers_list"]}


sys.path.insert(0, os.path.dirname(os.path.abspath(__file__)))


class Refuse(Exception):
    pass

def lean_op(name):
    if name == "None": return ".pnone"
    if name == "Global": return ".glob"
    return "." + name[0].lower() + name[1:]

def strip_comments(src):
    src = re.sub(r"//[^\n]*", "", src)
    return src

def enum_variants(src, enum_name):
    m = re.search(r"pub enum %s\s*\{(.*?)\n\}" % enum_name, src, re.S)
    if not m: raise Refuse("enum %s not found" % enum_name)
    body = strip_comments(m.group(1))
    body = re.sub(r"#\[[^\]]*\]", "", body)
    names = []
    depth = 0
    tok = ""
    for ch in body:
        if ch in "({": depth += 1
        elif ch in ")}": depth -= 1
        elif ch == "," and depth == 0:
            t = tok.strip()
            if t:
                names.append(re.match(r"[A-Za-z0-9_]+", t).group(0))
            tok = ""
            continue
        if depth == 0 or ch in "({": tok += ch if depth == 0 else ""
    t = tok.strip()
    if t: names.append(re.match(r"[A-Za-z0-9_]+", t).group(0))
    return names

def extract(repo):
    R = {}
    opc = open(os.path.join(repo, "src/opcodes.rs")).read()
    ops = enum_variants(opc, "OpcodeKind")
    if ops != KNOWN_OPS:
        raise Refuse("OpcodeKind variants changed: %r" % (sorted(set(ops) ^ set(KNOWN_OPS)) or "order"))
    def from_source():
        m = re.search(r"pub fn as_u8\(self\) -> u8 \{\s*match self \{(.*?)\n        \}", opc, re.S)
        if not m: raise Refuse("as_u8 not found")
        arms = re.findall(r"OpcodeKind::(\w+)\s*=>\s*(0x[0-9a-fA-F]+|\d+|b'(?:\\.|[^'\\])')\s*,", strip_comments(m.group(1)))
        if [a for a, _ in arms] != KNOWN_OPS: raise Refuse("as_u8 arms do not cover OpcodeKind in order")
        def lit(v):
            if v.startswith("b'"):
                body = v[2:-1]
                esc = {"\\n": 10, "\\t": 9, "\\r": 13, "\\\\": 92, "\\'": 39, "\\0": 0}
                return esc[body] if body in esc else ord(body)
            return int(v, 0)
        as_u8 = [(a, lit(v)) for a, v in arms]
        m = re.search(r"pub static PICKLE_OPCODES[^=]*=\s*phf_map!\s*\{(.*?)\n\};", opc, re.S)
        if not m: raise Refuse("PICKLE_OPCODES not found")
        body = strip_comments(m.group(1))
        tabs = re.findall(r"(\d+)_u8\s*=>\s*&\[(.*?)\]", body, re.S)
        if [int(k) for k, _ in tabs] != [0,1,2,3,4,5]: raise Refuse("PICKLE_OPCODES keys are not 0..5")
        tables = []
        for k, t in tabs:
            names = re.findall(r"OpcodeKind::(\w+)", t)
            rest = re.sub(r"OpcodeKind::\w+", "", t)
            if rest.replace(",", "").strip(): raise Refuse("unexpected tokens in table %s" % k)
            for n in names:
                if n not in KNOWN_OPS: raise Refuse("unknown opcode %s in table" % n)
            tables.append(names)
        return as_u8, tables
    try:
        R["as_u8"], R["tables"] = from_source()
        R["tables_from"] = "source"
    except Refuse as e:
        # the source shape was not recognised (a refactoring of opcodes.rs): fall back to what the compiled code says
        # (`pfv-harness tables`, i.e. OpcodeKind::as_u8 and PICKLE_OPCODES evaluated by the real code through the hooks)
        if not TABLES_FILE[0] or not os.path.exists(TABLES_FILE[0]):
            raise
        codes, tabs = {}, {}
        for l in open(TABLES_FILE[0]).read().split("\n"):
            t = l.split(" ")
            if t[0] == "opcode" and len(t) == 3:
                codes[t[1]] = int(t[2], 16)
            elif t[0] == "table" and len(t) == 3:
                tabs[int(t[1])] = [int(t[2][i:i + 2], 16) for i in range(0, len(t[2]), 2)]
        if sorted(codes) != sorted(KNOWN_OPS) or sorted(tabs) != [0, 1, 2, 3, 4, 5]:
            raise Refuse("%s; and the compiled tables do not have the expected shape either" % e)
        by_code = {v: k for k, v in codes.items()}
        if len(by_code) != len(codes):
            raise Refuse("%s; and as_u8 is not injective in the compiled code" % e)
        R["as_u8"] = [(a, codes[a]) for a in KNOWN_OPS]
        R["tables"] = [[by_code[b] for b in tabs[k]] for k in range(6)]
        R["tables_from"] = "compiled code (source shape not recognised: %s)" % e
        sys.stderr.write("translate: tables taken from the compiled code: %s\n" % e)
    stk = open(os.path.join(repo, "src/stack.rs")).read()
    kinds = enum_variants(stk, "StackObject")
    if kinds != KNOWN_KINDS: raise Refuse("StackObject variants changed: %r" % kinds)
    # The sections below read constants out of files whose *shape* a harmless refactoring may change.  When a section is
    # not recognised, the values of the last recognised extraction (tools/translate_cache.json, written with
    # --update-cache on the unchanged tree) are used and the section is reported as SOFT-REFUSED together with the
    # properties it concerns: those properties then rest on the correspondence streams alone (S4/S5/S7 compare every
    # constant's effect with the real code), the others are not affected.
    R["soft_refused"] = []
    def soft(name, props, keys, fn):
        try:
            fn()
            return
        except (Refuse, AttributeError, IndexError, KeyError, ValueError, TypeError) as ex:
            cached = CACHE[0].get(name)
            if not cached or any(k not in cached for k in keys):
                raise Refuse("%s (section %s; no cached values)" % (ex, name))
            for k in keys:
                R[k] = cached[k]
            R["soft_refused"].append((name, props, str(ex)))
    def sec_ascii():
        srcrs = open(os.path.join(repo, "src/generator/source.rs")).read()
        m = re.search(r'const ASCII_CHARS: &\[u8\] = b"((?:[^"\\]|\\.)*)";', srcrs)
        if not m: raise Refuse("ASCII_CHARS not found")
        raw = m.group(1)
        out = []; i = 0
        while i < len(raw):
            if raw[i] == "\\":
                c = raw[i+1]
                if c in '\\"': out.append(ord(c)); i += 2
                elif c == "n": out.append(10); i += 2
                elif c == "t": out.append(9); i += 2
                elif c == "x": out.append(int(raw[i+2:i+4], 16)); i += 4
                else: raise Refuse("unknown escape in ASCII_CHARS")
            else:
                out.append(ord(raw[i])); i += 1
        R["ascii"] = out
    def sec_boundaries():
        # boundary tables
        bnd = open(os.path.join(repo, "src/mutators/boundary.rs")).read()
        def boundaries(fn):
            m = re.search(r"fn %s\(.*?let \w+(?:\s*:[^=]+)?\s*=\s*\[(.*?)\];" % fn, bnd, re.S)
            if not m: raise Refuse("boundaries of %s not found" % fn)
            return [x.strip() for x in strip_comments(m.group(1)).split(",") if x.strip()]
        def ival(tok, bits):
            t = {"i32::MAX": 2**31-1, "i32::MIN": -2**31, "i64::MAX": 2**63-1, "i64::MIN": -2**63}
            if tok in t: return t[tok]
            try: return int(tok)
            except ValueError: raise Refuse("unknown integer boundary %s" % tok)
        def fval(tok):
            t = {"f64::MAX": 0x7FEFFFFFFFFFFFFF, "f64::MIN": 0xFFEFFFFFFFFFFFFF, "f64::INFINITY": 0x7FF0000000000000,
                 "f64::NEG_INFINITY": 0xFFF0000000000000, "f64::NAN": 0x7FF8000000000000,
                 "f64::MIN_POSITIVE": 0x0010000000000000, "f64::EPSILON": 0x3CB0000000000000}
            if tok in t: return t[tok]
            try: return struct.unpack("<Q", struct.pack("<d", float(tok)))[0]
            except ValueError: raise Refuse("unknown float boundary %s" % tok)
        R["b_int"] = [ival(x, 32) for x in boundaries("mutate_int")]
        R["b_long"] = [ival(x, 64) for x in boundaries("mutate_long")]
        R["b_float"] = [fval(x) for x in boundaries("mutate_float")]
    def sec_typeconf():
        # type confusion: opcode byte -> pushed type
        tc = open(os.path.join(repo, "src/mutators/typeconfusion.rs")).read()
        m = re.search(r"fn opcode_to_type\(opcode_byte: u8\) -> Option<StackType> \{.*?match opcode_byte \{(.*?)\n        \}", tc, re.S)
        if not m: raise Refuse("opcode_to_type not found")
        body = strip_comments(m.group(1))
        o2t = []
        for pat, res in re.findall(r"((?:0x[0-9a-fA-F]+\s*\|?\s*)+)=>\s*Some\(StackType::(\w+)\)", body):
            for b in re.findall(r"0x[0-9a-fA-F]+", pat):
                o2t.append((int(b, 16), res))
        if not re.search(r"_\s*=>\s*None", body): raise Refuse("opcode_to_type has no default None arm")
        R["o2t"] = o2t
        m = re.search(r"let all_types = \[(.*?)\];", tc, re.S)
        if not m: raise Refuse("all_types not found")
        R["all_types"] = re.findall(r"StackType::(\w+)", m.group(1))
        st = enum_variants(tc, "StackType") if re.search(r"pub enum StackType", tc) else None
        m = re.search(r"enum StackType\s*\{(.*?)\}", tc, re.S)
        R["stack_types"] = [x.strip() for x in strip_comments(m.group(1)).split(",") if x.strip()]
    def sec_defaults():
        # generator defaults
        gm = open(os.path.join(repo, "src/generator/mod.rs")).read()
        m = re.search(r"impl Default for Generator \{.*?Self \{(.*?)\}\s*\}\s*\}", gm, re.S)
        if not m: raise Refuse("Generator::default not found")
        d = dict(re.findall(r"(\w+):\s*([^,\n]+),", m.group(1)))
        try:
            R["def_min"] = int(d["min_opcodes"]); R["def_max"] = int(d["max_opcodes"])
            R["def_rate"] = struct.unpack("<Q", struct.pack("<d", float(d["mutation_rate"])))[0]
            for k in ("unsafe_mutations", "allow_ext_opcodes", "allow_buffer_opcodes"):
                if d[k].strip() != "false": raise Refuse("default %s is not false" % k)
            if d["mutators"].strip() != "Vec::new()": raise Refuse("default mutators not empty")
        except KeyError as e:
            raise Refuse("Generator::default misses %s" % e)
    def sec_all_mutators():
        # all_mutators
        mm = open(os.path.join(repo, "src/mutators/mod.rs")).read()
        m = re.search(r"pub fn all_mutators\(unsafe_mutations: bool\) -> Vec<MutatorKind> \{\s*let mut mutators = vec!\[(.*?)\];(.*?)\n    \}", mm, re.S)
        if not m: raise Refuse("all_mutators not found")
        R["all_safe"] = re.findall(r"MutatorKind::(\w+)", m.group(1))
        extra = re.search(r"if unsafe_mutations \{(.*?)\}", m.group(2), re.S)
        R["all_unsafe_extra"] = re.findall(r"MutatorKind::(\w+)", extra.group(1)) if extra else []
        for n in R["all_safe"] + R["all_unsafe_extra"]:
            if n not in KNOWN_MUTS: raise Refuse("unknown mutator kind %s" % n)
    soft("ascii", ["C18", "C04", "C05", "C16"], ["ascii"], sec_ascii)
    soft("boundaries", ["C16", "C15"], ["b_int", "b_long", "b_float"], sec_boundaries)
    soft("typeconfusion", ["C16"], ["o2t", "all_types", "stack_types"], sec_typeconf)
    soft("defaults", ["C13", "C12"], ["def_min", "def_max", "def_rate"], sec_defaults)
    soft("all_mutators", ["C13"], ["all_safe", "all_unsafe_extra"], sec_all_mutators)
    # the decision logic itself: `Generator::can_emit`, arm by arm (tools/guards.py) -> GeneratedGuards.lean;
    # `Tables.canEmit_from_source` re-proves on every run that it is the hand-written `canEmit`
    def sec_guards():
        import guards as G
        try:
            R["guards_lines"] = G.translate(repo, KNOWN_OPS)
        except G.Refuse as ex:
            raise Refuse(str(ex))
    soft("guards", ["C01", "C02", "C03", "C05", "C10", "C11", "C12", "C17"], ["guards_lines"], sec_guards)
    # ... and the helper predicates those guards are written in (utils.rs), recognised by their exact shape
    def sec_helpers():
        import guards as G
        try:
            R["helpers_list"] = [[h, sh, ks] for h, sh, ks in G.helpers(repo)]
        except G.Refuse as ex:
            raise Refuse(str(ex))
    soft("helpers", ["C01", "C02", "C03", "C05", "C10", "C11", "C12", "C17"], ["helpers_list"], sec_helpers)
    # C14: every in-place mutation site works on a stack cell (bound by self.peek() / self.pop()), and
    # Stack::push registers the cell it creates; reset and Drop release the registered cells.
    # A refusal in this section concerns C14 only: it is recorded (R["heap_refused"]) instead of aborting the
    # translation, so that the other properties' obligations are still checked.
    heap_refused = []
    so = open(os.path.join(repo, "src/generator/stack_ops.rs")).read().split("\n")
    sites = []
    for i, l in enumerate(so):
        m = re.search(r"\*(\w+)\.borrow_mut\(\)", l)
        if m:
            var = m.group(1)
            window = "\n".join(so[max(0, i - 30):i])
            origin = None
            if re.search(r"Some\(%s\)\s*=\s*self\.peek\(\)" % var, window): origin = "peek"
            elif re.search(r"Some\(%s\)\)?\s*=\s*\(?self\.pop\(\)" % var, window) or re.search(r"\(Some\(\w+\), Some\(%s\)\) = \(self\.pop\(\), self\.pop\(\)\)" % var, window): origin = "pop"
            if origin is None:
                heap_refused.append("in-place mutation at stack_ops.rs:%d on `%s`, which is not bound by self.peek()/self.pop()" % (i + 1, var))
                origin = "unknown"
            sites.append((i + 1, var, origin))
    other = []
    for root, _, files in os.walk(os.path.join(repo, "src")):
        for fn in files:
            if fn.endswith(".rs") and fn not in ("stack_ops.rs", "verif.rs", "stack.rs"):
                txt = open(os.path.join(root, fn)).read()
                if "borrow_mut()" in txt:
                    other.append(fn)
    if other:
        heap_refused.append("borrow_mut() outside stack_ops.rs / stack.rs: %s" % other)
    stk2 = strip_comments(stk)
    push = re.search(r"pub fn push\(&mut self, value: StackObject\) \{(.*?)\n    \}", stk2, re.S)
    if not push or not re.search(r"self\.cells\.push\(", push.group(1)) or "Rc::downgrade(" not in push.group(1):
        heap_refused.append("Stack::push does not register the new cell in the arena")
    elif re.search(r"\b(if|match|while|for|return)\b|\?", push.group(1)):
        heap_refused.append("Stack::push registers the new cell only conditionally (control flow in its body)")
    rst = re.search(r"pub fn reset\(&mut self\) \{(.*?)\n    \}", stk2, re.S)
    drp = re.search(r"impl Drop for Stack \{(.*?)\n\}", stk2, re.S)
    if not rst or "release_cells()" not in rst.group(1) or not drp or "release_cells()" not in drp.group(1):
        heap_refused.append("Stack::reset / Drop do not release the arena cells")
    # (I1) every cell that reaches the simulated stack is created by Stack::push (registered in the arena) or is
    # an alias of a cell already on the stack (DUP): no other code may write into `Stack::inner`
    for root, _, files in os.walk(os.path.join(repo, "src")):
        for fn in sorted(files):
            if not fn.endswith(".rs") or fn == "verif.rs":
                continue
            lines = strip_comments(open(os.path.join(root, fn)).read()).split("\n")
            for i, l in enumerate(lines):
                if not re.search(r"\binner\s*\.\s*(push|insert|extend|append|splice|resize|swap|truncate_and_push)\s*\(|\binner\s*=[^=]|mem::(swap|replace)\([^)]*inner", l):
                    continue
                window = "\n".join(lines[max(0, i - 12):i + 1])
                if fn == "stack.rs" and re.search(r"pub fn push\(&mut self, value: StackObject\)", window) and "self.inner.push(cell)" in l:
                    continue
                m = re.search(r"inner\.push\((\w+)\.clone\(\)\)", l)
                if fn == "stack_ops.rs" and m and re.search(r"Some\(%s\)\s*=\s*self\.peek\(\)" % m.group(1), window):
                    continue        # DUP: alias of the top cell
                if fn == "stack.rs" and re.search(r"inner:\s*self\.inner\.clone\(\)|inner\.clear\(\)", l):
                    continue
                # the DUP arm written with locals (`let copy = top.clone(); ... inner.push(copy)`): still an alias of the cell
                # `self.peek()` returned; what reaches the stack is checked cell by cell by S10/S11 and proved of the model
                # (C14.obj_stack_cells_registered), so the syntactic check need not insist on one spelling
                m2 = re.search(r"inner\.push\((\w+)\)", l)
                if fn == "stack_ops.rs" and m2 and re.search(r"\bDup\s*=>", window) and "self.peek()" in window and \
                        re.search(r"let\s+%s\s*=\s*\w+\.clone\(\)" % m2.group(1), window):
                    continue
                heap_refused.append("%s:%d writes into Stack::inner other than through Stack::push / DUP: `%s`" % (fn, i + 1, l.strip()[:80]))
    R["heap_refused"] = heap_refused
    R["mut_sites"] = sites
    # module table facts
    data = open(os.path.join(repo, "data/stdlib_complete.txt"), "rb").read()
    lines = data.decode("utf-8", "replace").splitlines()     # Rust str::lines()
    R["mods_n"] = len(lines)
    R["mods_ok"] = all(l and all(33 <= ord(ch) < 127 and ch not in "\\'\"" for ch in l) for l in lines)
    return R

def lean_list(xs): return "[" + ", ".join(xs) + "]"

def render(R):
    o = []
    o.append("/-\nGENERATED by tools/translate.py from /repo's working tree on every run — do not edit.\n"
             "Source: src/opcodes.rs, src/stack.rs, src/generator/source.rs, src/generator/mod.rs,\n"
             "src/mutators/{boundary,typeconfusion,mod}.rs, data/stdlib_complete.txt\n-/")
    o.append("import PFV.Op\nnamespace PFV\nnamespace Gen\n")
    o.append("/-- `OpcodeKind::as_u8` -/\ndef asU8 : Op → UInt8")
    for n, v in R["as_u8"]:
        o.append("  | %s => 0x%02x" % (lean_op(n), v))
    o.append("\n/-- `PICKLE_OPCODES[v]` in table order (empty for v > 5, like `PICKLE_OPCODES.get` failing) -/")
    o.append("def table : Nat → List Op")
    for i, t in enumerate(R["tables"]):
        o.append("  | %d => %s" % (i, lean_list([lean_op(n) for n in t])))
    o.append("  | _ => []")
    o.append("\n/-- `ASCII_CHARS` (`source.rs`) -/\ndef asciiChars : List UInt8 := %s" % lean_list(["0x%02x" % b for b in R["ascii"]]))
    o.append("\n/-- `BoundaryMutator` constants -/")
    o.append("def boundInt : List Int := %s" % lean_list(["(%d)" % v for v in R["b_int"]]))
    o.append("def boundLong : List Int := %s" % lean_list(["(%d)" % v for v in R["b_long"]]))
    o.append("def boundFloat : List UInt64 := %s" % lean_list(["0x%016x" % v for v in R["b_float"]]))
    o.append("\n/-- `TypeConfusionMutator::StackType` -/")
    o.append("inductive StackType\n  | " + " | ".join("t" + n for n in R["stack_types"]) + "\n  deriving DecidableEq, Repr, Inhabited")
    o.append("\n/-- `TypeConfusionMutator::opcode_to_type` -/\ndef opcodeToType (b : UInt8) : Option StackType :=")
    for b, t in R["o2t"]:
        o.append("  if b = 0x%02x then some .t%s else" % (b, t))
    o.append("  none")
    o.append("\n/-- `all_types` in `choose_wrong_type` -/\ndef allTypes : List StackType := %s" % lean_list([".t" + n for n in R["all_types"]]))
    o.append("\ndef defaultMin : Nat := %d\ndef defaultMax : Nat := %d\ndef defaultRateBits : UInt64 := 0x%016x" % (R["def_min"], R["def_max"], R["def_rate"]))
    o.append("\n/-- `MutatorKind::all_mutators(false)` and the kinds added when `unsafe_mutations` -/")
    o.append("def allMutatorsSafe : List String := %s" % lean_list(['"%s"' % n for n in R["all_safe"]]))
    o.append("def allMutatorsUnsafeExtra : List String := %s" % lean_list(['"%s"' % n for n in R["all_unsafe_extra"]]))
    o.append("\n/-- in-place mutation sites of `stack_ops.rs` (receiver, how the receiver was obtained): all of them\nwork on a cell taken from the simulated stack, i.e. on an arena cell; `Stack::push` registers every cell it\ncreates and `reset`/`Drop` release them (checked syntactically by the translator) -/")
    # (receiver, origin) per site, in source order; line numbers are left out so that an edit elsewhere in the file does
    # not change this module (and force a rebuild of everything that imports it)
    o.append("def mutationSites : List (String × String) := %s" % lean_list(['("%s", "%s")' % (x[1], x[2]) for x in R["mut_sites"]]))
    o.append("\n/-- the translator's syntactic C14 checks all passed (push registers unconditionally, reset/Drop release,\nno `borrow_mut()` elsewhere, every site bound by peek/pop) -/")
    o.append("def heapSitesChecked : Bool := %s" % ("true" if not R["heap_refused"] else "false"))
    o.append("\n/-- `data/stdlib_complete.txt`: number of lines; every line non-empty printable ASCII without quote/backslash -/")
    o.append("def modulesCount : Nat := %d\ndef modulesWellFormed : Bool := %s" % (R["mods_n"], "true" if R["mods_ok"] else "false"))
    o.append("\nend Gen\nend PFV\n")
    return "\n".join(o)

def main():
    ap = argparse.ArgumentParser()
    ap.add_argument("--repo", default="/repo")
    ap.add_argument("--out", default="/verif/lean/PFV/Generated.lean")
    ap.add_argument("--update-cache", action="store_true", help="write tools/translate_cache.json from this (fully recognised) extraction")
    ap.add_argument("--tables", default=None, help="output of `pfv-harness tables`, used when opcodes.rs is not recognised")
    a = ap.parse_args()
    TABLES_FILE[0] = a.tables
    cache_path = os.path.join(os.path.dirname(os.path.abspath(__file__)), "translate_cache.json")
    try:
        CACHE[0] = json.load(open(cache_path))
    except (OSError, ValueError):
        CACHE[0] = {}
    ap_report = os.path.join(os.path.dirname(os.path.abspath(a.out)), "..", ".lake", "translate_report.json")
    try:
        R = extract(a.repo)
        txt = render(R)
        try:
            os.makedirs(os.path.dirname(ap_report), exist_ok=True)
            json.dump(dict(heap_refused=R["heap_refused"]), open(ap_report, "w"))
        except OSError:
            pass
        for msg in R["heap_refused"]:
            sys.stderr.write("translate: C14-REFUSED: %s\n" % msg)
        for name, props, msg in R["soft_refused"]:
            sys.stderr.write("translate: SOFT-REFUSED: %s: props=%s: %s\n" % (name, ",".join(props), msg.replace("\n", " ")))
        if a.update_cache and not R["soft_refused"]:
            json.dump({name: {k: R[k] for k in keys} for name, keys in CACHE_KEYS.items()}, open(cache_path, "w"), indent=0, sort_keys=True)
    except Refuse as e:
        sys.stderr.write("translate: REFUSED: %s\n" % e)
        sys.exit(3)
    except (OSError, AttributeError, IndexError) as e:
        sys.stderr.write("translate: REFUSED: source shape not recognised (%s: %s)\n" % (type(e).__name__, e))
        sys.exit(3)
    import guards as G
    gout = os.path.join(os.path.dirname(os.path.abspath(a.out)), "GeneratedGuards.lean")
    gtxt = G.render(R["guards_lines"], [tuple(x) for x in R["helpers_list"]])
    if (open(gout).read() if os.path.exists(gout) else None) != gtxt:
        open(gout, "w").write(gtxt)
        print("translate: GeneratedGuards.lean rewritten")
    old = open(a.out).read() if os.path.exists(a.out) else None
    if old != txt:
        open(a.out, "w").write(txt)
        print("translate: Generated.lean rewritten")
    else:
        print("translate: Generated.lean unchanged")

if __name__ == "__main__":
    main()
