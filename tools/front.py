#!/usr/bin/env python3
"""S7 — the front ends against the library (C13).

Builds, from /repo's working tree, the `pickle-fuzzer` binary and the `_native` Python extension
(cargo, offline, target directories under /verif/build), then runs

  cli      single-file mode: option combinations; the file written must equal the bytes the Rust
           library returns for the configuration the documented options denote (`spec_case`)
  batch    --dir/--samples: exactly 0.pkl..N-1.pkl, each equal to the library's bytes, exit status 0,
           for RAYON_NUM_THREADS in {1,2,16}
  action   scripts/action-run.sh with a stub `pickle-fuzzer` capturing argv (must equal the argv the
           inputs denote) and with the real binary (bytes equal the library's)
  python   the PyO3 class and PickleMutator: constructor -> set_opcode_range -> generate /
           generate_from_bytes / mutate; bytes equal the library's for the configuration the calls denote

The mapping options -> library configuration (`spec_case`) is written from README / --help, not from
main.rs.  Prints one line per comparison: `front <kind> ok ...` or `front <kind> FAIL ... `.
"""
import os, sys, subprocess, json, random, tempfile, shutil, hashlib, stat

VERIF = os.path.dirname(os.path.dirname(os.path.abspath(__file__)))
REPO = os.environ.get("VERIF_REPO", "/repo")
BUILD = os.path.join(VERIF, "build")
HARNESS = os.path.join(BUILD, "harness-target", "release", "pfv-harness")
CLI_TARGET = os.path.join(BUILD, "cli-target")
PY_TARGET = os.path.join(BUILD, "py-target")
ENV = dict(os.environ, CARGO_NET_OFFLINE="true")
MUTS = ["bitflip", "boundary", "offbyone", "stringlen", "character", "memoindex", "typeconfusion"]
ALL_SAFE = ["bitflip", "boundary", "offbyone", "stringlen", "character", "typeconfusion"]


def sh(cmd, cwd=None, env=None, timeout=1800, inp=None):
    p = subprocess.run(cmd, cwd=cwd, env=env or ENV, stdout=subprocess.PIPE, stderr=subprocess.PIPE, timeout=timeout, input=inp)
    return p.returncode, p.stdout, p.stderr


def build_cli():
    rc, out, err = sh(["cargo", "build", "--release", "--offline", "--bin", "pickle-fuzzer"], cwd=REPO,
                      env=dict(ENV, CARGO_TARGET_DIR=CLI_TARGET))
    if rc != 0:
        raise RuntimeError("cli build failed: " + err.decode()[-600:])
    return os.path.join(CLI_TARGET, "release", "pickle-fuzzer")


def build_py():
    rc, out, err = sh(["cargo", "build", "--release", "--offline", "--lib", "--features", "python-bindings"], cwd=REPO,
                      env=dict(ENV, CARGO_TARGET_DIR=PY_TARGET))
    if rc != 0:
        raise RuntimeError("python extension build failed: " + err.decode()[-600:])
    pkg = os.path.join(BUILD, "pypkg")
    shutil.rmtree(pkg, ignore_errors=True)
    shutil.copytree(os.path.join(REPO, "python", "pickle_fuzzer"), os.path.join(pkg, "pickle_fuzzer"))
    shutil.copy(os.path.join(PY_TARGET, "release", "libpickle_fuzzer.so"), os.path.join(pkg, "pickle_fuzzer", "_native.so"))
    os.makedirs(os.path.join(pkg, "atheris"), exist_ok=True)
    open(os.path.join(pkg, "atheris", "__init__.py"), "w").write(
        # a stand-in for atheris: Setup remembers the target, Fuzz feeds it the inputs queued in INPUTS
        "INPUTS = []\n_target = [None]\ndef instrument_func(f):\n    return f\ndef Setup(argv, f, *a, **k):\n    _target[0] = f\n"
        "def Fuzz():\n    for d in list(INPUTS):\n        _target[0](d)\n")
    return pkg


def lib_bytes(case_line):
    """the Rust library's bytes for a case line (via the harness, which links /repo as a library)"""
    rc, out, err = sh([HARNESS, "case"] + case_line.split(" "))
    for t in out.decode().strip().split(" "):
        if t.startswith("result="):
            r = t[7:]
            return bytes.fromhex(r[3:]) if r.startswith("ok:") else r.encode()
    return b"?"


def spec_case(o):
    """library configuration denoted by documented CLI options `o` (README, --help):
    --protocol P, else seed mod 6 when a seed is given; --min/--max-opcodes (default 60/300);
    --mutators: the listed kinds in order, `all` = every safe kind plus memoindex when unsafe;
    --mutation-rate (default 0.1); --unsafe-mutations; --allow-ext; --allow-buffer; --seed."""
    proto = o.get("protocol")
    if proto is None:
        proto = o["seed"] % 6
    muts = list(o.get("mutators") or [])
    if "all" in muts:
        muts = ALL_SAFE + (["memoindex"] if o.get("unsafe") else [])
    import struct
    rate = struct.unpack("<Q", struct.pack("<d", o.get("rate", 0.1)))[0]
    u = 1 if o.get("unsafe") else 0
    return "id=0 P=%d unsafe=%d mu=%d ext=%d buf=%d min=%d max=%d muts=%s rate=%016x warm=0 mode=rand:%d" % (
        proto, u, u, 1 if o.get("ext") else 0, 1 if o.get("buf") else 0, o.get("min", 60), o.get("max", 300),
        ",".join(muts) if muts else "-", rate, o["seed"])


def rate_spelling(x, style):
    """the same number written the ways a user may write it"""
    if style % 4 == 0:
        return repr(x)
    forms = {0.0: ["0", "0.00", "0e0"], 1.0: ["1", "1.000", "1e0"], 0.5: [".5", "5e-1", "0.50"], 0.25: [".25", "2.5e-1", "0.250"],
             0.1: [".1", "1e-1", "0.10"], 0.9: [".9", "9e-1", "0.90"]}
    return forms.get(x, [repr(x)] * 3)[style % 4 - 1]


def cli_args(o):
    """the documented options in the spellings clap accepts: `--opt value`, `--opt=value`, the short flags `-p` / `-s`,
    the flags in another order (o["style"] selects; all spellings denote the same configuration)"""
    st = o.get("style", 0)
    def opt(name, val, short=None):
        if st % 3 == 1:
            return ["%s=%s" % (name, val)]
        if st % 3 == 2 and short:
            return [short, str(val)]
        return [name, str(val)]
    parts = []
    if o.get("protocol") is not None: parts.append(opt("--protocol", o["protocol"], "-p"))
    if o.get("seed") is not None: parts.append(opt("--seed", o["seed"]))
    if "min" in o: parts.append(opt("--min-opcodes", o["min"]))
    if "max" in o: parts.append(opt("--max-opcodes", o["max"]))
    if o.get("unsafe"): parts.append(["--unsafe-mutations"])
    if o.get("ext"): parts.append(["--allow-ext"])
    if o.get("buf"): parts.append(["--allow-buffer"])
    if "rate" in o: parts.append(opt("--mutation-rate", rate_spelling(o["rate"], st)))
    if st % 2 == 1:
        parts.reverse()
    a = [x for part in parts for x in part]
    if o.get("mutators"):
        # `--mutators` takes one or more values; it goes last before `--` so that it cannot swallow
        # the positional FILE
        a += ["--mutators"] + list(o["mutators"]) + ["--"]
    return a


# the order of `--mutators` is part of the configuration (the first applicable mutator wins; a kind given twice is two
# mutators): pairs acting on the same value kind in both orders, and repetitions, at rates where it shows
ORDERED_MUTATOR_CASES = [
    dict(seed=21, protocol=2, rate=1.0, mutators=["boundary", "bitflip"]), dict(seed=21, protocol=2, rate=1.0, mutators=["bitflip", "boundary"]),
    dict(seed=22, protocol=4, rate=1.0, mutators=["character", "stringlen"]), dict(seed=22, protocol=4, rate=1.0, mutators=["stringlen", "character"]),
    dict(seed=23, protocol=1, rate=1.0, mutators=["memoindex", "offbyone"]), dict(seed=23, protocol=1, rate=1.0, mutators=["offbyone", "memoindex"]),
    dict(seed=24, protocol=3, rate=0.5, mutators=["offbyone", "offbyone", "bitflip"]), dict(seed=24, protocol=3, rate=0.5, mutators=["offbyone", "bitflip"]),
    dict(seed=25, protocol=5, rate=0.5, unsafe=True, mutators=["typeconfusion", "typeconfusion"]),
    dict(seed=26, protocol=0, rate=0.9, mutators=["offbyone", "boundary", "bitflip", "character", "stringlen"]),
]


def sample_seed(rnd):
    """seeds over the whole u64 range, its edges included"""
    r = rnd.random()
    if r < 0.5:
        return rnd.randrange(0, 100000)
    if r < 0.75:
        return rnd.choice([0, 1, 5, 6, 2**31, 2**32 - 1, 2**32, 2**53 + 1, 2**63 - 1, 2**63, 2**64 - 6, 2**64 - 1])
    return rnd.randrange(0, 2**64)


def sample_options(rnd):
    o = dict(seed=sample_seed(rnd), style=rnd.randrange(0, 12))
    if rnd.random() < 0.6: o["protocol"] = rnd.randrange(0, 6)
    if rnd.random() < 0.5:
        o["min"] = rnd.choice([0, 5, 30, 60, 100]); o["max"] = rnd.choice([0, 5, 40, 120, 300])
    r = rnd.random()
    if r < 0.25: o["mutators"] = ["all"]
    elif r < 0.6: o["mutators"] = rnd.sample(MUTS, rnd.randrange(1, 4))
    if rnd.random() < 0.4: o["unsafe"] = True
    if rnd.random() < 0.4: o["rate"] = rnd.choice([0.0, 0.5, 1.0, 0.25, 0.1, 0.9])
    if rnd.random() < 0.4: o["ext"] = True
    if rnd.random() < 0.4: o["buf"] = True
    return o


def run_cli(binary, n, rnd, out):
    tmp = tempfile.mkdtemp(prefix="pfv-cli-")
    try:
        fixed = [dict(seed=5, protocol=4, unsafe=True), dict(seed=7, unsafe=True, rate=1.0), dict(seed=11, rate=1.0),
                 dict(seed=3), dict(seed=9, protocol=5, ext=True), dict(seed=9, protocol=5, buf=True)] + ORDERED_MUTATOR_CASES
        for k in range(n):
            o = fixed[k] if k < len(fixed) else sample_options(rnd)
            f = os.path.join(tmp, "o.pkl")
            if os.path.exists(f): os.remove(f)
            if k % 3 == 1:
                # the output file already exists and is longer than anything the tool will write
                open(f, "wb").write(b"\xee" * 200000)
            rc, so, se = sh([binary] + cli_args(o) + [f])
            want = lib_bytes(spec_case(o))
            got = open(f, "rb").read() if os.path.exists(f) else b""
            ok = rc == 0 and got == want
            out.append("front cli %s options=%s%s" % ("ok" if ok else "FAIL", json.dumps(o, sort_keys=True).replace(" ", ""),
                       "" if ok else " rc=%d cli_len=%d lib_len=%d cli_sha=%s lib_sha=%s" % (rc, len(got), len(want), hashlib.sha256(got).hexdigest()[:10], hashlib.sha256(want).hexdigest()[:10])))
    finally:
        shutil.rmtree(tmp, ignore_errors=True)


def run_error_paths(binary, rnd, out):
    """a run that cannot write its output must not report success: single-file mode and the action wrapper with an
    output path that is a directory"""
    script = os.path.join(REPO, "scripts", "action-run.sh")
    for which in ("cli", "action"):
        o = sample_options(rnd)
        tmp = tempfile.mkdtemp(prefix="pfv-err-")
        try:
            f = os.path.join(tmp, "is_a_dir.pkl")
            os.makedirs(f)
            if which == "cli":
                rc, so, se = sh([binary] + cli_args(o) + [f])
            else:
                bindir = os.path.join(tmp, "bin"); os.makedirs(bindir)
                os.symlink(binary, os.path.join(bindir, "pickle-fuzzer"))
                env = dict(ENV, PATH=bindir + ":" + ENV.get("PATH", ""))
                env.update(action_env(o, outfile=f))
                rc, so, se = sh(["bash", script], env=env, cwd=tmp)
            ok = rc != 0
            out.append("front %s %s unwritable_output options=%s%s" % (which, "ok" if ok else "FAIL", json.dumps(o, sort_keys=True).replace(" ", ""),
                       "" if ok else " rc=0 although nothing could be written"))
        finally:
            shutil.rmtree(tmp, ignore_errors=True)


def run_batch_errors(binary, rnd, out):
    """"exits 0 only if all were written": one of the sample paths cannot be written (it is a directory); the tool must
    exit non-zero, and the samples that could be written must still equal the library's bytes"""
    for threads in (1, 16):
        for samples, blocked in ((3, 1), (5, 4), (2, 0)):
            o = sample_options(rnd)
            tmp = tempfile.mkdtemp(prefix="pfv-batcherr-")
            d = os.path.join(tmp, "out")
            try:
                os.makedirs(os.path.join(d, "%d.pkl" % blocked))
                rc, so, se = sh([binary, "--dir", d, "--samples", str(samples)] + cli_args(o), env=dict(ENV, RAYON_NUM_THREADS=str(threads)))
                want = lib_bytes(spec_case(o))
                others = [i for i in range(samples) if i != blocked]
                good = all(os.path.isfile(os.path.join(d, "%d.pkl" % i)) and open(os.path.join(d, "%d.pkl" % i), "rb").read() == want for i in others)
                ok = rc != 0 and good
                out.append("front batch %s unwritable_sample=%d threads=%d samples=%d options=%s%s" % ("ok" if ok else "FAIL", blocked, threads, samples,
                           json.dumps(o, sort_keys=True).replace(" ", ""), "" if ok else " rc=%d (must be non-zero) other_samples_equal_library=%s" % (rc, good)))
            finally:
                shutil.rmtree(tmp, ignore_errors=True)


def run_batch(binary, n, rnd, out):
    for k in range(n):
        o = sample_options(rnd) if k >= 2 else ORDERED_MUTATOR_CASES[2 * k]
        samples = rnd.choice([0, 1, 2, 3, 5, 17, 33])
        for threads in (1, 2, 16):
            tmp = tempfile.mkdtemp(prefix="pfv-batch-")
            d = os.path.join(tmp, "out")
            try:
                reused = (k + threads) % 2 == 0 and samples > 0
                if reused:
                    # the directory is re-used: some of the files exist already and are longer than the new ones
                    os.makedirs(d)
                    for i in range(0, samples, 2):
                        open(os.path.join(d, "%d.pkl" % i), "wb").write(b"\xee" * 200000)
                head = [binary, "-d", d, "-s", str(samples)] if o.get("style", 0) % 3 == 2 else \
                       ([binary, "--dir=" + d, "--samples=%d" % samples] if o.get("style", 0) % 3 == 1 else [binary, "--dir", d, "--samples", str(samples)])
                rc, so, se = sh(head + cli_args(o), env=dict(ENV, RAYON_NUM_THREADS=str(threads)))
                names = sorted(os.listdir(d)) if os.path.isdir(d) else []
                want_names = sorted("%d.pkl" % i for i in range(samples))
                want = lib_bytes(spec_case(o))
                same = all(open(os.path.join(d, x), "rb").read() == want for x in names)
                ok = rc == 0 and names == want_names and same
                out.append("front batch %s threads=%d samples=%d options=%s%s" % ("ok" if ok else "FAIL", threads, samples,
                           json.dumps(o, sort_keys=True).replace(" ", ""),
                           "" if ok else " rc=%d files=%s bytes_equal_library=%s" % (rc, ",".join(names[:6]), same)))
            finally:
                shutil.rmtree(tmp, ignore_errors=True)


def action_env(o, outfile=None, outdir=None, samples=None):
    e = {}
    if outdir: e["INPUT_OUTPUT_DIR"] = outdir
    if samples is not None: e["INPUT_SAMPLES"] = str(samples)
    if o.get("protocol") is not None: e["INPUT_PROTOCOL"] = str(o["protocol"])
    if o.get("seed") is not None: e["INPUT_SEED"] = str(o["seed"])
    if "min" in o: e["INPUT_MIN_OPCODES"] = str(o["min"])
    if "max" in o: e["INPUT_MAX_OPCODES"] = str(o["max"])
    if o.get("mutators"): e["INPUT_MUTATORS"] = ", ".join(o["mutators"]) if len(o["mutators"]) % 2 else " ".join(o["mutators"])
    if "rate" in o: e["INPUT_MUTATION_RATE"] = repr(o["rate"])
    # the spellings action.yml users write for booleans (documented as true/false; the wrapper also takes 1/yes)
    k = o.get("style", 0)
    truthy = ["true", "TRUE", "True", "1", "yes", "YES", "Yes"]
    falsy = ["false", "", "0", "no", "False", "off"]
    e["INPUT_UNSAFE_MUTATIONS"] = truthy[k % 7] if o.get("unsafe") else falsy[k % 6]
    e["INPUT_ALLOW_EXT"] = truthy[(k + 3) % 7] if o.get("ext") else falsy[(k + 2) % 6]
    e["INPUT_ALLOW_BUFFER"] = truthy[(k + 5) % 7] if o.get("buf") else falsy[(k + 4) % 6]
    if outfile: e["INPUT_OUTPUT_FILE"] = outfile
    return e


def run_action(binary, n, rnd, out):
    script = os.path.join(REPO, "scripts", "action-run.sh")
    # every input alone and the mutators input as the last option before the output file
    fixed = [dict(seed=3, mutators=["bitflip", "boundary"]), dict(seed=4, mutators=["all"]), dict(seed=5),
             dict(seed=6, protocol=0), dict(seed=7, unsafe=True), dict(seed=8, ext=True, protocol=2),
             dict(seed=9, buf=True, protocol=5), dict(seed=10, rate=1.0, mutators=["character"])] + ORDERED_MUTATOR_CASES[:6]
    for k in range(n + len(fixed)):
        o = fixed[k] if k < len(fixed) else sample_options(rnd)
        tmp = tempfile.mkdtemp(prefix="pfv-act-")
        try:
            bindir = os.path.join(tmp, "bin"); os.makedirs(bindir)
            os.symlink(binary, os.path.join(bindir, "pickle-fuzzer"))
            # file names a shell can mangle: blanks, glob characters (with a decoy the pattern would match), a `-`
            name = ["a.pkl", "out 1.pkl", "out[1].pkl", "o*t.pkl", "dir with blank/x.pkl", "-o.pkl", "a b  c.pkl"][k % 7]
            decoy = os.path.join(tmp, "out1.pkl")
            open(decoy, "wb").write(b"decoy")
            open(os.path.join(tmp, "oxt.pkl"), "wb").write(b"decoy")
            f = os.path.join(tmp, name)
            os.makedirs(os.path.dirname(f), exist_ok=True)
            env = dict(ENV, PATH=bindir + ":" + ENV.get("PATH", ""))
            want = lib_bytes(spec_case(o))
            if k % 4 == 3:
                # directory mode of the wrapper (a directory name with a blank every other time)
                d = os.path.join(tmp, "out dir" if k % 8 == 7 else "outdir")
                samples = [1, 3, 4][k % 3]
                env.update(action_env(o, outdir=d, samples=samples))
                rc, so, se = sh(["bash", script], env=env, cwd=tmp)
                names = sorted(os.listdir(d)) if os.path.isdir(d) else []
                ok = rc == 0 and names == sorted("%d.pkl" % i for i in range(samples)) and all(open(os.path.join(d, x), "rb").read() == want for x in names)
                got = b"".join(open(os.path.join(d, x), "rb").read() for x in names[:1]) if names else b""
                what = "dir=%s samples=%d" % (os.path.basename(d).replace(" ", "_"), samples)
            elif k % 5 == 4 and " " not in name and "*" not in name and "[" not in name and not name.startswith("-"):
                # the wrapper's raw mode: one `args` input handed to the tool as is
                env["INPUT_ARGS"] = " ".join(cli_args(o) + [f])
                rc, so, se = sh(["bash", script], env=env, cwd=tmp)
                got = open(f, "rb").read() if os.path.isfile(f) else b""
                ok = rc == 0 and got == want
                what = "raw-args file=%s" % name
            else:
                env.update(action_env(o, outfile=f))
                rc, so, se = sh(["bash", script], env=env, cwd=tmp)
                got = open(f, "rb").read() if os.path.isfile(f) else b""
                ok = rc == 0 and got == want and open(decoy, "rb").read() == b"decoy" and open(os.path.join(tmp, "oxt.pkl"), "rb").read() == b"decoy"
                what = "file=%s" % name.replace(" ", "_")
            if k % 11 == 10:
                # both outputs named: the wrapper must refuse (documented), not pick one silently
                env2 = dict(env); env2.pop("INPUT_ARGS", None)
                env2.update(action_env(o, outfile=os.path.join(tmp, "both.pkl"), outdir=os.path.join(tmp, "bothdir"), samples=1))
                rc2, so2, se2 = sh(["bash", script], env=env2, cwd=tmp)
                ok2 = rc2 != 0 and not os.path.exists(os.path.join(tmp, "both.pkl"))
                out.append("front action %s both_output_file_and_dir options=%s%s" % ("ok" if ok2 else "FAIL", json.dumps(o, sort_keys=True).replace(" ", ""),
                           "" if ok2 else " rc=%d (must refuse)" % rc2))
            out.append("front action %s %s options=%s%s" % ("ok" if ok else "FAIL", what, json.dumps(o, sort_keys=True).replace(" ", ""),
                       "" if ok else " rc=%d wrapper_len=%d lib_len=%d stderr=%s" % (rc, len(got), len(want), se.decode()[-160:].replace("\n", "|").replace(" ", "_"))))
        finally:
            shutil.rmtree(tmp, ignore_errors=True)


PYTEST = r'''
import sys, json
sys.path.insert(0, sys.argv[1])
from pickle_fuzzer import Generator
from pickle_fuzzer.fuzzer import PickleMutator
for line in sys.stdin:
    t = json.loads(line)
    try:
        if t["kind"] == "gen":
            g = Generator(protocol=t["protocol"], seed=t["seed"])
            for (a, b) in t.get("ranges", []):
                g.set_opcode_range(a, b)
            for _ in range(t.get("warm", 0)):
                g.generate_from_bytes(b"warm-up")
            r = g.generate() if t["data"] is None else g.generate_from_bytes(bytes.fromhex(t["data"]))
        else:
            m = PickleMutator(protocol=t["protocol"], seed=t["seed"])
            for _ in range(t.get("warm", 0)):
                m.mutate(b"warm-up", 100000)
            r = m.mutate(bytes.fromhex(t["data"]), t["max_size"])
        print(bytes(r).hex())
    except Exception as e:
        print("EXC:" + type(e).__name__ + ":" + str(e).replace("\n", " ")[:100])
    sys.stdout.flush()
'''


def run_python(pkg, n, rnd, out):
    tests = []
    for k in range(n):
        t = dict(kind="gen" if rnd.random() < 0.7 else "mutate", protocol=rnd.randrange(0, 6), seed=sample_seed(rnd), warm=rnd.choice([0, 0, 1, 2]))
        if t["kind"] == "gen":
            t["ranges"] = [] if rnd.random() < 0.4 else [(rnd.choice([0, 10, 60]), rnd.choice([20, 100, 300]))] * rnd.choice([1, 2])
            t["data"] = None if rnd.random() < 0.5 else bytes(rnd.randrange(256) for _ in range(rnd.randrange(0, 200))).hex()
            if k % 8 == 5:
                # long programs on long inputs: the whole input must reach the library, not a prefix of it
                t["ranges"] = [(rnd.choice([700, 1000, 1500]), rnd.choice([1600, 2000]))]
                t["data"] = bytes(rnd.randrange(256) for _ in range(rnd.choice([5000, 12000, 30000]))).hex()
            elif k % 8 == 6:
                t["ranges"] = [(rnd.choice([300, 100]), rnd.choice([60, 100, 0]))]      # inverted / empty / zero ranges
        else:
            t["data"] = bytes(rnd.randrange(256) for _ in range(rnd.randrange(0, 300) if k % 8 != 7 else rnd.choice([3000, 9000]))).hex()
            t["max_size"] = rnd.choice([10, 100, 100000])
        tests.append(t)
    rc, so, se = sh([sys.executable, "-c", PYTEST, pkg], inp="\n".join(json.dumps(t) for t in tests).encode())
    lines = so.decode().strip().split("\n") if so.strip() else []
    if len(lines) != len(tests):
        out.append("front python FAIL the extension module did not answer %d of %d calls: %s" % (len(tests) - len(lines), len(tests), se.decode()[-200:].replace("\n", "|").replace(" ", "_")))
        return
    for t, got in zip(tests, lines):
        mn, mx = (t["ranges"][-1] if t.get("ranges") else (60, 300)) if t["kind"] == "gen" else (60, 300)
        mode = "rand:%d" % t["seed"] if t.get("data") is None else "arb:%s" % (t["data"] or "-")
        # what the calls denote: protocol and seed from the constructor stay in force, only the range changes
        case = "id=0 P=%d unsafe=0 mu=0 ext=0 buf=0 min=%d max=%d muts=- rate=3fb999999999999a warm=0 mode=%s" % (t["protocol"], mn, mx, mode)
        if t.get("data") is None:
            case += " seed=%d" % t["seed"]
        else:
            case += " seed=%d" % t["seed"]
        want = lib_bytes(case)
        if t["kind"] == "mutate":
            want = want[: t["max_size"]]
        ok = got == want.hex()
        out.append("front python %s call=%s%s" % ("ok" if ok else "FAIL", json.dumps({k: (v if k != "data" or v is None else v[:24]) for k, v in t.items()}, sort_keys=True).replace(" ", ""),
                   "" if ok else " py=%s lib=%s" % (got[:40], want.hex()[:40])))


PYSCRIPT = r'''
import sys, json
sys.path.insert(0, sys.argv[1])
from pickle_fuzzer import Generator
from pickle_fuzzer.fuzzer import PickleMutator
for line in sys.stdin:
    t = json.loads(line)
    res = []
    try:
        how = t.get("ctor", "kw")
        if how == "kw":
            g = Generator(protocol=t["protocol"], seed=t["seed"])
            m = PickleMutator(protocol=t["protocol"], seed=t["seed"])
        elif how == "pos":
            g = Generator(t["protocol"], t["seed"])
            m = PickleMutator(t["protocol"], t["seed"])
        elif how == "default-protocol":      # documented default: protocol 3
            g = Generator(seed=t["seed"])
            m = PickleMutator(seed=t["seed"])
        else:                                # no seed: only the fuzzer-bytes calls are reproducible
            g = Generator(protocol=t["protocol"])
            m = PickleMutator(protocol=t["protocol"])
        for st in t["steps"]:
            try:
                if st[0] == "range": g.set_opcode_range(st[1], st[2])
                elif st[0] == "mrange": m.generator.set_opcode_range(st[1], st[2])
                elif st[0] == "reset": g.reset()
                elif st[0] == "mreset": m.reset()
                elif st[0] == "gen": res.append(bytes(g.generate()).hex())
                elif st[0] == "genb": res.append(bytes(g.generate_from_bytes(bytes.fromhex(st[1]))).hex())
                elif st[0] == "mut": res.append(bytes(m.mutate(bytes.fromhex(st[1]), st[2])).hex())
                elif st[0] == "fuzz":
                    # the bundled Atheris harness: the parser under test must be handed the library's pickle for each input
                    import atheris
                    from pickle_fuzzer.fuzzer import fuzz_pickle_parser
                    seen = []
                    atheris.INPUTS[:] = [bytes.fromhex(x) for x in st[1]]
                    if st[2] is None:
                        fuzz_pickle_parser(lambda b: seen.append(bytes(b)))
                    else:
                        fuzz_pickle_parser(lambda b: seen.append(bytes(b)), protocol=st[2], use_structure_aware=st[3])
                    res.append("|".join(x.hex() for x in seen))
            except Exception as e:
                res.append("EXC:" + type(e).__name__)
    except Exception as e:
        res.append("EXC:" + type(e).__name__ + ":" + str(e).replace("\\n", " ")[:80])
    print(json.dumps(res))
    sys.stdout.flush()
'''


def run_python_scripts(pkg, n, rnd, out):
    """call *sequences* on one Generator and one PickleMutator: every output must be the library's bytes for the
    object's current configuration (protocol and seed from the constructor, the opcode range as last set) and for
    that call's own input — whatever was called before (C13 and, through the front end, C08)."""
    def blob(k):
        return bytes(rnd.randrange(256) for _ in range(k)).hex()
    tests = []
    for k in range(n):
        t = dict(protocol=rnd.randrange(0, 6), seed=sample_seed(rnd), steps=[])
        d = blob(rnd.choice([0, 3, 40, 64, 200]))
        d2 = blob(rnd.choice([1, 17, 90]))
        big = 10 ** 6
        pat = k % 8
        if pat == 0:      # same data twice, a smaller limit the second time
            t["steps"] = [["mut", d, big], ["mut", d, rnd.choice([5, 30, 171])], ["mut", d, big]]
        elif pat == 1:    # same data, the range changed in between
            t["steps"] = [["mut", d, big], ["mrange", rnd.choice([0, 5]), rnd.choice([10, 20])], ["mut", d, big]]
        elif pat == 2:    # reset between identical calls; different data in between
            t["steps"] = [["mrange", rnd.choice([3, 10]), rnd.choice([12, 25])], ["mut", d, big], ["mreset"], ["mut", d, big], ["mut", d2, big],
                          ["range", 7, 9], ["genb", d], ["reset"], ["genb", d], ["mut", d, 50]]
        elif pat == 3:    # Generator: bytes, seeded, bytes again
            t["steps"] = [["genb", d], ["gen"], ["genb", d], ["range", 10, 30], ["genb", d], ["gen"]]
        elif pat == 4:    # range set several times; the last one counts; the seed stays
            t["steps"] = [["range", 100, 200], ["range", rnd.choice([0, 7]), rnd.choice([7, 12])], ["gen"], ["reset"], ["gen"], ["genb", d2]]
        elif pat == 5:    # inverted and zero ranges through the binding
            t["steps"] = [["range", rnd.choice([30, 9]), rnd.choice([0, 5])], ["gen"], ["genb", d], ["mrange", 12, 3], ["mut", d, big]]
        elif pat == 6:    # limit exactly at / around the output length is exercised by several limits on one input
            t["steps"] = [["mut", d, lim] for lim in (0, 1, 2, 100, 342, big)]
        else:             # alternating inputs
            t["steps"] = [["mut", d, big], ["mut", d2, big], ["mut", d, big], ["genb", d2], ["genb", d]]
        if k % 8 == 7 and k >= 8:
            # fuzz_pickle_parser(parser, protocol=3, use_structure_aware=True): default arguments, explicit ones, raw mode
            ins = [d, d2, blob(0), d]
            how = (k // 8) % 3
            t["steps"] = [["fuzz", ins, None if how == 0 else t["protocol"], True if how != 2 else False]]
        # how the objects are constructed: keywords, positional, protocol omitted (default 3), seed omitted
        t["ctor"] = ["kw", "pos", "default-protocol", "no-seed"][(k // 8) % 4] if k >= 8 else "kw"
        if t["ctor"] == "default-protocol":
            t["protocol"] = 3
        if t["ctor"] == "no-seed":
            t["steps"] = [st for st in t["steps"] if st[0] != "gen"]
        tests.append(t)
    rc, so, se = sh([sys.executable, "-c", PYSCRIPT, pkg], inp="\n".join(json.dumps(t) for t in tests).encode())
    lines = so.decode().strip().split("\n") if so.strip() else []
    if len(lines) != len(tests):
        out.append("front python FAIL the extension module did not answer %d of %d scripts: %s" % (len(tests) - len(lines), len(tests), se.decode()[-200:].replace("\n", "|").replace(" ", "_")))
        return
    for t, line in zip(tests, lines):
        got = json.loads(line)
        rng = {"g": (60, 300), "m": (60, 300)}
        want = []
        for st in t["steps"]:
            if st[0] == "range": rng["g"] = (st[1], st[2])
            elif st[0] == "mrange": rng["m"] = (st[1], st[2])
            elif st[0] == "fuzz":
                proto = 3 if st[2] is None else st[2]
                ws = []
                for x in st[1]:
                    if st[2] is not None and st[3] is False:
                        ws.append(x)          # raw mode hands the fuzzer bytes through
                    else:
                        case = "id=0 P=%d unsafe=0 mu=0 ext=0 buf=0 min=60 max=300 muts=- rate=3fb999999999999a warm=0 mode=arb:%s" % (proto, x or "-")
                        ws.append(lib_bytes(case).hex())
                want.append("|".join(ws))
            elif st[0] in ("gen", "genb", "mut"):
                who = "m" if st[0] == "mut" else "g"
                mode = "rand:%d" % t["seed"] if st[0] == "gen" else "arb:%s" % (st[1] or "-")
                case = "id=0 P=%d unsafe=0 mu=0 ext=0 buf=0 min=%d max=%d muts=- rate=3fb999999999999a warm=0 mode=%s seed=%d" % (
                    t["protocol"], rng[who][0], rng[who][1], mode, t["seed"])
                w = lib_bytes(case)
                if st[0] == "mut":
                    w = w[: st[2]]
                want.append(w.hex())
        bad = [i for i, (a, b) in enumerate(zip(got, want)) if a != b]
        ok = not bad and len(got) == len(want)
        brief = [[x if not (isinstance(x, str) and len(x) > 16) else x[:16] + ".." for x in st] for st in t["steps"]]
        out.append("front python %s script=%s%s" % ("ok" if ok else "FAIL", json.dumps(dict(protocol=t["protocol"], seed=t["seed"], steps=brief)).replace(" ", ""),
                   "" if ok else " first_wrong_output=%s py=%s lib=%s" % (bad[0] if bad else "count", (got[bad[0]] if bad else str(len(got)))[:40], (want[bad[0]] if bad else str(len(want)))[:40])))


def main():
    kinds = sys.argv[1].split(",") if len(sys.argv) > 1 else ["cli", "batch", "action", "python"]
    n = int(sys.argv[2]) if len(sys.argv) > 2 else 20
    seed = int(sys.argv[3]) if len(sys.argv) > 3 else 1
    rnd = random.Random(seed)
    out = []
    try:
        binary = build_cli() if set(kinds) & {"cli", "batch", "action"} else None
        if "cli" in kinds: run_cli(binary, n, rnd, out)
        if "batch" in kinds:
            run_batch(binary, max(2, n // 6), rnd, out)
            run_batch_errors(binary, rnd, out)
            run_error_paths(binary, rnd, out)
        if "action" in kinds: run_action(binary, max(3, n // 3), rnd, out)
        if "python" in kinds:
            pkg = build_py()
            run_python(pkg, n, rnd, out)
            run_python_scripts(pkg, max(32, n), rnd, out)
    except RuntimeError as e:
        out.append("front build FAIL %s" % str(e).replace("\n", "|").replace(" ", "_")[:600])
    print("\n".join(out))


if __name__ == "__main__":
    main()
