#!/usr/bin/env python3
"""specval — who checks the specification?  (DESIGN §4.3)

Feeds the same byte strings to CPython's `pickletools` (genops / dis) and to the Lean reference
lexer and reference machine (through the native driver) and requires equal verdicts:

  lexing    pickletools.genops(data) succeeds            <=>  Lean `Lex.lex` succeeds
  stack+memo pickletools.dis(data) succeeds              <=>  Lean C01 = ok and C02 = ok

Inputs: real generator outputs (safe and unsafe), and corruptions of them (truncations, single-byte
changes, splices) so that the error paths of both lexers are compared too.  Documented, deliberate
differences are normalised before comparing:
  * Lean demands that nothing follows STOP; genops stops reading at STOP  -> inputs are cut after the
    first STOP that genops reaches before handing them to Lean;
  * `dis` accepts STOP on a lone MARK ("stack not empty" is only checked after popping); C01 demands an object;
  * Lean's `typed` family (C03) has no counterpart in pickletools and is ignored here;
  * argument *domains* (EXT code >= 1, PROTO <= 5) are C04's `domainOk`, separate from lexing: pickletools
    has no such check and neither has `Lex.lex`.
Usage: specval.py [cases] [seed]     prints `specval ok ...` or `specval DISAGREE ...` lines and a summary.
"""
import sys, os, io, subprocess, random, pickletools

VERIF = os.path.dirname(os.path.dirname(os.path.abspath(__file__)))
HARNESS = os.path.join(VERIF, "build", "harness-target", "release", "pfv-harness")
DRIVER = os.path.join(VERIF, "lean", ".lake", "build", "bin", "pfv-driver")


def py_lex(data):
    """returns (ok, bytes_consumed_through_STOP)"""
    try:
        end = None
        for op, arg, pos in pickletools.genops(data):
            if op.name == "STOP":
                end = pos + 1
        return True, end
    except Exception as e:
        return False, None


def py_dis(data):
    try:
        pickletools.dis(data, out=io.StringIO())
        return True, ""
    except Exception as e:
        return False, "%s: %s" % (type(e).__name__, str(e)[:80])


def lean_verdicts(blobs):
    req = "".join("oracle id=%d P=5 unsafe=0 ext=1 buf=1 min=0 max=1000000 result=ok:%s\n" % (i, b.hex()) for i, b in enumerate(blobs))
    p = subprocess.run([DRIVER], input=req.encode(), stdout=subprocess.PIPE, check=True)
    out = {}
    for l in p.stdout.decode().split("\n"):
        if not l.startswith("oracle "):
            continue
        t = dict(x.split("=", 1) for x in l.split(" ")[1:] if "=" in x)
        out[int(t["id"])] = t
    return out


def corrupt(rnd, b):
    k = rnd.randrange(6)
    if len(b) < 3:
        return b
    if k == 0:
        return b[: rnd.randrange(1, len(b))]
    if k == 1:
        i = rnd.randrange(len(b)); return b[:i] + bytes([rnd.randrange(256)]) + b[i + 1:]
    if k == 2:
        i = rnd.randrange(len(b)); j = rnd.randrange(i, len(b)); return b[:i] + b[j:]
    if k == 3:
        i = rnd.randrange(len(b)); return b[:i] + bytes(rnd.randrange(256) for _ in range(rnd.randrange(1, 4))) + b[i:]
    if k == 4:
        i = rnd.randrange(len(b)); return b[:i] + rnd.choice([b"\\", b"'", b"\n", b"L", b"-", b"_", b" ", b"\\u12", b"\\x4", b"\xff", b"e5", b"."]) + b[i:]
    return b


EDGE = [
    b"(0.",                   # POP on a MARK, then STOP on empty
    b"N(Q.",                  # BINPERSID on a MARK
    b"(\x85.",                # TUPLE1 on a MARK
    b"Nq\x00q\x00.",          # memo redefinition
    b"Nh\x05.",               # undefined memo index
    b"\x84\xff\xff\xff\xff.", # negative EXT4
    b"S'abc\n.",              # unterminated STRING quote
    b"S'a\\'\n.", b"S'a\\\n.", b"S\"a'\n.", b"S'\\x4g'\n.", b"S'\\777'\n.",
    b"V\\u12\n.", b"V\\\\u12\n.", b"V\\U00110000\n.", b"V\\U0010ffff\n.",
    b"I00\n.", b"I01\n.", b"I 5 \n.", b"I+5\n.", b"I1_0\n.", b"I_1\n.", b"I1__0\n.", b"I\n.", b"I0x5\n.",
    b"L5L\n.", b"L5\n.", b"LL\n.", b"L-0L\n.",
    b"F1e5\n.", b"Finf\n.", b"F-Infinity\n.", b"Fnan\n.", b"F1_0.5\n.", b"F.5\n.", b"F5.\n.", b"F.\n.", b"Fe5\n.", b"F1e\n.", b"F 1.5 \n.",
    b"T\xff\xff\xff\xff.", b"B\x05\x00\x00\x00ab.", b"\x8c\x02\xc3\x28.", b"\x8c\x03\xed\xa0\x80.", b"\x8c\x02\xc0\xaf.",
    b"\x8a\x01\xff.", b"\x8b\xff\xff\xff\xff.", b"\x95\x00\x00\x00\x00\x00\x00\x00\x00N.",
    b"N.N", b"N", b"", b"\x00", b"\xff.", b"(((.", b"(t.", b")a.", b"]NNa.", b"N2.",
    b"cos\nsystem\n.", b"cos\n.", b"c\\x4\nx\n.", b"Pabc\n.", b"P\xff\n.",
]


def main():
    n = int(sys.argv[1]) if len(sys.argv) > 1 else 400
    seed = int(sys.argv[2]) if len(sys.argv) > 2 else 1
    rnd = random.Random(seed)
    p = subprocess.run([HARNESS, "oracle", "--cases", str(n), "--seed", str(seed), "--profile", "default", "--unsafe", "mix"],
                       stdout=subprocess.PIPE, check=True)
    outs = []
    for l in p.stdout.decode().split("\n"):
        for t in l.split(" "):
            if t.startswith("result=ok:"):
                outs.append(bytes.fromhex(t[10:]))
    blobs = list(EDGE)
    for b in outs:
        blobs.append(b)
        for _ in range(3):
            blobs.append(corrupt(rnd, b))
    # normalise: cut after the STOP genops reaches (Lean demands end of input there)
    py = []
    cut = []
    for b in blobs:
        ok, end = py_lex(b)
        if ok and end is not None:
            b = b[:end]
            py.append((True,) + py_dis(b))
        elif ok and end is None:
            py.append((False, False, "no STOP"))      # genops ran off the end without STOP: EOF error inside genops normally
        else:
            py.append((False, False, ""))
        cut.append(b)
    lv = lean_verdicts(cut)
    agree = dis_agree = 0
    bad = []
    for i, b in enumerate(cut):
        t = lv.get(i, {})
        lean_lex = "n" in t and "lex:" not in t.get("C04", "")
        py_lex_ok = py[i][0]
        if lean_lex != py_lex_ok:
            bad.append("specval DISAGREE lexing python=%s lean=%s data=%s %s" % (py_lex_ok, lean_lex, b[:60].hex(), t.get("C04", "")[:80]))
            continue
        agree += 1
        if py_lex_ok:
            lean_dis = t.get("C01") == "ok" and t.get("C02") == "ok"
            py_dis_ok = py[i][1]
            # documented difference: STOP on a lone MARK
            if not lean_dis and py_dis_ok and "stopOnMark" in t.get("C01", ""):
                dis_agree += 1
                continue
            if lean_dis != py_dis_ok:
                bad.append("specval DISAGREE stack/memo python=%s(%s) lean=C01:%s,C02:%s data=%s" % (py_dis_ok, py[i][2], t.get("C01", "")[:70], t.get("C02", "")[:60], b[:60].hex()))
            else:
                dis_agree += 1
    for l in bad[:40]:
        print(l)
    print("specval summary inputs=%d lexing_agree=%d dis_agree=%d disagreements=%d" % (len(cut), agree, dis_agree, len(bad)))
    sys.exit(1 if bad else 0)


if __name__ == "__main__":
    main()
