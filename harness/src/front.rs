//! S6 — call histories on one generator object: the result of the last call of a history is
//! compared with a fresh generator that receives only that call (C08), and two fresh
//! generators are compared with each other (C07, in-process part).

use crate::{hex, sample_case, Case, Mode, Rng};

#[derive(Clone, Debug)]
pub enum Call {
    Gen,
    Arb(Vec<u8>),
    Reset,
    /// the caller re-configures the generator between calls through its public fields: protocol version
    /// (`state.version`) and opcode range; the next results must be those of a fresh generator configured that way
    Reconf(usize, usize, usize),
    /// the caller replaces the seed (`seed` field) and toggles the two opt-in flags
    Reseed(u64, bool, bool),
    /// the caller scribbles over the public scratch state before the next call: objects (a self-containing list
    /// among them) on `state.stack`, entries in `state.memo`, `state.proto_emitted` set, bytes in `output`
    Dirty(u8),
}

impl Call {
    fn tag(&self) -> String {
        match self {
            Call::Gen => "g".to_string(),
            Call::Arb(b) => format!("a{}", if b.is_empty() { "-".to_string() } else { hex(b) }),
            Call::Reset => "r".to_string(),
            Call::Reconf(v, a, b) => format!("c{}:{}:{}", v, a, b),
            Call::Reseed(sd, e, b) => format!("s{}:{}:{}", sd, *e as u8, *b as u8),
            Call::Dirty(k) => format!("d{}", k),
        }
    }
}

pub fn parse_calls(s: &str) -> Vec<Call> {
    s.split(',')
        .filter(|t| !t.is_empty())
        .map(|t| match t.as_bytes()[0] {
            b'g' => Call::Gen,
            b'r' => Call::Reset,
            b'c' => {
                let mut it = t[1..].split(':').map(|x| x.parse::<usize>().unwrap_or(0));
                Call::Reconf(it.next().unwrap_or(0), it.next().unwrap_or(0), it.next().unwrap_or(0))
            }
            b'd' => Call::Dirty(t[1..].parse::<u8>().unwrap_or(0)),
            b's' => {
                let mut it = t[1..].split(':');
                let sd = it.next().and_then(|x| x.parse::<u64>().ok()).unwrap_or(0);
                let e = it.next() == Some("1");
                let b = it.next() == Some("1");
                Call::Reseed(sd, e, b)
            }
            _ => Call::Arb(if &t[1..] == "-" { vec![] } else { crate::unhex(&t[1..]) }),
        })
        .collect()
}

fn do_call(c: &Case, g: &mut pickle_fuzzer::Generator, call: &Call) -> Option<Result<Vec<u8>, String>> {
    match call {
        Call::Reset => {
            g.reset();
            None
        }
        Call::Reconf(v, a, b) => {
            g.state.version = pickle_fuzzer::Version::try_from(*v).unwrap();
            g.min_opcodes = *a;
            g.max_opcodes = *b;
            None
        }
        Call::Reseed(sd, e, b) => {
            g.seed = Some(*sd);
            g.allow_ext_opcodes = *e;
            g.allow_buffer_opcodes = *b;
            None
        }
        Call::Dirty(k) => {
            use pickle_fuzzer::verif;
            for ch in "lMd(i".chars().cycle().take(*k as usize + 1) {
                if let Some(o) = verif::object_of_code(if ch == '(' { 'M' } else { ch }) {
                    g.state.stack.push(o);
                }
            }
            // a list that contains itself, left on the stack
            verif::apply(g, 0x5d, None);
            verif::apply(g, 0x32, None);
            verif::apply(g, 0x61, None);
            for i in 0..(*k as usize) {
                // PUT <i*7>: a memo entry (a copy of the self-containing list) under a scattered key
                verif::apply(g, 0x70, Some(format!("{}\n", i * 7).as_bytes()));
            }
            g.state.proto_emitted = k % 2 == 0;
            g.output.extend_from_slice(b"stale bytes.");
            None
        }
        Call::Gen => {
            let cc = Case { mode: Mode::Rand(0), warm: 0, ..c.clone() };
            Some(cc.run_on(g))
        }
        Call::Arb(b) => {
            let cc = Case { mode: Mode::Arb(b.clone()), warm: 0, ..c.clone() };
            Some(cc.run_on(g))
        }
    }
}

/// run a history; returns the result of the last generating call
pub fn run_history(c: &Case, calls: &[Call]) -> Option<Result<Vec<u8>, String>> {
    let mut g = c.generator();
    let mut last = None;
    for call in calls {
        if let Some(r) = do_call(c, &mut g, call) {
            last = Some(r);
        }
    }
    last
}

fn res_str(r: &Option<Result<Vec<u8>, String>>) -> String {
    match r {
        None => "none".to_string(),
        Some(Ok(b)) => format!("ok:{}", hex(b)),
        Some(Err(e)) => e.clone(),
    }
}

pub fn hist_line(c: &Case, calls: &[Call]) -> String {
    let got = run_history(c, calls);
    let last_idx = calls.iter().rposition(|x| matches!(x, Call::Gen | Call::Arb(_)));
    // the configuration in force at the last generating call
    let mut eff = c.clone();
    if let Some(li) = last_idx {
        for call in &calls[..li] {
            if let Call::Reconf(v, a, b) = call {
                eff.proto = *v;
                eff.min = *a;
                eff.max = *b;
            }
            if let Call::Reseed(sd, e, b) = call {
                eff.mode = Mode::Rand(*sd);
                eff.ext = *e;
                eff.buf = *b;
            }
        }
    }
    let fresh = match last_idx {
        Some(li) => run_history(&eff, std::slice::from_ref(&calls[li])),
        None => None,
    };
    let same = res_str(&got) == res_str(&fresh);
    let tags: Vec<String> = calls.iter().map(|x| x.tag()).collect();
    if ORACLE_MODE.load(std::sync::atomic::Ordering::Relaxed) {
        // the last result of the history, to be judged by the oracle under the configuration in force at that call
        return format!("oracle {} hist={} result={}", eff.line(), tags.join(","), res_str(&got));
    }
    let detail = if same {
        String::new()
    } else {
        let (a, b) = (res_str(&got), res_str(&fresh));
        format!(
            " got_len={} fresh_len={} got_prefix={} fresh_prefix={}",
            a.len() / 2,
            b.len() / 2,
            &a[..a.len().min(40)],
            &b[..b.len().min(40)]
        )
    };
    format!(
        "hist {} calls={} verdict={}{}",
        c.line(),
        tags.join(","),
        if same { "ok" } else { "FAIL" },
        detail
    )
}

/// `hist --oracle`: print the last result of every history as an `oracle` request instead of comparing it with a fresh generator
pub static ORACLE_MODE: std::sync::atomic::AtomicBool = std::sync::atomic::AtomicBool::new(false);

pub fn cmd_hist(args: &[String]) {
    if args.iter().any(|a| a == "--oracle") {
        ORACLE_MODE.store(true, std::sync::atomic::Ordering::Relaxed);
    }
    if let Some(i) = args.iter().position(|a| a == "--case") {
        // replay: --case <kv tokens...> calls=<...>
        let line = args[i + 1..].join(" ");
        let c = Case::parse(&line).expect("case");
        let calls = args[i + 1..]
            .iter()
            .find_map(|t| t.strip_prefix("calls="))
            .map(parse_calls)
            .unwrap_or_default();
        println!("{}", hist_line(&c, &calls));
        return;
    }
    let n: u64 = crate::arg_val(args, "--cases", "200").parse().unwrap();
    let seed: u64 = crate::arg_val(args, "--seed", "1").parse().unwrap();
    let maxlen: u64 = crate::arg_val(args, "--maxlen", "4").parse().unwrap();
    let mut rng = Rng(seed ^ 0x68697374);
    for id in 0..n {
        let mut c = sample_case(&mut rng, id, if id % 3 == 0 { "small" } else { "default" }, "mix");
        if c.max > 400 {
            c.max = 400;
            c.min = c.min.min(300);
        }
        // a seed is always set so that `generate` is deterministic
        c.mode = Mode::Rand(rng.next() % 100000);
        c.warm = 0;
        // reuse bugs often hide behind mutator state: favour registered mutators at a high rate
        if id % 2 == 0 {
            c.mask |= 1 << (rng.below(7) as u8);
            c.rate_bits = if rng.coin() { 1.0f64.to_bits() } else { 0.5f64.to_bits() };
            c.min = 60;
            c.max = 200;
        }
        let k = 1 + rng.below(maxlen);
        let mut calls = Vec::new();
        for _ in 0..k {
            calls.push(match rng.below(5) {
                0 => Call::Gen,
                1 => Call::Reset,
                _ => {
                    let len = match rng.below(4) {
                        0 => 0,
                        1 => rng.below(8) as usize,
                        _ => rng.below(300) as usize,
                    };
                    Call::Arb(rng.bytes(len))
                }
            });
        }
        // the exact pattern of PickleMutator.mutate: the same input twice
        if id % 7 == 0 {
            let b = rng.bytes(8);
            calls = vec![Call::Arb(b.clone()), Call::Arb(b)];
        }
        // a caller that re-configures the object between calls (public fields): another protocol, another range
        if id % 5 == 3 {
            let v = rng.below(6) as usize;
            let (a, b) = if rng.coin() { (c.min, c.max) } else { (5 + rng.below(20) as usize, 30 + rng.below(60) as usize) };
            let pos = 1 + rng.below(calls.len() as u64) as usize;
            calls.insert(pos.min(calls.len()), Call::Reconf(v, a, b));
            if rng.coin() {
                calls.push(Call::Reset);
            }
            if rng.coin() || ORACLE_MODE.load(std::sync::atomic::Ordering::Relaxed) {
                calls.push(Call::Reseed(rng.next() % 100000, rng.coin(), rng.coin()));
            }
            calls.push(if rng.coin() { Call::Gen } else { Call::Arb(rng.bytes(40)) });
        }
        // a very large pickle earlier on the same generator (capacities, high-water marks, anything sized by the
        // previous call), then a small one after re-configuring the range
        if id % 50 == 9 {
            c.min = 2300;
            c.max = 2600;
            c.mask = 0;
            calls = vec![
                if rng.coin() { Call::Gen } else { Call::Arb(vec![]) },
                Call::Reconf(c.proto, 20 + rng.below(30) as usize, 60 + rng.below(30) as usize),
            ];
            if rng.coin() {
                calls.push(Call::Reset);
            }
            calls.push(if rng.coin() { Call::Gen } else { Call::Arb(rng.bytes(30)) });
        }
        // a caller that scribbles over the public scratch state right before a call
        if id % 6 == 1 {
            let pos = calls.iter().rposition(|x| matches!(x, Call::Gen | Call::Arb(_))).unwrap_or(calls.len());
            calls.insert(pos, Call::Dirty(rng.below(9) as u8));
        }
        if !calls.iter().any(|x| matches!(x, Call::Gen | Call::Arb(_))) {
            calls.push(Call::Gen);
        }
        println!("{}", hist_line(&c, &calls));
    }
}
