//! S6 — call histories on one generator (filled in below).
pub fn cmd_hist(_args: &[String]) {
    eprintln!("hist: not built yet");
    std::process::exit(2);
}
