//! pfv-harness: runs the real pickle-fuzzer (built from /repo's working tree with the
//! `verif-hooks` feature) and prints one request line per case for the Lean driver.
//! Every random choice derives from one SplitMix64 state seeded by `--seed`.

use std::fmt::Write as _;
use std::panic::{catch_unwind, AssertUnwindSafe};

use pickle_fuzzer::verif::{self, Rec, Snapshot};
use pickle_fuzzer::{Generator, Mutator, MutatorKind, Version};

mod front;
mod heap;

#[global_allocator]
static GLOBAL: heap::Counting = heap::Counting;
mod mutsrc;
mod probe;

// ---------------------------------------------------------------- PRNG
pub struct Rng(pub u64);
impl Rng {
    pub fn next(&mut self) -> u64 {
        self.0 = self.0.wrapping_add(0x9E3779B97F4A7C15);
        let mut z = self.0;
        z = (z ^ (z >> 30)).wrapping_mul(0xBF58476D1CE4E5B9);
        z = (z ^ (z >> 27)).wrapping_mul(0x94D049BB133111EB);
        z ^ (z >> 31)
    }
    pub fn below(&mut self, n: u64) -> u64 {
        if n == 0 {
            0
        } else {
            self.next() % n
        }
    }
    pub fn coin(&mut self) -> bool {
        self.next() & 1 == 1
    }
    pub fn bytes(&mut self, n: usize) -> Vec<u8> {
        (0..n).map(|_| self.next() as u8).collect()
    }
}

// ---------------------------------------------------------------- hex
pub fn hex(b: &[u8]) -> String {
    let mut s = String::with_capacity(b.len() * 2);
    for x in b {
        let _ = write!(s, "{:02x}", x);
    }
    s
}
pub fn unhex(s: &str) -> Vec<u8> {
    (0..s.len() / 2)
        .map(|i| u8::from_str_radix(&s[2 * i..2 * i + 2], 16).unwrap())
        .collect()
}

// ---------------------------------------------------------------- cases
#[derive(Clone, Debug)]
pub enum Mode {
    Rand(u64),
    Arb(Vec<u8>),
    /// no seed: `generate()` seeds its PRNG from the operating system (what the CLI does without `--seed`);
    /// not reproducible, so only the oracle stream uses it — the structural properties hold for every seed
    Os,
}

#[derive(Clone, Debug)]
pub struct Case {
    pub id: u64,
    pub proto: usize,
    pub unsafe_m: bool,
    pub ext: bool,
    pub buf: bool,
    pub min: usize,
    pub max: usize,
    /// bit i set = mutator i registered, in the order of `MUTS`
    pub mask: u8,
    pub rate_bits: u64,
    pub mode: Mode,
    /// number of warm-up generations on the same generator before the observed one
    pub warm: u32,
    /// `unsafe_mode` the mutator objects are created with (normally = `unsafe_m`; the public API
    /// lets them differ)
    pub mu: bool,
    /// explicit ordered mutator list (indices into `MUTS`); overrides `mask` when present
    pub muts: Option<Vec<usize>>,
}

pub const MUTS: [MutatorKind; 7] = [
    MutatorKind::Bitflip,
    MutatorKind::Boundary,
    MutatorKind::Offbyone,
    MutatorKind::Stringlen,
    MutatorKind::Character,
    MutatorKind::Memoindex,
    MutatorKind::Typeconfusion,
];

impl Case {
    pub fn line(&self) -> String {
        let muts = match &self.muts {
            None => String::new(),
            Some(v) if v.is_empty() => " muts=-".to_string(),
            Some(v) => format!(
                " muts={}",
                v.iter().map(|i| crate::mutsrc::MUT_NAMES[*i]).collect::<Vec<_>>().join(",")
            ),
        };
        let mode = match &self.mode {
            Mode::Rand(s) => format!("rand:{}", s),
            Mode::Arb(b) => format!("arb:{}", if b.is_empty() { "-".to_string() } else { hex(b) }),
            Mode::Os => "os".to_string(),
        };
        format!(
            "id={}{} P={} unsafe={} mu={} ext={} buf={} min={} max={} mask={}{} rate={:016x} warm={} mode={}",
            self.id,
            if self.raw() { " raw=1" } else { "" },
            self.proto,
            self.unsafe_m as u8,
            self.mu as u8,
            self.ext as u8,
            self.buf as u8,
            self.min,
            self.max,
            self.mask,
            muts,
            self.rate_bits,
            self.warm,
            mode
        )
    }

    pub fn parse(line: &str) -> Option<Case> {
        let mut c = Case {
            id: 0,
            proto: 2,
            unsafe_m: false,
            ext: false,
            buf: false,
            min: 60,
            max: 300,
            mask: 0,
            rate_bits: 0.1f64.to_bits(),
            mode: Mode::Rand(0),
            warm: 0,
            mu: false,
            muts: None,
        };
        let mut mu_given = false;
        for tok in line.split_whitespace() {
            let Some((k, v)) = tok.split_once('=') else { continue };
            match k {
                "id" => c.id = v.parse().ok()?,
                "P" => c.proto = v.parse().ok()?,
                "unsafe" => c.unsafe_m = v == "1",
                "mu" => {
                    c.mu = v == "1";
                    mu_given = true;
                }
                "ext" => c.ext = v == "1",
                "buf" => c.buf = v == "1",
                "min" => c.min = v.parse().ok()?,
                "max" => c.max = v.parse().ok()?,
                "mask" => c.mask = v.parse().ok()?,
                "rate" => c.rate_bits = u64::from_str_radix(v, 16).ok()?,
                "warm" => c.warm = v.parse().ok()?,
                "muts" => {
                    c.muts = Some(if v == "-" {
                        vec![]
                    } else {
                        v.split(',')
                            .filter_map(|n| crate::mutsrc::MUT_NAMES.iter().position(|m| *m == n))
                            .collect()
                    })
                }
                "mode" => {
                    if let Some(s) = v.strip_prefix("rand:") {
                        c.mode = Mode::Rand(s.parse().ok()?);
                    } else if let Some(h) = v.strip_prefix("arb:") {
                        c.mode = Mode::Arb(if h == "-" { vec![] } else { unhex(h) });
                    } else if v == "os" {
                        c.mode = Mode::Os;
                    }
                }
                _ => {}
            }
        }
        if !mu_given {
            c.mu = c.unsafe_m;
        }
        Some(c)
    }

    pub fn mutators(&self) -> Vec<Box<dyn Mutator>> {
        if let Some(v) = &self.muts {
            return v.iter().map(|i| MUTS[*i].create(self.mu)).collect();
        }
        MUTS.iter()
            .enumerate()
            .filter(|(i, _)| self.mask >> i & 1 == 1)
            .map(|(_, k)| k.create(self.mu))
            .collect()
    }

    /// every 11th case configures the generator through its public fields instead of the builder
    pub fn raw(&self) -> bool {
        self.id % 11 == 10
    }

    /// the documented-but-inert `bufsize` knob ("limits the maximum pickle size"): a fifth of the cases set it, to
    /// ordinary and to extreme values; the output must not depend on it
    pub fn bufsize(&self) -> Option<usize> {
        match self.id % 15 {
            2 => Some(4096),
            5 => Some(0),
            8 => Some(usize::MAX),
            11 => Some(isize::MAX as usize + 1),
            14 => Some(1),
            _ => None,
        }
    }

    /// the configured generator.  The public builder offers several equivalent routes to one configuration
    /// (`with_opcode_range` or the two single setters in either order, `with_mutators` or repeated `with_mutator`,
    /// any order of the builder calls); which route is taken is derived from the case id, so that a builder whose
    /// effect depends on the route or on the order of the calls shows up as a wrong configuration.
    pub fn generator(&self) -> Generator {
        let mut g = Generator::new(Version::try_from(self.proto).unwrap());
        if self.raw() && self.id % 22 == 21 {
            // the other construction path of the public API: `Generator::default()` (protocol 3) with the protocol
            // then written into `state.version`
            g = Generator::default();
            g.state.version = Version::try_from(self.proto).unwrap();
        }
        if self.raw() {
            // the configuration written straight into the public fields: no builder, hence no clamping of the rate
            // (C09 quantifies over out-of-range rates), and a used output buffer left behind by the caller
            g.min_opcodes = self.min;
            g.max_opcodes = self.max;
            g.mutators = self.mutators();
            g.mutation_rate = f64::from_bits(self.rate_bits);
            g.unsafe_mutations = self.unsafe_m;
            g.allow_ext_opcodes = self.ext;
            g.allow_buffer_opcodes = self.buf;
            if let Mode::Rand(s) = &self.mode {
                g.seed = Some(*s);
            }
            g.output.extend_from_slice(b"left over by the caller");
            g.bufsize = self.bufsize();
            return g;
        }
        let route = self.id % 6;
        // builder steps: 0 range, 1 mutators, 2 unsafe, 3 ext, 4 buffer, 5 rate, 6 seed
        let mut order: Vec<usize> = (0..7).collect();
        if route >= 3 {
            // a rotation and a reversal are enough to put every step before and after every other one
            order.rotate_left((self.id % 7) as usize);
            if self.id % 2 == 1 {
                order.reverse();
            }
        }
        if let Some(sz) = self.bufsize() {
            g = g.with_buffer_size(sz);
        }
        for step in order {
            g = match step {
                0 => match route % 3 {
                    0 => g.with_opcode_range(self.min, self.max),
                    1 => g.with_min_opcodes(self.min).with_max_opcodes(self.max),
                    _ => g.with_max_opcodes(self.max).with_min_opcodes(self.min),
                },
                1 => {
                    if route % 2 == 0 {
                        g.with_mutators(self.mutators())
                    } else {
                        let mut h = g.with_mutators(Vec::new());
                        for m in self.mutators() {
                            h = h.with_mutator(m);
                        }
                        h
                    }
                }
                2 => g.with_unsafe_mutations(self.unsafe_m),
                3 => g.with_ext_opcodes(self.ext),
                4 => g.with_buffer_opcodes(self.buf),
                // the builder clamps; out-of-range / NaN rates are part of C09's quantifier
                5 => g.with_mutation_rate(f64::from_bits(self.rate_bits)),
                _ => {
                    if let Mode::Rand(s) = &self.mode {
                        g.with_seed(*s)
                    } else {
                        g
                    }
                }
            };
        }
        g
    }

    pub fn run_on(&self, g: &mut Generator) -> Result<Vec<u8>, String> {
        let r = catch_unwind(AssertUnwindSafe(|| match &self.mode {
            Mode::Rand(_) | Mode::Os => g.generate(),
            Mode::Arb(b) => g.generate_from_arbitrary(b),
        }));
        match r {
            Ok(Ok(v)) => Ok(v),
            Ok(Err(e)) => Err(format!("err:{}", sanitize(&format!("{}", e)))),
            Err(p) => {
                let msg = if let Some(s) = p.downcast_ref::<&str>() {
                    s.to_string()
                } else if let Some(s) = p.downcast_ref::<String>() {
                    s.clone()
                } else {
                    "?".to_string()
                };
                Err(format!("panic:{}", sanitize(&msg)))
            }
        }
    }

    /// warm-up generations (different fuzzer bytes each), as a reused generator would see them
    pub fn warm_up(&self, g: &mut Generator) {
        for i in 0..self.warm {
            let mut r = Rng(self.id.wrapping_mul(0x9E37).wrapping_add(i as u64));
            let n = 8 + r.below(300) as usize;
            let bytes = r.bytes(n);
            let _ = catch_unwind(AssertUnwindSafe(|| g.generate_from_arbitrary(&bytes)));
        }
    }

    pub fn run(&self) -> Result<Vec<u8>, String> {
        let c = self.clone();
        watchdog(self, move || {
            let mut g = c.generator();
            c.warm_up(&mut g);
            c.run_on(&mut g)
        })
    }
}

/// run one case on a worker thread (8 MiB stack, like the main thread) under a watchdog: a
/// generation that does not come back is reported as `hang` and the process ends (the worker
/// cannot be stopped) — C09 "does not loop forever"
pub fn watchdog<T: Send + 'static>(
    c: &Case,
    f: impl FnOnce() -> Result<T, String> + Send + 'static,
) -> Result<T, String> {
    let (tx, rx) = std::sync::mpsc::channel();
    let big = c.min.max(c.max) as u64 / 1000;
    let limit = std::time::Duration::from_millis(30_000 + big * big * 25);
    let h = std::thread::Builder::new()
        .stack_size(8 << 20)
        .spawn(move || {
            let _ = tx.send(f());
        })
        .expect("spawn");
    match rx.recv_timeout(limit) {
        Ok(r) => {
            let _ = h.join();
            r
        }
        Err(std::sync::mpsc::RecvTimeoutError::Timeout) => {
            use std::io::Write;
            println!("oracle {} result=hang:no_result_after_{}s", c.line(), limit.as_secs());
            let _ = std::io::stdout().flush();
            std::process::exit(0);
        }
        Err(_) => Err("panic:worker_thread_died".to_string()),
    }
}

pub fn sanitize(s: &str) -> String {
    s.chars()
        .map(|c| if c.is_whitespace() { '_' } else { c })
        .take(200)
        .collect()
}

pub const RATES: [f64; 6] = [0.0, 0.1, 0.5, 0.9, 1.0, 0.25];

/// sample a case. `profile`:
///  default — small/medium ranges, all kinds of (min,max) incl. inverted/zero
///  memo    — 3000..4000 opcodes so that the memo exceeds 255 entries (protocols with BINPUT)
///  small   — 0..12 opcodes (dense coverage of short programs and of the collapse phase)
/// `--order desc`: protocols run 5,4,..,0 instead of 0,1,..,5 inside one process, so that state which
/// wrongly outlives a generator (process-wide caches) is met in both directions
pub static PROTO_DESC: std::sync::atomic::AtomicBool = std::sync::atomic::AtomicBool::new(false);

pub fn sample_case(rng: &mut Rng, id: u64, profile: &str, unsafe_sel: &str) -> Case {
    let k = (id % 6) as usize;
    let proto = if profile == "big" { 4 + (id % 2) as usize }
        else if PROTO_DESC.load(std::sync::atomic::Ordering::Relaxed) { 5 - k } else { k };
    let unsafe_m = match unsafe_sel {
        "0" => false,
        "1" => true,
        _ => rng.coin(),
    };
    let (min, max) = match profile {
        "memo" => (3000, 4000),
        "small" => {
            let a = rng.below(13) as usize;
            let b = rng.below(13) as usize;
            (a, b)
        }
        "mid" => (300, 900),
        "big" => (8000, 10000),
        "large" => (45000, 45001),
        _ => match rng.below(10) {
            0 => (0, 0),
            1 => (5, 5),
            2 => (40, 10), // inverted
            3 => (0, 30),
            4 => (1, 2),
            5 => (200, 600),
            _ => (60, 300),
        },
    };
    let mask = match rng.below(4) {
        0 => 0,
        1 => 0x7f,
        _ => rng.below(128) as u8,
    };
    let rate_bits = match rng.below(8) {
        // special and arbitrary bit patterns (the builder clamps to [0,1]; NaN stays NaN)
        0 => match rng.below(8) {
            0 | 1 => 0x7ff8_0000_0000_0000,       // NaN
            2 => 0xfff8_0000_0000_0001,           // another NaN (sign bit, payload)
            3 => 0x8000_0000_0000_0000,           // -0.0
            4 => f64::INFINITY.to_bits(),
            5 => (-1.5f64).to_bits(),
            6 => 0x0000_0000_0000_0001,           // smallest subnormal
            _ => rng.next(),
        },
        k => RATES[(k as usize - 1) % RATES.len()].to_bits(),
    };
    let mode = if rng.coin() {
        // seeds over the whole u64 range: mostly small, sometimes an edge, sometimes any 64-bit value
        Mode::Rand(match rng.below(8) {
            0 => [0u64, 1, u32::MAX as u64, 1 << 32, (1 << 63) - 1, 1 << 63, u64::MAX - 5, u64::MAX][rng.below(8) as usize],
            1 => rng.next(),
            _ => rng.next() % 1_000_000,
        })
    } else {
        let len = match rng.below(6) {
            0 => 0,
            1 => rng.below(4) as usize,
            2 => rng.below(64) as usize,
            3 => rng.below(600) as usize,
            _ => 200 + rng.below(4000) as usize,
        };
        // structured bytes: mostly random, sometimes long runs of one value (exhaustion-like)
        let mut b = rng.bytes(len);
        if rng.below(5) == 0 {
            let v = rng.next() as u8;
            let from = rng.below(len as u64 + 1) as usize;
            for x in b[from..].iter_mut() {
                *x = v;
            }
        }
        Mode::Arb(b)
    };
    let mut c = Case {
        id,
        proto,
        unsafe_m,
        ext: rng.coin(),
        buf: rng.coin(),
        min,
        max,
        mask,
        rate_bits,
        mode,
        warm: if rng.below(4) == 0 { 1 + rng.below(2) as u32 } else { 0 },
        // mutator objects built with another unsafe_mode than the generator's flag (public API);
        // never an unsafe-mode TypeConfusion on a "safe" generator: that *is* an unsafe mutation
        mu: if rng.below(8) == 0 && (mask & 0x40) == 0 { !unsafe_m } else { unsafe_m },
        muts: None,
    };
    if profile != "c15" && rng.below(4) == 0 {
        // an explicit ordered mutator list: any order, repetitions allowed (the first applicable mutator wins, so
        // order matters); never an unsafe-mode TypeConfusion on a safe generator (see `mu` above)
        let n = 1 + rng.below(4) as usize;
        let mut v = Vec::new();
        for _ in 0..n {
            let k = rng.below(7) as usize;
            if k == 6 && !(c.unsafe_m && c.mu) {
                continue;
            }
            v.push(k);
        }
        c.muts = Some(v);
    }
    if profile == "c15" {
        // the rate extremes with every single value mutator and every ordered pair of them, mutator objects built
        // with either unsafe_mode, on safe and unsafe generators, medium-sized programs (so that every value kind,
        // empty payloads and memo fetches occur)
        let k = (id / 2 % 6) as usize;
        let second = (id / 12 % 7) as usize;
        c.muts = Some(if second == 6 || second == k { vec![k] } else { vec![k, second] });
        c.rate_bits = if id % 2 == 0 { 1.0f64.to_bits() } else { 0.0f64.to_bits() };
        c.mu = rng.coin();
        c.min = 80;
        c.max = 160;
        c.warm = 0;
    }
    c
}

// ---------------------------------------------------------------- digests
pub fn fnv(bytes: impl Iterator<Item = u8>) -> u64 {
    let mut h: u64 = 0xcbf29ce484222325;
    for b in bytes {
        h ^= b as u64;
        h = h.wrapping_mul(0x100000001b3);
    }
    h
}

pub fn stack_digest(s: &Snapshot) -> String {
    format!("{}:{:016x}", s.stack.chars().count(), fnv(s.stack.bytes()))
}

pub fn memo_digest(s: &Snapshot) -> String {
    let it = s
        .memo
        .iter()
        .flat_map(|(k, c)| (*k as u64).to_le_bytes().into_iter().chain(std::iter::once(*c as u8)));
    format!("{}:{:016x}", s.memo.len(), fnv(it))
}

pub fn memo_full(s: &Snapshot) -> String {
    if s.memo.is_empty() {
        return "-".to_string();
    }
    s.memo
        .iter()
        .map(|(k, c)| format!("{}={}", k, c))
        .collect::<Vec<_>>()
        .join(",")
}

pub fn keys_digest(s: &Snapshot) -> String {
    let it = s.memo.iter().flat_map(|(k, _)| (*k as u64).to_le_bytes().into_iter());
    format!("{:016x}", fnv(it))
}

fn snap(s: &Snapshot) -> String {
    let full = if s.stack.is_empty() {
        ".".to_string()
    } else if s.stack.chars().count() <= 48 {
        s.stack.clone()
    } else {
        "-".to_string()
    };
    format!(
        "{}/{}/{}/{}/{}/{}",
        stack_digest(s),
        memo_digest(s),
        s.out_len,
        s.proto_emitted as u8,
        full,
        keys_digest(s)
    )
}

// ---------------------------------------------------------------- commands
fn arg_val<'a>(args: &'a [String], key: &str, default: &'a str) -> &'a str {
    args.iter()
        .position(|a| a == key)
        .and_then(|i| args.get(i + 1))
        .map(|s| s.as_str())
        .unwrap_or(default)
}

fn cmd_oracle(args: &[String]) {
    if args.iter().any(|a| a == "--stdin") {
        // one case line per input line (directed families built by check.py)
        use std::io::BufRead;
        let stdin = std::io::stdin();
        for line in stdin.lock().lines() {
            let line = line.unwrap();
            let line = line.trim();
            if line.is_empty() {
                continue;
            }
            match Case::parse(line) {
                Some(c) => match c.run() {
                    Ok(out) => println!("oracle {} result=ok:{}", c.line(), hex(&out)),
                    Err(e) => println!("oracle {} result={}", c.line(), e),
                },
                None => println!("oracle id=? result=bad-case-line"),
            }
        }
        return;
    }
    let n: u64 = arg_val(args, "--cases", "100").parse().unwrap();
    let seed: u64 = arg_val(args, "--seed", "1").parse().unwrap();
    let profile = arg_val(args, "--profile", "default");
    let unsafe_sel = arg_val(args, "--unsafe", "0");
    let mut rng = Rng(seed);
    for id in 0..n {
        let mut c = sample_case(&mut rng, id, profile, unsafe_sel);
        if id % 16 == 7 && matches!(c.mode, Mode::Rand(_)) && c.warm == 0 {
            c.mode = Mode::Os;
        }
        match c.run() {
            Ok(out) => println!("oracle {} result=ok:{}", c.line(), hex(&out)),
            Err(e) => println!("oracle {} result={}", c.line(), e),
        }
    }
}

/// one traced generation, as a `trace` request line (under the watchdog)
pub fn trace_line(c: &Case) -> String {
    let cc = c.clone();
    let r = watchdog(c, move || Ok(trace_line_inner(&cc)));
    r.unwrap_or_else(|e| format!("trace {} target=- bodyend=- mutated=0 rewritten=0 final=- steps=- result={}", c.line(), e))
}

/// `--graph`: traced runs also record the live object graph (cells, edges, reference counts) after every opcode
pub static GRAPH_ON: std::sync::atomic::AtomicBool = std::sync::atomic::AtomicBool::new(false);

fn trace_line_inner(c: &Case) -> String {
    let mut g = c.generator();
    c.warm_up(&mut g);
    let graph_on = GRAPH_ON.load(std::sync::atomic::Ordering::Relaxed);
    if graph_on {
        verif::graph_start();
    }
    verif::trace_start();
    let res = c.run_on(&mut g);
    let recs = verif::trace_take();
    // object level: once the generator is reset, none of the cells the run created may still be alive
    let alive_after_reset = if graph_on {
        g.reset();
        Some(verif::graph_alive())
    } else {
        None
    };
    verif::graph_stop();
    let mut valids: Vec<String> = Vec::new();
    let mut pending_valid: Option<String> = None;
    let mut graph_digs: Vec<String> = Vec::new();
    let mut graph_final = String::from("-");
    let mut steps = String::new();
    let mut target = String::from("-");
    let mut bodyend = String::from("-");
    let mut fin = String::from("-");
    let mut nsteps = 0usize;
    let mut mutated = 0usize;
    let mut rewritten = 0usize;
    // value-carrying emissions per kind (i, f, s non-empty, s empty, y non-empty, y empty, m) and mutations per kind
    // (i, f, s, y, m): the generation-level C15 oracle compares them at the rate extremes
    let mut nv = [0usize; 7];
    let mut nm = [0usize; 5];
    for r in &recs {
        match r {
            Rec::Target { target: t, pre } => target = format!("{}@{}", t, snap(pre)),
            Rec::Valid { ops, left } => {
                pending_valid = Some(format!(
                    "{}@{}",
                    if ops.is_empty() { "e".to_string() } else { hex(ops) },
                    left.map(|x| x.to_string()).unwrap_or_else(|| "-".to_string())
                ))
            }
            Rec::Op { op, arg, pre } => {
                // the candidate list is recorded for the first 2500 opcodes of a run (comparing it costs the driver a pass
                // over the whole stack per guard); "~" = beyond the recording limit
                let v = pending_valid.take();
                valids.push(if nsteps >= 2500 && v.is_some() { "~".to_string() } else { v.unwrap_or_else(|| "-".to_string()) });
                if !steps.is_empty() {
                    steps.push(';');
                }
                let a = match arg {
                    None => "-".to_string(),
                    Some(a) if a.is_empty() => "e".to_string(),
                    Some(a) => hex(a),
                };
                let _ = write!(steps, "{:02x}/{}/{}", op, a, snap(pre));
                if let Some(t) = &pre.graph {
                    graph_digs.push(format!("{:016x}", fnv(t.bytes())));
                }
                nsteps += 1;
                let alen = arg.as_ref().map(|a| a.len()).unwrap_or(0);
                let empty_at = |min: usize| if alen <= min { 1 } else { 0 };
                match *op {
                    0x49 | 0x4c | 0x4a | 0x4b | 0x4d | 0x8a | 0x8b => nv[0] += 1,
                    0x46 | 0x47 => nv[1] += 1,
                    // the argument handed to process_stack_ops: STRING `'..'\n`, UNICODE `..\n`, the binary ones the payload
                    0x53 => nv[2 + empty_at(3)] += 1,
                    0x56 => nv[2 + empty_at(1)] += 1,
                    0x8c | 0x58 | 0x8d => nv[2 + empty_at(0)] += 1,
                    0x54 | 0x42 | 0x55 | 0x43 | 0x8e | 0x96 => nv[4 + empty_at(0)] += 1,
                    0x67 | 0x68 | 0x6a => nv[6] += 1,
                    _ => {}
                }
            }
            Rec::BodyEnd { pre } => bodyend = format!("{}@{}", nsteps, snap(pre)),
            Rec::Final { post } => {
                if let Some(t) = &post.graph {
                    graph_digs.push(format!("{:016x}", fnv(t.bytes())));
                    graph_final = t.clone();
                }
                fin = format!(
                    "{}/{}/{}",
                    snap(post),
                    if post.stack.is_empty() { "." } else { &post.stack },
                    memo_full(post)
                )
            }
            Rec::Mutated { kind } => {
                mutated += 1;
                match kind {
                    'i' => nm[0] += 1,
                    'f' => nm[1] += 1,
                    's' => nm[2] += 1,
                    'y' => nm[3] += 1,
                    'm' => nm[4] += 1,
                    _ => {}
                }
            }
            Rec::Rewritten => rewritten += 1,
        }
    }
    if steps.is_empty() {
        steps.push('-');
    }
    let result = match res {
        Ok(out) => format!("ok:{}", hex(&out)),
        Err(e) => e,
    };
    let graph = if graph_on {
        format!(
            " graph={} graphfinal={} alive_after_reset={}",
            if graph_digs.is_empty() { "-".to_string() } else { graph_digs.join(",") },
            graph_final,
            alive_after_reset.unwrap_or(0)
        )
    } else {
        String::new()
    };
    format!(
        "trace {}{} valid={} target={} bodyend={} mutated={} rewritten={} nv={} nm={} final={} steps={} result={}",
        c.line(),
        graph,
        if valids.is_empty() { "-".to_string() } else { valids.join(",") },
        target,
        bodyend,
        mutated,
        rewritten,
        nv.iter().map(|x| x.to_string()).collect::<Vec<_>>().join("/"),
        nm.iter().map(|x| x.to_string()).collect::<Vec<_>>().join("/"),
        fin,
        steps,
        result
    )
}

/// (bits, text) of every FLOAT argument the run formatted — the model takes Rust's float
/// `Display` as a given function and is handed its graph on the values that occurred
pub fn float_table(recs: &[Rec]) -> String {
    let mut v: Vec<String> = Vec::new();
    for r in recs {
        if let Rec::Op { op: 0x46, arg: Some(a), .. } = r {
            let text = std::str::from_utf8(a).unwrap_or("").trim_end_matches('\n');
            if let Ok(x) = text.parse::<f64>() {
                if x.is_finite() {
                    v.push(format!("{:016x}:{}", x.to_bits(), hex(text.as_bytes())));
                }
            }
        }
    }
    v.sort();
    v.dedup();
    if v.is_empty() {
        "-".to_string()
    } else {
        v.join(",")
    }
}

pub fn gen_line(c: &Case) -> String {
    let cc = c.clone();
    let r = watchdog(c, move || {
        let mut g = cc.generator();
        verif::trace_start();
        let res = cc.run_on(&mut g);
        let recs = verif::trace_take();
        let result = match res {
            Ok(out) => format!("ok:{}", hex(&out)),
            Err(e) => e,
        };
        Ok(format!("gen {} floats={} result={}", cc.line(), float_table(&recs), result))
    });
    r.unwrap_or_else(|e| format!("gen {} floats=- result={}", c.line(), e))
}

/// S3: generate_from_arbitrary on structured and exhaustive inputs, for the exact model
fn cmd_gen(args: &[String]) {
    let n: u64 = arg_val(args, "--cases", "100").parse().unwrap();
    let seed: u64 = arg_val(args, "--seed", "1").parse().unwrap();
    let profile = arg_val(args, "--profile", "default");
    let unsafe_sel = arg_val(args, "--unsafe", "mix");
    let exhaustive: usize = arg_val(args, "--exhaustive", "0").parse().unwrap();
    let mut id = 0u64;
    if exhaustive > 0 {
        // every byte string of length <= `exhaustive` (1 or 2), every protocol, default settings
        let mut inputs: Vec<Vec<u8>> = vec![vec![]];
        for x in 0..=255u8 {
            inputs.push(vec![x]);
        }
        if exhaustive >= 2 {
            for x in 0..=255u8 {
                for y in 0..=255u8 {
                    inputs.push(vec![x, y]);
                }
            }
        }
        for inp in inputs {
            for p in 0..6 {
                let c = Case {
                    id,
                    proto: p,
                    unsafe_m: false,
                    ext: id % 2 == 0,
                    buf: id % 3 == 0,
                    min: 3,
                    max: 9,
                    mask: if id % 5 == 0 { 0x1f } else { 0 },
                    rate_bits: 0.5f64.to_bits(),
                    mode: Mode::Arb(inp.clone()),
                    warm: 0,
                    mu: false,
                    muts: None,
                };
                println!("{}", gen_line(&c));
                id += 1;
            }
        }
        return;
    }
    let mut rng = Rng(seed ^ 0x67656e);
    while id < n {
        let mut c = sample_case(&mut rng, id, profile, unsafe_sel);
        c.warm = 0;
        if let Mode::Rand(s) = c.mode {
            // both sources are ported exactly (Unstructured and ChaCha8): keep every third seeded case
            // seeded, turn the others into fuzzer-bytes cases of varied length
            if id % 3 != 0 {
                let mut r = Rng(s);
                let len = r.below(2500) as usize;
                c.mode = Mode::Arb(r.bytes(len));
            }
        }
        println!("{}", gen_line(&c));
        id += 1;
    }
}

fn cmd_trace(args: &[String]) {
    if args.iter().any(|a| a == "--graph") {
        GRAPH_ON.store(true, std::sync::atomic::Ordering::Relaxed);
    }
    if args.iter().any(|a| a == "--stdin") {
        // one case line per input line (directed families built by check.py)
        let stdin = std::io::stdin();
        let mut line = String::new();
        while stdin.read_line(&mut line).unwrap_or(0) > 0 {
            if let Some(c) = Case::parse(line.trim()) {
                println!("{}", trace_line(&c));
            }
            line.clear();
        }
        return;
    }
    let n: u64 = arg_val(args, "--cases", "100").parse().unwrap();
    let seed: u64 = arg_val(args, "--seed", "1").parse().unwrap();
    let profile = arg_val(args, "--profile", "default");
    let unsafe_sel = arg_val(args, "--unsafe", "0");
    let mut rng = Rng(seed ^ 0x7261_6365);
    for id in 0..n {
        let c = sample_case(&mut rng, id, profile, unsafe_sel);
        println!("{}", trace_line(&c));
    }
}

fn cmd_case(args: &[String]) {
    // re-run one case given as key=value tokens (a replay)
    let line = args.join(" ");
    let Some(c) = Case::parse(&line) else {
        eprintln!("cannot parse case");
        std::process::exit(2);
    };
    if args.iter().any(|a| a == "--graph") {
        GRAPH_ON.store(true, std::sync::atomic::Ordering::Relaxed);
    }
    if args.iter().any(|a| a == "--trace") {
        println!("{}", trace_line(&c));
    } else {
        match c.run() {
            Ok(out) => println!("oracle {} result=ok:{}", c.line(), hex(&out)),
            Err(e) => println!("oracle {} result={}", c.line(), e),
        }
    }
}

/// C12: default settings, one generation per (protocol, seed); `--ext 1` also enables the opt-ins
fn cmd_seeds(args: &[String]) {
    let from: u64 = arg_val(args, "--from", "0").parse().unwrap();
    let to: u64 = arg_val(args, "--to", "100").parse().unwrap();
    let ext = arg_val(args, "--ext", "0") == "1";
    let protos: Vec<usize> = arg_val(args, "--protos", "0,1,2,3,4,5").split(',').filter_map(|x| x.parse().ok()).collect();
    if ext {
        // a process that enables the opt-in opcodes has usually generated with default settings before: do so here, so
        // that anything process-wide that remembers the first configuration is in the picture
        for &p in &protos {
            let c = Case { id: 0, proto: p, unsafe_m: false, ext: false, buf: false, min: 60, max: 300, mask: 0,
                           rate_bits: 0.1f64.to_bits(), mode: Mode::Rand(0), warm: 0, mu: false, muts: None };
            let _ = c.run();
        }
    }
    for seed in from..to {
        for &p in &protos {
            let c = Case {
                id: seed * 6 + p as u64,
                proto: p,
                unsafe_m: false,
                ext,
                buf: ext,
                min: 60,
                max: 300,
                mask: 0,
                rate_bits: 0.1f64.to_bits(),
                mode: Mode::Rand(seed),
                warm: 0,
                mu: false,
                muts: None,
            };
            match c.run() {
                Ok(out) => println!("oracle {} result=ok:{}", c.line(), hex(&out)),
                Err(e) => println!("oracle {} result={}", c.line(), e),
            }
        }
    }
}

/// C07: the same cases generated concurrently on `--threads` threads, each thread with its own
/// generators; every thread must produce exactly what a sequential run produces
fn cmd_threads(args: &[String]) {
    let n: u64 = arg_val(args, "--cases", "200").parse().unwrap();
    let seed: u64 = arg_val(args, "--seed", "1").parse().unwrap();
    let threads: usize = arg_val(args, "--threads", "16").parse().unwrap();
    let mut rng = Rng(seed ^ 0x746872);
    let cases: Vec<Case> = (0..n)
        .map(|id| {
            let mut c = sample_case(&mut rng, id, if id % 2 == 0 { "default" } else { "small" }, "mix");
            if c.max > 400 {
                c.max = 400;
                c.min = c.min.min(300);
            }
            c
        })
        .collect();
    let run_all = |cases: &[Case], rot: usize| -> Vec<(u64, String)> {
        // each thread walks the cases in a different rotation, so that the interleaving of
        // protocols / configurations differs between threads
        let k = cases.len();
        (0..k)
            .map(|i| {
                let c = &cases[(i + rot) % k];
                let mut g = c.generator();
                c.warm_up(&mut g);
                let r = match c.run_on(&mut g) {
                    Ok(o) => format!("ok:{:016x}:{}", fnv(o.iter().copied()), o.len()),
                    Err(e) => e,
                };
                (c.id, r)
            })
            .collect()
    };
    let mut reference = run_all(&cases, 0);
    reference.sort();
    let cases = std::sync::Arc::new(cases);
    let handles: Vec<_> = (0..threads)
        .map(|t| {
            let cs = cases.clone();
            std::thread::Builder::new()
                .stack_size(8 << 20)
                .spawn(move || {
                    let k = cs.len();
                    let mut v: Vec<(u64, String)> = (0..k)
                        .map(|i| {
                            let c = &cs[(i + t * 7) % k];
                            let mut g = c.generator();
                            c.warm_up(&mut g);
                            let r = match c.run_on(&mut g) {
                                Ok(o) => format!("ok:{:016x}:{}", fnv(o.iter().copied()), o.len()),
                                Err(e) => e,
                            };
                            (c.id, r)
                        })
                        .collect();
                    v.sort();
                    v
                })
                .unwrap()
        })
        .collect();
    let mut bad = 0;
    for (t, h) in handles.into_iter().enumerate() {
        let v = h.join().unwrap_or_default();
        for (a, b) in reference.iter().zip(v.iter()) {
            if a != b {
                bad += 1;
                if bad <= 3 {
                    let c = cases.iter().find(|c| c.id == a.0).unwrap();
                    println!("threads MISMATCH thread={} {} sequential={} concurrent={}", t, c.line(), a.1, b.1);
                }
            }
        }
    }
    println!("threads done cases={} threads={} mismatches={}", reference.len(), threads, bad);
    let _ = run_all;
}

fn cmd_tables() {
    for (name, b) in verif::opcode_table() {
        println!("opcode {} {:02x}", name, b);
    }
    for v in 0..6u8 {
        println!("table {} {}", v, hex(&verif::protocol_table(v)));
    }
}

fn main() {
    let args: Vec<String> = std::env::args().skip(1).collect();
    // panics are caught per case; keep stderr quiet
    std::panic::set_hook(Box::new(|_| {}));
    if arg_val(&args, "--order", "asc") == "desc" {
        PROTO_DESC.store(true, std::sync::atomic::Ordering::Relaxed);
    }
    match args.first().map(|s| s.as_str()) {
        Some("oracle") => cmd_oracle(&args[1..]),
        Some("trace") => cmd_trace(&args[1..]),
        Some("gen") => cmd_gen(&args[1..]),
        Some("seeds") => cmd_seeds(&args[1..]),
        Some("threads") => cmd_threads(&args[1..]),
        Some("case") => cmd_case(&args[1..]),
        Some("tables") => cmd_tables(),
        Some("probe") => probe::cmd_probe(&args[1..]),
        Some("seq") => probe::cmd_seq(&args[1..]),
        Some("mut") => mutsrc::cmd_mut(&args[1..]),
        Some("src") => mutsrc::cmd_src(&args[1..]),
        Some("hist") => front::cmd_hist(&args[1..]),
        Some("heap") => heap::cmd_heap(&args[1..]),
        _ => {
            eprintln!("usage: pfv-harness oracle|trace|case|tables|probe|mut|src|hist|heap ...");
            std::process::exit(2);
        }
    }
}
