//! S1 — exhaustive probe of the guards and of the stack simulation on small simulated states.
//! One line per state; the Lean driver recomputes every field from the model.

use crate::{fnv, hex};
use pickle_fuzzer::verif;

pub const KINDS: &str = "ifbnysaltdezMgocx?";

fn memo_of(n: usize) -> Vec<(usize, char)> {
    let k: Vec<char> = KINDS.chars().collect();
    (0..n).map(|i| (i, k[i % k.len()])).collect()
}

fn memo_digest(m: &[(usize, char)]) -> String {
    let it = m
        .iter()
        .flat_map(|(k, c)| (*k as u64).to_le_bytes().into_iter().chain(std::iter::once(*c as u8)));
    format!("{}:{:016x}", m.len(), fnv(it))
}

/// canonical `arg_bytes` variants passed to `process_stack_ops` for an opcode, given the memo size
fn arg_variants(name: &str, memo_len: usize) -> Vec<Option<Vec<u8>>> {
    let s = |x: &str| Some(x.as_bytes().to_vec());
    match name {
        "Int" => vec![None, s("0\n"), s("1\n"), s("7\n"), s("-3\n"), s("99999999999999999999\n")],
        "BinInt" => vec![None, Some(vec![1, 0, 0, 0]), Some(vec![0xff, 0xff, 0xff, 0xff])],
        "BinInt1" => vec![None, Some(vec![0]), Some(vec![200])],
        "BinInt2" => vec![None, Some(vec![1, 2])],
        "Long" => vec![None, s("5L\n"), s("0L\n")],
        "Long1" => vec![None, Some(vec![4, 1, 0, 0, 0])],
        "Long4" => vec![None, Some(vec![4, 0, 0, 0, 1, 0, 0, 0])],
        "String" => vec![None, s("'ab'\n")],
        "Unicode" => vec![None, s("ab\n")],
        "ShortBinUnicode" | "BinUnicode" | "BinUnicode8" => vec![None, s("ab")],
        "BinString" | "ShortBinString" | "BinBytes" | "ShortBinBytes" | "BinBytes8"
        | "ByteArray8" => vec![None, Some(vec![0, 255])],
        "Float" => vec![None, s("0.5\n")],
        "BinFloat" => vec![None, Some(vec![0x3f, 0xe0, 0, 0, 0, 0, 0, 0])],
        "Global" | "Inst" => vec![None, s("os\nsystem\n")],
        "PersID" => vec![None, s("pid_1\n")],
        "Get" => {
            let mut v = vec![None, s("0\n"), Some(format!("{}\n", memo_len).into_bytes())];
            if memo_len > 1 {
                v.push(Some(format!("{}\n", memo_len - 1).into_bytes()));
            }
            v
        }
        "Put" => vec![None, Some(format!("{}\n", memo_len).into_bytes()), s("0\n")],
        "BinGet" => vec![None, Some(vec![0]), Some(vec![(memo_len % 256) as u8]), Some(vec![255])],
        "BinPut" => vec![None, Some(vec![(memo_len % 256) as u8]), Some(vec![0])],
        "LongBinGet" => vec![
            None,
            Some(vec![0, 0, 0, 0]),
            Some((memo_len as u32).to_le_bytes().to_vec()),
        ],
        "LongBinPut" => vec![None, Some((memo_len as u32).to_le_bytes().to_vec()), Some(vec![0, 0, 0, 0])],
        "Ext1" => vec![None, Some(vec![1])],
        "Ext2" => vec![None, Some(vec![1, 0])],
        "Ext4" => vec![None, Some(vec![1, 0, 0, 0])],
        "Proto" => vec![None],
        "Frame" => vec![None],
        _ => vec![None],
    }
}

struct St<'a> {
    stack: &'a str,
    memo: &'a [(usize, char)],
}

fn probe_line(
    st: &St,
    unsafe_m: bool,
    ext: bool,
    buf: bool,
    pe: bool,
    with_valid: bool,
    with_apply: bool,
    ops: &[(String, u8)],
) -> String {
    let mk = |v: usize| verif::with_state(v, unsafe_m, ext, buf, st.stack, st.memo, pe).unwrap();
    let g = mk(2);
    let can: String = ops
        .iter()
        .map(|(_, b)| if verif::can_emit(&g, *b).unwrap() { '1' } else { '0' })
        .collect();
    let mut line = format!(
        "probe unsafe={} ext={} buf={} pe={} stack={} memo={} can={}",
        unsafe_m as u8,
        ext as u8,
        buf as u8,
        pe as u8,
        if st.stack.is_empty() { "-" } else { st.stack },
        st.memo.len(),
        can
    );
    if with_valid {
        let v: Vec<String> = (0..6)
            .map(|p| {
                let h = hex(&verif::valid_opcodes(&mk(p)));
                if h.is_empty() {
                    "-".to_string()
                } else {
                    h
                }
            })
            .collect();
        line.push_str(&format!(" valid={}", v.join(",")));
    }
    if with_apply {
        let mut parts: Vec<String> = Vec::new();
        for (name, b) in ops {
            for arg in arg_variants(name, st.memo.len()) {
                for p in [2usize, 0] {
                    if p == 0 && name != "Int" {
                        continue;
                    }
                    let mut g = mk(p);
                    verif::apply(&mut g, *b, arg.as_deref());
                    let s = verif::snapshot(&g);
                    parts.push(format!(
                        "{}:{:02x}:{}:{}:{}",
                        p,
                        b,
                        match &arg {
                            None => "-".to_string(),
                            Some(a) if a.is_empty() => "e".to_string(),
                            Some(a) => hex(a),
                        },
                        if s.stack.is_empty() { "-".to_string() } else { s.stack.clone() },
                        memo_digest(&s.memo)
                    ));
                }
            }
        }
        line.push_str(&format!(" apply={}", parts.join(";")));
        for p in [0usize, 1, 2, 4] {
            let mut g = mk(p);
            let emitted = verif::cleanup(&mut g);
            let s = verif::snapshot(&g);
            line.push_str(&format!(
                " cleanup{}={}:{}",
                p,
                if emitted.is_empty() { "-".to_string() } else { hex(&emitted) },
                if s.stack.is_empty() { "-".to_string() } else { s.stack.clone() }
            ));
        }
    }
    line
}

fn stacks_up_to(depth: usize) -> Vec<String> {
    let kinds: Vec<char> = KINDS.chars().collect();
    let mut all = vec![String::new()];
    let mut frontier = vec![String::new()];
    for _ in 0..depth {
        let mut next = Vec::with_capacity(frontier.len() * kinds.len());
        for s in &frontier {
            for k in &kinds {
                let mut t = s.clone();
                t.push(*k);
                next.push(t);
            }
        }
        all.extend(next.iter().cloned());
        frontier = next;
    }
    all
}

/// Representatives for the slots below the top three: the guards look below the top three
/// slots only to find the topmost MARK and the slot directly below / above it, so one
/// representative per {list, dict, set, callable, MARK, other} is enough there.
const DEEP_REPS: &str = "ldecMi";

pub fn cmd_probe(args: &[String]) {
    let depth: usize = crate::arg_val(args, "--depth", "3").parse().unwrap();
    let deep: usize = crate::arg_val(args, "--deep", "0").parse().unwrap();
    let ops = verif::opcode_table();
    let flag_combos = [
        (false, false, false),
        (true, true, true),
        (true, false, false),
        (false, true, false),
        (false, false, true),
    ];
    let mut stacks = stacks_up_to(depth);
    if deep > depth {
        // deeper stacks: `deep - depth` representative slots at the bottom, full kinds on top
        let tops: Vec<String> = stacks.iter().filter(|s| s.chars().count() == depth).cloned().collect();
        let reps: Vec<char> = DEEP_REPS.chars().collect();
        let mut bottoms = vec![String::new()];
        for _ in 0..(deep - depth) {
            let mut next = Vec::new();
            for b in &bottoms {
                for r in &reps {
                    let mut t = b.clone();
                    t.push(*r);
                    next.push(t);
                }
            }
            bottoms = next;
            for b in &bottoms {
                for t in &tops {
                    stacks.push(format!("{}{}", b, t));
                }
            }
        }
    }
    if args.iter().any(|a| a == "--lite") {
        // deeper stacks at low cost: one or two representative slots below three slots drawn from a reduced alphabet,
        // so that a guard or effect that (wrongly) looks at the fourth or fifth slot from the top is met as well
        let lite4: Vec<char> = "ldecMits".chars().collect();
        let lite5: Vec<char> = "lMci".chars().collect();
        let reps: Vec<char> = DEEP_REPS.chars().collect();
        for r in &reps {
            for a in &lite4 {
                for b in &lite4 {
                    for c in &lite4 {
                        stacks.push([*r, *a, *b, *c].iter().collect());
                    }
                }
            }
        }
        for r1 in &reps {
            for r2 in &reps {
                for a in &lite5 {
                    for b in &lite5 {
                        for c in &lite5 {
                            stacks.push([*r1, *r2, *a, *b, *c].iter().collect());
                        }
                    }
                }
            }
        }
    }
    let out = std::io::stdout();
    let mut w = std::io::BufWriter::new(out.lock());
    use std::io::Write;
    // two-MARK family: [B, MARK, mid.., MARK, top..] — the guards must look at the TOPMOST mark
    // and at the slots next to it, whatever lies below an older MARK (guards only, no apply)
    let seqs = |alphabet: &str, maxlen: usize| -> Vec<String> {
        let a: Vec<char> = alphabet.chars().collect();
        let mut all = vec![String::new()];
        let mut frontier = vec![String::new()];
        for _ in 0..maxlen {
            let mut next = Vec::new();
            for s in &frontier {
                for k in &a {
                    let mut t = s.clone();
                    t.push(*k);
                    next.push(t);
                }
            }
            all.extend(next.iter().cloned());
            frontier = next;
        }
        all
    };
    // `--shard i/n`: this process handles the states whose index is congruent to i mod n (the two-MARK family
    // belongs to shard 0); without the option everything is handled here
    let shard = crate::arg_val(args, "--shard", "0/1");
    let (shard_i, shard_n) = {
        let mut it = shard.split('/');
        let i: usize = it.next().and_then(|x| x.parse().ok()).unwrap_or(0);
        let n: usize = it.next().and_then(|x| x.parse().ok()).unwrap_or(1).max(1);
        (i % n, n)
    };
    let no_memo: Vec<(usize, char)> = Vec::new();
    for b in "ldeci".chars() {
        if shard_i != 0 {
            break;
        }
        for mid in seqs("ldecis", 2) {
            for top in seqs("ldecist", 2) {
                let stack = format!("{}M{}M{}", b, mid, top);
                let st = St { stack: &stack, memo: &no_memo };
                let line = probe_line(&st, false, true, true, false, true, false, &ops);
                writeln!(w, "{}", line).unwrap();
            }
        }
    }
    for (si, stack) in stacks.iter().enumerate() {
        if si % shard_n != shard_i {
            continue;
        }
        let n = stack.chars().count();
        let memo_sizes: &[usize] = if n <= 2 { &[0, 1, 2, 255, 256, 257] } else { &[0, 256] };
        for &m in memo_sizes {
            let memo = memo_of(m);
            let st = St { stack, memo: &memo };
            for (ci, (u, e, b)) in flag_combos.iter().enumerate() {
                let pes: &[bool] = if n <= 1 { &[false, true] } else { &[false] };
                for &pe in pes {
                    let with_apply = ci == 0 && !pe && (m == 0 || m == 2 || m == 256);
                    let with_valid = ci <= 1;
                    let line = probe_line(&st, *u, *e, *b, pe, with_valid, with_apply, &ops);
                    writeln!(w, "{}", line).unwrap();
                }
            }
        }
    }
}


// ---------------------------------------------------------------- S11: exhaustive opcode *sequences* through live objects
//
// S1 builds every probed state from fresh objects, so nothing in it is aliased.  Here every sequence of guarded
// opcodes up to a depth is executed from the empty state on a real generator (real cells, DUP aliases, memo copies,
// in-place mutation of shared containers), one `process_stack_ops` at a time, and the live object graph after every
// step is reported; the Lean driver replays the same sequences on the object-level model.

/// the argument the emitter would hand to `process_stack_ops` (one canonical value per opcode)
fn canonical_arg(name: &str, memo_len: usize) -> Option<Vec<u8>> {
    let s = |x: &str| Some(x.as_bytes().to_vec());
    match name {
        "Int" => s("7\n"),
        "BinInt" => Some(vec![1, 0, 0, 0]),
        "BinInt1" => Some(vec![200]),
        "BinInt2" => Some(vec![1, 2]),
        "Long" => s("5L\n"),
        "Long1" => Some(vec![4, 1, 0, 0, 0]),
        "Long4" => Some(vec![4, 0, 0, 0, 1, 0, 0, 0]),
        "String" => s("'ab'\n"),
        "Unicode" => s("ab\n"),
        "ShortBinUnicode" | "BinUnicode" | "BinUnicode8" => s("ab"),
        "BinString" | "ShortBinString" | "BinBytes" | "ShortBinBytes" | "BinBytes8" | "ByteArray8" => Some(vec![0, 255]),
        "Float" => s("0.5\n"),
        "BinFloat" => Some(vec![0x3f, 0xe0, 0, 0, 0, 0, 0, 0]),
        "Global" | "Inst" => s("os\nsystem\n"),
        "PersID" => s("pid_1\n"),
        "Get" => s("0\n"),
        "BinGet" => Some(vec![0]),
        "LongBinGet" => Some(vec![0, 0, 0, 0]),
        "Put" => Some(format!("{}\n", memo_len).into_bytes()),
        "BinPut" => Some(vec![(memo_len % 256) as u8]),
        "LongBinPut" => Some((memo_len as u32).to_le_bytes().to_vec()),
        "Ext1" => Some(vec![1]),
        "Ext2" => Some(vec![1, 0]),
        "Ext4" => Some(vec![1, 0, 0, 0]),
        _ => None,
    }
}

/// opcodes that continue a prefix: every structural opcode and one value-pushing opcode per kind that a guard or an
/// effect can tell apart
fn continues(name: &str) -> bool {
    !matches!(
        name,
        "BinInt" | "BinInt1" | "BinInt2" | "Long" | "Long1" | "Long4" | "String" | "BinString" | "ShortBinString" | "BinBytes"
            | "ShortBinBytes" | "BinBytes8" | "ByteArray8" | "NextBuffer" | "NewTrue" | "NewFalse" | "ShortBinUnicode" | "BinUnicode"
            | "BinUnicode8" | "Float" | "BinFloat" | "Ext1" | "Ext2" | "Ext4" | "PersID" | "LongBinGet" | "LongBinPut" | "Proto"
            | "Stop" | "Frame" | "ReadOnlyBuffer" | "Tuple3" | "Tuple2"
    )
}

type Step = (u8, Option<Vec<u8>>);

fn arg_hex(a: &Option<Vec<u8>>) -> String {
    match a {
        None => "-".to_string(),
        Some(a) if a.is_empty() => "e".to_string(),
        Some(a) => hex(a),
    }
}

/// a live generator after `steps`, numbering its cells from scratch; None if a step panicked
fn run_steps(p: usize, steps: &[Step]) -> Option<pickle_fuzzer::Generator> {
    let steps = steps.to_vec();
    std::panic::catch_unwind(move || {
        let mut g = verif::with_state(p, false, true, true, "", &[], p >= 2).unwrap();
        verif::graph_start();
        let _ = verif::snapshot(&g);
        for (op, arg) in &steps {
            verif::apply(&mut g, *op, arg.as_deref());
            let _ = verif::snapshot(&g);
        }
        g
    })
    .ok()
}

fn seq_node(p: usize, prefix: &mut Vec<Step>, depth: usize, names: &std::collections::HashMap<u8, String>, counter: &mut u64, shard: (u64, u64)) {
    let Some(g) = run_steps(p, prefix) else { return };
    let valid = verif::valid_opcodes(&g);
    let memo_len = g.state.memo.len();
    drop(g);
    let kids: Vec<Step> = valid.iter().map(|b| (*b, canonical_arg(&names[b], memo_len))).collect();
    *counter += 1;
    if *counter % shard.1 == shard.0 {
        let mut parts: Vec<String> = Vec::new();
        for (op, arg) in &kids {
            prefix.push((*op, arg.clone()));
            let d = match run_steps(p, prefix) {
                Some(g) => match verif::snapshot(&g).graph {
                    Some(t) => format!("{:016x}", fnv(t.bytes())),
                    None => "nograph".to_string(),
                },
                None => "panic".to_string(),
            };
            prefix.pop();
            parts.push(format!("{:02x}:{}:{}", op, arg_hex(arg), d));
        }
        let pre: Vec<String> = prefix.iter().map(|(op, a)| format!("{:02x}:{}", op, arg_hex(a))).collect();
        println!(
            "seq P={} prefix={} valid={} children={}",
            p,
            if pre.is_empty() { "-".to_string() } else { pre.join(",") },
            if valid.is_empty() { "-".to_string() } else { hex(&valid) },
            if parts.is_empty() { "-".to_string() } else { parts.join(";") }
        );
    }
    if prefix.len() < depth {
        for (op, arg) in kids {
            if continues(&names[&op]) {
                prefix.push((op, arg));
                seq_node(p, prefix, depth, names, counter, shard);
                prefix.pop();
            }
        }
    }
}

pub fn cmd_seq(args: &[String]) {
    let depth: usize = crate::arg_val(args, "--depth", "2").parse().unwrap();
    let shard: Vec<u64> = crate::arg_val(args, "--shard", "0/1").split('/').map(|x| x.parse().unwrap()).collect();
    let names: std::collections::HashMap<u8, String> = verif::opcode_table().into_iter().map(|(n, b)| (b, n)).collect();
    std::panic::set_hook(Box::new(|_| {}));
    for p in 0..6 {
        let mut counter = 0u64;
        seq_node(p, &mut Vec::new(), depth, &names, &mut counter, (shard[0], shard[1]));
    }
}
