//! S4 / S5 — mutators and entropy adapters called directly (filled in below).
pub fn cmd_mut(_args: &[String]) {
    eprintln!("mut: not built yet");
    std::process::exit(2);
}
pub fn cmd_src(_args: &[String]) {
    eprintln!("src: not built yet");
    std::process::exit(2);
}
