//! S4 — every `Mutator` method called directly; S5 — every `EntropySource` method of both
//! sources.  One line per call; the Lean driver recomputes the Arbitrary-mode results from its
//! exact port of `Unstructured` and evaluates the contract predicates on all results.

use crate::{hex, Rng, MUTS};
use pickle_fuzzer::verif;
use pickle_fuzzer::{EmissionSnapshot, EntropySource, GenerationSource, Mutator};

#[derive(Clone)]
enum Ent {
    Rand(u64),
    Arb(Vec<u8>),
}

impl Ent {
    fn tag(&self) -> String {
        match self {
            Ent::Rand(s) => format!("rand:{}", s),
            Ent::Arb(b) => format!("arb:{}", if b.is_empty() { "-".to_string() } else { hex(b) }),
        }
    }
    fn with<R>(&self, f: impl FnOnce(&mut GenerationSource) -> R) -> (R, i64) {
        match self {
            Ent::Rand(s) => (verif::with_rand_source(*s, f), -1),
            Ent::Arb(b) => {
                let (r, left) = verif::with_arbitrary_source(b, f);
                (r, left as i64)
            }
        }
    }
}

fn sample_ent(rng: &mut Rng) -> Ent {
    match rng.below(10) {
        0 => Ent::Arb(vec![]),
        1 => Ent::Rand(rng.next() % 100000),
        2 => Ent::Rand(rng.next()),
        3 => Ent::Arb(vec![0; 1 + rng.below(24) as usize]),
        4 => Ent::Arb(vec![0xff; 1 + rng.below(24) as usize]),
        5 => {
            // a gate draw that is exactly 0.0 / -0.0 / NaN / > 1 followed by random bytes
            let specials: [u64; 6] = [
                0,
                0x8000000000000000,
                0x7ff8000000000000,
                0x4000000000000000,
                0xbff0000000000000,
                0x3ff0000000000000,
            ];
            let mut b = specials[rng.below(6) as usize].to_le_bytes().to_vec();
            let extra = rng.below(24) as usize;
            b.extend(rng.bytes(extra));
            Ent::Arb(b)
        }
        _ => {
            let n = rng.below(40) as usize;
            Ent::Arb(rng.bytes(n))
        }
    }
}

const I32_EDGE: [i32; 9] = [0, 1, -1, i32::MAX, i32::MIN, 2, -2, 0x7fff_fffe, i32::MIN + 1];
const I64_EDGE: [i64; 9] = [0, 1, -1, i64::MAX, i64::MIN, 2, -2, i64::MAX - 1, i64::MIN + 1];
const F64_EDGE: [u64; 8] = [
    0,
    0x8000000000000000,
    0x3ff0000000000000,
    0x7ff0000000000000,
    0xfff0000000000000,
    0x7ff8000000000000,
    0x7fefffffffffffff,
    0x0000000000000001,
];
const USIZE_EDGE: [usize; 8] = [0, 1, 2, 255, 256, 999, usize::MAX, usize::MAX - 1];

fn sample_string(rng: &mut Rng) -> String {
    let n = match rng.below(6) {
        0 => 0,
        1 => 1,
        2 => 64,
        _ => rng.below(65),
    };
    (0..n)
        .map(|_| match rng.below(8) {
            0 => 'é',
            1 => '€',
            2 => '😀',
            3 => '\\',
            4 => '\'',
            5 => '\n',
            _ => (32 + rng.below(95) as u8) as char,
        })
        .collect()
}

fn sample_bytes(rng: &mut Rng) -> Vec<u8> {
    let n = match rng.below(6) {
        0 => 0,
        1 => 1,
        2 => 64,
        _ => rng.below(65),
    } as usize;
    rng.bytes(n)
}

fn opt<T>(o: Option<T>, f: impl Fn(&T) -> String) -> String {
    match o {
        None => "none".to_string(),
        Some(v) => format!("some:{}", f(&v)),
    }
}

fn hexs(s: &str) -> String {
    if s.is_empty() {
        "-".to_string()
    } else {
        hex(s.as_bytes())
    }
}
fn hexb(b: &[u8]) -> String {
    if b.is_empty() {
        "-".to_string()
    } else {
        hex(b)
    }
}

pub const MUT_NAMES: [&str; 7] = [
    "bitflip",
    "boundary",
    "offbyone",
    "stringlen",
    "character",
    "memoindex",
    "typeconfusion",
];

#[allow(clippy::too_many_arguments)]
fn one_call(
    mi: usize,
    unsafe_m: bool,
    method: &str,
    rate_bits: u64,
    ent: &Ent,
    rng: &mut Rng,
    force_edge: Option<usize>,
) -> String {
    let m: Box<dyn Mutator> = MUTS[mi].create(unsafe_m);
    let rate = f64::from_bits(rate_bits);
    let pick = |rng: &mut Rng, n: usize| force_edge.map(|e| e % n).unwrap_or_else(|| rng.below(n as u64) as usize);
    let (value, result, left) = match method {
        "int" => {
            let v = if rng.coin() || force_edge.is_some() { I32_EDGE[pick(rng, 9)] } else { rng.next() as i32 };
            let (r, left) = ent.with(|s| m.mutate_int(v, s, rate));
            (format!("{}", v), opt(r, |x| format!("{}", x)), left)
        }
        "long" => {
            let v = if rng.coin() || force_edge.is_some() { I64_EDGE[pick(rng, 9)] } else { rng.next() as i64 };
            let (r, left) = ent.with(|s| m.mutate_long(v, s, rate));
            (format!("{}", v), opt(r, |x| format!("{}", x)), left)
        }
        "float" => {
            let v = if rng.coin() || force_edge.is_some() { F64_EDGE[pick(rng, 8)] } else { rng.next() };
            let (r, left) = ent.with(|s| m.mutate_float(f64::from_bits(v), s, rate));
            (format!("{:016x}", v), opt(r, |x| format!("{:016x}", x.to_bits())), left)
        }
        "string" => {
            let v = sample_string(rng);
            let (r, left) = ent.with(|s| m.mutate_string(v.clone(), s, rate));
            (hexs(&v), opt(r, |x| hexs(x)), left)
        }
        "bytes" => {
            let v = sample_bytes(rng);
            let (r, left) = ent.with(|s| m.mutate_bytes(v.clone(), s, rate));
            (hexb(&v), opt(r, |x| hexb(x)), left)
        }
        "memo" => {
            let v = if rng.coin() || force_edge.is_some() { USIZE_EDGE[pick(rng, 8)] } else { rng.below(2000) as usize };
            let (r, left) = ent.with(|s| m.mutate_memo_index(v, s, rate));
            (format!("{}", v), opt(r, |x| format!("{}", x)), left)
        }
        _ => {
            // post_process on an output buffer whose last emission is `delta`
            let plen = rng.below(6) as usize;
            let prefix = rng.bytes(plen);
            let deltas: [&[u8]; 9] = [
                b"I42\n",
                b"F0.5\n",
                &[0x8c, 2, b'a', b'b'],
                &[0x43, 1, 7],
                &[0x5d],
                &[0x4e],
                &[0x88],
                &[0x28],
                &[],
            ];
            let delta = deltas[pick(rng, 9)].to_vec();
            let mut out = prefix.clone();
            out.extend_from_slice(&delta);
            let snap = EmissionSnapshot {
                stack_depth: 0,
                output_len: prefix.len(),
                memo_size: 0,
                stack_delta: Vec::new(),
                output_delta: delta.clone(),
                memo_delta: Vec::new(),
            };
            let (r, left) = ent.with(|s| {
                let changed = m.post_process(&snap, &mut out, s, rate);
                (changed, out.clone())
            });
            (
                format!("{}+{}", hexb(&prefix), hexb(&delta)),
                format!("{}:{}", if r.0 { "changed" } else { "same" }, hexb(&r.1)),
                left,
            )
        }
    };
    format!(
        "mut kind={} unsafe={} method={} value={} rate={:016x} ent={} result={} left={}",
        MUT_NAMES[mi],
        unsafe_m as u8,
        method,
        value,
        rate_bits,
        ent.tag(),
        result,
        left
    )
}

/// run `f` on a worker thread; a call that does not return within 10 s is reported as a hang and
/// the process ends (C09/C16: "never ... loop forever")
fn guarded(label: String, f: impl FnOnce() -> String + Send + 'static) -> String {
    let (tx, rx) = std::sync::mpsc::channel();
    let h = std::thread::Builder::new()
        .stack_size(8 << 20)
        .spawn(move || {
            let r = std::panic::catch_unwind(std::panic::AssertUnwindSafe(f));
            let _ = tx.send(r.ok());
        })
        .expect("spawn");
    match rx.recv_timeout(std::time::Duration::from_secs(10)) {
        Ok(Some(l)) => {
            let _ = h.join();
            l
        }
        Ok(None) => format!("{} result=panic left=0", label),
        Err(_) => {
            use std::io::Write;
            println!("{} result=hang left=0", label);
            let _ = std::io::stdout().flush();
            std::process::exit(0);
        }
    }
}

fn tok<'a>(args: &'a [String], k: &str) -> Option<&'a str> {
    args.iter().find_map(|t| t.strip_prefix(k).and_then(|r| r.strip_prefix('=')))
}

fn parse_ent(s: &str) -> Ent {
    if let Some(h) = s.strip_prefix("arb:") {
        Ent::Arb(if h == "-" { vec![] } else { crate::unhex(h) })
    } else {
        Ent::Rand(s.trim_start_matches("rand:").parse().unwrap_or(0))
    }
}

/// re-run one recorded `mut` line (a replay)
fn replay_mut(args: &[String]) -> String {
    let kind = tok(args, "kind").unwrap_or("?");
    let mi = MUT_NAMES.iter().position(|n| *n == kind).expect("mutator kind");
    let unsafe_m = tok(args, "unsafe") == Some("1");
    let method = tok(args, "method").unwrap_or("?");
    let value = tok(args, "value").unwrap_or("-");
    let rate_bits = u64::from_str_radix(tok(args, "rate").unwrap_or("0"), 16).unwrap();
    let rate = f64::from_bits(rate_bits);
    let ent = parse_ent(tok(args, "ent").unwrap_or("arb:-"));
    let m: Box<dyn Mutator> = MUTS[mi].create(unsafe_m);
    let unh = |v: &str| if v == "-" { vec![] } else { crate::unhex(v) };
    let (result, left) = match method {
        "int" => {
            let (r, l) = ent.with(|s| m.mutate_int(value.parse().unwrap(), s, rate));
            (opt(r, |x| format!("{}", x)), l)
        }
        "long" => {
            let (r, l) = ent.with(|s| m.mutate_long(value.parse().unwrap(), s, rate));
            (opt(r, |x| format!("{}", x)), l)
        }
        "float" => {
            let v = f64::from_bits(u64::from_str_radix(value, 16).unwrap());
            let (r, l) = ent.with(|s| m.mutate_float(v, s, rate));
            (opt(r, |x| format!("{:016x}", x.to_bits())), l)
        }
        "string" => {
            let v = String::from_utf8(unh(value)).unwrap();
            let (r, l) = ent.with(|s| m.mutate_string(v.clone(), s, rate));
            (opt(r, |x| hexs(x)), l)
        }
        "bytes" => {
            let v = unh(value);
            let (r, l) = ent.with(|s| m.mutate_bytes(v.clone(), s, rate));
            (opt(r, |x| hexb(x)), l)
        }
        "memo" => {
            let (r, l) = ent.with(|s| m.mutate_memo_index(value.parse().unwrap(), s, rate));
            (opt(r, |x| format!("{}", x)), l)
        }
        _ => {
            let (pre, delta) = value.split_once('+').unwrap_or(("-", "-"));
            let prefix = unh(pre);
            let delta = unh(delta);
            let mut out = prefix.clone();
            out.extend_from_slice(&delta);
            let snap = EmissionSnapshot {
                stack_depth: 0,
                output_len: prefix.len(),
                memo_size: 0,
                stack_delta: Vec::new(),
                output_delta: delta.clone(),
                memo_delta: Vec::new(),
            };
            let (r, l) = ent.with(|s| {
                let changed = m.post_process(&snap, &mut out, s, rate);
                (changed, out.clone())
            });
            (format!("{}:{}", if r.0 { "changed" } else { "same" }, hexb(&r.1)), l)
        }
    };
    format!(
        "mut kind={} unsafe={} method={} value={} rate={:016x} ent={} result={} left={}",
        kind, unsafe_m as u8, method, value, rate_bits, ent.tag(), result, left
    )
}

fn guarded_replay(args: Vec<String>) -> String {
    let label = format!("mut {}", args.iter().filter(|a| a.contains('=')).cloned().collect::<Vec<_>>().join(" "));
    guarded(label, move || replay_mut(&args))
}

pub fn cmd_mut(args: &[String]) {
    if args.iter().any(|a| a == "--replay") {
        println!("{}", guarded_replay(args.to_vec()));
        return;
    }
    let n: u64 = crate::arg_val(args, "--cases", "2000").parse().unwrap();
    let seed: u64 = crate::arg_val(args, "--seed", "1").parse().unwrap();
    let mut rng = Rng(seed ^ 0x6d7574);
    let methods = ["int", "long", "float", "string", "bytes", "memo", "post"];
    let rates: [u64; 5] = [
        0.0f64.to_bits(),
        1.0f64.to_bits(),
        0.5f64.to_bits(),
        0.1f64.to_bits(),
        0.9f64.to_bits(),
    ];
    // boundaries exhaustively: every mutator x numeric method x every edge value x rate {0,1}
    // x {empty, zero, ff, random} entropy
    for mi in 0..7 {
        for method in ["int", "long", "float", "memo"] {
            for e in 0..9 {
                for r in 0..2 {
                    for ent in [
                        Ent::Arb(vec![]),
                        Ent::Arb(vec![0; 20]),
                        Ent::Arb(vec![0xff; 20]),
                        Ent::Rand(e as u64),
                    ] {
                        let label = format!(
                            "mut kind={} unsafe=0 method={} value=? rate={:016x} ent={}",
                            MUT_NAMES[mi], method, rates[r], ent.tag()
                        );
                        let sub = rng.next();
                        let (rt, ent2) = (rates[r], ent.clone());
                        println!("{}", guarded(label, move || {
                            let mut r2 = Rng(sub);
                            one_call(mi, false, method, rt, &ent2, &mut r2, Some(e))
                        }));
                    }
                }
            }
        }
    }
    // the gate draw itself: in fuzzer-bytes mode the first 8 bytes of a call are the f64 the rate gate looks at — every
    // special double (zeros, infinities, NaNs of both signs and payloads, subnormals, the neighbours of 1.0, huge and
    // tiny values), for every mutator, every value kind, rate 0.0 and 1.0; the remaining draws read zeros
    let gate_words: [u64; 26] = [
        0x0000000000000000, 0x8000000000000000, 0x7ff0000000000000, 0xfff0000000000000, 0x7ff8000000000000, 0xfff8000000000000,
        0x7ff0000000000001, 0xfff0000000000001, 0x7fffffffffffffff, 0xffffffffffffffff, 0x0000000000000001, 0x8000000000000001,
        0x000fffffffffffff, 0x0010000000000000, 0x3ff0000000000000, 0x3fefffffffffffff, 0x3ff0000000000001, 0xbff0000000000000,
        0x3fe0000000000000, 0x4000000000000000, 0x7fefffffffffffff, 0xffefffffffffffff, 0x4330000000000000, 0x4340000000000001,
        0x3ca0000000000000, 0xbca0000000000000,
    ];
    for w in gate_words {
        for mi in 0..7usize {
            for (method, value) in [("int", "7"), ("long", "-9"), ("float", "3ff8000000000000"), ("string", "6162"), ("bytes", "00ff7f"), ("memo", "3")] {
                for r in 0..2 {
                    let mut ent = w.to_le_bytes().to_vec();
                    ent.extend_from_slice(&[0u8; 16]);
                    let args: Vec<String> = vec![
                        format!("kind={}", MUT_NAMES[mi]),
                        "unsafe=0".to_string(),
                        format!("method={}", method),
                        format!("value={}", value),
                        format!("rate={:016x}", rates[r]),
                        format!("ent=arb:{}", hex(&ent)),
                    ];
                    println!("{}", guarded_replay(args));
                }
            }
        }
    }
    // character / string-length: every value of the replacement / extension byte, on strings made
    // of the characters at the ends of the printable range (the gate draw is 8 zero bytes at
    // rate 1.0; then come the index / branch draws, then the byte under test)
    for b in 0..=255u8 {
        for (mi, method, value, pre) in [
            (4usize, "string", "7e7e7e", vec![0u8]),        // "~~~", idx 0
            (4, "string", "212121", vec![2]),              // "!!!", idx 2
            (4, "string", "7e", vec![]),                   // "~" (single char: no idx byte drawn)
            (4, "bytes", "00ff7f", vec![1]),
            (3, "string", "6162", vec![1, 0]),             // stringlen: branch 1 (extend), extra_len draw 0 -> 1
            (3, "bytes", "6162", vec![1, 0]),
        ] {
            let mut ent = vec![0u8; 8];
            ent.extend_from_slice(&pre);
            ent.push(b);
            ent.extend_from_slice(&[b; 4]);
            let args: Vec<String> = vec![
                format!("kind={}", MUT_NAMES[mi]),
                "unsafe=0".to_string(),
                format!("method={}", method),
                format!("value={}", value),
                format!("rate={:016x}", rates[1]),
                format!("ent=arb:{}", hex(&ent)),
            ];
            println!("{}", guarded_replay(args));
        }
        // type confusion (unsafe, rate 1.0) on an emission that starts with every possible byte
        let ent: Vec<u8> = vec![0u8; 8].into_iter().chain([b % 8, 1, 2, 3, 4, 5, 6, 7, 8]).collect();
        let args: Vec<String> = vec![
            "kind=typeconfusion".to_string(),
            "unsafe=1".to_string(),
            "method=post".to_string(),
            format!("value=8002+{:02x}01", b),
            format!("rate={:016x}", rates[1]),
            format!("ent=arb:{}", hex(&ent)),
        ];
        println!("{}", guarded_replay(args));
    }
    for i in 0..n {
        let mi = (i % 7) as usize;
        let unsafe_m = rng.below(3) == 0;
        let method = methods[rng.below(7) as usize];
        let rate = match rng.below(3) {
            0 => rates[0],
            1 => rates[1],
            _ => rates[2 + rng.below(3) as usize],
        };
        let ent = sample_ent(&mut rng);
        let label = format!(
            "mut kind={} unsafe={} method={} value=? rate={:016x} ent={}",
            MUT_NAMES[mi], unsafe_m as u8, method, rate, ent.tag()
        );
        let sub = rng.next();
        let ent2 = ent.clone();
        let line = guarded(label, move || {
            let mut r2 = Rng(sub);
            one_call(mi, unsafe_m, method, rate, &ent2, &mut r2, None)
        });
        println!("{}", line);
    }
}

const GRID: [usize; 24] = [
    0,
    1,
    2,
    3,
    94,
    95,
    96,
    255,
    256,
    257,
    999,
    1000,
    1001,
    65535,
    65536,
    1 << 31,
    (1 << 32) - 1,
    1 << 32,
    (1 << 32) + 1,
    1 << 33,
    1 << 63,
    (1 << 63) + 1,
    usize::MAX - 1,
    usize::MAX,
];

fn src_call(method: &str, a: usize, b: usize, ent: &Ent) -> String {
    let label = format!("src method={} a={} b={} ent={}", method, a, b, ent.tag());
    let (m, e) = (method.to_string(), ent.clone());
    guarded(label, move || src_call_inner(&m, a, b, &e))
}

fn src_call_inner(method: &str, a: usize, b: usize, ent: &Ent) -> String {
    let (r, left) = ent.with(|s| match method {
        "choose_index" => format!("{}", s.choose_index(a)),
        "gen_bool" => format!("{}", s.gen_bool() as u8),
        "gen_u8" => format!("{}", s.gen_u8()),
        "gen_u16" => format!("{}", s.gen_u16()),
        "gen_u32" => format!("{}", s.gen_u32()),
        "gen_i32" => format!("{}", s.gen_i32()),
        "gen_i64" => format!("{}", s.gen_i64()),
        "gen_f64" => format!("{:016x}", s.gen_f64().to_bits()),
        "gen_range" => format!("{}", s.gen_range(a, b)),
        "gen_bytes" => {
            let v = s.gen_bytes(a);
            if v.is_empty() {
                "-".to_string()
            } else {
                hex(&v)
            }
        }
        _ => format!("{}", s.gen_ascii_char() as u32),
    });
    format!("src method={} a={} b={} ent={} result={} left={}", method, a, b, ent.tag(), r, left)
}

pub fn cmd_src(args: &[String]) {
    if args.iter().any(|a| a == "--replay") {
        let m = tok(args, "method").unwrap_or("?").to_string();
        let a: usize = tok(args, "a").unwrap_or("0").parse().unwrap_or(0);
        let b: usize = tok(args, "b").unwrap_or("0").parse().unwrap_or(0);
        let ent = parse_ent(tok(args, "ent").unwrap_or("arb:-"));
        let r = std::panic::catch_unwind(|| src_call(&m, a, b, &ent));
        match r {
            Ok(l) => println!("{}", l),
            Err(_) => println!("src method={} a={} b={} ent={} result=panic left=0", m, a, b, ent.tag()),
        }
        return;
    }
    let n: u64 = crate::arg_val(args, "--cases", "2000").parse().unwrap();
    let seed: u64 = crate::arg_val(args, "--seed", "1").parse().unwrap();
    let exhaustive2 = args.iter().any(|a| a == "--exhaustive2");
    let mut rng = Rng(seed ^ 0x737263);
    let simple = [
        "gen_bool",
        "gen_u8",
        "gen_u16",
        "gen_u32",
        "gen_i32",
        "gen_i64",
        "gen_f64",
        "gen_ascii_char",
    ];
    // all byte strings of length <= 1 (and <= 2 with --exhaustive2) for the parameterless draws
    // and for the parameterised ones on a reduced grid
    let mut inputs: Vec<Vec<u8>> = vec![vec![]];
    for x in 0..=255u8 {
        inputs.push(vec![x]);
    }
    if exhaustive2 {
        for x in 0..=255u8 {
            for y in 0..=255u8 {
                inputs.push(vec![x, y]);
            }
        }
    }
    for inp in &inputs {
        let ent = Ent::Arb(inp.clone());
        for m in simple {
            println!("{}", src_call(m, 0, 0, &ent));
        }
        for &a in &[0usize, 1, 2, 3, 94, 255, 256, 257, 65536] {
            println!("{}", src_call("choose_index", a, 0, &ent));
            println!("{}", src_call("gen_range", a, 300, &ent));
        }
    }
    // extreme byte patterns: constant strings of every length up to 16 (all ones, all zeros, sign-bit and mid-range
    // bytes) and runs of 0xFF ended by another byte — the inputs on which a draw scaled from a fixed-width integer, a
    // rounding step or a width boundary shows; every draw, every n of the grid
    let mut patterns: Vec<Vec<u8>> = Vec::new();
    for &x in &[0x00u8, 0x01, 0x7f, 0x80, 0xfe, 0xff] {
        for len in 1..=16usize {
            patterns.push(vec![x; len]);
        }
    }
    for len in 1..=9usize {
        for &y in &[0x00u8, 0x7f, 0xfe] {
            let mut v = vec![0xffu8; len];
            v.push(y);
            patterns.push(v.clone());
            v.reverse();
            patterns.push(v);
        }
    }
    for inp in &patterns {
        let ent = Ent::Arb(inp.clone());
        for m in simple {
            println!("{}", src_call(m, 0, 0, &ent));
        }
        for &a in GRID.iter() {
            println!("{}", src_call("choose_index", a, 0, &ent));
            println!("{}", src_call("gen_range", 0, a, &ent));
            println!("{}", src_call("gen_range", a, a.saturating_add(95), &ent));
        }
        println!("{}", src_call("gen_bytes", inp.len() + 3, 0, &ent));
    }
    // grid x sampled inputs (length 0..16) and PRNG states
    for i in 0..n {
        let ent = if i % 3 == 0 {
            Ent::Rand(rng.next())
        } else {
            let len = rng.below(17) as usize;
            Ent::Arb(rng.bytes(len))
        };
        let a = GRID[rng.below(24) as usize];
        let b = GRID[rng.below(24) as usize];
        println!("{}", src_call("choose_index", a, 0, &ent));
        println!("{}", src_call("gen_range", a, b, &ent));
        println!("{}", src_call("gen_bytes", (a % 70000).min(300), 0, &ent));
        println!("{}", src_call(simple[rng.below(8) as usize], 0, 0, &ent));
    }
}
