//! S8 — live-heap accounting with a counting global allocator: the live byte count before a
//! generator is constructed and after it has been dropped must be equal (after one warm-up
//! generation, which initialises process-wide caches such as the module table).

use crate::{sample_case, Case, Mode, Rng};
use std::alloc::{GlobalAlloc, Layout, System};
use std::sync::atomic::{AtomicIsize, AtomicUsize, Ordering};

pub struct Counting;

static LIVE: AtomicIsize = AtomicIsize::new(0);
static ALLOCS: AtomicUsize = AtomicUsize::new(0);

unsafe impl GlobalAlloc for Counting {
    unsafe fn alloc(&self, l: Layout) -> *mut u8 {
        let p = System.alloc(l);
        if !p.is_null() {
            LIVE.fetch_add(l.size() as isize, Ordering::Relaxed);
            ALLOCS.fetch_add(1, Ordering::Relaxed);
        }
        p
    }
    unsafe fn dealloc(&self, p: *mut u8, l: Layout) {
        System.dealloc(p, l);
        LIVE.fetch_sub(l.size() as isize, Ordering::Relaxed);
    }
    unsafe fn realloc(&self, p: *mut u8, l: Layout, new_size: usize) -> *mut u8 {
        let q = System.realloc(p, l, new_size);
        if !q.is_null() {
            LIVE.fetch_add(new_size as isize - l.size() as isize, Ordering::Relaxed);
        }
        q
    }
}

pub fn live() -> isize {
    LIVE.load(Ordering::Relaxed)
}

/// live-byte delta of: construct, (warm-ups), generate, [reset, generate again], drop
pub fn measure(c: &Case, twice: bool) -> (isize, bool) {
    let before = live();
    let ok;
    {
        let mut g = c.generator();
        c.warm_up(&mut g);
        ok = c.run_on(&mut g).is_ok();
        if twice {
            g.reset();
            let _ = c.run_on(&mut g);
        }
        drop(g);
    }
    (live() - before, ok)
}

pub fn cmd_heap(args: &[String]) {
    if let Some(i) = args.iter().position(|a| a == "--case") {
        let line = args[i + 1..].join(" ");
        let c = Case::parse(&line).expect("case");
        let _ = measure(&c, false); // warm-up of process-wide caches
        let (d, ok) = measure(&c, args.iter().any(|a| a == "twice=1"));
        println!("heap {} delta={} gen={}", c.line(), d, if ok { "ok" } else { "failed" });
        return;
    }
    if args.iter().any(|a| a == "--stdin") {
        // one case line per input line (the cycle-closing plans built by check.py); every case is measured
        // after a warm-up run of the same case, once alone and once with reset + second generation
        use std::io::BufRead;
        for p in 0..6 {
            let c = Case { id: 0, proto: p, unsafe_m: false, ext: true, buf: true, min: 60, max: 300, mask: 0x7f,
                rate_bits: 0.5f64.to_bits(), mode: Mode::Rand(p as u64), warm: 0, mu: false, muts: None };
            let _ = measure(&c, false);
        }
        let stdin = std::io::stdin();
        for line in stdin.lock().lines() {
            let line = line.unwrap();
            let line = line.trim();
            if line.is_empty() {
                continue;
            }
            let c = match Case::parse(line) {
                Some(c) => c,
                None => {
                    println!("heap-bad-case {}", line);
                    continue;
                }
            };
            let _ = measure(&c, false);
            let (d1, ok) = measure(&c, false);
            let (d2, _) = measure(&c, true);
            println!("heap {} twice=2 delta={} gen={}", c.line(), d1 + d2, if ok { "ok" } else { "failed" });
        }
        return;
    }
    let n: u64 = crate::arg_val(args, "--cases", "500").parse().unwrap();
    let seed: u64 = crate::arg_val(args, "--seed", "1").parse().unwrap();
    let profile = crate::arg_val(args, "--profile", "default");
    let mut rng = Rng(seed ^ 0x68656170);
    // warm-up: one generation per protocol initialises lazily built tables
    for p in 0..6 {
        let c = Case { id: 0, proto: p, unsafe_m: false, ext: true, buf: true, min: 60, max: 300, mask: 0x7f,
            rate_bits: 0.5f64.to_bits(), mode: Mode::Rand(p as u64), warm: 0, mu: false, muts: None };
        let _ = measure(&c, false);
    }
    // a long soak at the end reports the total drift over all cases as well
    let start = live();
    for id in 0..n {
        let mut c = sample_case(&mut rng, id, profile, "mix");
        if c.max > 600 {
            c.max = 600;
            c.min = c.min.min(400);
        }
        let twice = rng.coin();
        let (d, ok) = measure(&c, twice);
        println!("heap {} twice={} delta={} gen={}", c.line(), twice as u8, d, if ok { "ok" } else { "failed" });
    }
    println!("heap-total cases={} drift={}", n, live() - start);
}
