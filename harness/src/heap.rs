//! S8 — live-heap accounting (filled in below).
pub fn cmd_heap(_args: &[String]) {
    eprintln!("heap: not built yet");
    std::process::exit(2);
}
